/* faultfs.so — LD_PRELOAD fault-injection shim for property C12.
 *
 * Intercepts the libc entry points Rust's std::fs uses and, for calls whose path lies beneath FAULTFS_PREFIX,
 *   - appends one line per call to FAULTFS_LOG:   <seq> \t <class> \t <path relative to the prefix> \t <result> [\t INJ]
 *     result = ok | E<errno name>  (result of the real call, or of the injection)
 *   - fails the call number FAULTFS_FAIL_AT (0-based, counted over matching calls while armed) with errno
 *     FAULTFS_ERRNO (number) *without* performing it.
 * Classes: mkdir openw openr opendir openat-dir write read unlink unlinkat rmdirat rmdir rename chmod fchmod copy sendfile
 *   openw   = open/open64/openat/openat64 with O_WRONLY/O_RDWR/O_CREAT/O_TRUNC
 *   openr   = the same with read-only intent on a non-directory
 *   opendir = libc opendir() (std::fs::read_dir);  openat-dir = open*(O_DIRECTORY) (std::fs::remove_dir_all)
 *   write/read/fchmod/copy/sendfile are matched through the fd -> path table filled by the open calls.
 * Arming: if FAULTFS_START=disarmed nothing is counted, logged or failed until the process calls mkdir("/@faultfs/arm");
 * mkdir("/@faultfs/disarm") stops it again (both return -1/ENOENT, as they would without the shim).
 * statx/stat based probes (Path::exists, is_dir) and readdir are deliberately not intercepted (outside C12's quantifier).
 * FAULTFS_FIXED_RANDOM=1: getrandom() answers with a fixed byte pattern, so that the iteration order of the child's std
 * HashMaps (per-process env deltas, exec.d programs: RandomState is seeded from getrandom) is the same in every run of a pair;
 * a fault position k of the fault-free trace then means the same call in the faulted run.
 */
#define _GNU_SOURCE
#include <dlfcn.h>
#include <dirent.h>
#include <errno.h>
#include <fcntl.h>
#include <stdarg.h>
#include <stdio.h>
#include <stdlib.h>
#include <string.h>
#include <sys/stat.h>
#include <sys/syscall.h>
#include <sys/types.h>
#include <unistd.h>

#define MAXFD 1024
static char *fdpath[MAXFD];   /* absolute path of fds opened beneath the prefix (files and directories) */
static const char *prefix;
static size_t prefix_len;
static int log_fd = -1;
static long fail_at = -1;
static int fail_errno = EIO;
static long seq = 0;
static int armed = 1;
static int inited = 0;

static void init(void) {
    if (inited) return;
    inited = 1;
    prefix = getenv("FAULTFS_PREFIX");
    prefix_len = prefix ? strlen(prefix) : 0;
    const char *s = getenv("FAULTFS_FAIL_AT");
    if (s && *s) fail_at = atol(s);
    s = getenv("FAULTFS_ERRNO");
    if (s && *s) fail_errno = atoi(s);
    s = getenv("FAULTFS_START");
    if (s && strcmp(s, "disarmed") == 0) armed = 0;
    s = getenv("FAULTFS_LOG");
    if (s && *s) log_fd = (int)syscall(SYS_openat, AT_FDCWD, s, O_WRONLY | O_CREAT | O_APPEND | O_CLOEXEC, 0644);
}

static int under(const char *p) {
    if (!prefix || !p) return 0;
    if (strncmp(p, prefix, prefix_len) != 0) return 0;
    return p[prefix_len] == '/' || p[prefix_len] == 0;
}

static const char *ename(int e) {
    switch (e) {
    case 0: return "ok"; case ENOENT: return "ENOENT"; case EEXIST: return "EEXIST"; case EIO: return "EIO";
    case EACCES: return "EACCES"; case ENOSPC: return "ENOSPC"; case ENOTDIR: return "ENOTDIR"; case EISDIR: return "EISDIR";
    case ENOTEMPTY: return "ENOTEMPTY"; case EINVAL: return "EINVAL"; case EPERM: return "EPERM"; case EXDEV: return "EXDEV";
    case ENOSYS: return "ENOSYS"; case EBADF: return "EBADF"; case ELOOP: return "ELOOP";
    default: return "EOTHER";
    }
}

static void logline(long n, const char *cls, const char *path, int err, int injected) {
    if (log_fd < 0) return;
    char buf[4600];
    const char *rel = path + prefix_len;
    if (*rel == '/') rel++;
    int len = snprintf(buf, sizeof buf, "%ld\t%s\t%s\t%s%s\n", n, cls, *rel ? rel : ".", ename(err), injected ? "\tINJ" : "");
    if (len > 0) syscall(SYS_write, log_fd, buf, (size_t)len);
}

/* Decide about one matching call: returns 1 if it has to fail now (errno set, logged), else 0 and *n = its number. */
static int gate(const char *cls, const char *path, long *n) {
    *n = seq++;
    if (*n == fail_at) {
        logline(*n, cls, path, fail_errno, 1);
        errno = fail_errno;
        return 1;
    }
    return 0;
}

static int special(const char *p) {
    if (strcmp(p, "/@faultfs/arm") == 0) { armed = 1; errno = ENOENT; return 1; }
    if (strcmp(p, "/@faultfs/disarm") == 0) { armed = 0; errno = ENOENT; return 1; }
    return 0;
}

/* absolute path of (dirfd, name) if it can be determined and lies beneath the prefix */
static const char *resolve(int dirfd, const char *name, char *buf, size_t cap) {
    if (!name) return NULL;
    if (name[0] == '/') return under(name) ? name : NULL;
    if (dirfd >= 0 && dirfd < MAXFD && fdpath[dirfd]) {
        snprintf(buf, cap, "%s/%s", fdpath[dirfd], name);
        return under(buf) ? buf : NULL;
    }
    return NULL;
}

static void remember(int fd, const char *path) {
    if (fd < 0 || fd >= MAXFD) return;
    free(fdpath[fd]);
    fdpath[fd] = strdup(path);
}

#define REAL(name) static __typeof__(name) *real; if (!real) real = dlsym(RTLD_NEXT, #name)

/* ------------------------------------------------------------------------------------------------ path based calls */
int mkdir(const char *p, mode_t m) {
    REAL(mkdir); init();
    if (p && special(p)) return -1;
    if (!armed || !under(p)) return real(p, m);
    long n; if (gate("mkdir", p, &n)) return -1;
    int r = real(p, m); int e = errno; logline(n, "mkdir", p, r == 0 ? 0 : e, 0); errno = e; return r;
}
int unlink(const char *p) {
    REAL(unlink); init();
    if (!armed || !under(p)) return real(p);
    long n; if (gate("unlink", p, &n)) return -1;
    int r = real(p); int e = errno; logline(n, "unlink", p, r == 0 ? 0 : e, 0); errno = e; return r;
}
int rmdir(const char *p) {
    REAL(rmdir); init();
    if (!armed || !under(p)) return real(p);
    long n; if (gate("rmdir", p, &n)) return -1;
    int r = real(p); int e = errno; logline(n, "rmdir", p, r == 0 ? 0 : e, 0); errno = e; return r;
}
int chmod(const char *p, mode_t m) {
    REAL(chmod); init();
    if (!armed || !under(p)) return real(p, m);
    long n; if (gate("chmod", p, &n)) return -1;
    int r = real(p, m); int e = errno; logline(n, "chmod", p, r == 0 ? 0 : e, 0); errno = e; return r;
}
int rename(const char *a, const char *b) {
    REAL(rename); init();
    const char *p = under(b) ? b : a;
    if (!armed || !under(p)) return real(a, b);
    long n; if (gate("rename", p, &n)) return -1;
    int r = real(a, b); int e = errno; logline(n, "rename", p, r == 0 ? 0 : e, 0); errno = e; return r;
}
int unlinkat(int dirfd, const char *name, int flags) {
    REAL(unlinkat); init();
    char buf[4200];
    const char *p = armed ? resolve(dirfd, name, buf, sizeof buf) : NULL;
    if (!p) return real(dirfd, name, flags);
    const char *cls = (flags & AT_REMOVEDIR) ? "rmdirat" : "unlinkat";
    long n; if (gate(cls, p, &n)) return -1;
    int r = real(dirfd, name, flags); int e = errno; logline(n, cls, p, r == 0 ? 0 : e, 0); errno = e; return r;
}
DIR *opendir(const char *p) {
    REAL(opendir); init();
    if (!armed || !under(p)) return real(p);
    long n; if (gate("opendir", p, &n)) return NULL;
    DIR *d = real(p); int e = errno; logline(n, "opendir", p, d ? 0 : e, 0); errno = e; return d;
}

/* ------------------------------------------------------------------------------------------------ open family */
typedef int (*openat_fn)(int, const char *, int, ...);
static int do_open(openat_fn real_at, int dirfd, const char *name, int flags, mode_t mode) {
    init();
    char buf[4200];
    const char *p = resolve(dirfd, name, buf, sizeof buf);
    if (!p) return real_at(dirfd, name, flags, mode);
    if (!armed) { /* keep the fd table complete even while disarmed */
        int fd = real_at(dirfd, name, flags, mode); int e = errno; if (fd >= 0) remember(fd, p); errno = e; return fd;
    }
    const char *cls = (flags & O_DIRECTORY) ? "openat-dir"
        : ((flags & O_ACCMODE) != O_RDONLY || (flags & (O_CREAT | O_TRUNC))) ? "openw" : "openr";
    long n; if (gate(cls, p, &n)) return -1;
    int fd = real_at(dirfd, name, flags, mode); int e = errno;
    logline(n, cls, p, fd >= 0 ? 0 : e, 0);
    if (fd >= 0) remember(fd, p);
    errno = e; return fd;
}
static openat_fn real_openat64(void) { static openat_fn f; if (!f) f = (openat_fn)dlsym(RTLD_NEXT, "openat64"); return f; }
#define GETMODE mode_t mode = 0; if (flags & (O_CREAT | O_TMPFILE)) { va_list ap; va_start(ap, flags); mode = va_arg(ap, mode_t); va_end(ap); }
int open(const char *p, int flags, ...) { GETMODE return do_open(real_openat64(), AT_FDCWD, p, flags, mode); }
int open64(const char *p, int flags, ...) { GETMODE return do_open(real_openat64(), AT_FDCWD, p, flags, mode); }
int openat(int dirfd, const char *p, int flags, ...) { GETMODE return do_open(real_openat64(), dirfd, p, flags, mode); }
int openat64(int dirfd, const char *p, int flags, ...) { GETMODE return do_open(real_openat64(), dirfd, p, flags, mode); }

int close(int fd) {
    REAL(close);
    if (fd >= 0 && fd < MAXFD && fdpath[fd]) { free(fdpath[fd]); fdpath[fd] = NULL; }
    return real(fd);
}
int closedir(DIR *d) {
    REAL(closedir);
    if (d) { int fd = dirfd(d); if (fd >= 0 && fd < MAXFD && fdpath[fd]) { free(fdpath[fd]); fdpath[fd] = NULL; } }
    return real(d);
}

/* ------------------------------------------------------------------------------------------------ fd based calls */
static const char *fdp(int fd) { init(); return (armed && fd >= 0 && fd < MAXFD) ? fdpath[fd] : NULL; }

ssize_t write(int fd, const void *b, size_t c) {
    REAL(write);
    const char *p = fdp(fd);
    if (!p) return real(fd, b, c);
    long n; if (gate("write", p, &n)) return -1;
    ssize_t r = real(fd, b, c); int e = errno; logline(n, "write", p, r >= 0 ? 0 : e, 0); errno = e; return r;
}
ssize_t read(int fd, void *b, size_t c) {
    REAL(read);
    const char *p = fdp(fd);
    if (!p) return real(fd, b, c);
    long n; if (gate("read", p, &n)) return -1;
    ssize_t r = real(fd, b, c); int e = errno; logline(n, "read", p, r >= 0 ? 0 : e, 0); errno = e; return r;
}
int fchmod(int fd, mode_t m) {
    REAL(fchmod);
    const char *p = fdp(fd);
    if (!p) return real(fd, m);
    long n; if (gate("fchmod", p, &n)) return -1;
    int r = real(fd, m); int e = errno; logline(n, "fchmod", p, r == 0 ? 0 : e, 0); errno = e; return r;
}
ssize_t copy_file_range(int in, off64_t *oi, int out, off64_t *oo, size_t len, unsigned int fl) {
    REAL(copy_file_range);
    const char *p = fdp(out); if (!p) p = fdp(in);
    if (!p) return real(in, oi, out, oo, len, fl);
    long n; if (gate("copy", p, &n)) return -1;
    ssize_t r = real(in, oi, out, oo, len, fl); int e = errno; logline(n, "copy", p, r >= 0 ? 0 : e, 0); errno = e; return r;
}
ssize_t sendfile64(int out, int in, off64_t *off, size_t c) {
    REAL(sendfile64);
    const char *p = fdp(out); if (!p) p = fdp(in);
    if (!p) return real(out, in, off, c);
    long n; if (gate("sendfile", p, &n)) return -1;
    ssize_t r = real(out, in, off, c); int e = errno; logline(n, "sendfile", p, r >= 0 ? 0 : e, 0); errno = e; return r;
}

/* ------------------------------------------------------------------------------------------------ reproducible hashing */
ssize_t getrandom(void *buf, size_t len, unsigned int flags) {
    static int fixed = -1;
    if (fixed < 0) { const char *s = getenv("FAULTFS_FIXED_RANDOM"); fixed = (s && *s == '1') ? 1 : 0; }
    if (fixed) { memset(buf, 0x5a, len); return (ssize_t)len; }
    return (ssize_t)syscall(SYS_getrandom, buf, len, flags);
}
