//! Shared by the C16/C17 harness bins (`c16.rs`, `c17.rs`) and the helper bin `trun.rs` (included with `#[path]`):
//! the scenario description (fields 1-3 of a case), and the case runner that executes the real
//! `libcnb_test::TestRunner` in a child process (`trun`) with stand-in `docker`/`pack` executables first on PATH.
#![allow(dead_code)]
use std::path::{Path, PathBuf};

pub fn hex(b: &[u8]) -> String { let mut s = String::with_capacity(b.len() * 2); for x in b { s.push_str(&format!("{x:02x}")); } s }
pub fn unhex(s: &str) -> Option<Vec<u8>> {
    if s.len() % 2 != 0 { return None; }
    (0..s.len() / 2).map(|i| u8::from_str_radix(s.get(2 * i..2 * i + 2)?, 16).ok()).collect()
}
fn unhex_str(s: &str) -> Option<String> { String::from_utf8(unhex(s)?).ok() }
fn list<'a>(s: &'a str, sep: char) -> Vec<&'a str> { if s == "-" { vec![] } else { s.split(sep).collect() } }

#[derive(Clone, Debug)]
pub enum AppDir { Rel(String), Abs(String), Missing }
#[derive(Clone, Debug)]
/// what an `app_dir_preprocessor` does: overwrite a file, remove it if present, **append** to it, **rename** it (panics if
/// the source is missing), **remove** it (panics if missing) — the last three are not idempotent
pub enum Edit { Write(String, Vec<u8>), Delete(String), Append(String, Vec<u8>), Rename(String, String), Remove(String) }
#[derive(Clone, Debug)]
pub struct BCfg {
    pub builder: String, pub app: AppDir, pub pre: Option<Vec<Edit>>, pub bps: Vec<String>, pub env: Vec<(String, String)>,
    pub expect_success: bool, pub triple: char, pub pack_nonzero: bool,
}
#[derive(Clone, Debug)]
pub struct CCfg {
    pub entrypoint: Option<String>, pub command: Option<Vec<String>>, pub env: Vec<(String, String)>,
    pub ports: Vec<u16>, pub mounts: Vec<(String, String)>,
}
#[derive(Clone, Debug)]
pub enum CAct { LogsNow, LogsWait, Port(u16), Exec(String), Panic }
#[derive(Clone, Debug)]
/// `Rebuild(i, …)`: `context.rebuild(<fresh config i>, …)`; `RebuildCtx(i, …)`: `context.rebuild(context.config.clone() + the env pairs
/// and expected pack result of config i set after the clone, …)` — everything else is inherited from the context's config
pub enum Act { Start(usize, Vec<CAct>), Shell(String), Sbom, Rebuild(usize, Vec<Act>), RebuildCtx(usize, Vec<Act>), Panic }
#[derive(Clone, Debug)]
pub struct Tree { pub cfg: usize, pub acts: Vec<Act> }

fn pairs(s: &str) -> Option<Vec<(String, String)>> {
    list(s, '/').into_iter().map(|kv| { let (k, v) = kv.split_once('=')?; Some((unhex_str(k)?, unhex_str(v)?)) }).collect()
}

pub fn parse_bcfg(s: &str) -> Option<BCfg> {
    let p: Vec<&str> = s.split(';').collect();
    if p.len() != 8 { return None; }
    let app = match p[1].chars().next()? { 'r' => AppDir::Rel(unhex_str(&p[1][1..])?), 'a' => AppDir::Abs(unhex_str(&p[1][1..])?), 'm' => AppDir::Missing, _ => return None };
    let pre = if p[2] == "-" { None } else if p[2] == "n" { Some(vec![]) } else {
        Some(p[2].split('/').map(|e| match e.chars().next()? {
            'w' => { let (a, b) = e[1..].split_once(':')?; Some(Edit::Write(unhex_str(a)?, unhex(b)?)) }
            'd' => Some(Edit::Delete(unhex_str(&e[1..])?)),
            'a' => { let (a, b) = e[1..].split_once(':')?; Some(Edit::Append(unhex_str(a)?, unhex(b)?)) }
            'r' => { let (a, b) = e[1..].split_once(':')?; Some(Edit::Rename(unhex_str(a)?, unhex_str(b)?)) }
            'x' => Some(Edit::Remove(unhex_str(&e[1..])?)),
            _ => None,
        }).collect::<Option<Vec<_>>>()?)
    };
    Some(BCfg {
        builder: unhex_str(p[0])?, app, pre,
        bps: list(p[3], '/').into_iter().map(unhex_str).collect::<Option<_>>()?,
        env: pairs(p[4])?,
        expect_success: match p[5] { "s" => true, "f" => false, _ => return None },
        triple: match p[6] { "x" => 'x', "a" => 'a', "o" => 'o', _ => return None },
        pack_nonzero: match p[7] { "0" => false, "1" => true, _ => return None },
    })
}

pub fn parse_ccfg(s: &str) -> Option<CCfg> {
    let p: Vec<&str> = s.split(';').collect();
    if p.len() != 5 { return None; }
    let entrypoint = if p[0] == "-" { None } else { Some(unhex_str(p[0].strip_prefix('e')?)?) };
    let command = if p[1] == "-" { None } else {
        let mut it = p[1].split('/');
        if it.next()? != "c" { return None; }
        Some(it.map(|w| unhex_str(w.strip_prefix('w')?)).collect::<Option<Vec<_>>>()?)
    };
    Some(CCfg {
        entrypoint, command, env: pairs(p[2])?,
        ports: list(p[3], '/').into_iter().map(|x| x.parse().ok()).collect::<Option<_>>()?,
        mounts: pairs(p[4])?,
    })
}

pub fn parse_cfg_list<T>(s: &str, f: fn(&str) -> Option<T>) -> Option<Vec<T>> { list(s, '|').into_iter().map(f).collect() }

fn hexarg(t: &str) -> Option<String> { unhex_str(t.strip_prefix('h')?) }

fn parse_cacts(tok: &[&str], pos: &mut usize, n: usize) -> Option<Vec<CAct>> {
    let mut out = vec![];
    for _ in 0..n {
        let t = *tok.get(*pos)?; *pos += 1;
        out.push(match t {
            "LN" => CAct::LogsNow, "LW" => CAct::LogsWait, "X" => CAct::Panic,
            "P" => { let p = tok.get(*pos)?.parse().ok()?; *pos += 1; CAct::Port(p) }
            "E" => { let c = hexarg(tok.get(*pos)?)?; *pos += 1; CAct::Exec(c) }
            _ => return None,
        });
    }
    Some(out)
}

fn parse_acts(tok: &[&str], pos: &mut usize, n: usize) -> Option<Vec<Act>> {
    let mut out = vec![];
    for i in 0..n {
        let t = *tok.get(*pos)?; *pos += 1;
        out.push(match t {
            "X" => Act::Panic, "D" => Act::Sbom,
            "H" => { let c = hexarg(tok.get(*pos)?)?; *pos += 1; Act::Shell(c) }
            "S" => { let i = tok.get(*pos)?.parse().ok()?; let n = tok.get(*pos + 1)?.parse().ok()?; *pos += 2; Act::Start(i, parse_cacts(tok, pos, n)?) }
            "R" | "RC" => { if i + 1 != n { return None; } let c = tok.get(*pos)?.parse().ok()?; let m = tok.get(*pos + 1)?.parse().ok()?; *pos += 2; let inner = parse_acts(tok, pos, m)?; if t == "R" { Act::Rebuild(c, inner) } else { Act::RebuildCtx(c, inner) } }
            _ => return None,
        });
    }
    Some(out)
}

pub fn parse_tree(s: &str) -> Option<Tree> {
    let tok: Vec<&str> = s.split(',').collect();
    if *tok.first()? != "B" { return None; }
    let cfg = tok.get(1)?.parse().ok()?;
    let n = tok.get(2)?.parse().ok()?;
    let mut pos = 3;
    let acts = parse_acts(&tok, &mut pos, n)?;
    if pos != tok.len() { return None; }
    Some(Tree { cfg, acts })
}

/// the build configs of the chain in order (build, then each nested rebuild)
pub fn chain(t: &Tree) -> Vec<usize> {
    let mut out = vec![t.cfg];
    let mut acts = &t.acts;
    while let Some(Act::Rebuild(c, a) | Act::RebuildCtx(c, a)) = acts.last() { out.push(*c); acts = a; }
    out
}

// ------------------------------------------------------------------------------------------------ encoding (generators)
pub fn enc_pairs(l: &[(String, String)]) -> String { if l.is_empty() { "-".into() } else { l.iter().map(|(k, v)| format!("{}={}", hex(k.as_bytes()), hex(v.as_bytes()))).collect::<Vec<_>>().join("/") } }
pub fn enc_bcfg(c: &BCfg) -> String {
    let app = match &c.app { AppDir::Rel(s) => format!("r{}", hex(s.as_bytes())), AppDir::Abs(s) => format!("a{}", hex(s.as_bytes())), AppDir::Missing => "m".into() };
    let pre = match &c.pre { None => "-".into(), Some(e) if e.is_empty() => "n".into(), Some(e) => e.iter().map(|e| match e { Edit::Write(p, b) => format!("w{}:{}", hex(p.as_bytes()), hex(b)), Edit::Delete(p) => format!("d{}", hex(p.as_bytes())), Edit::Append(p, b) => format!("a{}:{}", hex(p.as_bytes()), hex(b)), Edit::Rename(a, b) => format!("r{}:{}", hex(a.as_bytes()), hex(b.as_bytes())), Edit::Remove(p) => format!("x{}", hex(p.as_bytes())) }).collect::<Vec<_>>().join("/") };
    let bps = if c.bps.is_empty() { "-".into() } else { c.bps.iter().map(|b| hex(b.as_bytes())).collect::<Vec<_>>().join("/") };
    format!("{};{};{};{};{};{};{};{}", hex(c.builder.as_bytes()), app, pre, bps, enc_pairs(&c.env), if c.expect_success { "s" } else { "f" }, c.triple, u8::from(c.pack_nonzero))
}
pub fn enc_ccfg(c: &CCfg) -> String {
    let ep = match &c.entrypoint { None => "-".into(), Some(e) => format!("e{}", hex(e.as_bytes())) };
    let cmd = match &c.command { None => "-".into(), Some(w) => std::iter::once("c".to_string()).chain(w.iter().map(|w| format!("w{}", hex(w.as_bytes())))).collect::<Vec<_>>().join("/") };
    let ports = if c.ports.is_empty() { "-".into() } else { c.ports.iter().map(|p| p.to_string()).collect::<Vec<_>>().join("/") };
    format!("{};{};{};{};{}", ep, cmd, enc_pairs(&c.env), ports, enc_pairs(&c.mounts))
}
fn enc_cacts(a: &[CAct], out: &mut Vec<String>) {
    for c in a { match c { CAct::LogsNow => out.push("LN".into()), CAct::LogsWait => out.push("LW".into()), CAct::Panic => out.push("X".into()),
        CAct::Port(p) => { out.push("P".into()); out.push(p.to_string()) } CAct::Exec(c) => { out.push("E".into()); out.push(format!("h{}", hex(c.as_bytes()))) } } }
}
fn enc_acts(a: &[Act], out: &mut Vec<String>) {
    for x in a { match x {
        Act::Panic => out.push("X".into()), Act::Sbom => out.push("D".into()),
        Act::Shell(c) => { out.push("H".into()); out.push(format!("h{}", hex(c.as_bytes()))) }
        Act::Start(i, c) => { out.push("S".into()); out.push(i.to_string()); out.push(c.len().to_string()); enc_cacts(c, out) }
        Act::Rebuild(i, a) => { out.push("R".into()); out.push(i.to_string()); out.push(a.len().to_string()); enc_acts(a, out) }
        Act::RebuildCtx(i, a) => { out.push("RC".into()); out.push(i.to_string()); out.push(a.len().to_string()); enc_acts(a, out) }
    } }
}
pub fn enc_tree(t: &Tree) -> String { let mut out = vec!["B".to_string(), t.cfg.to_string(), t.acts.len().to_string()]; enc_acts(&t.acts, &mut out); out.join(",") }
pub fn enc_list(l: Vec<String>) -> String { if l.is_empty() { "-".into() } else { l.join("|") } }
pub fn enc_fixture(f: &[(String, Vec<u8>)]) -> String { if f.is_empty() { "-".into() } else { f.iter().map(|(p, c)| format!("{}={}", hex(p.as_bytes()), hex(c))).collect::<Vec<_>>().join(",") } }

// ------------------------------------------------------------------------------------------------ fault scripts (C16)
/// One rule of a fault script `f:<rule>+<rule>…`: `<kind>.<selector>[.<exit status 1..255>|.sig]` (default status 7).
/// kind: `pb` pack build, `sb` pack sbom download, `rd` docker run --detach, `rr` docker run without --detach, `ln` docker logs,
/// `lf` docker logs --follow, `lg` either, `ex` docker exec, `po` docker port, `rm` docker rm, `ri` docker rmi, `vr` docker volume
/// remove, `nr` every command except docker rm, `any`.
/// selector: `a` every invocation of the kind; `g<k>` the k-th line of the stand-in log if it is of the kind; `f<k>` every
/// invocation of the kind from line k on; `c<j>` every invocation of the kind that has the name of the j-th container as one
/// of its words (the `--name` of the j-th `docker run` of the log, that `docker run` included).
#[derive(Clone, Debug, PartialEq)]
pub enum FaultSel { All, At(usize), From(usize), Ctr(usize) }
#[derive(Clone, Debug)]
pub struct FaultRule { pub kind: String, pub sel: FaultSel, pub status: String }
pub const FAULT_KINDS: [&str; 14] = ["pb", "sb", "rd", "rr", "ln", "lf", "lg", "ex", "po", "rm", "ri", "vr", "nr", "any"];

pub fn parse_fault_rules(s: &str) -> Option<Vec<FaultRule>> {
    s.split('+').map(|r| {
        let p: Vec<&str> = r.split('.').collect();
        if p.len() != 2 && p.len() != 3 { return None; }
        if !FAULT_KINDS.contains(&p[0]) { return None; }
        let num = |t: &str| t.parse::<usize>().ok().filter(|n| *n > 0 && t.bytes().all(|b| b.is_ascii_digit()));
        let sel = match p[1].as_bytes().first()? {
            b'a' if p[1] == "a" => FaultSel::All,
            b'g' => FaultSel::At(num(&p[1][1..])?),
            b'f' => FaultSel::From(num(&p[1][1..])?),
            b'c' => FaultSel::Ctr(num(&p[1][1..])?),
            _ => return None,
        };
        let status = match p.get(2) {
            None => "7".to_string(),
            Some(st) if *st == "sig" || (st.bytes().all(|b| b.is_ascii_digit()) && st.parse::<u32>().map_or(false, |c| c > 0 && c < 256)) => st.to_string(),
            _ => return None,
        };
        Some(FaultRule { kind: p[0].to_string(), sel, status })
    }).collect()
}

/// kind tests on the argv (after the program name) of one stand-in invocation
pub fn fault_kind_selects(kind: &str, prog: &str, words: &[&[u8]]) -> bool {
    let sub = words.first().copied().unwrap_or(b"");
    let has = |w: &[u8]| words.iter().any(|x| *x == w);
    let docker = prog == "docker";
    match kind {
        "pb" => prog == "pack" && sub == b"build",
        "sb" => prog == "pack" && sub == b"sbom",
        "rd" => docker && sub == b"run" && has(b"--detach"),
        "rr" => docker && sub == b"run" && !has(b"--detach"),
        "ln" => docker && sub == b"logs" && !has(b"--follow"),
        "lf" => docker && sub == b"logs" && has(b"--follow"),
        "lg" => docker && sub == b"logs",
        "ex" => docker && sub == b"exec",
        "po" => docker && sub == b"port",
        "rm" => docker && sub == b"rm",
        "ri" => docker && sub == b"rmi",
        "vr" => docker && sub == b"volume",
        "nr" => !(docker && sub == b"rm"),
        "any" => true,
        _ => false,
    }
}

/// The exit status a fault script dictates for the invocation `prog words…` that is about to become line `index` (1-based) of
/// the stand-in log whose earlier lines are `before` (format of `standin.rs`: `<prog> h<hex word>…`). `None`: not hit.
pub fn fault_status(script: &str, prog: &str, words: &[&[u8]], index: usize, before: &str) -> Option<String> {
    let rules = parse_fault_rules(script)?;
    // names given to the docker runs so far (this invocation included when it is one)
    let mut names: Vec<Vec<u8>> = vec![];
    let name_of = |ws: &[Vec<u8>]| ws.iter().position(|w| w == b"--name").and_then(|i| ws.get(i + 1).cloned()).unwrap_or_default();
    for l in before.lines() {
        let mut it = l.split(' ');
        if it.next() != Some("docker") { continue; }
        let ws: Vec<Vec<u8>> = it.map(|w| unhex(w.strip_prefix('h').unwrap_or("")).unwrap_or_default()).collect();
        if ws.first().map(|w| &w[..]) == Some(b"run") { names.push(name_of(&ws)); }
    }
    if prog == "docker" && words.first().copied() == Some(&b"run"[..]) { names.push(name_of(&words.iter().map(|w| w.to_vec()).collect::<Vec<_>>())); }
    for r in &rules {
        if !fault_kind_selects(&r.kind, prog, words) { continue; }
        let hit = match r.sel {
            FaultSel::All => true,
            FaultSel::At(k) => index == k,
            FaultSel::From(k) => index >= k,
            FaultSel::Ctr(j) => prog == "docker" && names.get(j - 1).map_or(false, |n| !n.is_empty() && words.iter().any(|w| *w == &n[..])),
        };
        if hit { return Some(r.status.clone()); }
    }
    None
}

// ------------------------------------------------------------------------------------------------ output scripts (C16)
/// One rule of an output script `~<rule>+<rule>…` (third part of the injection field, after `@<flavour>`):
/// `<kind>.<selector>.<stream><pattern><shift>.<size>` — the invocations selected by kind × selector (as in `FaultRule`)
/// print exactly `<size>` bytes (`gen_output`) on `<stream>` (`o` stdout, `e` stderr, `b` both) instead of the texts of the
/// flavour, whether they then succeed or fail (that is decided by the fault script / `z:k` alone).
/// pattern: `a` ASCII lines, `2` two-byte characters (é), `3` three-byte characters (─ ✓ │), `4` four-byte characters (emoji),
/// `m` a mix of 1/2/3/4-byte characters, `i` bytes that are not UTF-8; shift 0..3 = that many ASCII bytes in front, so that
/// the multi-byte characters take every alignment relative to any fixed byte offset.
#[derive(Clone, Debug)]
pub struct OutRule { pub kind: String, pub sel: FaultSel, pub stream: char, pub pat: char, pub shift: usize, pub size: usize }
pub const OUT_PATTERNS: [char; 6] = ['a', '2', '3', '4', 'm', 'i'];
/// sizes above this are refused (`bad-op`)
pub const OUT_MAX: usize = 4 << 20;

pub fn parse_out_rules(s: &str) -> Option<Vec<OutRule>> {
    s.split('+').map(|r| {
        let p: Vec<&str> = r.split('.').collect();
        if p.len() != 4 || !FAULT_KINDS.contains(&p[0]) { return None; }
        let sel = parse_fault_rules(&format!("{}.{}", p[0], p[1]))?.pop()?.sel;
        let sp: Vec<char> = p[2].chars().collect();
        if sp.len() != 3 || !['o', 'e', 'b'].contains(&sp[0]) || !OUT_PATTERNS.contains(&sp[1]) || !('0'..='3').contains(&sp[2]) { return None; }
        if p[3].is_empty() || p[3].len() > 7 || !p[3].bytes().all(|b| b.is_ascii_digit()) || (p[3].len() > 1 && p[3].starts_with('0')) { return None; }
        let size: usize = p[3].parse().ok()?;
        if size > OUT_MAX { return None; }
        Some(OutRule { kind: p[0].to_string(), sel, stream: sp[0], pat: sp[1], shift: sp[2] as usize - '0' as usize, size })
    }).collect()
}

/// Exactly `size` bytes. `shift` bytes `x`, then the pattern's units for as long as a whole unit fits, then `.` up to the size —
/// so every pattern but `i` is valid UTF-8 whatever the size (a lossy decoding keeps its length). A line feed ends every line of
/// 20 units; `3`/`m` look like the output of a test runner (box drawing, check marks).
pub fn gen_output(pat: char, shift: usize, size: usize) -> Vec<u8> {
    let units: Vec<&[u8]> = match pat {
        'a' => vec![b"t", b"e", b"s", b"t", b" ", b"o", b"k", b" "],
        '2' => vec!["é".as_bytes(), "ü".as_bytes(), "ß".as_bytes()],
        '3' => vec!["│".as_bytes(), "─".as_bytes(), "✓".as_bytes(), "─".as_bytes(), "✗".as_bytes(), "─".as_bytes()],
        '4' => vec!["🎉".as_bytes(), "🚀".as_bytes(), "😀".as_bytes()],
        'm' => vec![b"a", "é".as_bytes(), "✓".as_bytes(), "🎉".as_bytes(), b" ", "─".as_bytes(), "─".as_bytes(), "😀".as_bytes(), "ü".as_bytes()],
        // lone continuation byte, bytes that never occur in UTF-8, truncated 2/3/4-byte sequences, an overlong form, a surrogate
        _ => vec![b"\x80", b"\xff", b"\xfe", b"\xc3", b"x", b"\xe2\x94", b"\xf0\x9f\x8e", b"\xc0\xaf", b"\xed\xa0\x80", b"ok"],
    };
    let mut out = Vec::with_capacity(size);
    while out.len() < shift.min(size) { out.push(b'x'); }
    let (mut i, mut on_line) = (0usize, 0usize);
    loop {
        let u: &[u8] = if on_line == 20 { b"\n" } else { units[i % units.len()] };
        if out.len() + u.len() > size { break; }
        out.extend_from_slice(u);
        if on_line == 20 { on_line = 0; } else { on_line += 1; i += 1; }
    }
    while out.len() < size { out.push(b'.'); }
    out
}

/// the `--name`s of the `docker run`s of the log so far, this invocation included when it is one
fn container_names(prog: &str, words: &[&[u8]], before: &str) -> Vec<Vec<u8>> {
    let mut names: Vec<Vec<u8>> = vec![];
    let name_of = |ws: &[Vec<u8>]| ws.iter().position(|w| w == b"--name").and_then(|i| ws.get(i + 1).cloned()).unwrap_or_default();
    for l in before.lines() {
        let mut it = l.split(' ');
        if it.next() != Some("docker") { continue; }
        let ws: Vec<Vec<u8>> = it.map(|w| unhex(w.strip_prefix('h').unwrap_or("")).unwrap_or_default()).collect();
        if ws.first().map(|w| &w[..]) == Some(b"run") { names.push(name_of(&ws)); }
    }
    if prog == "docker" && words.first().copied() == Some(&b"run"[..]) { names.push(name_of(&words.iter().map(|w| w.to_vec()).collect::<Vec<_>>())); }
    names
}

/// The first rule of the output script that selects the invocation `prog words…` about to become line `index` (1-based) of the
/// stand-in log (selection exactly as in `fault_status`). `None`: the invocation prints what its flavour says.
pub fn out_rule_for(script: &str, prog: &str, words: &[&[u8]], index: usize, before: &str) -> Option<OutRule> {
    let rules = parse_out_rules(script)?;
    let names = container_names(prog, words, before);
    rules.into_iter().find(|r| fault_kind_selects(&r.kind, prog, words) && match r.sel {
        FaultSel::All => true,
        FaultSel::At(k) => index == k,
        FaultSel::From(k) => index >= k,
        FaultSel::Ctr(j) => prog == "docker" && names.get(j - 1).map_or(false, |n| !n.is_empty() && words.iter().any(|w| *w == &n[..])),
    })
}

// ------------------------------------------------------------------------------------------------ host directories for bind mounts (C17)
/// A bind-mount source of a configuration may start with this placeholder: the scenario runner creates a scratch directory on
/// the host (`make_mount_scratch`), `trun` replaces the placeholder by its path (`LCT_MOUNT_BASE`) before calling
/// `ContainerConfig::bind_mount`, and the runner renames the path back to `/$S` in the recorded argv. So the source *exists on
/// the host* when `start_container` runs, and the text docker must receive is the configured text itself.
pub const MOUNT_PLACEHOLDER: &str = "/$S";

pub fn uses_mount_scratch(ccfgs: &[CCfg]) -> bool { ccfgs.iter().any(|c| c.mounts.iter().any(|(s, _)| s.contains(MOUNT_PLACEHOLDER))) }

/// `<root>/host`: `real/` (with `sub/` and the file `f`), `link -> real`, `via/link2 -> ../real`, `abslink -> <abs>/real`,
/// `releases/v2/`, `current -> releases/v2`, the file `file`, `flink -> file`, `dangling -> nowhere`. `root` must be canonical.
pub fn make_mount_scratch(root: &Path) -> PathBuf {
    use std::os::unix::fs::symlink;
    let h = root.join("host");
    for d in ["real/sub", "via", "releases/v2"] { std::fs::create_dir_all(h.join(d)).unwrap(); }
    std::fs::write(h.join("real/f"), b"x").unwrap();
    std::fs::write(h.join("file"), b"y").unwrap();
    symlink("real", h.join("link")).unwrap();
    symlink("../real", h.join("via/link2")).unwrap();
    symlink(h.join("real"), h.join("abslink")).unwrap();
    symlink("releases/v2", h.join("current")).unwrap();
    symlink("file", h.join("flink")).unwrap();
    symlink("nowhere", h.join("dangling")).unwrap();
    h
}

/// what `trun` hands to `bind_mount` for a configured source: the placeholder replaced by `$LCT_MOUNT_BASE` (when set)
pub fn mount_source(configured: &str) -> String {
    match std::env::var("LCT_MOUNT_BASE") { Ok(b) if !b.is_empty() => configured.replace(MOUNT_PLACEHOLDER, &b), _ => configured.to_string() }
}

/// the scratch directory's path renamed back to the placeholder in a recorded argv word (before `Canon::word`)
pub fn canon_scratch(w: &[u8], scratch: Option<&Path>) -> Vec<u8> {
    use std::os::unix::ffi::OsStrExt;
    match scratch { Some(s) => replace_all(w, s.as_os_str().as_bytes(), MOUNT_PLACEHOLDER.as_bytes()), None => w.to_vec() }
}

// ------------------------------------------------------------------------------------------------ the case runner
/// files under `root` as `relpath-hex:content-hex`, sorted by path bytes, joined by `+` (`empty` for none)
pub fn file_snapshot(root: &Path) -> String {
    fn walk(root: &Path, dir: &Path, out: &mut Vec<(Vec<u8>, String)>) {
        use std::os::unix::ffi::OsStrExt;
        let Ok(rd) = std::fs::read_dir(dir) else { return };
        for e in rd.filter_map(Result::ok) {
            let p = e.path();
            let md = std::fs::symlink_metadata(&p).unwrap();
            if md.is_dir() { walk(root, &p, out); } else {
                let rel = p.strip_prefix(root).unwrap().as_os_str().as_bytes().to_vec();
                let body = std::fs::read(&p).map(|b| hex(&b)).unwrap_or_else(|_| "?".into());
                out.push((rel, body));
            }
        }
    }
    let mut out = vec![];
    walk(root, root, &mut out);
    out.sort();
    if out.is_empty() { "empty".into() } else { out.iter().map(|(p, c)| format!("{}:{}", hex(p), c)).collect::<Vec<_>>().join("+") }
}

fn replace_all(hay: &[u8], needle: &[u8], with: &[u8]) -> Vec<u8> {
    if needle.is_empty() { return hay.to_vec(); }
    let mut out = vec![]; let mut i = 0;
    while i < hay.len() { if hay[i..].starts_with(needle) { out.extend_from_slice(with); i += needle.len(); } else { out.push(hay[i]); i += 1; } }
    out
}

/// renames random docker identifiers (`libcnbtest_` + 12 lowercase letters) to `$N<k>` and temp dirs
/// (`<tmp>/.tmpXXXXXX`) to `$D<k>` by first occurrence; the manifest dir to `/$M`, the absolute base to `/$A`
pub struct Canon { names: Vec<Vec<u8>>, dirs: Vec<Vec<u8>>, tmp: Vec<u8>, manifest: Vec<u8>, abs: Vec<u8> }
impl Canon {
    pub fn new(tmp: &Path, manifest: &Path, abs: &Path) -> Self {
        use std::os::unix::ffi::OsStrExt;
        Canon { names: vec![], dirs: vec![], tmp: tmp.as_os_str().as_bytes().to_vec(), manifest: manifest.as_os_str().as_bytes().to_vec(), abs: abs.as_os_str().as_bytes().to_vec() }
    }
    pub fn word(&mut self, w: &[u8]) -> Vec<u8> {
        let mut out = vec![]; let mut i = 0;
        let pre = b"libcnbtest_";
        let mut tmp_pre = self.tmp.clone(); tmp_pre.extend_from_slice(b"/.tmp");
        while i < w.len() {
            if w[i..].starts_with(pre) && w.len() >= i + pre.len() + 12 && w[i + pre.len()..i + pre.len() + 12].iter().all(u8::is_ascii_lowercase) {
                let name = w[i..i + pre.len() + 12].to_vec();
                let k = match self.names.iter().position(|n| *n == name) { Some(k) => k, None => { self.names.push(name); self.names.len() - 1 } };
                out.extend_from_slice(format!("$N{}", k + 1).as_bytes()); i += pre.len() + 12;
            } else if w[i..].starts_with(&tmp_pre) && w.len() >= i + tmp_pre.len() + 6 && w[i + tmp_pre.len()..i + tmp_pre.len() + 6].iter().all(u8::is_ascii_alphanumeric) {
                let d = w[i..i + tmp_pre.len() + 6].to_vec();
                let k = match self.dirs.iter().position(|n| *n == d) { Some(k) => k, None => { self.dirs.push(d); self.dirs.len() - 1 } };
                out.extend_from_slice(format!("$D{}", k + 1).as_bytes()); i += tmp_pre.len() + 6;
            } else { out.push(w[i]); i += 1; }
        }
        // the leading `/` of the two base directories stays, so that the words remain absolute paths
        let out = replace_all(&out, &self.manifest[1..], b"$M");
        replace_all(&out, &self.abs[1..], b"$A")
    }
}

fn write_fixture(root: &Path, files: &[(String, Vec<u8>)]) {
    std::fs::create_dir_all(root).unwrap();
    for (p, c) in files {
        let f = root.join(p);
        std::fs::create_dir_all(f.parent().unwrap()).unwrap();
        std::fs::write(f, c).unwrap();
    }
}

pub fn parse_fixture(s: &str) -> Option<Vec<(String, Vec<u8>)>> {
    list(s, ',').into_iter().map(|kv| { let (k, v) = kv.split_once('=')?; Some((unhex_str(k)?, unhex(v)?)) }).collect()
}

fn sibling(name: &str) -> PathBuf { std::env::current_exe().unwrap().parent().unwrap().join(name) }

/// fields: fixture, bcfgs, ccfgs, tree, injection. Returns the canonical observation.
pub fn run_scenario_case(fields: &[String]) -> String {
    if fields.len() != 5 { return "bad-op".into(); }
    let (Some(fixture), Some(bcfgs), Some(ccfgs), Some(tree)) = (parse_fixture(&fields[0]), parse_cfg_list(&fields[1], parse_bcfg), parse_cfg_list(&fields[2], parse_ccfg), parse_tree(&fields[3])) else { return "bad-op".into() };
    let ch = chain(&tree);
    if ch.iter().any(|i| *i >= bcfgs.len()) { return "bad-op".into(); }
    // injection field: `<base>[@<flavour>]`; base = `-` | `z:<k>[:<status>|:sig]` | `nfp:<j>` | `nfd:<j>` | `f:<fault script>` (see `FaultRule`)
    // … optionally followed by `~<output script>` (see `OutRule`): what selected invocations print
    let (inj_field, outputs) = match fields[4].split_once('~') { Some((a, o)) => (a, Some(o)), None => (fields[4].as_str(), None) };
    if outputs.map_or(false, |o| parse_out_rules(o).is_none()) { return "bad-op".into(); }
    let (inj, flavour) = match inj_field.split_once('@') { Some((a, f)) => (a, f), None => (inj_field, "0") };
    if flavour.parse::<u32>().map_or(true, |f| f > 3) { return "bad-op".into(); }
    let (mut fail_at, mut gone): (Option<(usize, String)>, Option<(&str, usize)>) = (None, None);
    let mut faults: Option<&str> = None;
    if let Some(script) = inj.strip_prefix("f:") {
        if parse_fault_rules(script).is_none() { return "bad-op".into(); }
        faults = Some(script);
    } else if inj != "-" {
        let parts: Vec<&str> = inj.split(':').collect();
        let Some(Ok(n)) = parts.get(1).map(|v| v.parse::<usize>()) else { return "bad-op".into() };
        if n == 0 { return "bad-op".into(); }
        match (parts[0], parts.len()) {
            ("z", 2) => fail_at = Some((n, "7".into())),
            ("z", 3) if parts[2] == "sig" || parts[2].parse::<u8>().map_or(false, |c| c != 0) => fail_at = Some((n, parts[2].into())),
            ("nfp", 2) => gone = Some(("pack", n)),
            ("nfd", 2) => gone = Some(("docker", n)),
            _ => return "bad-op".into(),
        }
    }
    let root = tempfile::Builder::new().prefix("lct-").tempdir().unwrap();
    let root_path = root.path().canonicalize().unwrap();
    let (m, a, t, bin, log) = (root_path.join("m"), root_path.join("a"), root_path.join("t"), root_path.join("bin"), root_path.join("log"));
    for d in [&m, &a, &t, &bin] { std::fs::create_dir_all(d).unwrap(); }
    write_fixture(&m.join("fixtures/app"), &fixture);
    write_fixture(&a.join("app"), &fixture);
    std::fs::write(&log, b"").unwrap();
    let before = (file_snapshot(&m), file_snapshot(&a));
    // (C17) only when a bind-mount source uses the placeholder `/$S`: host directories and symlinks for the sources
    let scratch = if uses_mount_scratch(&ccfgs) { Some(make_mount_scratch(&root_path)) } else { None };
    for prog in ["docker", "pack"] {
        if gone == Some((prog, 1)) { continue; }
        std::os::unix::fs::symlink(sibling("standin"), bin.join(prog)).unwrap();
    }
    let pack_results: Vec<String> = ch.iter().map(|i| u8::from(bcfgs[*i].pack_nonzero).to_string()).collect();
    let mut cmd = std::process::Command::new(sibling("trun"));
    cmd.args(&fields[1..4])
        .env_clear()
        .env("PATH", &bin).env("TMPDIR", &t).env("CARGO_MANIFEST_DIR", &m).env("LCT_ABS_BASE", &a)
        .env("STANDIN_LOG", &log).env("STANDIN_BIN", &bin).env("STANDIN_PACK_BUILD_RESULTS", pack_results.join(","))
        .stdin(std::process::Stdio::null()).stdout(std::process::Stdio::null()).stderr(std::process::Stdio::null());
    if let Some((k, status)) = &fail_at { cmd.env("STANDIN_FAIL_AT", k.to_string()).env("STANDIN_FAIL_STATUS", status); }
    cmd.env("STANDIN_FLAVOUR", flavour);
    if let Some((p, n)) = gone { cmd.env("STANDIN_GONE", format!("{p}:{n}")); }
    if let Some(script) = faults { cmd.env("STANDIN_FAULTS", script); }
    if let Some(o) = outputs { cmd.env("STANDIN_OUTPUTS", o); }
    if let Some(h) = &scratch { cmd.env("LCT_MOUNT_BASE", h); }
    let mut child = cmd.spawn().unwrap();
    let start = std::time::Instant::now();
    let status = loop {
        match child.try_wait().unwrap() {
            Some(st) => break Some(st),
            None if start.elapsed().as_secs() > 60 => { let _ = child.kill(); let _ = child.wait(); break None; }
            None => std::thread::sleep(std::time::Duration::from_millis(2)),
        }
    };
    use std::os::unix::process::ExitStatusExt;
    let exit = match status {
        None => "timeout".to_string(),
        Some(st) => match (st.code(), st.signal()) { (Some(0), _) => "ok".into(), (Some(101), _) => "panic".into(), (_, Some(6)) => "abort".into(), (Some(c), _) => format!("other{c}"), (_, Some(s)) => format!("signal{s}"), (None, None) => "unknown".into() },
    };
    let mut canon = Canon::new(&t, &m, &a);
    let text = std::fs::read_to_string(&log).unwrap_or_default();
    let mut cmds = vec![];
    for line in text.lines() {
        let mut it = line.split(' ');
        let prog = match it.next() { Some("docker") => "d", Some("pack") => "p", _ => "?" };
        let mut c = prog.to_string();
        for w in it { let bytes = canon_scratch(&unhex(w.strip_prefix('h').unwrap_or("zz")).unwrap_or_default(), scratch.as_deref()); c.push_str(",h"); c.push_str(&hex(&canon.word(&bytes))); }
        cmds.push(c);
    }
    let snaps: Vec<String> = std::fs::read_to_string(root_path.join("log.snap")).unwrap_or_default().lines().map(str::to_string).collect();
    let left = std::fs::read_dir(&t).map(|rd| rd.count()).unwrap_or(0);
    let after = (file_snapshot(&m), file_snapshot(&a));
    format!("exit={} log={} tmp={} fixture={} snaps={}", exit, if cmds.is_empty() { "-".into() } else { cmds.join(";") }, left,
        if before == after { "same" } else { "changed" }, if snaps.is_empty() { "-".into() } else { snaps.join("/") })
}
