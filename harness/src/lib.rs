//! Shared pieces of the correspondence harness: PRNG, hex, snapshots, the case loop.
use std::io::{BufRead, Write};
use std::path::Path;

pub mod tomlwire;
pub mod tomllayout;

/// splitmix64: every random choice of a run derives from `VERIF_SEED` and the case index.
#[derive(Clone)]
pub struct Rng(pub u64);
impl Rng {
    pub fn new(seed: u64) -> Self { Rng(seed.wrapping_mul(0x9E37_79B9_7F4A_7C15) ^ 0xD1B5_4A32_D192_ED03) }
    pub fn for_case(seed: u64, idx: u64) -> Self { let mut r = Rng::new(seed ^ idx.wrapping_mul(0xA24B_AED4_963E_E407)); r.next(); r }
    pub fn next(&mut self) -> u64 {
        self.0 = self.0.wrapping_add(0x9E37_79B9_7F4A_7C15);
        let mut z = self.0;
        z = (z ^ (z >> 30)).wrapping_mul(0xBF58_476D_1CE4_E5B9);
        z = (z ^ (z >> 27)).wrapping_mul(0x94D0_49BB_1331_11EB);
        z ^ (z >> 31)
    }
    pub fn below(&mut self, n: u64) -> u64 { if n == 0 { 0 } else { self.next() % n } }
    pub fn range(&mut self, lo: u64, hi_incl: u64) -> u64 { lo + self.below(hi_incl - lo + 1) }
    pub fn chance(&mut self, num: u64, den: u64) -> bool { self.below(den) < num }
    pub fn pick<'a, T>(&mut self, xs: &'a [T]) -> &'a T { &xs[self.below(xs.len() as u64) as usize] }
    pub fn shuffle<T>(&mut self, xs: &mut [T]) { for i in (1..xs.len()).rev() { let j = self.below(i as u64 + 1) as usize; xs.swap(i, j); } }
}

pub fn hex(b: &[u8]) -> String { let mut s = String::with_capacity(b.len() * 2); for x in b { s.push_str(&format!("{x:02x}")); } s }
pub fn unhex(s: &str) -> Option<Vec<u8>> {
    if s.len() % 2 != 0 { return None; }
    (0..s.len() / 2).map(|i| u8::from_str_radix(s.get(2 * i..2 * i + 2)?, 16).ok()).collect()
}
pub fn join(sep: &str, xs: &[String]) -> String { if xs.is_empty() { "-".to_string() } else { xs.join(sep) } }
pub fn split_list<'a>(s: &'a str, sep: &str) -> Vec<&'a str> { if s.is_empty() || s == "-" { vec![] } else { s.split(sep).collect() } }

pub fn seed() -> u64 { std::env::var("VERIF_SEED").ok().and_then(|s| s.parse().ok()).unwrap_or(20260930) }

/// A generated case: input fields (tab-free tokens) plus tags describing it for the evidence.
pub struct Case { pub fields: Vec<String>, pub tags: Vec<(String, String)>, pub nontrivial: bool }

/// Sorted directory snapshot: `D path mode`, `F path mode hex`, `L path target` joined by `|`.
pub fn snapshot(root: &Path) -> String {
    use std::os::unix::fs::PermissionsExt;
    use std::os::unix::ffi::OsStrExt;
    fn walk(root: &Path, dir: &Path, out: &mut Vec<String>) {
        let mut entries: Vec<_> = match std::fs::read_dir(dir) { Ok(rd) => rd.filter_map(Result::ok).collect(), Err(_) => { out.push(format!("E {}", hex(dir.strip_prefix(root).unwrap().as_os_str().as_bytes()))); return; } };
        entries.sort_by_key(|e| e.file_name());
        for e in entries {
            let p = e.path();
            let rel = hex(p.strip_prefix(root).unwrap().as_os_str().as_bytes());
            let md = std::fs::symlink_metadata(&p).unwrap();
            let mode = md.permissions().mode() & 0o7777;
            if md.file_type().is_symlink() {
                out.push(format!("L {} {}", rel, hex(std::fs::read_link(&p).unwrap().as_os_str().as_bytes())));
            } else if md.is_dir() {
                out.push(format!("D {} {:o}", rel, mode));
                walk(root, &p, out);
            } else {
                let body = std::fs::read(&p).map(|b| hex(&b)).unwrap_or_else(|_| "?".into());
                out.push(format!("F {} {:o} {}", rel, mode, body));
            }
        }
    }
    let mut out = vec![];
    walk(root, root, &mut out);
    join("|", &out)
}

/// Standard main: `gen --tier quick|thorough` prints `CASE` lines (running the real code on each case);
/// `run` reads input-field lines (tab separated) from stdin and prints the observation for each.
pub fn main_loop(
    prop: &str,
    generate: &dyn Fn(&str, u64, &mut dyn FnMut(Case)),
    run_case: &(dyn Fn(&[String]) -> String + Sync),
) {
    main_loop_jobs(prop, 1, generate, run_case);
}

fn guarded(run_case: &(dyn Fn(&[String]) -> String + Sync), fields: &[String]) -> String {
    match std::panic::catch_unwind(std::panic::AssertUnwindSafe(|| run_case(fields))) {
        Ok(o) => o.replace(['\t', '\n'], " "),
        Err(_) => "PANIC".to_string(),
    }
}

/// Like `main_loop`, but the cases are executed on `jobs` threads (order of the output is the generation order).
/// Use jobs > 1 only when `run_case` is thread-safe (own temp dir per case, no process-global state).
pub fn main_loop_jobs(
    prop: &str,
    jobs: usize,
    generate: &dyn Fn(&str, u64, &mut dyn FnMut(Case)),
    run_case: &(dyn Fn(&[String]) -> String + Sync),
) {
    let args: Vec<String> = std::env::args().collect();
    let mode = args.get(1).map(String::as_str).unwrap_or("gen");
    let jobs = std::env::var("VERIF_JOBS").ok().and_then(|s| s.parse().ok()).unwrap_or(jobs).max(1);
    let mut cases: Vec<Case> = vec![];
    match mode {
        "gen" => {
            let tier = args.iter().position(|a| a == "--tier").and_then(|i| args.get(i + 1)).map(String::as_str).unwrap_or("quick").to_string();
            generate(&tier, seed(), &mut |c: Case| cases.push(c));
        }
        "run" => {
            let stdin = std::io::stdin();
            for line in stdin.lock().lines() {
                let line = line.unwrap();
                cases.push(Case { fields: line.split('\t').map(str::to_string).collect(), tags: vec![], nontrivial: false });
            }
        }
        _ => { eprintln!("usage: {prop} gen --tier quick|thorough | run < fields"); std::process::exit(2); }
    }
    // silence panic messages of the code under test (they are mapped to the observation PANIC)
    std::panic::set_hook(Box::new(|_| {}));
    let n = cases.len();
    let mut obs: Vec<String> = vec![String::new(); n];
    if jobs == 1 {
        for (i, c) in cases.iter().enumerate() { obs[i] = guarded(run_case, &c.fields); }
    } else {
        let next = std::sync::atomic::AtomicUsize::new(0);
        let results = std::sync::Mutex::new(&mut obs);
        std::thread::scope(|s| {
            for _ in 0..jobs {
                s.spawn(|| loop {
                    let i = next.fetch_add(1, std::sync::atomic::Ordering::SeqCst);
                    if i >= n { break; }
                    let o = guarded(run_case, &cases[i].fields);
                    results.lock().unwrap()[i] = o;
                });
            }
        });
    }
    let stdout = std::io::stdout();
    let mut out = std::io::BufWriter::new(stdout.lock());
    for (c, o) in cases.iter().zip(obs.iter()) {
        let tags: Vec<String> = c.tags.iter().map(|(k, v)| format!("{k}={v}")).collect();
        writeln!(out, "CASE\t{}\t{}\t{}\t#nt={};{}", prop, c.fields.join("\t"), o, u8::from(c.nontrivial), tags.join(";")).unwrap();
    }
    out.flush().unwrap();
}

/// A buildpack type and a `BuildContext` over a given layers directory, for driving the layer APIs in-process.
pub mod ctx {
    use libcnb::build::{BuildContext, BuildResult};
    use libcnb::detect::{DetectContext, DetectResult};
    use libcnb::generic::{GenericMetadata, GenericPlatform};
    use libcnb::{Buildpack, Env, Target};
    use std::path::Path;

    #[derive(Debug)]
    pub struct TbError(pub String);
    impl std::fmt::Display for TbError { fn fmt(&self, f: &mut std::fmt::Formatter<'_>) -> std::fmt::Result { write!(f, "{}", self.0) } }
    impl std::error::Error for TbError {}

    pub struct TestBuildpack;
    impl Buildpack for TestBuildpack {
        type Platform = GenericPlatform;
        type Metadata = GenericMetadata;
        type Error = TbError;
        fn detect(&self, _: DetectContext<Self>) -> libcnb::Result<DetectResult, Self::Error> { unimplemented!() }
        fn build(&self, _: BuildContext<Self>) -> libcnb::Result<BuildResult, Self::Error> { unimplemented!() }
    }

    pub fn build_context(layers_dir: &Path, scratch: &Path) -> BuildContext<TestBuildpack> {
        BuildContext {
            layers_dir: layers_dir.to_path_buf(),
            app_dir: scratch.join("app"),
            buildpack_dir: scratch.join("buildpack"),
            target: Target { os: "linux".into(), arch: "amd64".into(), arch_variant: None, distro_name: "ubuntu".into(), distro_version: "24.04".into() },
            platform: GenericPlatform::new(Env::new()),
            buildpack_plan: libcnb::data::buildpack_plan::BuildpackPlan { entries: vec![] },
            buildpack_descriptor: toml::from_str("api = \"0.10\"\n[buildpack]\nid = \"verif/test\"\nversion = \"0.0.1\"\n").unwrap(),
            store: None,
        }
    }
}
