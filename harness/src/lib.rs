//! Shared pieces of the correspondence harness: PRNG, hex, snapshots, the case loop.
use std::io::{BufRead, Write};
use std::path::Path;

/// splitmix64: every random choice of a run derives from `VERIF_SEED` and the case index.
#[derive(Clone)]
pub struct Rng(pub u64);
impl Rng {
    pub fn new(seed: u64) -> Self { Rng(seed.wrapping_mul(0x9E37_79B9_7F4A_7C15) ^ 0xD1B5_4A32_D192_ED03) }
    pub fn for_case(seed: u64, idx: u64) -> Self { let mut r = Rng::new(seed ^ idx.wrapping_mul(0xA24B_AED4_963E_E407)); r.next(); r }
    pub fn next(&mut self) -> u64 {
        self.0 = self.0.wrapping_add(0x9E37_79B9_7F4A_7C15);
        let mut z = self.0;
        z = (z ^ (z >> 30)).wrapping_mul(0xBF58_476D_1CE4_E5B9);
        z = (z ^ (z >> 27)).wrapping_mul(0x94D0_49BB_1331_11EB);
        z ^ (z >> 31)
    }
    pub fn below(&mut self, n: u64) -> u64 { if n == 0 { 0 } else { self.next() % n } }
    pub fn range(&mut self, lo: u64, hi_incl: u64) -> u64 { lo + self.below(hi_incl - lo + 1) }
    pub fn chance(&mut self, num: u64, den: u64) -> bool { self.below(den) < num }
    pub fn pick<'a, T>(&mut self, xs: &'a [T]) -> &'a T { &xs[self.below(xs.len() as u64) as usize] }
    pub fn shuffle<T>(&mut self, xs: &mut [T]) { for i in (1..xs.len()).rev() { let j = self.below(i as u64 + 1) as usize; xs.swap(i, j); } }
}

pub fn hex(b: &[u8]) -> String { let mut s = String::with_capacity(b.len() * 2); for x in b { s.push_str(&format!("{x:02x}")); } s }
pub fn unhex(s: &str) -> Option<Vec<u8>> {
    if s.len() % 2 != 0 { return None; }
    (0..s.len() / 2).map(|i| u8::from_str_radix(s.get(2 * i..2 * i + 2)?, 16).ok()).collect()
}
pub fn join(sep: &str, xs: &[String]) -> String { if xs.is_empty() { "-".to_string() } else { xs.join(sep) } }
pub fn split_list<'a>(s: &'a str, sep: &str) -> Vec<&'a str> { if s.is_empty() || s == "-" { vec![] } else { s.split(sep).collect() } }

pub fn seed() -> u64 { std::env::var("VERIF_SEED").ok().and_then(|s| s.parse().ok()).unwrap_or(20260930) }

/// A generated case: input fields (tab-free tokens) plus tags describing it for the evidence.
pub struct Case { pub fields: Vec<String>, pub tags: Vec<(String, String)>, pub nontrivial: bool }

/// Sorted directory snapshot: `D path mode`, `F path mode hex`, `L path target` joined by `|`.
pub fn snapshot(root: &Path) -> String {
    use std::os::unix::fs::PermissionsExt;
    use std::os::unix::ffi::OsStrExt;
    fn walk(root: &Path, dir: &Path, out: &mut Vec<String>) {
        let mut entries: Vec<_> = match std::fs::read_dir(dir) { Ok(rd) => rd.filter_map(Result::ok).collect(), Err(_) => { out.push(format!("E {}", hex(dir.strip_prefix(root).unwrap().as_os_str().as_bytes()))); return; } };
        entries.sort_by_key(|e| e.file_name());
        for e in entries {
            let p = e.path();
            let rel = hex(p.strip_prefix(root).unwrap().as_os_str().as_bytes());
            let md = std::fs::symlink_metadata(&p).unwrap();
            let mode = md.permissions().mode() & 0o7777;
            if md.file_type().is_symlink() {
                out.push(format!("L {} {}", rel, hex(std::fs::read_link(&p).unwrap().as_os_str().as_bytes())));
            } else if md.is_dir() {
                out.push(format!("D {} {:o}", rel, mode));
                walk(root, &p, out);
            } else {
                let body = std::fs::read(&p).map(|b| hex(&b)).unwrap_or_else(|_| "?".into());
                out.push(format!("F {} {:o} {}", rel, mode, body));
            }
        }
    }
    let mut out = vec![];
    walk(root, root, &mut out);
    join("|", &out)
}

/// Standard main: `gen --tier quick|thorough` prints `CASE` lines (running the real code on each case);
/// `run` reads input-field lines (tab separated) from stdin and prints the observation for each.
pub fn main_loop(
    prop: &str,
    generate: &dyn Fn(&str, u64, &mut dyn FnMut(Case)),
    run_case: &dyn Fn(&[String]) -> String,
) {
    let args: Vec<String> = std::env::args().collect();
    let mode = args.get(1).map(String::as_str).unwrap_or("gen");
    let stdout = std::io::stdout();
    let mut out = std::io::BufWriter::new(stdout.lock());
    match mode {
        "gen" => {
            let tier = args.iter().position(|a| a == "--tier").and_then(|i| args.get(i + 1)).map(String::as_str).unwrap_or("quick").to_string();
            let mut emit = |c: Case| {
                let obs = match std::panic::catch_unwind(std::panic::AssertUnwindSafe(|| run_case(&c.fields))) {
                    Ok(o) => o,
                    Err(_) => "PANIC".to_string(),
                };
                let tags: Vec<String> = c.tags.iter().map(|(k, v)| format!("{k}={v}")).collect();
                writeln!(out, "CASE\t{}\t{}\t{}\t#nt={};{}", prop, c.fields.join("\t"), obs, u8::from(c.nontrivial), tags.join(";")).unwrap();
            };
            generate(&tier, seed(), &mut emit);
        }
        "run" => {
            let stdin = std::io::stdin();
            for line in stdin.lock().lines() {
                let line = line.unwrap();
                let fields: Vec<String> = line.split('\t').map(str::to_string).collect();
                let obs = match std::panic::catch_unwind(std::panic::AssertUnwindSafe(|| run_case(&fields))) {
                    Ok(o) => o,
                    Err(_) => "PANIC".to_string(),
                };
                writeln!(out, "CASE\t{}\t{}\t{}\t#nt=0;", prop, fields.join("\t"), obs).unwrap();
            }
        }
        _ => { eprintln!("usage: {prop} gen --tier quick|thorough | run < fields"); std::process::exit(2); }
    }
    out.flush().unwrap();
}
