//! Alternative textual layouts of one TOML value tree (used by C06, C08): the same logical document written with `[table]`
//! headers / inline tables / dotted keys / arrays of tables as `[[x]]` or inline, implicit super-tables, keys in any order and
//! in bare / basic / literal spelling, strings in basic / literal / multi-line / escaped spelling, integers in decimal / signed /
//! underscored / hex / octal / binary spelling, CRLF line ends, a byte order mark, comments, blank lines, indentation, odd spacing
//! and a missing final newline. Every choice comes from the `Rng` handed in. The emitter never changes the value tree: a caller
//! that wants to be sure parses the text back and compares (`same_tree`).
use crate::Rng;
use toml::Value;

#[derive(Clone, Debug, PartialEq, Eq)]
pub enum Tables { Mixed, Headers, Inline, Dotted }
#[derive(Clone, Debug, PartialEq, Eq)]
pub enum Strings { Mixed, Basic, Literal, Escaped, Multi }

#[derive(Clone, Debug)]
pub struct Style {
    pub tables: Tables,
    pub strings: Strings,
    pub crlf: bool,
    pub bom: bool,
    pub comments: bool,
    pub blank: bool,
    pub indent: bool,
    pub shuffle: bool,
    pub spacing: bool,
    pub altnum: bool,
    pub quoted_keys: bool,
    pub implicit_parents: bool,
    pub no_final_newline: bool,
}

impl Style {
    /// what `toml::to_string` would roughly write: headers, basic strings, nothing fancy
    pub fn plain() -> Style {
        Style { tables: Tables::Headers, strings: Strings::Basic, crlf: false, bom: false, comments: false, blank: false, indent: false, shuffle: false, spacing: false,
            altnum: false, quoted_keys: false, implicit_parents: false, no_final_newline: false }
    }
    /// the `k`-th of the directed styles: each switches one feature on (so a behaviour keyed on one feature shows up alone)
    pub fn directed(k: usize) -> Style {
        let mut s = Style::plain();
        match k % Style::N_DIRECTED {
            0 => {}
            1 => s.tables = Tables::Inline,
            2 => s.tables = Tables::Dotted,
            3 => s.tables = Tables::Mixed,
            4 => s.strings = Strings::Literal,
            5 => s.strings = Strings::Escaped,
            6 => s.strings = Strings::Multi,
            7 => s.crlf = true,
            8 => s.bom = true,
            9 => s.comments = true,
            10 => { s.blank = true; s.indent = true; s.spacing = true; }
            11 => s.shuffle = true,
            12 => s.altnum = true,
            13 => s.quoted_keys = true,
            14 => s.implicit_parents = true,
            15 => s.no_final_newline = true,
            _ => { s.bom = true; s.crlf = true; s.comments = true; }
        }
        s
    }
    pub const N_DIRECTED: usize = 17;
    pub fn random(r: &mut Rng) -> Style {
        Style {
            tables: match r.below(4) { 0 => Tables::Headers, 1 => Tables::Inline, 2 => Tables::Dotted, _ => Tables::Mixed },
            strings: match r.below(6) { 0 => Strings::Basic, 1 => Strings::Literal, 2 => Strings::Escaped, 3 => Strings::Multi, _ => Strings::Mixed },
            crlf: r.chance(1, 4), bom: r.chance(1, 5), comments: r.chance(1, 3), blank: r.chance(1, 3), indent: r.chance(1, 4), shuffle: r.chance(1, 2),
            spacing: r.chance(1, 4), altnum: r.chance(1, 3), quoted_keys: r.chance(1, 3), implicit_parents: r.chance(1, 3), no_final_newline: r.chance(1, 6),
        }
    }
    /// short tag for the evidence's distribution
    pub fn tag(&self) -> String {
        let mut t = vec![match self.tables { Tables::Mixed => "mixed", Tables::Headers => "headers", Tables::Inline => "inline", Tables::Dotted => "dotted" }.to_string()];
        match self.strings { Strings::Basic => {}, Strings::Mixed => t.push("strmix".into()), Strings::Literal => t.push("literal".into()), Strings::Escaped => t.push("escaped".into()), Strings::Multi => t.push("multiline".into()) }
        for (on, name) in [(self.crlf, "crlf"), (self.bom, "bom"), (self.comments, "comments"), (self.blank, "blank"), (self.indent, "indent"), (self.shuffle, "shuffle"), (self.spacing, "spacing"),
            (self.altnum, "altnum"), (self.quoted_keys, "qkeys"), (self.implicit_parents, "implicit"), (self.no_final_newline, "nofinalnl")] { if on { t.push(name.into()); } }
        t.join("+")
    }
}

/// bit-exact comparison of two value trees (floats by their bits, tables as sets of entries)
pub fn same_tree(a: &Value, b: &Value) -> bool { crate::tomlwire::to_wire(a) == crate::tomlwire::to_wire(b) }

fn is_bare(k: &str) -> bool { !k.is_empty() && k.bytes().all(|b| b.is_ascii_alphanumeric() || b == b'_' || b == b'-') }
fn ctl(c: char) -> bool { (c as u32) < 0x20 || c as u32 == 0x7f }

fn basic(s: &str, escape_all_non_ascii: bool) -> String {
    let mut o = String::from("\"");
    for c in s.chars() {
        match c {
            '"' => o.push_str("\\\""), '\\' => o.push_str("\\\\"), '\n' => o.push_str("\\n"), '\t' => o.push_str("\\t"), '\r' => o.push_str("\\r"),
            '\u{8}' => o.push_str("\\b"), '\u{c}' => o.push_str("\\f"),
            c if ctl(c) => o.push_str(&format!("\\u{:04X}", c as u32)),
            c if escape_all_non_ascii && !c.is_ascii() => { let n = c as u32; if n <= 0xffff { o.push_str(&format!("\\u{n:04x}")); } else { o.push_str(&format!("\\U{n:08X}")); } }
            c => o.push(c),
        }
    }
    o.push('"');
    o
}
fn literal_ok(s: &str) -> bool { !s.contains('\'') && s.chars().all(|c| c == '\t' || !ctl(c)) }
fn multi_literal_ok(s: &str) -> bool { !s.contains('\'') && !s.contains('\r') && s.chars().all(|c| c == '\t' || c == '\n' || !ctl(c)) }
fn multi_basic(s: &str, r: &mut Rng) -> String {
    let mut o = String::from("\"\"\"\n");
    let cs: Vec<char> = s.chars().collect();
    for (i, c) in cs.iter().enumerate() {
        // a line-ending backslash: the parser drops it together with the white space up to the next non-blank character
        if i > 0 && !c.is_whitespace() && r.chance(1, 12) { o.push_str("\\\n   \t"); }
        match *c {
            '"' => o.push_str("\\\""), '\\' => o.push_str("\\\\"), '\n' => o.push('\n'), '\t' => o.push('\t'), '\r' => o.push_str("\\r"),
            c if ctl(c) => o.push_str(&format!("\\u{:04X}", c as u32)),
            c => o.push(c),
        }
    }
    o.push_str("\"\"\"");
    o
}

fn emit_string(s: &str, st: &Style, r: &mut Rng) -> String {
    let which = match st.strings { Strings::Basic => 0, Strings::Literal => 1, Strings::Escaped => 2, Strings::Multi => 3, Strings::Mixed => r.below(5) };
    match which {
        1 if literal_ok(s) => format!("'{s}'"),
        2 => basic(s, true),
        3 => if r.chance(1, 2) && multi_literal_ok(s) { format!("'''\n{s}'''") } else { multi_basic(s, r) },
        4 if multi_literal_ok(s) => format!("'''{}'''", if s.starts_with('\n') { format!("\n{s}") } else { s.to_string() }),
        _ => basic(s, false),
    }
}
fn emit_key(k: &str, st: &Style, r: &mut Rng) -> String {
    if is_bare(k) && !(st.quoted_keys && r.chance(1, 2)) { return k.to_string(); }
    if literal_ok(k) && !k.contains('\n') && r.chance(1, 2) { format!("'{k}'") } else { basic(k, st.strings == Strings::Escaped) }
}
fn emit_int(i: i64, st: &Style, r: &mut Rng) -> String {
    if !st.altnum { return i.to_string(); }
    match r.below(6) {
        0 if i >= 0 => format!("+{i}"),
        1 if i >= 0 => format!("0x{i:X}"),
        2 if i >= 0 => format!("0o{i:o}"),
        3 if i >= 0 => format!("0b{i:b}"),
        4 => {
            // underscores between digits
            let d = i.unsigned_abs().to_string();
            let mut o = String::new();
            for (j, c) in d.chars().enumerate() { if j > 0 && (d.len() - j) % 3 == 0 { o.push('_'); } o.push(c); }
            if i < 0 { format!("-{o}") } else { o }
        }
        _ => i.to_string(),
    }
}
fn emit_float(f: f64, st: &Style, r: &mut Rng) -> String {
    if f.is_nan() { return if f.is_sign_negative() { "-nan".into() } else { "nan".into() }; }
    if f.is_infinite() { return if f < 0.0 { "-inf".into() } else if st.altnum && r.chance(1, 2) { "+inf".into() } else { "inf".into() }; }
    let t = format!("{f:?}");
    if st.altnum && f.is_sign_positive() && r.chance(1, 3) { format!("+{t}") } else { t }
}
fn emit_datetime(d: &toml::value::Datetime, st: &Style, r: &mut Rng) -> String {
    let t = d.to_string();
    if st.altnum && d.date.is_some() && d.time.is_some() && r.chance(1, 2) { t.replacen('T', " ", 1) } else { t }
}

fn emit_inline(v: &Value, st: &Style, r: &mut Rng) -> String {
    match v {
        Value::String(s) => {
            // no raw line breaks inside an inline table / array element written on one line
            let e = emit_string(s, st, r);
            if e.contains('\n') { basic(s, false) } else { e }
        }
        Value::Integer(i) => emit_int(*i, st, r),
        Value::Float(f) => emit_float(*f, st, r),
        Value::Boolean(b) => b.to_string(),
        Value::Datetime(d) => emit_datetime(d, st, r),
        Value::Array(a) => {
            let items: Vec<String> = a.iter().map(|x| emit_inline(x, st, r)).collect();
            if st.spacing && r.chance(1, 2) { format!("[{}]", items.join(",")) } else { format!("[{}]", items.join(", ")) }
        }
        Value::Table(t) => {
            if t.is_empty() { return if st.spacing { "{ }".into() } else { "{}".into() }; }
            let mut keys: Vec<&String> = t.keys().collect();
            if st.shuffle { r.shuffle(&mut keys); }
            let items: Vec<String> = keys.iter().map(|k| format!("{} = {}", emit_key(k, st, r), emit_inline(&t[*k], st, r))).collect();
            format!("{{ {} }}", items.join(", "))
        }
    }
}

/// a value at statement level: strings may be multi-line, arrays may be spread over lines (with comments)
fn emit_statement_value(v: &Value, st: &Style, r: &mut Rng) -> String {
    match v {
        Value::String(s) => emit_string(s, st, r),
        Value::Array(a) if !a.is_empty() && r.chance(1, 3) => {
            let mut o = String::from("[\n");
            for x in a {
                o.push_str("  ");
                o.push_str(&emit_inline(x, st, r));
                o.push(',');
                if st.comments && r.chance(1, 3) { o.push_str(" # element"); }
                o.push('\n');
            }
            o.push(']');
            o
        }
        _ => emit_inline(v, st, r),
    }
}

fn path_text(path: &[String], st: &Style, r: &mut Rng) -> String {
    let sep = if st.spacing && r.chance(1, 2) { " . " } else { "." };
    path.iter().map(|k| emit_key(k, st, r)).collect::<Vec<_>>().join(sep)
}

/// dotted statements for everything below `prefix` (a table written without a header of its own)
fn flatten(prefix: &[String], t: &toml::Table, st: &Style, r: &mut Rng, out: &mut Vec<String>) {
    for (k, v) in t {
        let mut p = prefix.to_vec();
        p.push(k.clone());
        match v {
            Value::Table(sub) if !sub.is_empty() && r.chance(3, 4) => flatten(&p, sub, st, r, out),
            _ => out.push(statement(&path_text(&p, st, r), &emit_statement_value(v, st, r), st, r)),
        }
    }
}
fn statement(key: &str, value: &str, st: &Style, r: &mut Rng) -> String {
    let eq = if st.spacing { *r.pick(&["=", " = ", "\t=\t", "  =", "=  "]) } else { " = " };
    format!("{key}{eq}{value}")
}

/// the statements and sections of one table body
fn body(path: &[String], t: &toml::Table, st: &Style, r: &mut Rng, lines: &mut Vec<String>) {
    let mut simple: Vec<String> = vec![];
    let mut sections: Vec<Vec<String>> = vec![];
    for (k, v) in t {
        let mut p = path.to_vec();
        p.push(k.clone());
        match v {
            Value::Table(sub) => {
                let how = match st.tables { Tables::Headers => 0, Tables::Inline => 1, Tables::Dotted => 2, Tables::Mixed => r.below(3) };
                match how {
                    1 => simple.push(statement(&emit_key(k, st, r), &emit_inline(v, st, r), st, r)),
                    2 if !sub.is_empty() => flatten(&[k.clone()], sub, st, r, &mut simple),
                    2 => simple.push(statement(&emit_key(k, st, r), "{}", st, r)),
                    _ => {
                        let mut sec = vec![];
                        let mut inner = vec![];
                        body(&p, sub, st, r, &mut inner);
                        // an implicit super-table: the header may be left out when the table only holds sub-sections
                        let only_sections = !inner.is_empty() && inner[0].starts_with('[');
                        if !(st.implicit_parents && only_sections && r.chance(2, 3)) { sec.push(header(&p, false, st, r)); }
                        sec.extend(inner);
                        sections.push(sec);
                    }
                }
            }
            Value::Array(a) if !a.is_empty() && a.iter().all(Value::is_table) && st.tables != Tables::Inline && (st.tables != Tables::Mixed || r.chance(2, 3)) => {
                let mut sec = vec![];
                for el in a {
                    sec.push(header(&p, true, st, r));
                    body(&p, el.as_table().unwrap(), st, r, &mut sec);
                }
                sections.push(sec);
            }
            _ => simple.push(statement(&emit_key(k, st, r), &emit_statement_value(v, st, r), st, r)),
        }
    }
    if st.shuffle { r.shuffle(&mut simple); r.shuffle(&mut sections); }
    lines.extend(simple);
    for s in sections { lines.extend(s); }
}
fn header(path: &[String], array: bool, st: &Style, r: &mut Rng) -> String {
    let inner = path_text(path, st, r);
    let inner = if st.spacing && r.chance(1, 2) { format!(" {inner} ") } else { inner };
    if array { format!("[[{inner}]]") } else { format!("[{inner}]") }
}

/// one of the texts of the document `doc` in the given style
pub fn emit(doc: &toml::Table, st: &Style, r: &mut Rng) -> String {
    let mut lines: Vec<String> = vec![];
    body(&[], doc, st, r, &mut lines);
    let nl = if st.crlf { "\r\n" } else { "\n" };
    let mut out = String::new();
    if st.bom { out.push('\u{feff}'); }
    if st.comments && r.chance(1, 2) { out.push_str("# generated document"); out.push_str(nl); }
    let n = lines.len();
    for (i, l) in lines.iter().enumerate() {
        if st.blank && r.chance(1, 3) { out.push_str(nl); }
        if st.comments && r.chance(1, 4) { out.push_str(*r.pick(&["# a comment", "#", "  # indented comment with \"quotes\" = [brackets]", "#[not.a.header]", "# key = \"value\""])); out.push_str(nl); }
        if st.indent { out.push_str(*r.pick(&["", "  ", "\t", "    "])); }
        out.push_str(l);
        if st.comments && r.chance(1, 4) { out.push_str(*r.pick(&[" # trailing", "\t#t", " #"])); }
        else if st.spacing && r.chance(1, 4) { out.push_str(*r.pick(&[" ", "\t", "  "])); }
        if i + 1 < n || !st.no_final_newline { out.push_str(nl); }
    }
    if st.comments && !st.no_final_newline && r.chance(1, 3) { out.push_str("# the end"); if r.chance(1, 2) { out.push_str(nl); } }
    out
}

#[cfg(test)]
mod tests {
    use super::*;
    const STRS: &[&str] = &["", "a", "value", "two words", "line1\nline2\n", "\nleading newline", "tab\there", "quote\"back\\slash", "it's", "ünï¢ødé", "日本語", "\u{1F980}", "\u{0}\u{1}\u{7f}",
        "a=b:c,d;e|f", "'''", "\"\"\"", " lead and trail ", "# not a comment", "\r\n", "\r", "[x]", "{y}", "\u{feff}bom", "trailing backslash\\", "\u{8}\u{c}", "  \n  indented"];
    const KEYS: &[&str] = &["k", "key", "version", "a-b", "a_b", "1", "with space", "dotted.key", "ü", "", "\"q\"", "Key", "name", "metadata", "a\nb", "'", "#", "[", "=", "\u{feff}"];
    fn value(r: &mut Rng, depth: u32) -> Value {
        match r.below(if depth >= 4 { 5 } else { 8 }) {
            0 => Value::String(r.pick(STRS).to_string()),
            1 => Value::Integer(*r.pick(&[0i64, 1, -1, 42, 255, 1000, 1234567, i64::MAX, i64::MIN])),
            2 => Value::Boolean(r.chance(1, 2)),
            3 => Value::Float(*r.pick(&[1.5, -0.25, 3.0, 6.02e23, f64::INFINITY, f64::NEG_INFINITY, 0.1, 1e-7, -0.0, 0.0, 1e300])),
            4 => Value::Datetime(r.pick(&["1979-05-27T07:32:00Z", "1979-05-27T00:32:00-07:00", "1979-05-27T07:32:00", "1979-05-27", "07:32:00", "1979-05-27T00:32:00.999999-07:00"]).parse().unwrap()),
            5 => Value::Array((0..r.below(4)).map(|_| value(r, depth + 1)).collect()),
            6 => Value::Array((0..r.below(4)).map(|_| Value::Table(table(r, depth + 1))).collect()),
            _ => Value::Table(table(r, depth + 1)),
        }
    }
    fn table(r: &mut Rng, depth: u32) -> toml::Table {
        let mut t = toml::Table::new();
        for _ in 0..r.below(5) { t.insert(r.pick(KEYS).to_string(), value(r, depth)); }
        t
    }
    #[test]
    fn every_layout_reads_back_as_the_tree() {
        let mut bad = 0;
        for i in 0..60_000u64 {
            let mut r = Rng::for_case(7, i);
            let doc = table(&mut r, 0);
            let st = if i % 3 == 0 { Style::directed(i as usize / 3) } else { Style::random(&mut r) };
            let text = emit(&doc, &st, &mut r);
            match toml::from_str::<toml::Table>(&text) {
                Ok(back) if same_tree(&Value::Table(back.clone()), &Value::Table(doc.clone())) => {}
                other => { bad += 1; if bad <= 5 { eprintln!("case {i} style {} text:\n{text:?}\n{text}\n-> {other:?}\nwanted {doc:?}\n", st.tag()); } }
            }
        }
        assert_eq!(bad, 0);
    }
}
