//! Wire form of TOML value trees on the line protocol (see lean/CnbVerif/Base/TomlWire.lean):
//! `T<n> (K<hex key> value)*n | A<n> value*n | S<hex> | I<int> | B0|B1 | F<hex ieee bits> | D<hex text>`,
//! tokens separated by one space, table entries sorted by key. Used by C07, C08.
use crate::{hex, unhex};
use toml::Value;

pub fn to_wire(v: &Value) -> String { let mut out = vec![]; push(v, &mut out); out.join(" ") }

fn push(v: &Value, out: &mut Vec<String>) {
    match v {
        Value::String(s) => out.push(format!("S{}", hex(s.as_bytes()))),
        Value::Integer(i) => out.push(format!("I{i}")),
        Value::Boolean(b) => out.push(format!("B{}", u8::from(*b))),
        Value::Float(f) => out.push(format!("F{:016x}", f.to_bits())),
        Value::Datetime(d) => out.push(format!("D{}", hex(d.to_string().as_bytes()))),
        Value::Array(a) => { out.push(format!("A{}", a.len())); for x in a { push(x, out); } }
        Value::Table(t) => {
            out.push(format!("T{}", t.len()));
            let mut keys: Vec<&String> = t.keys().collect();
            keys.sort();
            for k in keys { out.push(format!("K{}", hex(k.as_bytes()))); push(&t[k], out); }
        }
    }
}

pub fn from_wire(s: &str) -> Option<Value> {
    let toks: Vec<&str> = s.split(' ').collect();
    let mut pos = 0;
    let v = parse(&toks, &mut pos)?;
    if pos == toks.len() { Some(v) } else { None }
}

fn parse(toks: &[&str], pos: &mut usize) -> Option<Value> {
    let tok = *toks.get(*pos)?;
    *pos += 1;
    let (tag, body) = (tok.chars().next()?, &tok[1..]);
    Some(match tag {
        'S' => Value::String(String::from_utf8(unhex(body)?).ok()?),
        'I' => Value::Integer(body.parse().ok()?),
        'B' => Value::Boolean(match body { "1" => true, "0" => false, _ => return None }),
        'F' => Value::Float(f64::from_bits(u64::from_str_radix(body, 16).ok()?)),
        'D' => Value::Datetime(String::from_utf8(unhex(body)?).ok()?.parse().ok()?),
        'A' => { let n: usize = body.parse().ok()?; let mut a = vec![]; for _ in 0..n { a.push(parse(toks, pos)?); } Value::Array(a) }
        'T' => {
            let n: usize = body.parse().ok()?;
            let mut t = toml::Table::new();
            for _ in 0..n {
                let k = *toks.get(*pos)?; *pos += 1;
                let key = String::from_utf8(unhex(k.strip_prefix('K')?)?).ok()?;
                let v = parse(toks, pos)?;
                t.insert(key, v);
            }
            Value::Table(t)
        }
        _ => return None,
    })
}

/// A decoded (typed) value in the model's vocabulary (`Val` in Base/Schema.lean), rendered like `Val.render`.
#[derive(Clone, Debug)]
pub enum V { S(String), I(i64), B(bool), N, X(Value), A(Vec<V>), R(Vec<(String, V)>), Var(usize, Box<V>) }

impl V {
    pub fn render(&self) -> String {
        match self {
            V::S(s) => format!("S{}", hex(s.as_bytes())),
            V::I(i) => format!("I{i}"),
            V::B(b) => format!("B{}", u8::from(*b)),
            V::N => "N".into(),
            V::X(v) => format!("X {}", to_wire(v)),
            V::A(xs) => { let mut s = format!("A{}", xs.len()); for x in xs { s.push(' '); s.push_str(&x.render()); } s }
            V::R(kvs) => {
                let mut kvs: Vec<&(String, V)> = kvs.iter().collect();
                kvs.sort_by(|a, b| a.0.cmp(&b.0));
                let mut s = format!("R{}", kvs.len());
                for (k, v) in kvs { s.push_str(&format!(" K{} {}", hex(k.as_bytes()), v.render())); }
                s
            }
            V::Var(i, v) => format!("V{i} {}", v.render()),
        }
    }
    pub fn strs<S: AsRef<str>>(xs: impl IntoIterator<Item = S>) -> V { V::A(xs.into_iter().map(|s| V::S(s.as_ref().to_string())).collect()) }
    pub fn opt_s(x: &Option<String>) -> V { match x { Some(s) => V::S(s.clone()), None => V::N } }
    pub fn rec(fields: Vec<(&str, V)>) -> V { V::R(fields.into_iter().map(|(k, v)| (k.to_string(), v)).collect()) }
}
