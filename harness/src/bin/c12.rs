//! C12 fault enumeration: every (operation, prepared state) pair is first run without a fault under the `faultfs.so`
//! LD_PRELOAD shim (harness/shim/faultfs.c) to record the real list of file-system calls beneath the temp prefix; then,
//! for every position k of that list and every errno, the pair is re-run in a fresh directory with the k-th call failing.
//!
//! Case fields: `op  state  k  errno`   (k = `ff` and errno = `-` for the fault-free trace case)
//! Observation of a fault case:   `err | ok:same | ok:diff`  `|`  `<class>:<path>:<fault-free result of that call>`  `|`  `<occ>`
//!     (occ = how many earlier std calls of the fault-free trace issue a libc call with the same class, path and result)
//!     (ok:same = the call returned Ok / the phase exited 0 and the directory snapshot equals the fault-free one)
//! Observation of a trace case:   `<result>|<sorted set of class:path:result>|<prepared state>|<final state>`
//!     states as canonical snapshots: `D path`, `F path token` (layer TOML as parsed document, phase outputs by recognised payload).
//! Layer operations run in the child `c12op` (one public-API call, shim armed only around it); the detect/build phases run
//! the real `buildpack_main!` executable `tbp`.
use cnbv::*;
use libcnb::data::layer_content_metadata::LayerContentMetadata;
use libcnb::generic::GenericMetadata;
use std::collections::HashMap;
use std::path::{Path, PathBuf};
use std::process::{Command, Stdio};
use std::sync::{Arc, Mutex, OnceLock};

fn exe_dir() -> PathBuf { std::env::current_exe().unwrap().parent().unwrap().to_path_buf() }
fn shim_path() -> PathBuf { exe_dir().parent().unwrap().join("faultfs.so") }

/// Build the shim if it is missing or older than its source (setup.sh builds it too).
fn ensure_shim() {
    let so = shim_path();
    let src = exe_dir().parent().unwrap().parent().unwrap().join("shim/faultfs.c");
    let stale = match (std::fs::metadata(&so).and_then(|m| m.modified()), std::fs::metadata(&src).and_then(|m| m.modified())) {
        (Ok(a), Ok(b)) => a < b,
        (Err(_), _) => true,
        _ => false,
    };
    if stale {
        let tmp = so.with_extension(format!("so.{}", std::process::id()));
        let st = Command::new("gcc").args(["-shared", "-fPIC", "-O1", "-o"]).arg(&tmp).arg(&src).arg("-ldl").stderr(Stdio::null()).status();
        match st { Ok(s) if s.success() => { std::fs::rename(&tmp, &so).unwrap(); } _ => { eprintln!("c12: cannot build {}", so.display()); std::process::exit(2); } }
    }
}

// ------------------------------------------------------------------------------------------------ the pairs
const LAYER_PAIRS: &[(&str, &[&str])] = &[
    ("cached-keep", &["absent", "orphan", "bare", "min", "typed", "full", "invalid", "broken"]),
    ("cached-del", &["min", "full"]),
    ("cached-repl", &["invalid"]),
    // callbacks that depend on what was read from disk: a real migration of the old metadata (invalid / richinv), a
    // restored_layer_action / existing_layer_strategy / update looking at the metadata and the env read back
    ("cached-migrate", &["min", "invalid", "richinv", "broken", "stale"]),
    ("t-migrate", &["min", "full", "invalid", "richinv", "stale"]),
    ("uncached", &["absent", "orphan", "full"]),
    ("wmeta", &["absent", "full"]),
    ("wenv", &["absent", "full"]),
    ("wenv-empty", &["full"]),
    ("wenv-proc", &["absent", "full"]),
    ("wsbom", &["absent", "full"]),
    ("wsbom-none", &["full"]),
    ("wexecd", &["absent", "full"]),
    ("wexecd-none", &["full"]),
    ("t-recreate", &["absent", "orphan", "full"]),
    ("t-update", &["min", "full"]),
    ("t-keep", &["min", "full"]),
    ("t-mig-replace", &["invalid"]),
    ("t-mig-recreate", &["invalid"]),
    ("envwrite", &["bare", "full", "rich"]),
    ("envwrite-empty", &["full"]),
    // further operations: several entries per scope and two process types, all three / only the middle SBOM format, an SBOM
    // and an env value without bytes, several exec.d programs, trait-API results of that size
    ("wenv-multi", &["absent", "rich"]),
    ("wenv-emptyval", &["full", "emptyvals"]),
    ("wsbom-all", &["full", "spdx"]),
    ("wsbom-spdx", &["rich"]),
    ("wsbom-empty", &["full", "emptyvals"]),
    ("wexecd-multi", &["absent", "rich"]),
    ("t-recreate-multi", &["absent", "rich"]),
    ("t-update-multi", &["min", "rich"]),
];
/// further (operation, state) pairs of the quick tier: the operations above on the further prepared states
const MORE_PAIRS: &[(&str, &[&str])] = &[
    ("cached-del", &["spdx", "rich", "wide"]),
    ("cached-repl", &["richinv"]),
    ("uncached", &["spdx"]),
    ("wsbom", &["spdx", "rich"]),
    ("wsbom-none", &["spdx", "rich"]),
    ("wexecd", &["rich"]),
    ("wexecd-none", &["rich", "wide"]),
    ("wenv", &["rich"]),
    ("wenv-empty", &["rich"]),
    ("t-recreate", &["spdx"]),
    ("t-update", &["emptyvals"]),
    ("t-keep", &["rich", "wide", "emptyvals"]),
    ("t-mig-replace", &["richinv"]),
    ("t-mig-recreate", &["richinv"]),
];
const PHASE_PAIRS: &[(&str, &[&str])] = &[
    ("detect-plan", &["clean", "existing"]),
    ("build-all", &["clean", "existing"]),
    ("build-none", &["existing"]),
    ("build-sboms", &["clean", "existing"]),
];
fn is_phase(op: &str) -> bool { op.starts_with("detect") || op.starts_with("build") }

const ERRNOS: &[(&str, i32)] = &[("EIO", 5), ("EACCES", 13), ("ENOSPC", 28), ("ENOENT", 2)];
fn errno_num(name: &str) -> Option<i32> { ERRNOS.iter().find(|(n, _)| *n == name).map(|(_, v)| *v) }
/// calls that belong to a delete (the only ones ENOENT is injected at: the property excludes not-found on best-effort deletes)
fn delete_class(class: &str) -> bool { matches!(class, "unlink" | "rmdir" | "chmod" | "opendir") }

// ------------------------------------------------------------------------------------------------ running a child
#[derive(Clone, Debug)]
struct Call { class: String, path: String, res: String, inj: bool }
#[derive(Clone, Debug)]
struct RunOut { result: String, log: Vec<Call>, raw: String, canon: String }

const OLD: &str = "OLD-CONTENT\n";
const OLD_STORE: &str = "[metadata]\nold = true\n";

fn prepare_phase(root: &Path, state: &str) {
    for d in ["fs/layers", "bp/bin", "app", "plat", "work"] { std::fs::create_dir_all(root.join(d)).unwrap(); }
    for n in ["detect", "build"] { std::os::unix::fs::symlink(exe_dir().join("tbp"), root.join("bp/bin").join(n)).unwrap(); }
    std::fs::write(root.join("bp/buildpack.toml"), "api = \"0.10\"\n[buildpack]\nid = \"tbp/c12\"\nversion = \"0.0.1\"\n").unwrap();
    std::fs::write(root.join("work/bpplan.toml"), "[[entries]]\nname = \"x\"\n").unwrap();
    if state == "existing" {
        std::fs::write(root.join("fs/plan.toml"), OLD).unwrap();
        std::fs::write(root.join("fs/layers/launch.toml"), OLD).unwrap();
        std::fs::write(root.join("fs/layers/store.toml"), OLD_STORE).unwrap();
        std::fs::write(root.join("fs/layers/build.sbom.cdx.json"), OLD).unwrap();
    }
}

fn parse_log(p: &Path) -> Vec<Call> {
    let text = std::fs::read_to_string(p).unwrap_or_default();
    text.lines().filter_map(|l| { let f: Vec<&str> = l.split('\t').collect();
        (f.len() >= 4).then(|| Call { class: f[1].into(), path: f[2].into(), res: f[3].into(), inj: f.get(4) == Some(&"INJ") }) }).collect()
}

fn run_child(op: &str, state: &str, fail: Option<(usize, i32)>) -> Result<RunOut, String> {
    let tmp = tempfile::Builder::new().prefix("c12-").tempdir().map_err(|e| e.to_string())?;
    let root = tmp.path();
    let log = root.join("faultfs.log");
    let mut cmd;
    if is_phase(op) {
        prepare_phase(root, state);
        let s = |p: PathBuf| p.to_str().unwrap().to_string();
        let (name, args) = if op.starts_with("detect") { ("detect", vec![s(root.join("plat")), s(root.join("fs/plan.toml"))]) }
            else { ("build", vec![s(root.join("fs/layers")), s(root.join("plat")), s(root.join("work/bpplan.toml"))]) };
        cmd = Command::new(root.join("bp/bin").join(name));
        cmd.args(args).env_clear().current_dir(root.join("app"))
            .env("CNB_BUILDPACK_DIR", root.join("bp")).env("CNB_TARGET_OS", "linux").env("CNB_TARGET_ARCH", "amd64")
            .env("CNB_TARGET_DISTRO_NAME", "ubuntu").env("CNB_TARGET_DISTRO_VERSION", "24.04")
            .env("TBP_DETECT", "passplan")
            .env("TBP_BUILD", if op == "build-all" { "ok:launch,store,b.cdx,l.spdx" } else if op == "build-sboms" { "ok:launch,store,b.cdx,b.spdx,b.syft,l.cdx,l.spdx,l.syft" } else { "ok:" });
    } else {
        cmd = Command::new(exe_dir().join("c12op"));
        cmd.args(["run", root.to_str().unwrap(), op, state]).env("FAULTFS_START", "disarmed");
    }
    // FAULTFS_FIXED_RANDOM: the child's HashMaps (per-process env deltas, exec.d programs) iterate in the same order in every run
    cmd.env("LD_PRELOAD", shim_path()).env("FAULTFS_PREFIX", root.join("fs")).env("FAULTFS_LOG", &log).env("FAULTFS_FIXED_RANDOM", "1")
        .stdin(Stdio::null()).stderr(Stdio::null()).stdout(Stdio::piped());
    if let Some((k, e)) = fail { cmd.env("FAULTFS_FAIL_AT", k.to_string()).env("FAULTFS_ERRNO", e.to_string()); } else { cmd.env_remove("FAULTFS_FAIL_AT"); }
    let out = cmd.output().map_err(|e| format!("spawn: {e}"))?;
    let result = if is_phase(op) {
        match out.status.code() { Some(0) => "ok".to_string(), Some(c) => format!("err:exit{c}"), None => "err:signal".to_string() }
    } else {
        if out.status.code() != Some(0) { return Err(format!("c12op failed: {:?}", out.status)); }
        String::from_utf8_lossy(&out.stdout).trim().to_string()
    };
    let fsroot = root.join("fs");
    Ok(RunOut { result, log: parse_log(&log), raw: snapshot(&fsroot), canon: canon_snapshot(&fsroot) })
}

/// canonical snapshot of the prepared state (before the call)
fn prepared_snapshot(op: &str, state: &str) -> Result<String, String> {
    let tmp = tempfile::Builder::new().prefix("c12p-").tempdir().map_err(|e| e.to_string())?;
    if is_phase(op) { prepare_phase(tmp.path(), state); }
    else {
        let st = Command::new(exe_dir().join("c12op")).args(["prepare", tmp.path().to_str().unwrap(), state]).stdout(Stdio::null()).stderr(Stdio::null()).status().map_err(|e| e.to_string())?;
        if !st.success() { return Err("c12op prepare failed".into()); }
    }
    Ok(canon_snapshot(&tmp.path().join("fs")))
}

// ------------------------------------------------------------------------------------------------ canonical snapshot
fn layer_toml_token(b: &[u8]) -> String {
    let Ok(s) = std::str::from_utf8(b) else { return "lt:B".into() };
    match toml::from_str::<LayerContentMetadata<GenericMetadata>>(s) {
        Err(_) => "lt:B".into(),
        Ok(d) => {
            let int = |t: &toml::Table, k: &str| t.get(k).and_then(toml::Value::as_integer).map_or("~".to_string(), |x| x.to_string());
            format!("lt:{}/{}", d.types.map_or("~".into(), |t| format!("{}{}{}", u8::from(t.launch), u8::from(t.build), u8::from(t.cache))),
                d.metadata.as_ref().map_or("~".to_string(), |t| format!("{}_{}", int(t, "v"), int(t, "w"))))
        }
    }
}
fn phase_doc_token(name: &str, b: &[u8]) -> Option<String> {
    let v: toml::Value = toml::from_str(std::str::from_utf8(b).ok()?).ok()?;
    let t = v.as_table()?;
    match name {
        "plan.toml" => { let p = t.get("provides")?.as_array()?; (p.len() == 1 && p[0].get("name")?.as_str()? == "tbp-plan").then(|| "doc:plan-new".to_string()) }
        "launch.toml" => { let p = t.get("processes")?.as_array()?; (p.len() == 1 && p[0].get("type")?.as_str()? == "tbpweb").then(|| "doc:launch-new".to_string()) }
        "store.toml" => { let m = t.get("metadata")?.as_table()?;
            if m.get("tbp").and_then(toml::Value::as_str) == Some("new") { Some("doc:store-new".into()) } else if m.get("old").and_then(toml::Value::as_bool) == Some(true) { Some("doc:store-old".into()) } else { None } }
        _ => None,
    }
}
fn canon_snapshot(root: &Path) -> String {
    fn walk(root: &Path, dir: &Path, out: &mut Vec<String>) {
        let mut es: Vec<_> = std::fs::read_dir(dir).map(|rd| rd.filter_map(Result::ok).collect()).unwrap_or_default();
        es.sort_by_key(|e| e.file_name());
        for e in es {
            let p = e.path();
            let rel = p.strip_prefix(root).unwrap().to_string_lossy().to_string();
            let md = std::fs::symlink_metadata(&p).unwrap();
            if md.file_type().is_symlink() { out.push(format!("L {rel}")); }
            else if md.is_dir() { out.push(format!("D {rel}")); walk(root, &p, out); }
            else {
                let b = std::fs::read(&p).unwrap_or_default();
                let name = p.file_name().unwrap().to_string_lossy().to_string();
                let parent_is_layers = p.parent().and_then(Path::file_name).map(|n| n == "layers").unwrap_or(false);
                let tok = if matches!(name.as_str(), "plan.toml" | "launch.toml" | "store.toml") { phase_doc_token(&name, &b).unwrap_or_else(|| format!("raw:{}", hex(&b))) }
                    else if parent_is_layers && name.ends_with(".toml") { layer_toml_token(&b) }
                    else { format!("raw:{}", hex(&b)) };
                out.push(format!("F {rel} {tok}"));
            }
        }
    }
    let mut out = vec![];
    walk(root, root, &mut out);
    out.sort();
    join(",", &out)
}

// ------------------------------------------------------------------------------------------------ fault-free runs (cached)
type FfCell = Arc<OnceLock<Result<(RunOut, String), String>>>;
static FF: OnceLock<Mutex<HashMap<(String, String), FfCell>>> = OnceLock::new();

/// fault-free run of a pair (+ canonical snapshot of its prepared state); computed once per process
fn fault_free(op: &str, state: &str) -> Result<(RunOut, String), String> {
    let cell = { let mut m = FF.get_or_init(|| Mutex::new(HashMap::new())).lock().unwrap(); m.entry((op.to_string(), state.to_string())).or_default().clone() };
    cell.get_or_init(|| { let r = run_child(op, state, None)?; let pre = prepared_snapshot(op, state)?; Ok((r, pre)) }).clone()
}

/// Which std call of its kind the k-th libc call belongs to: the number of earlier std calls that issue a libc call with the
/// same (class, path, result). Calls on a file descriptor (write, read, fchmod, copy) belong to the open that produced it.
fn occurrence(log: &[Call], k: usize) -> usize {
    let c = &log[k];
    if matches!(c.class.as_str(), "write" | "read" | "fchmod" | "copy" | "sendfile") {
        let mut opens_with_class: Vec<usize> = vec![];
        let mut cur_open: Option<usize> = None;
        for (i, x) in log[..=k].iter().enumerate() {
            if x.path != c.path { continue; }
            if x.class.starts_with("open") { if x.res == "ok" { cur_open = Some(i); } }
            else if x.class == c.class && x.res == c.res { if let Some(o) = cur_open { if !opens_with_class.contains(&o) { opens_with_class.push(o); } } }
        }
        opens_with_class.len().saturating_sub(1)
    } else {
        log[..k].iter().filter(|x| x.class == c.class && x.path == c.path && x.res == c.res).count()
    }
}

const LAYER_STATES: &[&str] = &["absent", "orphan", "bare", "min", "typed", "full", "invalid", "broken", "spdx", "rich", "richinv", "wide", "emptyvals", "stale"];
const PHASE_STATES: &[&str] = &["clean", "existing"];

/// quick: the listed representative pairs; thorough: every operation on every prepared state
/// (the `LayerRef` writes need a successful `cached_layer` prelude, which a broken `<layer>.toml` does not give)
fn pairs(thorough: bool) -> Vec<(String, String)> {
    let mut v = vec![];
    for (op, states) in LAYER_PAIRS.iter().chain(PHASE_PAIRS.iter()) {
        let all: &[&str] = if is_phase(op) { PHASE_STATES } else { LAYER_STATES };
        for st in if thorough { all } else { *states } {
            if op.starts_with('w') && *st == "broken" { continue; }
            v.push((op.to_string(), st.to_string()));
        }
    }
    if !thorough { for (op, states) in MORE_PAIRS { for st in *states { v.push((op.to_string(), st.to_string())); } } }
    v
}

fn known_pair(op: &str, state: &str) -> bool { pairs(true).iter().any(|(o, s)| o == op && s == state) }

fn run_case(f: &[String]) -> String {
    if f.len() != 4 || !known_pair(&f[0], &f[1]) { return "bad-fields".into(); }
    let (op, state) = (f[0].as_str(), f[1].as_str());
    let (ff, pre) = match fault_free(op, state) { Ok(x) => x, Err(e) => return format!("harness-error:{}", e.replace(['|', '\t'], " ")) };
    if f[2] == "ff" {
        let mut calls: Vec<String> = ff.log.iter().map(|c| format!("{}:{}:{}", c.class, c.path, c.res)).collect();
        calls.sort(); calls.dedup();
        return format!("{}|{}|{}|{}", if ff.result.starts_with("err") { "err" } else { ff.result.as_str() }, join(",", &calls), pre, ff.canon);
    }
    let (Ok(k), Some(e)) = (f[2].parse::<usize>(), errno_num(&f[3])) else { return "bad-fields".into() };
    if k >= ff.log.len() { return "nofault|-|0".into(); }
    let expected = &ff.log[k];
    let r = match run_child(op, state, Some((k, e))) { Ok(r) => r, Err(e) => return format!("harness-error:{}", e.replace(['|', '\t'], " ")) };
    // the injected call must be the k-th call of the fault-free run (the runs are deterministic up to the fault)
    let hit = r.log.get(k).filter(|c| c.inj && c.class == expected.class && c.path == expected.path);
    if hit.is_none() || r.log[..k].iter().zip(&ff.log[..k]).any(|(a, b)| a.class != b.class || a.path != b.path) { return format!("nondeterministic|{}:{}:{}|{}", expected.class, expected.path, expected.res, occurrence(&ff.log, k)); }
    let res = if r.result.starts_with("err") { "err" } else if r.result != "ok" { "weird" } else if r.raw == ff.raw { "ok:same" } else { "ok:diff" };
    format!("{}|{}:{}:{}|{}", res, expected.class, expected.path, expected.res, occurrence(&ff.log, k))
}

fn generate(tier: &str, _seed: u64, emit: &mut dyn FnMut(Case)) {
    for (op, state) in pairs(tier == "thorough") {
        let mk = |k: String, e: &str, tags: Vec<(&str, String)>, nt: bool| Case {
            fields: vec![op.clone(), state.clone(), k, e.to_string()],
            tags: tags.into_iter().map(|(a, b)| (a.to_string(), b)).chain([("op".to_string(), op.clone()), ("state".to_string(), state.clone())]).collect(), nontrivial: nt };
        emit(mk("ff".into(), "-", vec![("kind", "trace".into())], false));
        let Ok((ff, _)) = fault_free(&op, &state) else { continue };
        for (k, c) in ff.log.iter().enumerate() {
            // every position of the real call list with every errno of the quantifier
            for (en, _) in &ERRNOS[..3] {
                emit(mk(k.to_string(), en, vec![("kind", "fault".into()), ("class", c.class.clone()), ("errno", en.to_string()), ("ffres", c.res.clone())], true));
            }
            // ENOENT only at delete-type calls: shows where the deliberate tolerance sits (tagged; excluded from the property)
            if delete_class(&c.class) { emit(mk(k.to_string(), "ENOENT", vec![("kind", "enoent-at-delete".into()), ("class", c.class.clone()), ("errno", "ENOENT".into()), ("ffres", c.res.clone())], false)); }
        }
    }
}

unsafe extern "C" { fn umask(mask: u32) -> u32; }

fn main() {
    // the model's directory modes (0o755 for a created directory) assume the usual umask; the children inherit it
    unsafe { umask(0o022); }
    ensure_shim();
    main_loop_jobs("c12", 14, &generate, &run_case);
}
