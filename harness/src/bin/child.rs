//! Scripted child for C19: writes patterns to stdout / stderr with unbuffered `write(2)` calls.
//! usage: child <seq|par> <items>   items = `o|e.<len>.<seed>.<delay ms>[.t]` separated by `;` (`-` = none);
//! byte i of an item is (seed + i) % 251, with `.t` (text: lower-case letters, never a newline) 97 + (seed + i) % 26; the
//! delay comes before the item's (single, unbuffered) write. `seq`: the items in order from one thread; `par`: the stdout items from one
//! thread and the stderr items from another, simultaneously. Writes its pid to $CNBV_PIDFILE (so that a watchdog can kill
//! it) and exits on its own after 200 s whatever happens.
//! Lifetime items (same four parts, len and seed are 0): `xo` / `xe` / `xb` = after the delay close stdout / stderr / both
//! (`close(2)` of fd 1 / 2: the parent's read end sees EOF although the process lives on); `z` = stay alive for the delay and do
//! nothing. A write to a stream that was closed fails (exit status 3); a stream is closed at most once. `par`: `xo` belongs to the stdout thread, `xe` to the
//! stderr thread, `xb` and `z` run after both threads are done.
use std::io::Write;
use std::mem::ManuallyDrop;
use std::os::fd::FromRawFd;

fn item_bytes(len: usize, seed: usize, text: bool) -> Vec<u8> { (0..len).map(|i| if text { (97 + (seed + i) % 26) as u8 } else { ((seed + i) % 251) as u8 }).collect() }

/// kinds of items: 0 = write to stdout, 1 = write to stderr, 2 = close stdout, 3 = close stderr, 4 = close both, 5 = stay alive
type Item = (u8, usize, usize, u64, bool);

fn close_fd(fd: i32) { drop(unsafe { std::fs::File::from_raw_fd(fd) }); }

fn emit(items: &[Item]) -> bool {
    let mut out = ManuallyDrop::new(unsafe { std::fs::File::from_raw_fd(1) });
    let mut err = ManuallyDrop::new(unsafe { std::fs::File::from_raw_fd(2) });
    for &(kind, len, seed, delay, text) in items {
        if delay > 0 { std::thread::sleep(std::time::Duration::from_millis(delay)); }
        match kind { 2 => { close_fd(1); continue; } 3 => { close_fd(2); continue; } 4 => { close_fd(1); close_fd(2); continue; } 5 => continue, _ => {} }
        let b = item_bytes(len, seed, text);
        let r = if kind == 1 { err.write_all(&b) } else { out.write_all(&b) };
        if r.is_err() { return false; }
    }
    true
}

fn main() {
    let args: Vec<String> = std::env::args().collect();
    if let Ok(p) = std::env::var("CNBV_PIDFILE") { let _ = std::fs::write(p, std::process::id().to_string()); }
    std::thread::spawn(|| { std::thread::sleep(std::time::Duration::from_secs(200)); std::process::exit(99); });
    let mode = args.get(1).map(String::as_str).unwrap_or("seq");
    let spec = args.get(2).map(String::as_str).unwrap_or("-");
    let mut items: Vec<Item> = vec![];
    if spec != "-" && !spec.is_empty() {
        for it in spec.split(';') {
            let p: Vec<&str> = it.split('.').collect();
            if p.len() != 4 && !(p.len() == 5 && p[4] == "t") { std::process::exit(2); }
            let st: u8 = match p[0] { "o" => 0, "e" => 1, "xo" => 2, "xe" => 3, "xb" => 4, "z" => 5, _ => std::process::exit(2) };
            if st >= 2 && (p.len() != 4 || p[1] != "0" || p[2] != "0") { std::process::exit(2); }
            let (Ok(len), Ok(seed), Ok(delay)) = (p[1].parse(), p[2].parse(), p[3].parse()) else { std::process::exit(2) };
            items.push((st, len, seed, delay, p.len() == 5));
        }
    }
    let ok = if mode == "par" {
        let o: Vec<Item> = items.iter().copied().filter(|i| i.0 == 0 || i.0 == 2).collect();
        let e: Vec<Item> = items.iter().copied().filter(|i| i.0 == 1 || i.0 == 3).collect();
        let tail: Vec<Item> = items.iter().copied().filter(|i| i.0 >= 4).collect();
        let t = std::thread::spawn(move || emit(&e));
        let a = emit(&o);
        let b = t.join().unwrap_or(false);
        a && b && emit(&tail)
    } else { emit(&items) };
    std::process::exit(if ok { 0 } else { 3 });
}
