//! C13 correspondence: real `build_libcnb_buildpacks_dependency_graph` on generated directories, then the real
//! `get_dependencies` for every root selection of the case.
//!
//! fields: nodes `id>dep,dep;id>;…` | roots (`*` or `a,b|c|-`) | layout seed (0 = plain)
//! observation: `walk=<ids in graph order>;<order>|<order>|…` or `walk=<ids in directory-walk order>;err:missing:<id>`
//!
//! Second family (`pkg`): the real `cargo-libcnb` executable (built from /repo's working tree on every run) packages a generated
//! cargo workspace; the order of its `[n/m] Building <id>` progress lines is the order `execute` really packages in.
//! fields: `pkg` | buildpacks `id>K>dir>dep,dep|…` (K = L libcnb.rs / C composite; dir relative to the workspace root, `.` = root) |
//!         invocation directories `dir;dir;…` (one run per entry, same workspace, same external package and target directories)
//! observation: `walk=<ids in directory-walk order>;<order>:<ok|err:kind>|…`
//!
//! Third family (`lnk`): the library functions again, on workspaces in which buildpack directories are reached through symbolic links.
//! fields: `lnk` | buildpacks `id>H>dep,dep|…` | selections `a,b;c;-` | noise `0`/`1`
//!   H = how the directory entry `ws/<where>` comes to be a buildpack directory:
//!     d real directory ws/bpK                         n real directory ws/sub/bpK
//!     a ws/bpK -> <abs>/ext/eK (absolute target)      r ws/bpK -> ../ext/eK (relative target)
//!     R ws/sub/bpK -> ../../ext/eK                    c ws/bpK -> ../hop/hK -> <abs>/ext/eK (chain of two)
//!     C ws/bpK -> <abs>/hop/hK -> ../ext/eK           t real directory ws/bpK whose buildpack.toml / package.toml are links to files in ext/eK
//!     i real directory shared/bpK with ws/via -> ../shared: an intermediate directory that is a link; the walker does not descend
//!       into it (ignore::Walk, follow_links = false), the buildpack is NOT part of the workspace
//!   every link target lies outside the walked tree, so every buildpack appears exactly once.
//!   noise 1 adds: a dangling link, a link to a directory without buildpack.toml, a link to a file, a link to `..`
//! observation: as in the first family
use cnbv::*;
use libcnb_data::buildpack::BuildpackId;
use libcnb_package::buildpack_dependency_graph::{
    BuildBuildpackDependencyGraphError, BuildpackDependencyGraphNode, build_libcnb_buildpacks_dependency_graph,
};
use libcnb_package::dependency_graph::{CreateDependencyGraphError, GetDependenciesError, get_dependencies};
use std::fs;
use std::os::unix::process::CommandExt;
use std::path::{Path, PathBuf};
use std::process::{Command, Stdio};
use std::sync::{OnceLock, RwLock};
use std::time::{Duration, Instant};

type Node = (String, Vec<String>);

fn parse_nodes(s: &str) -> Vec<Node> {
    split_list(s, ";").iter().map(|n| { let (i, d) = n.split_once('>').expect("node"); (i.to_string(), split_list(d, ",").iter().map(|x| x.to_string()).collect()) }).collect()
}
fn render_nodes(ns: &[Node]) -> String { join(";", &ns.iter().map(|(i, d)| format!("{i}>{}", d.join(","))).collect::<Vec<_>>()) }

/// every non-empty sequence of distinct elements, at most `k` long: for each x in order, [x], then x :: (selections of the rest)
fn sels(k: usize, avail: &[String]) -> Vec<Vec<String>> {
    let mut out = vec![];
    if k == 0 { return out; }
    for (i, x) in avail.iter().enumerate() {
        out.push(vec![x.clone()]);
        let mut rest = avail.to_vec();
        rest.remove(i);
        for s in sels(k - 1, &rest) { let mut v = vec![x.clone()]; v.extend(s); out.push(v); }
    }
    out
}
fn parse_roots(ids: &[String], s: &str) -> Vec<Vec<String>> {
    if s == "*" { sels(ids.len(), ids) } else { s.split('|').map(|sel| split_list(sel, ",").iter().map(|x| x.to_string()).collect()).collect() }
}

const COMPONENT: &str = "api = \"0.10\"\n\n[buildpack]\nid = \"@ID@\"\nversion = \"0.0.1\"\n";
fn component_toml(id: &str) -> String { COMPONENT.replace("@ID@", id) }
fn composite_toml(id: &str, group: &[String]) -> String {
    let mut s = format!("api = \"0.10\"\n\n[buildpack]\nid = \"{id}\"\nversion = \"0.0.1\"\n\n[[order]]\n");
    let g: Vec<String> = if group.is_empty() { vec!["some/other".to_string()] } else { group.to_vec() };
    for d in g { s.push_str(&format!("\n[[order.group]]\nid = \"{d}\"\nversion = \"0.0.1\"\n")); }
    s
}
const NOISE_URIS: &[&str] = &["docker://docker.io/heroku/example:1.2.3", "../../somewhere/else", "/abs/path/bp", "https://example.com/bp.tgz", "urn:cnb:registry:heroku/nodejs@1.0.0", "."];

/// Lays the graph out as directories below `root`; returns path -> id for the buildpacks that belong to the graph.
fn write_layout(root: &Path, nodes: &[Node], layout: u64) -> Vec<(PathBuf, String)> {
    let mut r = Rng::new(layout);
    let mut table = vec![];
    for (k, (id, deps)) in nodes.iter().enumerate() {
        let wide = layout >> 62 & 1 == 1; // directory names with blanks, non-ASCII, '%', '+', upper case, long names, deep nesting
        let rel = if layout == 0 { format!("bp{k}") } else if wide {
            match r.below(9) { 0 => format!("my bp {k}"), 1 => format!("ünï/ç{k}"), 2 => format!("%41+{k}"), 3 => format!("{}/d{k}", vec!["deep"; 20].join("/")), 4 => format!("{}{k}", "L".repeat(200)), 5 => format!("B{k}"),
                               6 => format!("_{k}"), 7 => format!("{k}"), _ => format!("x~{k}/a=b,c;d/it's") }
        } else {
            match r.below(4) { 0 => format!("bp{k}"), 1 => format!("buildpacks/n{k}"), 2 => format!("a/b/c/{k}x"), _ => format!("z{}/m{k}", r.below(2)) }
        };
        let dir = root.join(rel);
        fs::create_dir_all(&dir).unwrap();
        // kind: composite, or libcnb.rs (component descriptor + Cargo.toml); dependencies normally only on composites
        let composite = if layout == 0 { !deps.is_empty() } else if deps.is_empty() { r.chance(1, 3) } else { !r.chance(1, 5) };
        if composite {
            fs::write(dir.join("buildpack.toml"), composite_toml(id, deps)).unwrap();
        } else {
            fs::write(dir.join("buildpack.toml"), component_toml(id)).unwrap();
            fs::write(dir.join("Cargo.toml"), "[package]\nname = \"x\"\nversion = \"0.0.0\"\n").unwrap();
        }
        let with_pkg = !deps.is_empty() || (layout != 0 && r.chance(1, 2));
        if with_pkg {
            let mut s = String::from("[buildpack]\nuri = \".\"\n");
            let mut push = |u: &str| s.push_str(&format!("\n[[dependencies]]\nuri = \"{u}\"\n"));
            for d in deps {
                if layout != 0 && r.chance(1, 4) { push(*r.pick(NOISE_URIS)); }
                push(&format!("libcnb:{d}"));
            }
            if layout != 0 && r.chance(1, 4) { push(*r.pick(NOISE_URIS)); }
            if layout != 0 && r.chance(1, 4) { s.push_str("\n[platform]\nos = \"windows\"\n"); }
            fs::write(dir.join("package.toml"), s).unwrap();
        }
        table.push((dir, id.clone()));
    }
    if layout != 0 {
        // buildpacks that are not part of the graph: not libcnb.rs (no Cargo.toml), with a package.toml that must be ignored
        for k in 0..r.below(3) {
            let dir = root.join(format!("other{k}/bp"));
            fs::create_dir_all(dir.join("bin")).unwrap();
            fs::write(dir.join("buildpack.toml"), component_toml(&format!("other/bash{k}"))).unwrap();
            if r.chance(1, 2) { fs::write(dir.join("package.toml"), "[buildpack]\nuri = \".\"\n\n[[dependencies]]\nuri = \"libcnb:not/anywhere\"\n").unwrap(); }
        }
        if r.chance(1, 3) {
            // an unreadable descriptor: no buildpack kind, left out of the graph
            let dir = root.join("broken");
            fs::create_dir_all(&dir).unwrap();
            fs::write(dir.join("buildpack.toml"), "this is = not [ toml").unwrap();
        }
        if r.chance(1, 3) { fs::create_dir_all(root.join("empty/dir")).unwrap(); fs::write(root.join("empty/README.md"), "x").unwrap(); }
    }
    table
}

fn bid(s: &str) -> BuildpackId { s.parse().expect("buildpack id") }

fn run_case(f: &[String]) -> String {
    if f.first().map(String::as_str) == Some("pkg") {
        let o = pkg_run_case(f, false);
        return if o.contains("timeout") { pkg_run_case(f, true) } else { o };
    }
    if f.first().map(String::as_str) == Some("lnk") { return lnk_run_case(f); }
    let nodes = parse_nodes(&f[0]);
    let ids: Vec<String> = nodes.iter().map(|n| n.0.clone()).collect();
    let selections = parse_roots(&ids, &f[1]);
    let layout: u64 = f[2].parse().expect("layout");
    let tmp = tempfile::Builder::new().prefix("c13-").tempdir().unwrap();
    let root = tmp.path().join("ws");
    fs::create_dir_all(&root).unwrap();
    let table = write_layout(&root, &nodes, layout);
    let graph = match build_libcnb_buildpacks_dependency_graph(&root) {
        Ok(g) => g,
        Err(BuildBuildpackDependencyGraphError::CreateDependencyGraphError(CreateDependencyGraphError::MissingDependency(id))) => {
            // the order in which the nodes reached create_dependency_graph: the directory walk, as the same function sees it
            let dirs = libcnb_package::find_buildpack_dirs(&root).unwrap();
            let walk: Vec<String> = dirs.iter().filter_map(|d| table.iter().find(|(p, _)| p == d).map(|(_, i)| i.clone())).collect();
            return format!("walk={};err:missing:{id}", join(",", &walk));
        }
        Err(BuildBuildpackDependencyGraphError::CreateDependencyGraphError(CreateDependencyGraphError::GetNodeDependenciesError(_))) => return "err:nodedeps".into(),
        Err(BuildBuildpackDependencyGraphError::FindBuildpackDirectories(_)) => return "err:walk".into(),
        Err(BuildBuildpackDependencyGraphError::ReadBuildpackDescriptorError(_)) => return "err:read-buildpack".into(),
        Err(BuildBuildpackDependencyGraphError::ReadPackageDescriptorError(_)) => return "err:read-package".into(),
        Err(BuildBuildpackDependencyGraphError::InvalidDependencyBuildpackId(_)) => return "err:dep-id".into(),
    };
    let walk: Vec<String> = graph.node_weights().map(|n| n.buildpack_id.to_string()).collect();
    // every node must sit where it was written and carry the declared dependencies
    for n in graph.node_weights() {
        match table.iter().find(|(p, _)| *p == n.path) {
            Some((_, i)) if *i == n.buildpack_id.to_string() => {}
            _ => return format!("err:node-path:{}", n.buildpack_id),
        }
    }
    // one stand-in node per distinct root id (BuildpackId parsing compiles a regex each time: parse once per case)
    let mut root_ids: Vec<&String> = selections.iter().flatten().collect();
    root_ids.sort();
    root_ids.dedup();
    let by_id: Vec<(String, &BuildpackDependencyGraphNode)> = graph.node_weights().map(|n| (n.buildpack_id.to_string(), n)).collect();
    // (stand-ins are only ever used for root ids the graph does not hold)
    let dummies: Vec<(String, BuildpackDependencyGraphNode)> = root_ids.iter().filter(|r| !by_id.iter().any(|(i, _)| i == **r)).map(|r| ((*r).clone(), BuildpackDependencyGraphNode { buildpack_id: bid(r), path: PathBuf::new(), dependencies: vec![] })).collect();
    let mut results = vec![];
    for sel in &selections {
        // the caller's way of choosing roots: the graph's own node with that id (libcnb-test), else a node the graph does not hold
        let roots: Vec<&BuildpackDependencyGraphNode> = sel.iter().map(|r| by_id.iter().find(|(i, _)| i == r).map(|(_, n)| *n).unwrap_or_else(|| &dummies.iter().find(|(i, _)| i == r).unwrap().1)).collect();
        results.push(match get_dependencies(&graph, &roots) {
            Ok(order) => join(",", &order.iter().map(|n| n.buildpack_id.to_string()).collect::<Vec<_>>()),
            Err(GetDependenciesError::UnknownRootNode(id)) => format!("err:root:{id}"),
        });
    }
    format!("walk={};{}", join(",", &walk), results.join("|"))
}


// ------------------------------------------------------------------------------------------------ the `lnk` family: buildpack directories behind symbolic links

#[derive(Clone)]
struct LNode { id: String, how: char, deps: Vec<String> }

const HOWS: &[char] = &['d', 'n', 'a', 'r', 'R', 'c', 'C', 't', 'i'];
fn is_link(h: char) -> bool { matches!(h, 'a' | 'r' | 'R' | 'c' | 'C') }

fn parse_lnodes(s: &str) -> Option<Vec<LNode>> {
    let mut out = vec![];
    for b in split_list(s, "|") {
        let p: Vec<&str> = b.split('>').collect();
        if p.len() != 3 || p[0].is_empty() || p[1].chars().count() != 1 { return None; }
        let how = p[1].chars().next().unwrap();
        if !HOWS.contains(&how) { return None; }
        out.push(LNode { id: p[0].into(), how, deps: split_list(p[2], ",").iter().map(|d| d.to_string()).collect() });
    }
    Some(out)
}
fn render_lnodes(ns: &[LNode]) -> String { join("|", &ns.iter().map(|n| format!("{}>{}>{}", n.id, n.how, join(",", &n.deps))).collect::<Vec<_>>()) }

/// the files of one buildpack (composite when it has dependencies or an odd number, else a libcnb.rs one)
fn write_bp(dir: &Path, id: &str, deps: &[String], k: usize) {
    fs::create_dir_all(dir).unwrap();
    if !deps.is_empty() || k % 2 == 1 {
        fs::write(dir.join("buildpack.toml"), composite_toml(id, deps)).unwrap();
    } else {
        fs::write(dir.join("buildpack.toml"), component_toml(id)).unwrap();
        fs::write(dir.join("Cargo.toml"), "[package]\nname = \"x\"\nversion = \"0.0.0\"\n").unwrap();
    }
    if !deps.is_empty() || k % 3 == 0 {
        let mut s = String::from("[buildpack]\nuri = \".\"\n");
        for d in deps { s.push_str(&format!("\n[[dependencies]]\nuri = \"libcnb:{d}\"\n")); }
        fs::write(dir.join("package.toml"), s).unwrap();
    }
}

/// `base/ws` is the walked tree; `base/ext`, `base/hop`, `base/shared` lie beside it. Returns entry path -> id for the buildpacks of the workspace.
fn lnk_materialise(base: &Path, nodes: &[LNode], noise: bool) -> Vec<(PathBuf, String)> {
    use std::os::unix::fs::symlink;
    let ws = base.join("ws");
    let ext = base.join("ext");
    fs::create_dir_all(&ws).unwrap();
    fs::create_dir_all(&ext).unwrap();
    let mut table = vec![];
    for (k, n) in nodes.iter().enumerate() {
        let target = ext.join(format!("e{k}"));
        let nested = matches!(n.how, 'n' | 'R');
        let entry = if nested { fs::create_dir_all(ws.join("sub")).unwrap(); ws.join(format!("sub/bp{k}")) } else { ws.join(format!("bp{k}")) };
        match n.how {
            'd' | 'n' => write_bp(&entry, &n.id, &n.deps, k),
            'a' => { write_bp(&target, &n.id, &n.deps, k); symlink(&target, &entry).unwrap(); }
            'r' => { write_bp(&target, &n.id, &n.deps, k); symlink(format!("../ext/e{k}"), &entry).unwrap(); }
            'R' => { write_bp(&target, &n.id, &n.deps, k); symlink(format!("../../ext/e{k}"), &entry).unwrap(); }
            'c' => { write_bp(&target, &n.id, &n.deps, k); fs::create_dir_all(base.join("hop")).unwrap(); symlink(&target, base.join(format!("hop/h{k}"))).unwrap(); symlink(format!("../hop/h{k}"), &entry).unwrap(); }
            'C' => { write_bp(&target, &n.id, &n.deps, k); fs::create_dir_all(base.join("hop")).unwrap(); symlink(format!("../ext/e{k}"), base.join(format!("hop/h{k}"))).unwrap(); symlink(base.join(format!("hop/h{k}")), &entry).unwrap(); }
            't' => {
                write_bp(&target, &n.id, &n.deps, k);
                fs::create_dir_all(&entry).unwrap();
                for f in ["buildpack.toml", "package.toml", "Cargo.toml"] { if target.join(f).exists() { symlink(if k % 2 == 0 { target.join(f) } else { PathBuf::from(format!("../../ext/e{k}/{f}")) }, entry.join(f)).unwrap(); } }
            }
            'i' => {
                let shared = base.join("shared");
                if !shared.exists() { fs::create_dir_all(&shared).unwrap(); symlink("../shared", ws.join("via")).unwrap(); }
                write_bp(&shared.join(format!("bp{k}")), &n.id, &n.deps, k);
                continue; // not part of the workspace
            }
            _ => unreachable!(),
        }
        table.push((entry, n.id.clone()));
    }
    if noise {
        symlink("../ext/nothing-here", ws.join("gone")).unwrap();
        fs::create_dir_all(ext.join("plain")).unwrap();
        fs::write(ext.join("plain/README.md"), "x").unwrap();
        symlink("../ext/plain", ws.join("plain")).unwrap();
        symlink(ext.join("plain/README.md"), ws.join("readme")).unwrap();
        symlink("..", ws.join("up")).unwrap();
    }
    table
}

fn lnk_run_case(f: &[String]) -> String {
    if f.len() != 4 { return "bad-case".into(); }
    let Some(nodes) = parse_lnodes(&f[1]) else { return "bad-case".into() };
    let noise = match f[3].as_str() { "0" => false, "1" => true, _ => return "bad-case".into() };
    let selections: Vec<Vec<String>> = f[2].split(';').map(|sel| split_list(sel, ",").iter().map(|x| x.to_string()).collect()).collect();
    let tmp = tempfile::Builder::new().prefix("c13l-").tempdir().unwrap();
    let base = tmp.path().canonicalize().unwrap();
    let table = lnk_materialise(&base, &nodes, noise);
    observe_graph(&base.join("ws"), &table, &selections)
}

/// the observation of the first family for a tree that is already written (same steps as in `run_case`)
fn observe_graph(root: &Path, table: &[(PathBuf, String)], selections: &[Vec<String>]) -> String {
    let graph = match build_libcnb_buildpacks_dependency_graph(root) {
        Ok(g) => g,
        Err(BuildBuildpackDependencyGraphError::CreateDependencyGraphError(CreateDependencyGraphError::MissingDependency(id))) => {
            let Ok(dirs) = libcnb_package::find_buildpack_dirs(root) else { return "err:walk".into() };
            let walk: Vec<String> = dirs.iter().filter_map(|d| table.iter().find(|(p, _)| p == d).map(|(_, i)| i.clone())).collect();
            return format!("walk={};err:missing:{id}", join(",", &walk));
        }
        Err(BuildBuildpackDependencyGraphError::CreateDependencyGraphError(CreateDependencyGraphError::GetNodeDependenciesError(_))) => return "err:nodedeps".into(),
        Err(BuildBuildpackDependencyGraphError::FindBuildpackDirectories(_)) => return "err:walk".into(),
        Err(BuildBuildpackDependencyGraphError::ReadBuildpackDescriptorError(_)) => return "err:read-buildpack".into(),
        Err(BuildBuildpackDependencyGraphError::ReadPackageDescriptorError(_)) => return "err:read-package".into(),
        Err(BuildBuildpackDependencyGraphError::InvalidDependencyBuildpackId(_)) => return "err:dep-id".into(),
    };
    let walk: Vec<String> = graph.node_weights().map(|n| n.buildpack_id.to_string()).collect();
    for n in graph.node_weights() {
        match table.iter().find(|(p, _)| *p == n.path) {
            Some((_, i)) if *i == n.buildpack_id.to_string() => {}
            _ => return format!("err:node-path:{}", n.buildpack_id),
        }
    }
    let mut root_ids: Vec<&String> = selections.iter().flatten().collect();
    root_ids.sort();
    root_ids.dedup();
    let by_id: Vec<(String, &BuildpackDependencyGraphNode)> = graph.node_weights().map(|n| (n.buildpack_id.to_string(), n)).collect();
    let dummies: Vec<(String, BuildpackDependencyGraphNode)> = root_ids.iter().filter(|r| !by_id.iter().any(|(i, _)| i == **r)).map(|r| ((*r).clone(), BuildpackDependencyGraphNode { buildpack_id: bid(r), path: PathBuf::new(), dependencies: vec![] })).collect();
    let mut results = vec![];
    for sel in selections {
        let roots: Vec<&BuildpackDependencyGraphNode> = sel.iter().map(|r| by_id.iter().find(|(i, _)| i == r).map(|(_, n)| *n).unwrap_or_else(|| &dummies.iter().find(|(i, _)| i == r).unwrap().1)).collect();
        results.push(match get_dependencies(&graph, &roots) {
            Ok(order) => join(",", &order.iter().map(|n| n.buildpack_id.to_string()).collect::<Vec<_>>()),
            Err(GetDependenciesError::UnknownRootNode(id)) => format!("err:root:{id}"),
        });
    }
    format!("walk={};{}", join(",", &walk), results.join("|"))
}

fn lnk_case(nodes: &[LNode], sels: &[Vec<String>], noise: bool, family: &str) -> Case {
    let n = nodes.len();
    let placed: Vec<&LNode> = nodes.iter().filter(|x| x.how != 'i').collect();
    let idx = |id: &str| nodes.iter().position(|b| b.id == id);
    let adj: Vec<Vec<usize>> = nodes.iter().map(|b| b.deps.iter().filter_map(|d| idx(d)).collect()).collect();
    let dangling = placed.iter().any(|b| b.deps.iter().any(|d| !placed.iter().any(|p| &p.id == d)));
    let linked: Vec<&LNode> = nodes.iter().filter(|x| is_link(x.how)).collect();
    let link_dep = linked.iter().any(|l| placed.iter().any(|p| p.deps.contains(&l.id)));
    let link_root = linked.iter().any(|l| sels.iter().any(|s| s.contains(&l.id)));
    let link_unrelated = linked.iter().any(|l| !placed.iter().any(|p| p.deps.contains(&l.id)) && l.deps.is_empty());
    let mut hows: Vec<char> = nodes.iter().map(|x| x.how).collect();
    hows.sort();
    hows.dedup();
    Case {
        fields: vec!["lnk".into(), render_lnodes(nodes), sels.iter().map(|s| join(",", s)).collect::<Vec<_>>().join(";"), u8::from(noise).to_string()],
        tags: vec![("kind".into(), format!("lnk-{}", if dangling { "dangling" } else { family })), ("n".into(), n.to_string()), ("links".into(), linked.len().to_string()),
                   ("hows".into(), hows.iter().collect::<String>()), ("link-is-dependency".into(), u8::from(link_dep).to_string()), ("link-is-root".into(), u8::from(link_root).to_string()),
                   ("link-unrelated".into(), u8::from(link_unrelated).to_string()), ("via-linked-dir".into(), nodes.iter().filter(|x| x.how == 'i').count().to_string()),
                   ("depth".into(), (if acyclic(n, &adj) { depth(n, &adj) } else { 0 }).to_string()), ("selections".into(), sels.len().to_string()), ("noise".into(), u8::from(noise).to_string())],
        // non-trivial: a buildpack directory that is a link and is a dependency of another buildpack or selected, or a dangling dependency
        nontrivial: link_dep || link_root || dangling,
    }
}

fn generate_lnk(thorough: bool, seed: u64, emit: &mut dyn FnMut(Case)) {
    // 1. every labelled DAG on <= 3 buildpacks x every assignment of {d, a, r, c} (thorough: + i) with at least one entry that is not a real directory,
    //    x every non-empty ordered selection of distinct buildpacks (the whole set = what a whole-workspace run selects)
    let pool: &[char] = if thorough { &['d', 'a', 'r', 'c', 'i'] } else { &['d', 'a', 'r', 'c'] };
    let mut count = 0u64;
    for n in 1..=3usize {
        let pairs: Vec<(usize, usize)> = (0..n).flat_map(|u| (0..n).filter(move |&w| w != u).map(move |w| (u, w))).collect();
        for mask in 0u32..(1u32 << pairs.len()) {
            let mut adj = vec![vec![]; n];
            for (b, &(u, w)) in pairs.iter().enumerate() { if mask >> b & 1 == 1 { adj[u].push(w); } }
            if !acyclic(n, &adj) { continue; }
            let combos = pool.len().pow(n as u32);
            for c in 0..combos {
                let hows: Vec<char> = (0..n).map(|u| pool[c / pool.len().pow(u as u32) % pool.len()]).collect();
                if hows.iter().all(|h| *h == 'd') { continue; }
                count += 1;
                let nodes: Vec<LNode> = (0..n).map(|u| LNode { id: NAMES[u].into(), how: hows[u], deps: adj[u].iter().map(|&w| NAMES[w].to_string()).collect() }).collect();
                let ids: Vec<String> = nodes.iter().map(|x| x.id.clone()).collect();
                emit(lnk_case(&nodes, &sels(n, &ids), count % 5 == 0, "exh"));
            }
        }
    }
    // 2. hand-made: the shared buildpack linked into the workspace in every role and through every kind of link; an intermediate linked directory
    let b = |id: &str, how: char, deps: &[&str]| LNode { id: id.into(), how, deps: deps.iter().map(|d| d.to_string()).collect() };
    let s = |v: &[&[&str]]| -> Vec<Vec<String>> { v.iter().map(|x| x.iter().map(|y| y.to_string()).collect()).collect() };
    for how in ['a', 'r', 'R', 'c', 'C', 't'] {
        // dependency of a composite beside a real directory
        emit(lnk_case(&[b("demo/maven", 'd', &[]), b("demo/jvm", how, &[]), b("demo/java", 'n', &["demo/jvm", "demo/maven"])], &s(&[&["demo/java"], &["demo/maven", "demo/jvm", "demo/java"], &["demo/jvm"]]), false, "fixed"));
        // the top of a chain (nothing depends on it), selected alone and with everything
        emit(lnk_case(&[b("x/top", how, &["x/mid"]), b("x/mid", 'd', &["x/low"]), b("x/low", 'd', &[]), b("solo", 'd', &[])], &s(&[&["x/top"], &["x/top", "x/mid", "x/low", "solo"], &["solo"]]), true, "fixed"));
        // unrelated to everything else
        emit(lnk_case(&[b("p/a", 'd', &["p/b"]), b("p/b", 'd', &[]), b("alone", how, &[])], &s(&[&["p/a", "p/b", "alone"], &["alone"], &["p/a"]]), false, "fixed"));
        // the middle of a chain, the base of a diamond
        emit(lnk_case(&[b("d/top", 'd', &["d/left", "d/right"]), b("d/left", how, &["d/base"]), b("d/right", 'n', &["d/base"]), b("d/base", how, &[])], &s(&[&["d/top"], &["d/right", "d/left"], &["d/base", "d/top"]]), true, "fixed"));
    }
    // every buildpack behind the intermediate link `ws/via -> ../shared`: outside the workspace; one real directory depends on one of them (dangling)
    emit(lnk_case(&[b("s/one", 'i', &[]), b("s/two", 'i', &["s/one"]), b("here", 'd', &[])], &s(&[&["here"], &["s/one"], &["here", "s/two"]]), false, "via"));
    emit(lnk_case(&[b("s/one", 'i', &[]), b("s/two", 'i', &["s/one"]), b("here", 'd', &["s/two"])], &s(&[&["here"]]), false, "via"));
    emit(lnk_case(&[b("s/one", 'i', &[]), b("s/two", 'i', &[])], &s(&[&["s/one"], &[]]), true, "via"));
    // 3. seeded random
    let samples: u64 = if thorough { 4_000 } else { 300 };
    for k in 0..samples {
        let mut r = Rng::for_case(seed ^ 0x13_11_4B, k);
        let n = r.range(1, 8) as usize;
        let mut names: Vec<String> = LONG.iter().map(|s| s.to_string()).collect();
        r.shuffle(&mut names);
        names.truncate(n);
        let mut pos: Vec<usize> = (0..n).collect();
        r.shuffle(&mut pos);
        let density = r.range(1, 6);
        let mut adj = vec![vec![]; n];
        for u in 0..n { for w in 0..n { if pos[w] < pos[u] && r.chance(density, 8) { adj[u].push(w); } } }
        for a in adj.iter_mut() { r.shuffle(a); }
        let via = r.chance(1, 6);
        let mut nodes: Vec<LNode> = (0..n).map(|u| {
            let how = if via && r.chance(1, 3) { 'i' } else if r.chance(1, 2) { *r.pick(&['a', 'r', 'R', 'c', 'C', 't']) } else { *r.pick(&['d', 'n']) };
            LNode { id: names[u].clone(), how, deps: adj[u].iter().map(|&w| names[w].clone()).collect() }
        }).collect();
        if r.chance(1, 8) { let u = r.below(n as u64) as usize; let at = r.below(nodes[u].deps.len() as u64 + 1) as usize; nodes[u].deps.insert(at, "heroku/missing".into()); }
        r.shuffle(&mut nodes);
        let mut selv: Vec<Vec<String>> = vec![nodes.iter().filter(|x| x.how != 'i').map(|x| x.id.clone()).collect()];
        for _ in 0..r.range(1, 5) {
            let kk = if r.chance(1, 20) { 0 } else { r.range(1, (n as u64).min(4)) };
            let mut sel: Vec<String> = (0..kk).map(|_| r.pick(&names).clone()).collect();
            if r.chance(1, 12) { let at = r.below(sel.len() as u64 + 1) as usize; sel.insert(at, "not/there".to_string()); }
            selv.push(sel);
        }
        emit(lnk_case(&nodes, &selv, r.chance(1, 3), "rnd"));
    }
}

// ------------------------------------------------------------------------------------------------ generation

fn acyclic(n: usize, adj: &[Vec<usize>]) -> bool {
    // Kahn
    let mut indeg = vec![0; n];
    for u in 0..n { for &w in &adj[u] { indeg[w] += 1; } }
    let mut stack: Vec<usize> = (0..n).filter(|&i| indeg[i] == 0).collect();
    let mut seen = 0;
    while let Some(u) = stack.pop() { seen += 1; for &w in &adj[u] { indeg[w] -= 1; if indeg[w] == 0 { stack.push(w); } } }
    seen == n
}

fn depth(n: usize, adj: &[Vec<usize>]) -> usize {
    fn d(u: usize, adj: &[Vec<usize>], memo: &mut Vec<Option<usize>>) -> usize {
        if let Some(x) = memo[u] { return x; }
        let x = adj[u].iter().map(|&w| 1 + d(w, adj, memo)).max().unwrap_or(0);
        memo[u] = Some(x);
        x
    }
    let mut memo = vec![None; n];
    (0..n).map(|u| d(u, adj, &mut memo)).max().unwrap_or(0)
}

const NAMES: &[&str] = &["a", "b", "c", "d", "e"];
const LONG: &[&str] = &["heroku/nodejs", "heroku/nodejs-engine", "x", "acme.corp/base-1", "A", "libcnb", "0", "w/x/y/z", "some-bp", "heroku/jvm", "b.2", "Procfile"];

fn mk_case(nodes: &[Node], roots: &str, layout: u64, kind: &str, nsel: usize, dangling: bool, shared: bool, dep: usize) -> Case {
    let edges: usize = nodes.iter().map(|n| n.1.len()).sum();
    Case {
        fields: vec![render_nodes(nodes), roots.to_string(), layout.to_string()],
        tags: vec![("kind".into(), kind.into()), ("n".into(), nodes.len().to_string()), ("edges".into(), edges.min(20).to_string()), ("depth".into(), dep.to_string()),
                   ("selections".into(), nsel.to_string()), ("dangling".into(), u8::from(dangling).to_string()), ("layout".into(), u8::from(layout != 0).to_string())],
        // non-trivial: a dependency chain of length >= 2 or a node reachable along two different paths / from two roots
        nontrivial: dangling || dep >= 2 || shared,
    }
}

fn shared_node(n: usize, adj: &[Vec<usize>]) -> bool {
    let mut indeg = vec![0; n];
    for u in 0..n { for &w in &adj[u] { indeg[w] += 1; } }
    indeg.iter().any(|&d| d >= 2)
}

fn generate(tier: &str, seed: u64, emit: &mut dyn FnMut(Case)) {
    let thorough = tier == "thorough";
    // 0. the real executable on generated workspaces (first: these are the slow cases, the worker threads pick them up early)
    generate_pkg(thorough, seed, emit);
    // 0b. buildpack directories reached through symbolic links (library functions)
    generate_lnk(thorough, seed, emit);
    // 1. every labelled DAG on <= nmax nodes, dependency lists ascending and descending, every non-empty ordered root selection
    let nmax = if thorough { 5 } else { 4 };
    let mut gcount = 0u64;
    for n in 1..=nmax {
        let pairs: Vec<(usize, usize)> = (0..n).flat_map(|u| (0..n).filter(move |&w| w != u).map(move |w| (u, w))).collect();
        for mask in 0u32..(1u32 << pairs.len()) {
            let mut adj = vec![vec![]; n];
            for (b, &(u, w)) in pairs.iter().enumerate() { if mask >> b & 1 == 1 { adj[u].push(w); } }
            if !acyclic(n, &adj) { continue; }
            gcount += 1;
            let variants: &[bool] = if adj.iter().any(|a| a.len() >= 2) { &[false, true] } else { &[false] };
            for &rev in variants {
                let nodes: Vec<Node> = (0..n).map(|u| { let mut d: Vec<String> = adj[u].iter().map(|&w| NAMES[w].to_string()).collect(); if rev { d.reverse(); } (NAMES[u].to_string(), d) }).collect();
                let nsel = sels(n, &nodes.iter().map(|x| x.0.clone()).collect::<Vec<_>>()).len();
                // real directories in a non-plain layout for a sample of the graphs, plain layout for all
                let layout = if gcount % 7 == 0 { 1 + gcount } else { 0 };
                emit(mk_case(&nodes, "*", layout, "exh", nsel, false, shared_node(n, &adj), depth(n, &adj)));
            }
        }
    }
    // 2. random DAGs up to 12 nodes, richer ids, duplicate dependency entries, repeated / unknown / empty root selections
    let samples: u64 = if thorough { 20_000 } else { 1_500 };
    for idx in 0..samples {
        let mut r = Rng::for_case(seed, idx);
        let n = r.range(1, 12) as usize;
        let mut names: Vec<String> = LONG.iter().map(|s| s.to_string()).collect();
        r.shuffle(&mut names);
        names.truncate(n);
        // a random topological position per node; edges only from later to earlier positions, then labels shuffled
        let mut pos: Vec<usize> = (0..n).collect();
        r.shuffle(&mut pos);
        let density = r.range(1, 6);
        let mut adj = vec![vec![]; n];
        for u in 0..n { for w in 0..n { if pos[w] < pos[u] && r.chance(density, 8) { adj[u].push(w); } } }
        for a in adj.iter_mut() { r.shuffle(a); if !a.is_empty() && r.chance(1, 8) { let x = *r.pick(a); a.push(x); } }
        let mut nodes: Vec<Node> = (0..n).map(|u| (names[u].clone(), adj[u].iter().map(|&w| names[w].clone()).collect())).collect();
        let dangling = r.chance(1, 8);
        if dangling {
            let k = r.range(1, 2);
            for _ in 0..k { let u = r.below(n as u64) as usize; let at = r.below(nodes[u].1.len() as u64 + 1) as usize; nodes[u].1.insert(at, (*r.pick(&["ghost", "heroku/missing", "zz"])).to_string()); }
        }
        let mut selv = vec![];
        for _ in 0..r.range(1, 6) {
            let k = if r.chance(1, 20) { 0 } else { r.range(1, (n as u64).min(5)) };
            let mut sel: Vec<String> = (0..k).map(|_| r.pick(&names).clone()).collect(); // repeats allowed
            if r.chance(1, 12) { let at = r.below(sel.len() as u64 + 1) as usize; sel.insert(at, "not/there".to_string()); }
            selv.push(join(",", &sel));
        }
        let layout = if r.chance(3, 4) { 1 + r.below(1 << 40) } else { 0 };
        emit(mk_case(&nodes, &selv.join("|"), layout, if dangling { "dangling" } else { "rnd" }, selv.len(), dangling, shared_node(n, &adj), depth(n, &adj)));
    }
    // 3. the empty workspace
    emit(mk_case(&[], "-|ghost", 0, "empty", 2, false, false, 0));
    // 4. big graphs of fixed shapes (5..300 nodes) and big random DAGs, explicit root selections
    generate_big(thorough, seed, emit);
}

// ------------------------------------------------------------------------------------------------ big graphs (library family)

/// node counts on both sides of the thresholds at which containers / sorts / bit sets change behaviour
const BIG_SIZES: &[usize] = &[5, 8, 16, 17, 20, 21, 32, 33, 64, 65, 128, 129, 256, 257, 300];

/// n pairwise distinct ids of one of several styles: a common stem + number (ids are prefixes of one another: n1, n10, n100), dotted / slashed
/// nesting (x, x.x, x.x/x …), mixed case, long ids
fn big_ids(r: &mut Rng, n: usize) -> Vec<String> {
    match r.below(6) {
        0 => (0..n).map(|i| format!("n{i}")).collect(),
        1 => (0..n).map(|i| format!("heroku/bp-{i}")).collect(),
        2 => (0..n).map(|i| { let mut s = String::from("x"); for j in 0..(i % 6) { s.push_str([".x", "/x", "-x"][(i + j) % 3]); } format!("{s}{}", i / 6) }).collect(),
        3 => (0..n).map(|i| format!("{}{}", ["a", "A", "a.b", "a/b", "a-b", "ab"][i % 6], i / 6)).collect(),
        4 => (0..n).map(|i| format!("{}/{i}", "long-organisation-name.example".repeat(4))).collect(),
        _ => (0..n).map(|i| format!("{:03}", (i * 7919) % 1000 + 1000 * (i / 1000))).collect::<Vec<_>>().into_iter().enumerate().map(|(i, s)| if i % 2 == 0 { s } else { format!("{s}.{i}") }).collect(),
    }
}

/// adjacency (u depends on every w in adj[u]) of a named shape on n nodes; every shape is acyclic by construction
fn big_shape(shape: &str, n: usize, r: &mut Rng) -> Vec<Vec<usize>> {
    let mut adj: Vec<Vec<usize>> = vec![vec![]; n];
    match shape {
        "chain-down" => for i in 0..n - 1 { adj[i].push(i + 1); },
        "chain-up" => for i in 1..n { adj[i].push(i - 1); },
        "star-out" => { adj[0] = (1..n).collect(); }
        "star-out-desc" => { adj[0] = (1..n).rev().collect(); }
        "star-out-mid" => { adj[n / 2] = (0..n).filter(|&w| w != n / 2).collect(); r.shuffle(&mut adj[n / 2]); }
        "star-in" => for i in 1..n { adj[i].push(0); },
        "star-in-last" => for i in 0..n - 1 { adj[i].push(n - 1); },
        "diamonds" => { let mut i = 0; while i + 3 < n { adj[i] = vec![i + 1, i + 2]; adj[i + 1].push(i + 3); adj[i + 2].push(i + 3); i += 3; } }
        "diamonds-up" => { let mut i = n - 1; while i >= 3 { adj[i] = vec![i - 2, i - 1]; adj[i - 1].push(i - 3); adj[i - 2].push(i - 3); i -= 3; } }
        "layers" | "layers-shortcuts" => {
            let width = (n as f64).sqrt().ceil() as usize;
            let layer = |i: usize| i / width;
            let layers = layer(n - 1) + 1;
            for u in 0..n {
                if layer(u) + 1 < layers {
                    for _ in 0..r.range(1, 3) { let w = (layer(u) + 1) * width + r.below(width as u64) as usize; if w < n && !adj[u].contains(&w) { adj[u].push(w); } }
                    // long shortcut edges: straight to one of the last layers
                    if shape == "layers-shortcuts" && r.chance(1, 3) { let l = r.range(layer(u) as u64 + 1, layers as u64 - 1) as usize; let w = l * width + r.below(width as u64) as usize; if w < n && !adj[u].contains(&w) { adj[u].insert(0, w); } }
                }
            }
        }
        "chain-shortcuts" => { for i in 0..n - 1 { adj[i].push(i + 1); } adj[0].insert(0, n - 1); for i in (0..n - 3).step_by(5) { let w = r.range(i as u64 + 2, n as u64 - 1) as usize; if r.chance(1, 2) { adj[i].insert(0, w); } else { adj[i].push(w); } } }
        "tree" => for i in 0..n { for c in [2 * i + 1, 2 * i + 2] { if c < n { adj[i].push(c); } } },
        "tree-up" => for i in 1..n { adj[i].push((i - 1) / 2); },
        "complete" => for i in 0..n { adj[i] = (i + 1..n).collect(); if i % 2 == 1 { adj[i].reverse(); } },
        "components" => { let mut i = 0; while i < n { let len = r.range(1, 4) as usize; for j in i..(i + len - 1).min(n - 1) { if r.chance(1, 2) { adj[j].push(j + 1); } else { adj[j + 1].push(j); } } i += len; } }
        "isolated" => {}
        "bipartite" => { let half = n / 2; for u in 0..half { for _ in 0..r.range(1, 4) { let w = half + r.below((n - half) as u64) as usize; if !adj[u].contains(&w) { adj[u].push(w); } } } }
        "dup-edges" => { for i in 0..n - 1 { adj[i].push(i + 1); if i + 2 < n { adj[i].push(i + 2); } adj[i].push(i + 1); if i % 3 == 0 && i + 2 < n { adj[i].push(i + 2); adj[i].push(i + 2); } } }
        _ => { // "random": a random topological position per node, edges only towards earlier positions, expected out-degree ~ 2.5
            let mut pos: Vec<usize> = (0..n).collect();
            r.shuffle(&mut pos);
            for u in 0..n { for _ in 0..r.below(6) { let w = r.below(n as u64) as usize; if pos[w] < pos[u] && !adj[u].contains(&w) { adj[u].push(w); } } }
        }
    }
    adj
}

fn generate_big(thorough: bool, seed: u64, emit: &mut dyn FnMut(Case)) {
    let shapes = ["chain-down", "chain-up", "star-out", "star-out-desc", "star-out-mid", "star-in", "star-in-last", "diamonds", "diamonds-up", "layers", "layers-shortcuts", "chain-shortcuts", "tree", "tree-up", "complete",
                  "components", "isolated", "bipartite", "dup-edges", "random", "random"];
    let rounds = if thorough { 2 } else { 1 };
    let mut idx = 0u64;
    for round in 0..rounds {
        for &n in BIG_SIZES {
            for (shape_i, shape) in shapes.into_iter().enumerate() {
                idx += 1;
                // the complete DAG has n^2/2 edges: up to 65 nodes (2 080 edges)
                if shape == "complete" && n > 65 { continue; }
                // quick tier: at 256, 257 and 300 nodes a third of the shapes each (every shape at one of the three sizes)
                if !thorough && n >= 256 && (shape_i + n) % 3 != 0 { continue; }
                let mut r = Rng::for_case(seed ^ 0x13B1_6000, idx);
                let ids = big_ids(&mut r, n);
                let adj = big_shape(shape, n, &mut r);
                debug_assert!(acyclic(n, &adj));
                // the order in which the nodes are written (= directory numbering) is a random permutation for every second case
                let mut order: Vec<usize> = (0..n).collect();
                if r.chance(1, 2) { r.shuffle(&mut order); }
                let mut nodes: Vec<Node> = order.iter().map(|&u| (ids[u].clone(), adj[u].iter().map(|&w| ids[w].clone()).collect())).collect();
                let dangling = r.chance(1, 10);
                if dangling { let u = if r.chance(1, 2) { n - 1 } else { r.below(n as u64) as usize }; let at = r.below(nodes[u].1.len() as u64 + 1) as usize; nodes[u].1.insert(at, "ghost/missing".to_string()); }
                // selections: everything in written order and reversed, the nodes nothing depends on, single nodes (first, last, middle, random), pairs,
                // a threshold-sized prefix, a repeated root, an unknown root, the empty selection
                let mut indeg = vec![0usize; n];
                for a in &adj { for &w in a { indeg[w] += 1; } }
                let all: Vec<String> = nodes.iter().map(|x| x.0.clone()).collect();
                let mut selv: Vec<Vec<String>> = vec![all.clone(), all.iter().rev().cloned().collect(), (0..n).filter(|&u| indeg[u] == 0).map(|u| ids[u].clone()).collect()];
                // (the spec oracle's closure computation is cubic in the node count: fewer selections on the biggest graphs)
                let singles: Vec<usize> = if n >= 256 { vec![0, n - 1, r.below(n as u64) as usize] } else { vec![0, n - 1, n / 2, r.below(n as u64) as usize, r.below(n as u64) as usize] };
                for u in singles { selv.push(vec![ids[u].clone()]); }
                if n < 256 {
                    selv.push(vec![ids[n - 1].clone(), ids[0].clone()]);
                    selv.push(vec![ids[r.below(n as u64) as usize].clone(), ids[r.below(n as u64) as usize].clone(), ids[0].clone(), ids[0].clone()]);
                }
                selv.push(all.iter().take(33.min(n)).cloned().collect());
                if r.chance(1, 3) { let mut s = vec![ids[0].clone()]; s.insert(r.below(2) as usize, "not/there".to_string()); selv.push(s); }
                if r.chance(1, 4) { selv.push(vec![]); }
                let sels: Vec<String> = selv.iter().map(|s| join(",", s)).collect();
                let layout = match (idx + round) % 4 { 0 => 0, 1 => 1 + r.below(1 << 40), _ => (1u64 << 62) | r.below(1 << 40) };
                let mut c = mk_case(&nodes, &sels.join("|"), layout, if dangling { "big-dangling" } else { "big" }, sels.len(), dangling, shared_node(n, &adj), depth(n, &adj));
                c.tags.push(("shape".into(), shape.into()));
                c.tags.push(("wide-dirs".into(), u8::from(layout >> 62 & 1 == 1).to_string()));
                emit(c);
            }
        }
    }
    // medium random DAGs (1..40 nodes) over the id styles above: prefix-sharing ids, frequent duplicate edges, directory names with blanks / non-ASCII / deep nesting
    let samples: u64 = if thorough { 3_000 } else { 400 };
    for k in 0..samples {
        let mut r = Rng::for_case(seed ^ 0x13B1_7000, k);
        let n = if r.chance(1, 4) { r.range(13, 40) } else { r.range(1, 12) } as usize;
        let ids = big_ids(&mut r, n);
        let mut adj = big_shape("random", n, &mut r);
        for a in adj.iter_mut() { if !a.is_empty() && r.chance(1, 3) { for _ in 0..r.range(1, 3) { let x = *r.pick(a); let at = r.below(a.len() as u64 + 1) as usize; a.insert(at, x); } } }
        let mut nodes: Vec<Node> = (0..n).map(|u| (ids[u].clone(), adj[u].iter().map(|&w| ids[w].clone()).collect())).collect();
        r.shuffle(&mut nodes);
        let dangling = r.chance(1, 10);
        // a dangling dependency whose id is a prefix / an extension of an existing id
        if dangling { let u = r.below(n as u64) as usize; let near = r.pick(&ids).clone(); let ghost = match r.below(3) { 0 => format!("{near}0"), 1 => format!("{near}.x"), _ => "ghost".to_string() }; if !ids.contains(&ghost) { let at = r.below(nodes[u].1.len() as u64 + 1) as usize; nodes[u].1.insert(at, ghost); } }
        let dangling = nodes.iter().any(|nd| nd.1.iter().any(|d| !ids.contains(d)));
        let mut selv = vec![];
        for _ in 0..r.range(1, 8) {
            let kk = if r.chance(1, 20) { 0 } else { r.range(1, (n as u64).min(8)) };
            let mut sel: Vec<String> = (0..kk).map(|_| r.pick(&ids).clone()).collect();
            if r.chance(1, 12) { let near = r.pick(&ids).clone(); let unknown = format!("{near}/x"); if !ids.contains(&unknown) { let at = r.below(sel.len() as u64 + 1) as usize; sel.insert(at, unknown); } }
            selv.push(join(",", &sel));
        }
        let layout = match r.below(4) { 0 => 0, 1 => 1 + r.below(1 << 40), _ => (1u64 << 62) | r.below(1 << 40) };
        let mut c = mk_case(&nodes, &selv.join("|"), layout, if dangling { "mid-dangling" } else { "mid" }, selv.len(), dangling, shared_node(n, &adj), depth(n, &adj));
        c.tags.push(("wide-dirs".into(), u8::from(layout >> 62 & 1 == 1).to_string()));
        emit(c);
    }
}

// ------------------------------------------------------------------------------------------------ the `pkg` family: the real executable
// (the way of building and running the tool is the one of c15.rs; copied, c15 is left alone)

const TOOL_TARGET_DIR: &str = "/verif/harness/target/c15-tool"; // shared with c15: same sources, same build
const RUN_TIMEOUT: Duration = Duration::from_secs(120);

fn triple() -> String { format!("{}-unknown-linux-gnu", std::env::consts::ARCH) }

/// `cargo build -p libcnb-cargo` from /repo's working tree into a target directory below /verif/harness/target (never below /repo).
fn tool() -> &'static Result<PathBuf, String> {
    static TOOL: OnceLock<Result<PathBuf, String>> = OnceLock::new();
    TOOL.get_or_init(|| {
        let out = Command::new("cargo")
            .args(["build", "--offline", "-p", "libcnb-cargo", "--manifest-path", "/repo/Cargo.toml", "--target-dir", TOOL_TARGET_DIR])
            .env("CARGO_NET_OFFLINE", "true").env_remove("CARGO_TARGET_DIR").env_remove("CI")
            .stdin(Stdio::null()).output().map_err(|e| format!("cannot spawn cargo: {e}"))?;
        if !out.status.success() {
            let err = String::from_utf8_lossy(&out.stderr);
            eprintln!("c13: building cargo-libcnb from /repo failed:\n{}", &err[err.len().saturating_sub(3000)..]);
            return Err("tool-build-failed".into());
        }
        let p = PathBuf::from(TOOL_TARGET_DIR).join("debug/cargo-libcnb");
        if p.is_file() { Ok(p) } else { Err("tool-build-failed".into()) }
    })
}

/// ordinary runs share this lock, the retry of a timed-out case holds it exclusively
static ALONE: RwLock<()> = RwLock::new(());
#[allow(dead_code)]
enum Guard<'a> { Shared(std::sync::RwLockReadGuard<'a, ()>), Excl(std::sync::RwLockWriteGuard<'a, ()>) }

struct Outcome { status: Option<i32>, stderr: String, timed_out: bool }

fn run_tool_once(tool: &Path, scratch: &Path, cwd: &Path, tag: &str) -> Outcome {
    let so = scratch.join(format!("{tag}.stdout"));
    let se = scratch.join(format!("{tag}.stderr"));
    let mut cmd = Command::new(tool);
    cmd.args(["libcnb", "package", "--target", &triple(), "--no-cross-compile-assistance", "--package-dir"]).arg(scratch.join("out/packaged"));
    cmd.current_dir(cwd)
        .env("CARGO", std::env::var("CARGO").unwrap_or_else(|_| "cargo".into()))
        .env("CARGO_NET_OFFLINE", "true").env("CARGO_TERM_COLOR", "never")
        .env("CARGO_TARGET_DIR", scratch.join("out/target"))
        .env_remove("CARGO_BUILD_TARGET_DIR").env_remove("CARGO_BUILD_TARGET").env_remove("CI")
        .env_remove("RUSTC_WRAPPER").env_remove("CARGO_MANIFEST_DIR")
        .stdin(Stdio::null())
        .stdout(fs::File::create(&so).unwrap()).stderr(fs::File::create(&se).unwrap())
        .process_group(0);
    let mut child = match cmd.spawn() { Ok(c) => c, Err(e) => return Outcome { status: None, stderr: format!("spawn: {e}"), timed_out: false } };
    let deadline = Instant::now() + RUN_TIMEOUT;
    let mut timed_out = false;
    let status = loop {
        match child.try_wait() {
            Ok(Some(st)) => break st.code(),
            Ok(None) => {
                if Instant::now() > deadline {
                    timed_out = true;
                    let _ = Command::new("kill").args(["-9", &format!("-{}", child.id())]).status();
                    let _ = child.kill();
                    let _ = child.wait();
                    break None;
                }
                std::thread::sleep(Duration::from_millis(10));
            }
            Err(_) => break None,
        }
    };
    Outcome { status, stderr: String::from_utf8_lossy(&fs::read(&se).unwrap_or_default()).into_owned(), timed_out }
}

/// the class of the tool's final error line (never its text)
fn err_kind(stderr: &str) -> String {
    let Some(line) = stderr.lines().rev().find(|l| l.starts_with("❌")) else { return "crash".into() };
    let table = [("No buildpacks found", "no-buildpacks"), ("references unknown dependency", "missing-dep"), ("is not in the dependency graph", "unknown-root"),
                 ("Ambiguous binary targets", "ambiguous-bins"), ("No binary targets", "no-bins"), ("invalid buildpack id", "invalid-dep-id"),
                 ("Missing path for buildpack", "missing-buildpack-path"), ("Failed to package buildpack", "package"), ("Failed to find Cargo workspace root", "workspace-root")];
    for (needle, kind) in table { if line.contains(needle) { return kind.into(); } }
    eprintln!("c13: unclassified error line: {line}");
    "other".into()
}

/// ids in the order of the `📦 [n/m] Building <id> (./<path>)` progress lines: one line per call of `package_buildpack`, printed just before it
fn building_order(stderr: &str) -> Vec<String> {
    stderr.lines().filter(|l| l.starts_with("📦 [")).filter_map(|l| l.split_once("] Building ")).filter_map(|(_, rest)| rest.split(' ').next()).map(String::from).collect()
}

#[derive(Clone)]
/// `link`: (composites only) the directory entry is a symbolic link to a directory outside the workspace (kind letter `S`)
struct PBp { id: String, libcnb: bool, dir: String, deps: Vec<String>, link: bool }

fn parse_pbps(s: &str) -> Option<Vec<PBp>> {
    let mut out = vec![];
    for b in split_list(s, "|") {
        let p: Vec<&str> = b.split('>').collect();
        if p.len() != 4 || p[0].is_empty() || p[2].is_empty() { return None; }
        let (libcnb, link) = match p[1] { "L" => (true, false), "C" => (false, false), "S" => (false, true), _ => return None };
        if link && p[2] == "." { return None; }
        // directories are plain relative paths
        if p[2] != "." && p[2].split('/').any(|c| c.is_empty() || c == "." || c == ".." ) { return None; }
        out.push(PBp { id: p[0].into(), libcnb, dir: p[2].into(), deps: split_list(p[3], ",").iter().map(|d| d.to_string()).collect(), link });
    }
    Some(out)
}
fn render_pbps(bps: &[PBp]) -> String { join("|", &bps.iter().map(|b| format!("{}>{}>{}>{}", b.id, if b.libcnb { "L" } else if b.link { "S" } else { "C" }, b.dir, join(",", &b.deps))).collect::<Vec<_>>()) }

fn pdir(ws: &Path, rel: &str) -> PathBuf { if rel == "." { ws.to_path_buf() } else { ws.join(rel) } }

/// A real cargo workspace: one dependency-free `fn main() {}` crate per libcnb.rs buildpack (member of the workspace, or its root package),
/// composite buildpacks as buildpack.toml + package.toml; `libcnb:` dependencies in package.toml for both kinds.
fn pkg_materialise(ws: &Path, bps: &[PBp]) {
    fs::create_dir_all(ws).unwrap();
    let mut members = vec![];
    let mut root_package = String::new();
    let mut lock = String::from("# This file is automatically @generated by Cargo.\n# It is not intended for manual editing.\nversion = 4\n");
    let mut names: Vec<String> = vec![];
    for (k, bp) in bps.iter().enumerate() {
        let entry = pdir(ws, &bp.dir);
        // a linked composite lives in <scratch>/ext/eK beside the workspace; the entry is a link to it, absolute (even K) or relative (odd K)
        let d = if bp.link { ws.parent().unwrap().join(format!("ext/e{k}")) } else { entry.clone() };
        fs::create_dir_all(&d).unwrap();
        if bp.link {
            fs::create_dir_all(entry.parent().unwrap()).unwrap();
            let depth = bp.dir.split('/').count();
            let target = if k % 2 == 0 { d.clone() } else { PathBuf::from(format!("{}ext/e{k}", "../".repeat(depth))) };
            std::os::unix::fs::symlink(target, &entry).unwrap();
        }
        if bp.libcnb {
            let name = format!("p{k}");
            let package = format!("[package]\nname = \"{name}\"\nversion = \"0.0.0\"\nedition = \"2021\"\n");
            if bp.dir == "." { root_package = package; } else { members.push(format!("\"{}\"", bp.dir)); fs::write(d.join("Cargo.toml"), package).unwrap(); }
            fs::create_dir_all(d.join("src")).unwrap();
            fs::write(d.join("src/main.rs"), "fn main() {}\n").unwrap();
            fs::write(d.join("buildpack.toml"), component_toml(&bp.id)).unwrap();
            names.push(name);
        } else {
            fs::write(d.join("buildpack.toml"), composite_toml(&bp.id, &bp.deps)).unwrap();
        }
        // composites always carry a package.toml; libcnb.rs buildpacks when they declare dependencies (and every other one without)
        if !bp.libcnb || !bp.deps.is_empty() || k % 2 == 1 {
            let mut s = String::from("[buildpack]\nuri = \".\"\n");
            if !bp.libcnb && k % 3 == 0 { s.push_str("\n[[dependencies]]\nuri = \"docker://docker.io/heroku/example:1.2.3\"\n"); }
            for dep in &bp.deps { s.push_str(&format!("\n[[dependencies]]\nuri = \"libcnb:{dep}\"\n")); }
            fs::write(d.join("package.toml"), s).unwrap();
        }
    }
    let sep = if root_package.is_empty() { "" } else { "\n" };
    fs::write(ws.join("Cargo.toml"), format!("{root_package}{sep}[workspace]\nresolver = \"2\"\nmembers = [{}]\n", members.join(", "))).unwrap();
    // the lock file cargo would write on the first build, so that the workspace does not change under the runs
    names.sort();
    for n in names { lock.push_str(&format!("\n[[package]]\nname = \"{n}\"\nversion = \"0.0.0\"\n")); }
    fs::write(ws.join("Cargo.lock"), lock).unwrap();
}

fn pkg_walk(ws: &Path, bps: &[PBp]) -> Option<Vec<String>> {
    let dirs = libcnb_package::find_buildpack_dirs(ws).ok()?;
    Some(dirs.iter().filter_map(|d| bps.iter().find(|b| pdir(ws, &b.dir) == *d).map(|b| b.id.clone())).collect())
}

fn pkg_run_case(f: &[String], alone: bool) -> String {
    if f.len() != 3 { return "bad-case".into(); }
    let Some(bps) = parse_pbps(&f[1]) else { return "bad-case".into() };
    let invs = split_list(&f[2], ";");
    if invs.is_empty() { return "bad-case".into(); }
    let tool = match tool() { Ok(p) => p.clone(), Err(e) => return e.clone() };
    let tmp = tempfile::Builder::new().prefix("c13p-").tempdir().unwrap();
    let scratch = tmp.path().canonicalize().unwrap();
    let ws = scratch.join("ws");
    pkg_materialise(&ws, &bps);
    fs::create_dir_all(scratch.join("out")).unwrap();
    // the order in which the buildpack directories reach the graph: the same function on the same, unchanged directory tree
    let Some(walk) = pkg_walk(&ws, &bps) else { return "err:walk".into() };
    let _guard = if alone { Guard::Excl(ALONE.write().unwrap()) } else { Guard::Shared(ALONE.read().unwrap()) };
    let mut results = vec![];
    for (k, inv) in invs.iter().enumerate() {
        if *inv != "." && inv.split('/').any(|c| c.is_empty() || c == "." || c == "..") { return "bad-case".into(); }
        if bps.iter().any(|b| b.link && (b.dir == *inv || inv.starts_with(&format!("{}/", b.dir)))) { return "bad-case".into(); }
        let cwd = pdir(&ws, inv);
        if !cwd.is_dir() { fs::create_dir_all(&cwd).unwrap(); }
        let o = run_tool_once(&tool, &scratch, &cwd, &format!("run{k}"));
        let order = join(",", &building_order(&o.stderr));
        results.push(if o.timed_out { format!("{order}:timeout") } else { match o.status {
            Some(0) => format!("{order}:ok"),
            Some(_) => format!("{order}:err:{}", err_kind(&o.stderr)),
            None => format!("{order}:err:killed"),
        } });
    }
    if pkg_walk(&ws, &bps).as_ref() != Some(&walk) { return "err:walk-unstable".into(); }
    format!("walk={};{}", join(",", &walk), results.join("|"))
}

// ------------------------------------------------------------------------------------------------ generation of `pkg` cases

fn pkg_case(bps: &[PBp], invs: &[String], family: &str) -> Case {
    let n = bps.len();
    let idx = |id: &str| bps.iter().position(|b| b.id == id);
    let adj: Vec<Vec<usize>> = bps.iter().map(|b| b.deps.iter().filter_map(|d| idx(d)).collect()).collect();
    let dangling = bps.iter().any(|b| b.deps.iter().any(|d| idx(d).is_none()));
    let edge = |from: bool, to: bool| bps.iter().enumerate().any(|(u, b)| b.libcnb == from && adj[u].iter().any(|&w| bps[w].libcnb == to));
    let mixed = edge(true, false) || edge(false, true);
    let dep = if acyclic(n, &adj) { depth(n, &adj) } else { 0 };
    let plain_inv = invs.iter().any(|i| i != "." && !bps.iter().any(|b| &b.dir == i));
    Case {
        fields: vec!["pkg".into(), render_pbps(bps), join(";", invs)],
        tags: vec![("kind".into(), format!("pkg-{}", if dangling { "dangling" } else { family })), ("n".into(), n.to_string()), ("libcnb-rs".into(), bps.iter().filter(|b| b.libcnb).count().to_string()),
                   ("depth".into(), dep.to_string()), ("edge-L>C".into(), u8::from(edge(true, false)).to_string()), ("edge-C>L".into(), u8::from(edge(false, true)).to_string()),
                   ("edge-C>C".into(), u8::from(edge(false, false)).to_string()), ("edge-L>L".into(), u8::from(edge(true, true)).to_string()),
                   ("root-buildpack".into(), bps.iter().find(|b| b.dir == ".").map(|b| if b.libcnb { "L" } else { "C" }).unwrap_or("none").to_string()),
                   ("invocations".into(), invs.len().to_string()), ("plain-inv".into(), u8::from(plain_inv).to_string()), ("linked-dirs".into(), bps.iter().filter(|b| b.link).count().to_string())],
        // non-trivial: a dependency between buildpacks of different kinds, a chain of length >= 2, a shared dependency, or a dangling one
        nontrivial: dangling || mixed || dep >= 2 || shared_node(n, &adj),
    }
}

/// root first, then every buildpack directory
fn all_invs(bps: &[PBp]) -> Vec<String> {
    let mut v = vec![".".to_string()];
    // (not from a linked directory: the process's current directory is then the link's target, outside the cargo workspace)
    v.extend(bps.iter().filter(|b| b.dir != "." && !b.link).map(|b| b.dir.clone()));
    v
}

fn default_dir(k: usize, libcnb: bool) -> String { if libcnb { format!("bps/{}", NAMES[k]) } else { format!("meta/{}", NAMES[k]) } }

/// hand-made workspaces: every kind of edge, chains and diamonds mixing kinds, buildpacks at the workspace root, unrelated buildpacks, nesting
fn pkg_fixed() -> Vec<(Vec<PBp>, Vec<String>)> {
    let b = |id: &str, k: &str, dir: &str, deps: &[&str]| PBp { id: id.into(), libcnb: k == "L", dir: dir.into(), deps: deps.iter().map(|d| d.to_string()).collect(), link: k == "S" };
    let shapes: Vec<Vec<PBp>> = vec![
        // chains alternating kinds
        vec![b("x/top", "L", "bps/top", &["x/mid"]), b("x/mid", "C", "meta/mid", &["x/low"]), b("x/low", "L", "bps/low", &[])],
        vec![b("x/top", "C", "meta/top", &["x/mid"]), b("x/mid", "L", "bps/mid", &["x/low"]), b("x/low", "C", "meta/low", &[])],
        vec![b("top", "L", "a-top", &["mid"]), b("mid", "C", "z-mid", &["low"]), b("low", "C", "m-low", &[])],
        vec![b("top", "L", "z-top", &["mid"]), b("mid", "L", "a-mid", &["low"]), b("low", "C", "m-low", &[])],
        // diamonds mixing kinds, plus unrelated buildpacks of both kinds
        vec![b("d/top", "L", "bps/top", &["d/left", "d/right"]), b("d/left", "C", "meta/left", &["d/base"]), b("d/right", "L", "bps/right", &["d/base"]), b("d/base", "C", "meta/base", &[]),
             b("solo", "C", "solo", &[]), b("other", "L", "bps/other", &[])],
        vec![b("d/top", "C", "meta/top", &["d/right", "d/left"]), b("d/left", "L", "bps/left", &["d/base"]), b("d/right", "C", "meta/right", &["d/base", "d/left"]), b("d/base", "L", "bps/base", &[])],
        // buildpacks in the workspace root
        vec![b("r/root", "C", ".", &["r/base"]), b("r/base", "C", "meta/base", &["r/leaf"]), b("r/leaf", "L", "bps/leaf", &[])],
        vec![b("r/root", "L", ".", &["r/base"]), b("r/base", "C", "meta/base", &[]), b("r/user", "C", "meta/user", &["r/root"])],
        vec![b("r/root", "C", ".", &["r/one", "r/two"]), b("r/one", "L", "bps/one", &[]), b("r/two", "L", "bps/two", &["r/one"])],
        vec![b("r/root", "L", ".", &[]), b("r/dep", "L", "sub/dep", &["r/root", "r/meta"]), b("r/meta", "C", "sub/meta", &[])],
        // a composite inside a libcnb.rs buildpack's directory that the latter depends on; two unrelated pairs
        vec![b("n/outer", "L", "outer", &["n/inner"]), b("n/inner", "C", "outer/inner", &[]), b("n/user", "C", "user", &["n/outer"])],
        vec![b("p/a", "L", "one/a", &["p/b"]), b("p/b", "C", "one/b", &[]), b("q/a", "C", "two/a", &["q/b"]), b("q/b", "L", "two/b", &[])],
        // composites whose directory is a link to a directory outside the workspace (S): a dependency of others; the top of a chain; unrelated; links depending on links
        vec![b("demo/maven", "L", "bps/maven", &[]), b("demo/jvm", "S", "bps/jvm", &[]), b("demo/java", "C", "meta/java", &["demo/jvm", "demo/maven"])],
        vec![b("demo/maven", "L", "bps/maven", &[]), b("demo/java", "C", "meta/java", &["demo/jvm", "demo/maven"]), b("demo/jvm", "S", "vendor/deep/jvm", &[])],
        vec![b("x/top", "S", "meta/top", &["x/mid"]), b("x/mid", "L", "bps/mid", &["x/low"]), b("x/low", "C", "meta/low", &[])],
        vec![b("p/a", "L", "bps/a", &["p/b"]), b("p/b", "C", "meta/b", &[]), b("alone", "S", "alone", &[])],
        vec![b("z", "C", "meta/z", &["x"]), b("x", "S", "meta/x", &["y"]), b("y", "S", "linked/y", &[])],
    ];
    shapes.into_iter().enumerate().map(|(i, s)| { let mut invs = all_invs(&s); if i % 3 == 0 { invs.push(if s.iter().any(|x| x.dir.starts_with("bps/")) { "bps".into() } else { "src-less/plain".into() }); } (s, invs) }).collect()
}

fn pkg_random(r: &mut Rng, nmin: u64, nmax: u64) -> (Vec<PBp>, Vec<String>) {
    let n = r.range(nmin, nmax) as usize;
    let mut names: Vec<String> = LONG.iter().map(|s| s.to_string()).collect();
    r.shuffle(&mut names);
    names.truncate(n);
    let mut pos: Vec<usize> = (0..n).collect();
    r.shuffle(&mut pos);
    let density = r.range(2, 6);
    let mut adj = vec![vec![]; n];
    for u in 0..n { for w in 0..n { if pos[w] < pos[u] && r.chance(density, 8) { adj[u].push(w); } } }
    for a in adj.iter_mut() { r.shuffle(a); }
    // at most three crates per workspace (compile time)
    let mut kinds: Vec<bool> = (0..n).map(|_| r.chance(1, 2)).collect();
    while kinds.iter().filter(|k| **k).count() > 3 { let i = r.below(n as u64) as usize; kinds[i] = false; }
    let at_root = if r.chance(1, 4) { Some(r.below(n as u64) as usize) } else { None };
    let mut bps: Vec<PBp> = (0..n).map(|u| {
        let leaf = format!("d{u}");
        let dir = if at_root == Some(u) { ".".to_string() } else { match r.below(4) { 0 => leaf, 1 => format!("bps/{leaf}"), 2 => format!("deep/er/{leaf}"), _ => format!("{}/{leaf}", if kinds[u] { "crates" } else { "meta" }) } };
        PBp { id: names[u].clone(), libcnb: kinds[u], dir, deps: adj[u].iter().map(|&w| names[w].clone()).collect(), link: false }
    }).collect();
    if r.chance(1, 8) { let u = r.below(n as u64) as usize; let at = r.below(bps[u].deps.len() as u64 + 1) as usize; bps[u].deps.insert(at, "heroku/missing".into()); }
    r.shuffle(&mut bps);
    let mut invs = all_invs(&bps);
    // at most four invocations besides the root
    while invs.len() > 5 { let i = 1 + r.below(invs.len() as u64 - 1) as usize; invs.remove(i); }
    if r.chance(1, 4) { invs.push("deep".into()); }
    (bps, invs)
}

fn generate_pkg(thorough: bool, seed: u64, emit: &mut dyn FnMut(Case)) {
    // 1. every labelled DAG on <= 2 (quick) / <= 3 (thorough) buildpacks x every assignment of kinds, invoked from the root and from every buildpack directory;
    //    thorough: every third workspace a second time with one buildpack in the workspace root
    let nmax = if thorough { 3 } else { 2 };
    let mut count = 0usize;
    for n in 1..=nmax {
        let pairs: Vec<(usize, usize)> = (0..n).flat_map(|u| (0..n).filter(move |&w| w != u).map(move |w| (u, w))).collect();
        for mask in 0u32..(1u32 << pairs.len()) {
            let mut adj = vec![vec![]; n];
            for (b, &(u, w)) in pairs.iter().enumerate() { if mask >> b & 1 == 1 { adj[u].push(w); } }
            if !acyclic(n, &adj) { continue; }
            for kinds in 0u32..(1u32 << n) {
                let mk = |root: Option<usize>| -> Vec<PBp> { (0..n).map(|u| { let l = kinds >> u & 1 == 1; PBp { id: NAMES[u].into(), libcnb: l, dir: if root == Some(u) { ".".into() } else { default_dir(u, l) }, deps: adj[u].iter().map(|&w| NAMES[w].to_string()).collect(), link: false } }).collect() };
                let bps = mk(None);
                emit(pkg_case(&bps, &all_invs(&bps), "exh"));
                count += 1;
                if thorough && count % 3 == 0 { let bps = mk(Some(count / 3 % n)); emit(pkg_case(&bps, &all_invs(&bps), "exh-root")); }
            }
        }
    }
    // 2. the hand-made workspaces
    for (bps, invs) in pkg_fixed() { emit(pkg_case(&bps, &invs, "fixed")); }
    // 3. seeded random workspaces
    let samples: u64 = if thorough { 160 } else { 20 };
    for idx in 0..samples {
        let mut r = Rng::for_case(seed ^ 0x13_13_13, idx);
        let (bps, invs) = if thorough && idx % 2 == 0 { pkg_random(&mut r, 4, 4) } else { pkg_random(&mut r, 3, 7) };
        emit(pkg_case(&bps, &invs, "rnd"));
    }
}

fn main() { main_loop_jobs("c13", 12, &generate, &run_case); }
