//! C13 correspondence: real `build_libcnb_buildpacks_dependency_graph` on generated directories, then the real
//! `get_dependencies` for every root selection of the case.
//!
//! fields: nodes `id>dep,dep;id>;…` | roots (`*` or `a,b|c|-`) | layout seed (0 = plain)
//! observation: `walk=<ids in graph order>;<order>|<order>|…` or `walk=<ids in directory-walk order>;err:missing:<id>`
use cnbv::*;
use libcnb_data::buildpack::BuildpackId;
use libcnb_package::buildpack_dependency_graph::{
    BuildBuildpackDependencyGraphError, BuildpackDependencyGraphNode, build_libcnb_buildpacks_dependency_graph,
};
use libcnb_package::dependency_graph::{CreateDependencyGraphError, GetDependenciesError, get_dependencies};
use std::fs;
use std::path::{Path, PathBuf};

type Node = (String, Vec<String>);

fn parse_nodes(s: &str) -> Vec<Node> {
    split_list(s, ";").iter().map(|n| { let (i, d) = n.split_once('>').expect("node"); (i.to_string(), split_list(d, ",").iter().map(|x| x.to_string()).collect()) }).collect()
}
fn render_nodes(ns: &[Node]) -> String { join(";", &ns.iter().map(|(i, d)| format!("{i}>{}", d.join(","))).collect::<Vec<_>>()) }

/// every non-empty sequence of distinct elements, at most `k` long: for each x in order, [x], then x :: (selections of the rest)
fn sels(k: usize, avail: &[String]) -> Vec<Vec<String>> {
    let mut out = vec![];
    if k == 0 { return out; }
    for (i, x) in avail.iter().enumerate() {
        out.push(vec![x.clone()]);
        let mut rest = avail.to_vec();
        rest.remove(i);
        for s in sels(k - 1, &rest) { let mut v = vec![x.clone()]; v.extend(s); out.push(v); }
    }
    out
}
fn parse_roots(ids: &[String], s: &str) -> Vec<Vec<String>> {
    if s == "*" { sels(ids.len(), ids) } else { s.split('|').map(|sel| split_list(sel, ",").iter().map(|x| x.to_string()).collect()).collect() }
}

const COMPONENT: &str = "api = \"0.10\"\n\n[buildpack]\nid = \"@ID@\"\nversion = \"0.0.1\"\n";
fn component_toml(id: &str) -> String { COMPONENT.replace("@ID@", id) }
fn composite_toml(id: &str, group: &[String]) -> String {
    let mut s = format!("api = \"0.10\"\n\n[buildpack]\nid = \"{id}\"\nversion = \"0.0.1\"\n\n[[order]]\n");
    let g: Vec<String> = if group.is_empty() { vec!["some/other".to_string()] } else { group.to_vec() };
    for d in g { s.push_str(&format!("\n[[order.group]]\nid = \"{d}\"\nversion = \"0.0.1\"\n")); }
    s
}
const NOISE_URIS: &[&str] = &["docker://docker.io/heroku/example:1.2.3", "../../somewhere/else", "/abs/path/bp", "https://example.com/bp.tgz", "urn:cnb:registry:heroku/nodejs@1.0.0", "."];

/// Lays the graph out as directories below `root`; returns path -> id for the buildpacks that belong to the graph.
fn write_layout(root: &Path, nodes: &[Node], layout: u64) -> Vec<(PathBuf, String)> {
    let mut r = Rng::new(layout);
    let mut table = vec![];
    for (k, (id, deps)) in nodes.iter().enumerate() {
        let rel = if layout == 0 { format!("bp{k}") } else {
            match r.below(4) { 0 => format!("bp{k}"), 1 => format!("buildpacks/n{k}"), 2 => format!("a/b/c/{k}x"), _ => format!("z{}/m{k}", r.below(2)) }
        };
        let dir = root.join(rel);
        fs::create_dir_all(&dir).unwrap();
        // kind: composite, or libcnb.rs (component descriptor + Cargo.toml); dependencies normally only on composites
        let composite = if layout == 0 { !deps.is_empty() } else if deps.is_empty() { r.chance(1, 3) } else { !r.chance(1, 5) };
        if composite {
            fs::write(dir.join("buildpack.toml"), composite_toml(id, deps)).unwrap();
        } else {
            fs::write(dir.join("buildpack.toml"), component_toml(id)).unwrap();
            fs::write(dir.join("Cargo.toml"), "[package]\nname = \"x\"\nversion = \"0.0.0\"\n").unwrap();
        }
        let with_pkg = !deps.is_empty() || (layout != 0 && r.chance(1, 2));
        if with_pkg {
            let mut s = String::from("[buildpack]\nuri = \".\"\n");
            let mut push = |u: &str| s.push_str(&format!("\n[[dependencies]]\nuri = \"{u}\"\n"));
            for d in deps {
                if layout != 0 && r.chance(1, 4) { push(*r.pick(NOISE_URIS)); }
                push(&format!("libcnb:{d}"));
            }
            if layout != 0 && r.chance(1, 4) { push(*r.pick(NOISE_URIS)); }
            if layout != 0 && r.chance(1, 4) { s.push_str("\n[platform]\nos = \"windows\"\n"); }
            fs::write(dir.join("package.toml"), s).unwrap();
        }
        table.push((dir, id.clone()));
    }
    if layout != 0 {
        // buildpacks that are not part of the graph: not libcnb.rs (no Cargo.toml), with a package.toml that must be ignored
        for k in 0..r.below(3) {
            let dir = root.join(format!("other{k}/bp"));
            fs::create_dir_all(dir.join("bin")).unwrap();
            fs::write(dir.join("buildpack.toml"), component_toml(&format!("other/bash{k}"))).unwrap();
            if r.chance(1, 2) { fs::write(dir.join("package.toml"), "[buildpack]\nuri = \".\"\n\n[[dependencies]]\nuri = \"libcnb:not/anywhere\"\n").unwrap(); }
        }
        if r.chance(1, 3) {
            // an unreadable descriptor: no buildpack kind, left out of the graph
            let dir = root.join("broken");
            fs::create_dir_all(&dir).unwrap();
            fs::write(dir.join("buildpack.toml"), "this is = not [ toml").unwrap();
        }
        if r.chance(1, 3) { fs::create_dir_all(root.join("empty/dir")).unwrap(); fs::write(root.join("empty/README.md"), "x").unwrap(); }
    }
    table
}

fn bid(s: &str) -> BuildpackId { s.parse().expect("buildpack id") }

fn run_case(f: &[String]) -> String {
    let nodes = parse_nodes(&f[0]);
    let ids: Vec<String> = nodes.iter().map(|n| n.0.clone()).collect();
    let selections = parse_roots(&ids, &f[1]);
    let layout: u64 = f[2].parse().expect("layout");
    let tmp = tempfile::Builder::new().prefix("c13-").tempdir().unwrap();
    let root = tmp.path().join("ws");
    fs::create_dir_all(&root).unwrap();
    let table = write_layout(&root, &nodes, layout);
    let graph = match build_libcnb_buildpacks_dependency_graph(&root) {
        Ok(g) => g,
        Err(BuildBuildpackDependencyGraphError::CreateDependencyGraphError(CreateDependencyGraphError::MissingDependency(id))) => {
            // the order in which the nodes reached create_dependency_graph: the directory walk, as the same function sees it
            let dirs = libcnb_package::find_buildpack_dirs(&root).unwrap();
            let walk: Vec<String> = dirs.iter().filter_map(|d| table.iter().find(|(p, _)| p == d).map(|(_, i)| i.clone())).collect();
            return format!("walk={};err:missing:{id}", join(",", &walk));
        }
        Err(BuildBuildpackDependencyGraphError::CreateDependencyGraphError(CreateDependencyGraphError::GetNodeDependenciesError(_))) => return "err:nodedeps".into(),
        Err(BuildBuildpackDependencyGraphError::FindBuildpackDirectories(_)) => return "err:walk".into(),
        Err(BuildBuildpackDependencyGraphError::ReadBuildpackDescriptorError(_)) => return "err:read-buildpack".into(),
        Err(BuildBuildpackDependencyGraphError::ReadPackageDescriptorError(_)) => return "err:read-package".into(),
        Err(BuildBuildpackDependencyGraphError::InvalidDependencyBuildpackId(_)) => return "err:dep-id".into(),
    };
    let walk: Vec<String> = graph.node_weights().map(|n| n.buildpack_id.to_string()).collect();
    // every node must sit where it was written and carry the declared dependencies
    for n in graph.node_weights() {
        match table.iter().find(|(p, _)| *p == n.path) {
            Some((_, i)) if *i == n.buildpack_id.to_string() => {}
            _ => return format!("err:node-path:{}", n.buildpack_id),
        }
    }
    // one stand-in node per distinct root id (BuildpackId parsing compiles a regex each time: parse once per case)
    let mut root_ids: Vec<&String> = selections.iter().flatten().collect();
    root_ids.sort();
    root_ids.dedup();
    let dummies: Vec<(String, BuildpackDependencyGraphNode)> = root_ids.iter().map(|r| ((*r).clone(), BuildpackDependencyGraphNode { buildpack_id: bid(r), path: PathBuf::new(), dependencies: vec![] })).collect();
    let by_id: Vec<(String, &BuildpackDependencyGraphNode)> = graph.node_weights().map(|n| (n.buildpack_id.to_string(), n)).collect();
    let mut results = vec![];
    for sel in &selections {
        // the caller's way of choosing roots: the graph's own node with that id (libcnb-test), else a node the graph does not hold
        let roots: Vec<&BuildpackDependencyGraphNode> = sel.iter().map(|r| by_id.iter().find(|(i, _)| i == r).map(|(_, n)| *n).unwrap_or_else(|| &dummies.iter().find(|(i, _)| i == r).unwrap().1)).collect();
        results.push(match get_dependencies(&graph, &roots) {
            Ok(order) => join(",", &order.iter().map(|n| n.buildpack_id.to_string()).collect::<Vec<_>>()),
            Err(GetDependenciesError::UnknownRootNode(id)) => format!("err:root:{id}"),
        });
    }
    format!("walk={};{}", join(",", &walk), results.join("|"))
}

// ------------------------------------------------------------------------------------------------ generation

fn acyclic(n: usize, adj: &[Vec<usize>]) -> bool {
    // Kahn
    let mut indeg = vec![0; n];
    for u in 0..n { for &w in &adj[u] { indeg[w] += 1; } }
    let mut stack: Vec<usize> = (0..n).filter(|&i| indeg[i] == 0).collect();
    let mut seen = 0;
    while let Some(u) = stack.pop() { seen += 1; for &w in &adj[u] { indeg[w] -= 1; if indeg[w] == 0 { stack.push(w); } } }
    seen == n
}

fn depth(n: usize, adj: &[Vec<usize>]) -> usize {
    fn d(u: usize, adj: &[Vec<usize>], memo: &mut Vec<Option<usize>>) -> usize {
        if let Some(x) = memo[u] { return x; }
        let x = adj[u].iter().map(|&w| 1 + d(w, adj, memo)).max().unwrap_or(0);
        memo[u] = Some(x);
        x
    }
    let mut memo = vec![None; n];
    (0..n).map(|u| d(u, adj, &mut memo)).max().unwrap_or(0)
}

const NAMES: &[&str] = &["a", "b", "c", "d", "e"];
const LONG: &[&str] = &["heroku/nodejs", "heroku/nodejs-engine", "x", "acme.corp/base-1", "A", "libcnb", "0", "w/x/y/z", "some-bp", "heroku/jvm", "b.2", "Procfile"];

fn mk_case(nodes: &[Node], roots: &str, layout: u64, kind: &str, nsel: usize, dangling: bool, shared: bool, dep: usize) -> Case {
    let edges: usize = nodes.iter().map(|n| n.1.len()).sum();
    Case {
        fields: vec![render_nodes(nodes), roots.to_string(), layout.to_string()],
        tags: vec![("kind".into(), kind.into()), ("n".into(), nodes.len().to_string()), ("edges".into(), edges.min(20).to_string()), ("depth".into(), dep.to_string()),
                   ("selections".into(), nsel.to_string()), ("dangling".into(), u8::from(dangling).to_string()), ("layout".into(), u8::from(layout != 0).to_string())],
        // non-trivial: a dependency chain of length >= 2 or a node reachable along two different paths / from two roots
        nontrivial: dangling || dep >= 2 || shared,
    }
}

fn shared_node(n: usize, adj: &[Vec<usize>]) -> bool {
    let mut indeg = vec![0; n];
    for u in 0..n { for &w in &adj[u] { indeg[w] += 1; } }
    indeg.iter().any(|&d| d >= 2)
}

fn generate(tier: &str, seed: u64, emit: &mut dyn FnMut(Case)) {
    let thorough = tier == "thorough";
    // 1. every labelled DAG on <= nmax nodes, dependency lists ascending and descending, every non-empty ordered root selection
    let nmax = if thorough { 5 } else { 4 };
    let mut gcount = 0u64;
    for n in 1..=nmax {
        let pairs: Vec<(usize, usize)> = (0..n).flat_map(|u| (0..n).filter(move |&w| w != u).map(move |w| (u, w))).collect();
        for mask in 0u32..(1u32 << pairs.len()) {
            let mut adj = vec![vec![]; n];
            for (b, &(u, w)) in pairs.iter().enumerate() { if mask >> b & 1 == 1 { adj[u].push(w); } }
            if !acyclic(n, &adj) { continue; }
            gcount += 1;
            let variants: &[bool] = if adj.iter().any(|a| a.len() >= 2) { &[false, true] } else { &[false] };
            for &rev in variants {
                let nodes: Vec<Node> = (0..n).map(|u| { let mut d: Vec<String> = adj[u].iter().map(|&w| NAMES[w].to_string()).collect(); if rev { d.reverse(); } (NAMES[u].to_string(), d) }).collect();
                let nsel = sels(n, &nodes.iter().map(|x| x.0.clone()).collect::<Vec<_>>()).len();
                // real directories in a non-plain layout for a sample of the graphs, plain layout for all
                let layout = if gcount % 7 == 0 { 1 + gcount } else { 0 };
                emit(mk_case(&nodes, "*", layout, "exh", nsel, false, shared_node(n, &adj), depth(n, &adj)));
            }
        }
    }
    // 2. random DAGs up to 12 nodes, richer ids, duplicate dependency entries, repeated / unknown / empty root selections
    let samples: u64 = if thorough { 20_000 } else { 1_500 };
    for idx in 0..samples {
        let mut r = Rng::for_case(seed, idx);
        let n = r.range(1, 12) as usize;
        let mut names: Vec<String> = LONG.iter().map(|s| s.to_string()).collect();
        r.shuffle(&mut names);
        names.truncate(n);
        // a random topological position per node; edges only from later to earlier positions, then labels shuffled
        let mut pos: Vec<usize> = (0..n).collect();
        r.shuffle(&mut pos);
        let density = r.range(1, 6);
        let mut adj = vec![vec![]; n];
        for u in 0..n { for w in 0..n { if pos[w] < pos[u] && r.chance(density, 8) { adj[u].push(w); } } }
        for a in adj.iter_mut() { r.shuffle(a); if !a.is_empty() && r.chance(1, 8) { let x = *r.pick(a); a.push(x); } }
        let mut nodes: Vec<Node> = (0..n).map(|u| (names[u].clone(), adj[u].iter().map(|&w| names[w].clone()).collect())).collect();
        let dangling = r.chance(1, 8);
        if dangling {
            let k = r.range(1, 2);
            for _ in 0..k { let u = r.below(n as u64) as usize; let at = r.below(nodes[u].1.len() as u64 + 1) as usize; nodes[u].1.insert(at, (*r.pick(&["ghost", "heroku/missing", "zz"])).to_string()); }
        }
        let mut selv = vec![];
        for _ in 0..r.range(1, 6) {
            let k = if r.chance(1, 20) { 0 } else { r.range(1, (n as u64).min(5)) };
            let mut sel: Vec<String> = (0..k).map(|_| r.pick(&names).clone()).collect(); // repeats allowed
            if r.chance(1, 12) { let at = r.below(sel.len() as u64 + 1) as usize; sel.insert(at, "not/there".to_string()); }
            selv.push(join(",", &sel));
        }
        let layout = if r.chance(3, 4) { 1 + r.below(1 << 40) } else { 0 };
        emit(mk_case(&nodes, &selv.join("|"), layout, if dangling { "dangling" } else { "rnd" }, selv.len(), dangling, shared_node(n, &adj), depth(n, &adj)));
    }
    // 3. the empty workspace
    emit(mk_case(&[], "-|ghost", 0, "empty", 2, false, false, 0));
}

fn main() { main_loop_jobs("c13", 12, &generate, &run_case); }
