//! C14 correspondence: real `package_composite_buildpack` on generated package descriptors, id -> path maps and source
//! locations; the written `package.toml` is read back with the generic `toml::Value` reader (not libcnb's own types).
//!
//! fields: src (buildpack directory below the scratch root, as spelled) | buildpack uri (hex) | dependency uris (hex,…)
//!         | platform (none|linux|windows) | map (hexid=hexpath,…; a path may start with `$T` = scratch root)
//! observation: `ok;<hex buildpack uri>;<hex dep>,…;<os>;reparse=0|1` (scratch root printed as `$T`) or `err:<kind>[:<hexid>]`
use cnbv::*;
use libcnb_data::buildpack::BuildpackId;
use libcnb_data::package_descriptor::PackageDescriptor;
use libcnb_package::package::{PackageCompositeBuildpackError, package_composite_buildpack};
use libcnb_package::package_descriptor::{NormalizePackageDescriptorError, ReplaceLibcnbUriError};
use std::collections::BTreeMap;
use std::fs;
use std::path::PathBuf;

fn hx(s: &str) -> String { hex(s.as_bytes()) }
fn unhx(s: &str) -> String { String::from_utf8(unhex(s).expect("hex")).expect("utf8") }

fn toml_str(s: &str) -> String {
    let mut o = String::from("\"");
    for c in s.chars() { match c { '"' => o.push_str("\\\""), '\\' => o.push_str("\\\\"), c => o.push(c) } }
    o.push('"');
    o
}

fn contract(root: &str, p: &str) -> String {
    if p == root { "$T".to_string() } else if let Some(rest) = p.strip_prefix(&format!("{root}/")) { format!("$T/{rest}") } else { p.to_string() }
}

fn run_case(f: &[String]) -> String {
    let src = &f[0];
    let bp = unhx(&f[1]);
    let deps: Vec<String> = split_list(&f[2], ",").iter().map(|d| unhx(d)).collect();
    let platform = f[3].as_str();
    let tmp = tempfile::Builder::new().prefix("c14-").tempdir_in("/tmp").unwrap();
    let root = tmp.path().to_str().unwrap().to_string();
    let mut map: BTreeMap<BuildpackId, PathBuf> = BTreeMap::new();
    for e in split_list(&f[4], ",") {
        let (k, v) = e.split_once('=').expect("map entry");
        let v = unhx(v);
        let v = if let Some(rest) = v.strip_prefix("$T") { format!("{root}{rest}") } else { v };
        map.insert(unhx(k).parse().expect("map id"), PathBuf::from(v));
    }
    let bdir = PathBuf::from(format!("{root}/{src}"));
    // make every directory the spelling passes through (so `sub/..` and a trailing `/.` resolve)
    let mut cur = PathBuf::from(&root);
    for piece in src.split('/') {
        match piece { "" | "." => {} ".." => { cur.pop(); } name => { cur.push(name); if !cur.is_dir() { fs::create_dir(&cur).unwrap(); } } }
    }
    assert!(bdir.is_dir());
    let dest = PathBuf::from(format!("{root}/out"));
    fs::create_dir_all(&dest).unwrap();
    fs::write(bdir.join("buildpack.toml"), "api = \"0.10\"\n\n[buildpack]\nid = \"c14/composite\"\nversion = \"0.0.1\"\n\n[[order]]\n\n[[order.group]]\nid = \"x/y\"\nversion = \"0.0.1\"\n").unwrap();
    let mut text = format!("[buildpack]\nuri = {}\n", toml_str(&bp));
    for d in &deps { text.push_str(&format!("\n[[dependencies]]\nuri = {}\n", toml_str(d))); }
    if platform != "none" { text.push_str(&format!("\n[platform]\nos = \"{platform}\"\n")); }
    fs::write(bdir.join("package.toml"), &text).unwrap();

    match package_composite_buildpack(&bdir, &dest, &map) {
        Err(PackageCompositeBuildpackError::CouldNotCopyBuildpackToml(_)) => "err:copy".into(),
        Err(PackageCompositeBuildpackError::CouldNotReadPackageDescriptor(_)) => "err:read".into(),
        Err(PackageCompositeBuildpackError::CouldNotWritePackageDescriptor(_)) => "err:write".into(),
        Err(PackageCompositeBuildpackError::NormalizePackageDescriptorError(e)) => match e {
            NormalizePackageDescriptorError::ReplaceLibcnbUriError(ReplaceLibcnbUriError::BuildpackIdError(_)) => "err:id".into(),
            NormalizePackageDescriptorError::ReplaceLibcnbUriError(ReplaceLibcnbUriError::MissingBuildpackPath(id)) => format!("err:missing:{}", hx(&id.to_string())),
            NormalizePackageDescriptorError::ReplaceLibcnbUriError(ReplaceLibcnbUriError::PackageDescriptorDependencyError(_)) => "err:uri-of-map-path".into(),
            NormalizePackageDescriptorError::PackageDescriptorDependencyError(_) => "err:uri-of-absolutized-path".into(),
        },
        Ok(()) => {
            let written = match fs::read_to_string(dest.join("package.toml")) { Ok(s) => s, Err(_) => return "err:no-output".into() };
            // independent reader: generic TOML tree
            let v: toml::Value = match written.parse() { Ok(v) => v, Err(_) => return "err:output-not-toml".into() };
            let Some(t) = v.as_table() else { return "err:output-shape".into() };
            if t.keys().any(|k| !["buildpack", "dependencies", "platform"].contains(&k.as_str())) { return "err:output-extra-key".into(); }
            let Some(obp) = t.get("buildpack").and_then(|b| b.as_table()).filter(|b| b.len() == 1).and_then(|b| b.get("uri")).and_then(|u| u.as_str()) else { return "err:output-buildpack".into() };
            let mut odeps = vec![];
            if let Some(d) = t.get("dependencies") {
                let Some(arr) = d.as_array() else { return "err:output-deps".into() };
                for e in arr {
                    let Some(u) = e.as_table().filter(|e| e.len() == 1).and_then(|e| e.get("uri")).and_then(|u| u.as_str()) else { return "err:output-dep".into() };
                    odeps.push(hx(&contract(&root, u)));
                }
            }
            let os = match t.get("platform") { None => "linux".to_string(), Some(p) => match p.as_table().filter(|p| p.len() == 1).and_then(|p| p.get("os")).and_then(|o| o.as_str()) { Some(o) => o.to_string(), None => return "err:output-platform".into() } };
            let reparse = toml::from_str::<PackageDescriptor>(&written).is_ok();
            format!("ok;{};{};{};reparse={}", hx(obp), join(",", &odeps), os, u8::from(reparse))
        }
    }
}

// ------------------------------------------------------------------------------------------------ generation

const SRCS: &[&str] = &["ws/bp", "ws/./bp", "ws/sub/../bp", "ws/bp/", "ws//bp", "ws/deep/er/bp", "a.b/c-d_e~f", "ws/it's/bp", "x", "ws/bp/.", "ws/v1.2+3/@home/bp", "ws/sub/../sub/./../bp", "ws/co:lon/bp", "ws/..hid/.../bp"];
const NAMES: &[&str] = &["a", "bp", "my-bp", "x.y", "v1_2", "~t", "a+b", "...", ".hidden", "..x", "x..", "p%2Fq", "it's", "packaged", "ws", "sub", "bp", "tmp", "@home", "a=b,c;d", "(x)", "!", "*"];
const IDS: &[&str] = &["heroku/nodejs", "heroku/nodejs-engine", "a", "x.y/z-1", "Abc123./-", "libcnb", "app-foo", "0", "apps", "config.d"];
const BAD_IDS: &[&str] = &["app", "config", "sbom", "", "under_score", "a~b", "a+b", "a@b", "%41"];
const OTHERS: &[&str] = &[
    "docker://docker.io/heroku/example:1.2.3", "docker://ghcr.io/x/y@sha256:0123456789abcdef", "https://example.com/bp.tgz", "http://example.com/a/../b/./c.cnb?x=1&y=2#frag",
    "https://user:pw@host.example:8443/p/q", "urn:cnb:registry:heroku/nodejs@1.0.0", "urn:cnb:builder:x/y", "file:///abs/bp.tgz", "file:relative/./x", "oci://registry/x", "foo+bar.baz-1:opaque/../part",
    "/abs/path/bp", "/a/../b", "/a//b/", "/", "/./x/.", "/packaged/../up", "http://example.com/", "mailto:a@b.c", "x-y.z+w:", "docker:/single/slash", "d:rel/..",
];
// the spelling class of known finding C14-authority-empty-path: authority followed by an empty path, registered scheme in upper case
const SPELLING: &[&str] = &["docker://docker.io", "http://example.com", "https://example.com?x=1", "https://user@example.com:8080#frag", "oci://registry",
    "HTTP://Example.com/x", "Https://example.com/bp.tgz", "URN:cnb:registry:x/y", "FILE:///abs/bp.tgz", "HTTP://example.com", "Docker://docker.io"];
const BPS: &[&str] = &[".", "./", "bp", "../x/./y", "https://example.com/bp.tgz", "/abs/bp", "docker://x/y:1", "sub/", ""];

fn rel_path(r: &mut Rng) -> (String, bool) {
    // pieces between slashes: names, `.`, `..`, empty (redundant separator)
    let n = r.range(1, 9);
    let climb = r.chance(1, 6); // many `..`: climbs above the scratch root or the file system root
    let mut pieces: Vec<String> = vec![];
    for i in 0..n {
        let k = r.below(10);
        let p = if climb && r.chance(3, 5) { "..".to_string() } else { match k { 0 | 1 => "..".to_string(), 2 => ".".to_string(), 3 => "".to_string(), _ => (*r.pick(NAMES)).to_string() } };
        // a scheme-less reference must not start with `/`, and its first piece must not hold a colon (none of the names does)
        if i == 0 && p.is_empty() { pieces.push(".".to_string()); } else { pieces.push(p); }
    }
    if r.chance(1, 8) { for _ in 0..r.range(3, 12) { pieces.insert(0, "..".to_string()); } }
    let s = pieces.join("/");
    let dots = pieces.iter().filter(|p| *p == "..").count();
    (s, dots >= 3)
}

fn generate(tier: &str, seed: u64, emit: &mut dyn FnMut(Case)) {
    let samples: u64 = if tier == "thorough" { 50_000 } else { 3_000 };
    for idx in 0..samples {
        let mut r = Rng::for_case(seed, idx);
        let src = *r.pick(SRCS);
        let bp = if r.chance(1, 2) { "." } else { *r.pick(BPS) };
        // the map: a few ids with absolute packaged locations (below the scratch root or elsewhere)
        let mut ids: Vec<&str> = IDS.to_vec();
        r.shuffle(&mut ids);
        let known = ids[..r.range(0, 5) as usize].to_vec();
        let unknown = ids[5..].to_vec();
        let map: Vec<(String, String)> = known.iter().map(|id| {
            let leaf = id.replace('/', "_");
            let p = match r.below(5) { 0 => format!("/opt/packaged/{leaf}"), 1 => format!("$T/packaged/x86/../{leaf}/"), 2 => format!("$T/out/./{leaf}"), 3 => "$T".to_string(), _ => format!("$T/packaged/{leaf}") };
            (id.to_string(), p)
        }).collect();
        let mode = r.below(20); // 0: invalid id somewhere, 1-2: unknown id somewhere, else complete
        let ndeps = if r.chance(1, 15) { 0 } else { r.range(1, 9) };
        let mut deps: Vec<String> = vec![];
        let (mut n_lib, mut n_rel, mut n_other, mut climbs, mut n_missing, mut n_invalid) = (0, 0, 0, 0, 0, 0);
        for _ in 0..ndeps {
            match r.below(10) {
                0..=2 if !known.is_empty() => { deps.push(format!("libcnb:{}", r.pick(&known))); n_lib += 1; }
                3..=6 => { let (p, c) = rel_path(&mut r); if c { climbs += 1; } deps.push(p); n_rel += 1; }
                _ => { deps.push((*r.pick(OTHERS)).to_string()); n_other += 1; }
            }
        }
        if mode == 0 { let at = r.below(deps.len() as u64 + 1) as usize; deps.insert(at, format!("libcnb:{}", r.pick(BAD_IDS))); n_invalid += 1; }
        if mode == 1 || mode == 2 || (mode == 0 && r.chance(1, 3)) { let at = r.below(deps.len() as u64 + 1) as usize; deps.insert(at, format!("libcnb:{}", r.pick(&unknown))); n_missing += 1; }
        let platform = *r.pick(&["none", "none", "linux", "windows"]);
        let mut spelling = false;
        let mut bp = bp;
        if r.chance(1, 25) { let at = r.below(deps.len() as u64 + 1) as usize; deps.insert(at, (*r.pick(SPELLING)).to_string()); spelling = true; }
        if r.chance(1, 150) { bp = *r.pick(SPELLING); spelling = true; }
        let kind = if n_invalid > 0 { "invalid-id" } else if n_missing > 0 { "missing-id" } else if spelling { "spelling" } else { "complete" };
        emit(Case {
            fields: vec![src.to_string(), hx(bp), join(",", &deps.iter().map(|d| hx(d)).collect::<Vec<_>>()), platform.to_string(),
                         join(",", &map.iter().map(|(k, v)| format!("{}={}", hx(k), hx(v))).collect::<Vec<_>>())],
            tags: vec![("kind".into(), kind.into()), ("deps".into(), deps.len().to_string()), ("libcnb".into(), n_lib.min(4).to_string()), ("relative".into(), n_rel.min(6).to_string()),
                       ("other".into(), n_other.min(6).to_string()), ("climbing".into(), climbs.min(3).to_string()), ("platform".into(), platform.into()), ("spelling".into(), u8::from(spelling).to_string()), ("src".into(), src.replace(';', "_"))],
            // non-trivial: a libcnb reference is resolved or refused, or a relative path with `..` is rewritten
            nontrivial: n_lib + n_missing + n_invalid > 0 || deps.iter().any(|d| !d.contains(':') && !d.starts_with('/') && d.split('/').any(|p| p == "..")),
        });
    }
}

fn main() { main_loop_jobs("c14", 8, &generate, &run_case); }
