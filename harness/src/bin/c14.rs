//! C14 correspondence: real `package_composite_buildpack` on generated package descriptors, id -> path maps and source
//! locations; the written `package.toml` is read back with the generic `toml::Value` reader (not libcnb's own types).
//!
//! fields: src (buildpack directory below the scratch root, as spelled) | buildpack uri (hex) | dependency uris (hex,…)
//!         | platform (none|linux|windows) | map (hexid=hexpath,…; a path may start with `$T` = scratch root)
//!         | optional 6th field, harness only: `twice` (the function is called twice with the same destination, which then already holds
//!           both files; the second result is observed), `link` (the last component of the source location is a symbolic link to a real
//!           directory elsewhere below the scratch root), `twice+link`
//! observation: `ok;<hex buildpack uri>;<hex dep>,…;<os>;reparse=0|1` (scratch root printed as `$T`) or `err:<kind>[:<hexid>]`
use cnbv::*;
use libcnb_data::buildpack::BuildpackId;
use libcnb_data::package_descriptor::PackageDescriptor;
use libcnb_package::package::{PackageCompositeBuildpackError, package_composite_buildpack};
use libcnb_package::package_descriptor::{NormalizePackageDescriptorError, ReplaceLibcnbUriError};
use std::collections::BTreeMap;
use std::fs;
use std::path::PathBuf;

fn hx(s: &str) -> String { hex(s.as_bytes()) }
fn unhx(s: &str) -> String { String::from_utf8(unhex(s).expect("hex")).expect("utf8") }

fn toml_str(s: &str) -> String {
    let mut o = String::from("\"");
    for c in s.chars() { match c { '"' => o.push_str("\\\""), '\\' => o.push_str("\\\\"), c => o.push(c) } }
    o.push('"');
    o
}

fn contract(root: &str, p: &str) -> String {
    if p == root { "$T".to_string() } else if let Some(rest) = p.strip_prefix(&format!("{root}/")) { format!("$T/{rest}") } else { p.to_string() }
}

fn run_case(f: &[String]) -> String {
    let src = &f[0];
    let bp = unhx(&f[1]);
    let deps: Vec<String> = split_list(&f[2], ",").iter().map(|d| unhx(d)).collect();
    let platform = f[3].as_str();
    let opt = f.get(5).map(String::as_str).unwrap_or("");
    let (twice, link) = match opt { "" => (false, false), "twice" => (true, false), "link" => (false, true), "twice+link" => (true, true), _ => return "bad-case".into() };
    let tmp = tempfile::Builder::new().prefix("c14-").tempdir_in("/tmp").unwrap();
    let root = tmp.path().to_str().unwrap().to_string();
    let mut map: BTreeMap<BuildpackId, PathBuf> = BTreeMap::new();
    for e in split_list(&f[4], ",") {
        let (k, v) = e.split_once('=').expect("map entry");
        let v = unhx(v);
        let v = if let Some(rest) = v.strip_prefix("$T") { format!("{root}{rest}") } else { v };
        map.insert(unhx(k).parse().expect("map id"), PathBuf::from(v));
    }
    let bdir = PathBuf::from(format!("{root}/{src}"));
    // make every directory the spelling passes through (so `sub/..` and a trailing `/.` resolve)
    let mut cur = PathBuf::from(&root);
    let names: Vec<&str> = src.split('/').filter(|p| !p.is_empty() && *p != ".").collect();
    let last_name = names.iter().rposition(|p| *p != "..");
    for (k, piece) in names.iter().enumerate() {
        match *piece {
            ".." => { cur.pop(); }
            name => {
                cur.push(name);
                if !cur.is_dir() {
                    // `link`: the last name of the spelling is a symbolic link to a directory that lives elsewhere (and at another depth)
                    if link && Some(k) == last_name && names[k + 1..].is_empty() {
                        let real = PathBuf::from(format!("{root}/real/deep/er/dir"));
                        fs::create_dir_all(&real).unwrap();
                        std::os::unix::fs::symlink(&real, &cur).unwrap();
                    } else { fs::create_dir(&cur).unwrap(); }
                }
            }
        }
    }
    assert!(bdir.is_dir());
    let dest = PathBuf::from(format!("{root}/out"));
    fs::create_dir_all(&dest).unwrap();
    fs::write(bdir.join("buildpack.toml"), "api = \"0.10\"\n\n[buildpack]\nid = \"c14/composite\"\nversion = \"0.0.1\"\n\n[[order]]\n\n[[order.group]]\nid = \"x/y\"\nversion = \"0.0.1\"\n").unwrap();
    let mut text = format!("[buildpack]\nuri = {}\n", toml_str(&bp));
    for d in &deps { text.push_str(&format!("\n[[dependencies]]\nuri = {}\n", toml_str(d))); }
    if platform != "none" { text.push_str(&format!("\n[platform]\nos = \"{platform}\"\n")); }
    fs::write(bdir.join("package.toml"), &text).unwrap();

    if twice {
        // first call: the destination is empty; the observed (second) call finds both files there already
        let _ = package_composite_buildpack(&bdir, &dest, &map);
        // … and longer than what will be written: stale entries after the first result (a writer that does not truncate shows them)
        if let Ok(mut first) = fs::read_to_string(dest.join("package.toml")) {
            for k in 0..64 { first.push_str(&format!("\n[[dependencies]]\nuri = \"stale:entry/{k}\"\n")); }
            fs::write(dest.join("package.toml"), first).unwrap();
        }
    }
    match package_composite_buildpack(&bdir, &dest, &map) {
        Err(PackageCompositeBuildpackError::CouldNotCopyBuildpackToml(_)) => "err:copy".into(),
        Err(PackageCompositeBuildpackError::CouldNotReadPackageDescriptor(_)) => "err:read".into(),
        Err(PackageCompositeBuildpackError::CouldNotWritePackageDescriptor(_)) => "err:write".into(),
        Err(PackageCompositeBuildpackError::NormalizePackageDescriptorError(e)) => match e {
            NormalizePackageDescriptorError::ReplaceLibcnbUriError(ReplaceLibcnbUriError::BuildpackIdError(_)) => "err:id".into(),
            NormalizePackageDescriptorError::ReplaceLibcnbUriError(ReplaceLibcnbUriError::MissingBuildpackPath(id)) => format!("err:missing:{}", hx(&id.to_string())),
            NormalizePackageDescriptorError::ReplaceLibcnbUriError(ReplaceLibcnbUriError::PackageDescriptorDependencyError(_)) => "err:uri-of-map-path".into(),
            NormalizePackageDescriptorError::PackageDescriptorDependencyError(_) => "err:uri-of-absolutized-path".into(),
        },
        Ok(()) => {
            let written = match fs::read_to_string(dest.join("package.toml")) { Ok(s) => s, Err(_) => return "err:no-output".into() };
            // independent reader: generic TOML tree
            let v: toml::Value = match written.parse() { Ok(v) => v, Err(_) => return "err:output-not-toml".into() };
            let Some(t) = v.as_table() else { return "err:output-shape".into() };
            if t.keys().any(|k| !["buildpack", "dependencies", "platform"].contains(&k.as_str())) { return "err:output-extra-key".into(); }
            let Some(obp) = t.get("buildpack").and_then(|b| b.as_table()).filter(|b| b.len() == 1).and_then(|b| b.get("uri")).and_then(|u| u.as_str()) else { return "err:output-buildpack".into() };
            let mut odeps = vec![];
            if let Some(d) = t.get("dependencies") {
                let Some(arr) = d.as_array() else { return "err:output-deps".into() };
                for e in arr {
                    let Some(u) = e.as_table().filter(|e| e.len() == 1).and_then(|e| e.get("uri")).and_then(|u| u.as_str()) else { return "err:output-dep".into() };
                    odeps.push(hx(&contract(&root, u)));
                }
            }
            let os = match t.get("platform") { None => "linux".to_string(), Some(p) => match p.as_table().filter(|p| p.len() == 1).and_then(|p| p.get("os")).and_then(|o| o.as_str()) { Some(o) => o.to_string(), None => return "err:output-platform".into() } };
            let reparse = toml::from_str::<PackageDescriptor>(&written).is_ok();
            format!("ok;{};{};{};reparse={}", hx(obp), join(",", &odeps), os, u8::from(reparse))
        }
    }
}

// ------------------------------------------------------------------------------------------------ generation

const SRCS: &[&str] = &["ws/bp", "ws/./bp", "ws/sub/../bp", "ws/bp/", "ws//bp", "ws/deep/er/bp", "a.b/c-d_e~f", "ws/it's/bp", "x", "ws/bp/.", "ws/v1.2+3/@home/bp", "ws/sub/../sub/./../bp", "ws/co:lon/bp", "ws/..hid/.../bp"];
const NAMES: &[&str] = &["a", "bp", "my-bp", "x.y", "v1_2", "~t", "a+b", "...", ".hidden", "..x", "x..", "p%2Fq", "it's", "packaged", "ws", "sub", "bp", "tmp", "@home", "a=b,c;d", "(x)", "!", "*"];
const IDS: &[&str] = &["heroku/nodejs", "heroku/nodejs-engine", "a", "x.y/z-1", "Abc123./-", "libcnb", "app-foo", "0", "apps", "config.d"];
const BAD_IDS: &[&str] = &["app", "config", "sbom", "", "under_score", "a~b", "a+b", "a@b", "%41"];
const OTHERS: &[&str] = &[
    "docker://docker.io/heroku/example:1.2.3", "docker://ghcr.io/x/y@sha256:0123456789abcdef", "https://example.com/bp.tgz", "http://example.com/a/../b/./c.cnb?x=1&y=2#frag",
    "https://user:pw@host.example:8443/p/q", "urn:cnb:registry:heroku/nodejs@1.0.0", "urn:cnb:builder:x/y", "file:///abs/bp.tgz", "file:relative/./x", "oci://registry/x", "foo+bar.baz-1:opaque/../part",
    "/abs/path/bp", "/a/../b", "/a//b/", "/", "/./x/.", "/packaged/../up", "http://example.com/", "mailto:a@b.c", "x-y.z+w:", "docker:/single/slash", "d:rel/..",
];
// the spelling class of known finding C14-authority-empty-path: authority followed by an empty path, registered scheme in upper case
const SPELLING: &[&str] = &["docker://docker.io", "http://example.com", "https://example.com?x=1", "https://user@example.com:8080#frag", "oci://registry",
    "HTTP://Example.com/x", "Https://example.com/bp.tgz", "URN:cnb:registry:x/y", "FILE:///abs/bp.tgz", "HTTP://example.com", "Docker://docker.io"];
const BPS: &[&str] = &[".", "./", "bp", "../x/./y", "https://example.com/bp.tgz", "/abs/bp", "docker://x/y:1", "sub/", ""];

fn rel_path(r: &mut Rng) -> (String, bool) {
    // pieces between slashes: names, `.`, `..`, empty (redundant separator)
    let n = r.range(1, 9);
    let climb = r.chance(1, 6); // many `..`: climbs above the scratch root or the file system root
    let mut pieces: Vec<String> = vec![];
    for i in 0..n {
        let k = r.below(10);
        let p = if climb && r.chance(3, 5) { "..".to_string() } else { match k { 0 | 1 => "..".to_string(), 2 => ".".to_string(), 3 => "".to_string(), _ => (*r.pick(NAMES)).to_string() } };
        // a scheme-less reference must not start with `/`, and its first piece must not hold a colon (none of the names does)
        if i == 0 && p.is_empty() { pieces.push(".".to_string()); } else { pieces.push(p); }
    }
    if r.chance(1, 8) { for _ in 0..r.range(3, 12) { pieces.insert(0, "..".to_string()); } }
    let s = pieces.join("/");
    let dots = pieces.iter().filter(|p| *p == "..").count();
    (s, dots >= 3)
}

fn generate(tier: &str, seed: u64, emit: &mut dyn FnMut(Case)) {
    // directed families (sizes, character content, schemes, correlated ids, repeated calls, linked source) and the wide sampler
    generate_directed(tier == "thorough", seed, emit);
    generate_wide(tier == "thorough", seed, emit);
    let samples: u64 = if tier == "thorough" { 50_000 } else { 3_000 };
    for idx in 0..samples {
        let mut r = Rng::for_case(seed, idx);
        let src = *r.pick(SRCS);
        let bp = if r.chance(1, 2) { "." } else { *r.pick(BPS) };
        // the map: a few ids with absolute packaged locations (below the scratch root or elsewhere)
        let mut ids: Vec<&str> = IDS.to_vec();
        r.shuffle(&mut ids);
        let known = ids[..r.range(0, 5) as usize].to_vec();
        let unknown = ids[5..].to_vec();
        let map: Vec<(String, String)> = known.iter().map(|id| {
            let leaf = id.replace('/', "_");
            let p = match r.below(5) { 0 => format!("/opt/packaged/{leaf}"), 1 => format!("$T/packaged/x86/../{leaf}/"), 2 => format!("$T/out/./{leaf}"), 3 => "$T".to_string(), _ => format!("$T/packaged/{leaf}") };
            (id.to_string(), p)
        }).collect();
        let mode = r.below(20); // 0: invalid id somewhere, 1-2: unknown id somewhere, else complete
        let ndeps = if r.chance(1, 15) { 0 } else { r.range(1, 9) };
        let mut deps: Vec<String> = vec![];
        let (mut n_lib, mut n_rel, mut n_other, mut climbs, mut n_missing, mut n_invalid) = (0, 0, 0, 0, 0, 0);
        for _ in 0..ndeps {
            match r.below(10) {
                0..=2 if !known.is_empty() => { deps.push(format!("libcnb:{}", r.pick(&known))); n_lib += 1; }
                3..=6 => { let (p, c) = rel_path(&mut r); if c { climbs += 1; } deps.push(p); n_rel += 1; }
                _ => { deps.push((*r.pick(OTHERS)).to_string()); n_other += 1; }
            }
        }
        if mode == 0 { let at = r.below(deps.len() as u64 + 1) as usize; deps.insert(at, format!("libcnb:{}", r.pick(BAD_IDS))); n_invalid += 1; }
        if mode == 1 || mode == 2 || (mode == 0 && r.chance(1, 3)) { let at = r.below(deps.len() as u64 + 1) as usize; deps.insert(at, format!("libcnb:{}", r.pick(&unknown))); n_missing += 1; }
        let platform = *r.pick(&["none", "none", "linux", "windows"]);
        let mut spelling = false;
        let mut bp = bp;
        if r.chance(1, 25) { let at = r.below(deps.len() as u64 + 1) as usize; deps.insert(at, (*r.pick(SPELLING)).to_string()); spelling = true; }
        if r.chance(1, 150) { bp = *r.pick(SPELLING); spelling = true; }
        let kind = if n_invalid > 0 { "invalid-id" } else if n_missing > 0 { "missing-id" } else if spelling { "spelling" } else { "complete" };
        emit(Case {
            fields: vec![src.to_string(), hx(bp), join(",", &deps.iter().map(|d| hx(d)).collect::<Vec<_>>()), platform.to_string(),
                         join(",", &map.iter().map(|(k, v)| format!("{}={}", hx(k), hx(v))).collect::<Vec<_>>())],
            tags: vec![("kind".into(), kind.into()), ("deps".into(), deps.len().to_string()), ("libcnb".into(), n_lib.min(4).to_string()), ("relative".into(), n_rel.min(6).to_string()),
                       ("other".into(), n_other.min(6).to_string()), ("climbing".into(), climbs.min(3).to_string()), ("platform".into(), platform.into()), ("spelling".into(), u8::from(spelling).to_string()), ("src".into(), src.replace(';', "_"))],
            // non-trivial: a libcnb reference is resolved or refused, or a relative path with `..` is rewritten
            nontrivial: n_lib + n_missing + n_invalid > 0 || deps.iter().any(|d| !d.contains(':') && !d.starts_with('/') && d.split('/').any(|p| p == "..")),
        });
    }
}

// ------------------------------------------------------------------------------------------------ directed families and the wide sampler

/// sizes on both sides of the thresholds at which containers / sorts / buffers change behaviour
const SIZES: &[usize] = &[16, 17, 20, 21, 32, 33, 64, 65, 128, 129, 256, 257];
const SIZES_THOROUGH: &[usize] = &[500, 1000, 2049];

/// path segments made of every character class a URI path segment may hold (RFC 3986 pchar): unreserved, sub-delims, ':' '@', percent-encoded
/// octets (blank, '%', '/', '.', NUL, upper/lower hex, UTF-8 sequences, BOM), dots in every position
const SEGS: &[&str] = &[
    "%20", "my%20bp", "a%20%20b", "100%25", "%25", "%2520", "%2e", "%2E", "%2e%2e", "%2E%2E", ".%2e", "%2e.", "..%2F", "%2F", "%2f", "a%2Fb", "%5C", "%00", "%0A", "%0D%0A", "%7e", "%7E", "%41", "%61%62",
    "%C3%BC", "%c3%bc", "%E2%9C%93", "%EF%BB%BF", "%EF%BB%BFbom", "%F0%9F%93%A6", "%FF%FE", "~", "~user", "a~", "+", "a+b", "++", "-", "--x", "x-", "_", "__", "$x", "$", "$t", "&", "a&b=c", ";", "a;v=1", ",", "a,b", "=", "'", "''", "(", ")", "()", "*", "**", "!", "@", "a@b", "@@",
    "...", "....", ".x", "x.", "..x", "x..", "..;", ";..", ".,", "..,", "..%20", ".git", ".cargo", "x.y.z", "1", "0", "00", "-0", "CON", "NUL", "Com1", "APP", "App", "Config", "SBOM", "libcnb", "LIBCNB", "package.toml", "buildpack.toml", "target", "tmp", "out", "packaged",
];
/// segments holding a colon: legal everywhere but in the first segment of a scheme-less reference
const COLON_SEGS: &[&str] = &["a:b", ":", "::", "c:", ":x", "libcnb:x", "http:", "1:2"];

/// source locations (created for real below the scratch root): percent-encoded octets, sub-delims, dots, deep, long names
fn wide_srcs() -> Vec<String> {
    let mut v: Vec<String> = ["ws/my%20bp", "ws/100%25/bp", "ws/%2e%2e/bp", "ws/%2E/%2F/bp", "ws/a&b/$x", "ws/+/~", "ws/.../....", "ws/bp//./.", "ws/..x/x../bp", "ws/%C3%BC/%E2%9C%93", "ws/a=b,c;d/(x)!*'", "ws/-/_/0", "ws/Bp/bP/BP",
        "ws/./sub/.././sub/../bp", "ws/packaged/bp", "out/bp", "packaged/x86", "ws/@/:", "ws/~t/%7Et", "w", "ws/%EF%BB%BF/bp"].iter().map(|s| s.to_string()).collect();
    v.push(vec!["d"; 40].join("/"));                                   // 40 levels
    v.push(format!("ws/{}/bp", "n".repeat(200)));                      // a 200-character name
    v.push(format!("ws/{}", "L".repeat(255)));                         // NAME_MAX
    v.push((0..120).map(|i| format!("p{i}")).collect::<Vec<_>>().join("/")); // 120 levels, distinct names
    v.push(format!("{}/bp", vec!["sub/.."; 30].join("/")));            // 30 times down and up again
    v
}

/// scheme names: registered ones of every shape ('.', '+', '-', digits), unregistered ones, names that share a prefix with `libcnb`
const SCHEMES_REG: &[&str] = &["docker", "http", "https", "urn", "file", "ftp", "sftp", "ssh", "git", "svn", "data", "ws", "wss", "ldap", "ldaps", "tel", "sip", "sips", "jar", "about", "blob", "magnet", "news", "nfs", "nntp",
    "pkcs11", "redis", "rediss", "rtsp", "smb", "tag", "telnet", "view-source", "vnc", "xmpp", "z39.50r", "z39.50s", "ms-excel", "soap.beep", "iris.xpc", "coap+tcp", "coaps+ws", "mailto", "geo", "dns", "cid", "mid", "h323", "irc", "ipp", "pop", "imap", "tftp", "gopher", "go", "dav", "dict", "did", "example", "s3"];
const SCHEMES_UNREG: &[&str] = &["oci", "x", "a1", "a+b", "a.b", "a-b", "zz9", "foo+bar.baz-1", "cnb", "pack", "registry", "buildpack", "FooBar", "X-y", "aA0+.-", "q"];
const SCHEMES_LIBCNBLIKE: &[&str] = &["libcnb2", "libcnbx", "libcnb-x", "libcnb.x", "libcnb+x", "lib", "libcn", "libcnbb", "xlibcnb", "libcnb-rs", "cnb"];

/// ids that share prefixes, differ by one edit or by case, continue a reserved word, or are dotted / slashed prefixes of one another
const CORR_IDS: &[&str] = &["a", "a.b", "a.b.c", "a/b", "a/b/c", "a-b", "a0", "A", "A.b", "aa", "ab", "b", "heroku/nodejs", "heroku/nodejs-engine", "heroku/nodejs-engin", "heroku/nodejs.engine", "Heroku/nodejs", "heroku/Nodejs", "heroku/nodej",
    "heroku", "heroku/", "heroku/nodejs/", "/heroku/nodejs", "apps", "app-foo", "app.x", "app/x", "ap", "App", "APP", "config.d", "configs", "confi", "Config", "sbom-x", "sbo", "SBOM", "sbom/app", "app/config/sbom", "0", "00", "-", ".", "..", "./.", "../x", "x/../y", "-.-", "a//b"];

fn is_spelling_class(u: &str) -> bool {
    // has a scheme and (an upper-case letter in it, or `//authority` followed by an empty path): what known finding C14-authority-empty-path is about
    let Some((sch, rest)) = u.split_once(':') else { return false };
    if sch.is_empty() || !sch.chars().next().unwrap().is_ascii_alphabetic() || !sch.chars().all(|c| c.is_ascii_alphanumeric() || "+-.".contains(c)) { return false; }
    if sch.chars().any(|c| c.is_ascii_uppercase()) { return true; }
    if let Some(body) = rest.strip_prefix("//") { let auth_end = body.find(['/', '?', '#']).unwrap_or(body.len()); return !body[auth_end..].starts_with('/'); }
    false
}

struct D14 { src: String, bp: String, deps: Vec<String>, platform: &'static str, map: Vec<(String, String)>, opt: &'static str, kind: String }

fn bucket(n: usize) -> String { match n { 0..=12 => n.to_string(), 13..=16 => "13-16".into(), 17..=32 => "17-32".into(), 33..=64 => "33-64".into(), 65..=128 => "65-128".into(), 129..=256 => "129-256".into(), 257..=1024 => "257-1024".into(), _ => ">1024".into() } }

fn d14_case(d: &D14) -> Case {
    let is_rel = |u: &str| !u.starts_with('/') && !{ let head = u.split('/').next().unwrap_or(""); head.contains(':') };
    let n_lib = d.deps.iter().filter(|u| u.starts_with("libcnb:")).count();
    let n_rel = d.deps.iter().filter(|u| is_rel(u)).count();
    let climbs = d.deps.iter().filter(|u| is_rel(u) && u.split('/').filter(|p| *p == "..").count() >= 3).count();
    let spelling = is_spelling_class(&d.bp) || d.deps.iter().any(|u| is_spelling_class(u));
    let maxlen = d.deps.iter().map(|u| u.len()).max().unwrap_or(0).max(d.bp.len());
    let root_colon = first_seg_colon(&d.bp) || d.deps.iter().any(|u| first_seg_colon(u) || lands_on_root_colon(&d.src, u)) || d.map.iter().any(|(_, p)| first_seg_colon(p));
    let pct = d.deps.iter().any(|u| u.contains('%')) || d.src.contains('%') || d.map.iter().any(|(_, p)| p.contains('%'));
    let mut fields = vec![d.src.clone(), hx(&d.bp), join(",", &d.deps.iter().map(|u| hx(u)).collect::<Vec<_>>()), d.platform.to_string(),
                          join(",", &d.map.iter().map(|(k, v)| format!("{}={}", hx(k), hx(v))).collect::<Vec<_>>())];
    if !d.opt.is_empty() { fields.push(d.opt.to_string()); }
    let src_tag: String = d.src.chars().take(24).map(|c| if c == ';' || c == '=' || c == '#' { '_' } else { c }).collect();
    Case {
        fields,
        tags: vec![("kind".into(), d.kind.clone()), ("deps".into(), bucket(d.deps.len())), ("libcnb".into(), bucket(n_lib)), ("relative".into(), bucket(n_rel)), ("other".into(), bucket(d.deps.len() - n_lib - n_rel)),
                   ("climbing".into(), climbs.min(3).to_string()), ("platform".into(), d.platform.into()), ("spelling".into(), u8::from(spelling).to_string()), ("src".into(), src_tag),
                   ("map".into(), bucket(d.map.len())), ("opt".into(), if d.opt.is_empty() { "once".into() } else { d.opt.to_string() }), ("percent".into(), u8::from(pct).to_string()), ("root-colon".into(), u8::from(root_colon).to_string()),
                   ("maxlen".into(), match maxlen { 0..=63 => "<64", 64..=255 => "64-255", 256..=4095 => "256-4095", _ => ">=4096" }.into())],
        nontrivial: n_lib > 0 || d.deps.iter().any(|u| is_rel(u) && u.split('/').any(|p| p == "..")),
    }
}

/// Does a relative dependency resolve (lexically, from the source location two levels below `/`) to a path whose first segment holds a
/// colon, e.g. `/c:/x`?  uriparse 0.6 refuses such a text although RFC 3986 allows it (path-absolute = "/" segment-nz …, segment-nz may hold ':'),
/// so the real code answers `err:uri-of-absolutized-path` (known finding C14-root-colon-segment; only used for the tag `root-colon`).
fn lands_on_root_colon(src: &str, dep: &str) -> bool {
    if dep.starts_with('/') || dep.split('/').next().unwrap_or("").contains(':') { return false; }
    let mut comps: Vec<&str> = vec!["tmp", "T"];
    for piece in src.split('/').chain(dep.split('/')) { match piece { "" | "." => {} ".." => { comps.pop(); } name => comps.push(name) } }
    comps.first().is_some_and(|c| c.contains(':'))
}
/// the text is `/` followed by a first segment holding a colon (refused by uriparse wherever it occurs)
fn first_seg_colon(u: &str) -> bool { u.strip_prefix('/').is_some_and(|rest| rest.split('/').next().unwrap_or("").contains(':')) }

fn loc_for(r: &mut Rng, leaf: &str) -> String {
    match r.below(6) { 0 => format!("/opt/packaged/{leaf}"), 1 => format!("$T/packaged/x86/../{leaf}/"), 2 => format!("$T/out/./{leaf}"), 3 => "$T".to_string(), 4 => format!("$T/packaged/{}/{leaf}", r.pick(SEGS)), _ => format!("$T/packaged/{leaf}") }
}
fn leaf_of(id: &str) -> String { id.replace('/', "_") }

/// valid buildpack ids only (the map is typed `BTreeMap<BuildpackId, _>`): letters, digits, '.', '/', '-', not a reserved word
fn valid_id(id: &str) -> bool { !id.is_empty() && id.chars().all(|c| c.is_ascii_alphanumeric() || "./-".contains(c)) && !["app", "config", "sbom"].contains(&id) }

fn generate_directed(thorough: bool, seed: u64, emit: &mut dyn FnMut(Case)) {
    let mut idx: u64 = 0;
    let rng = |idx: &mut u64| { *idx += 1; Rng::for_case(seed ^ 0x14D1_4EC7, *idx) };
    let srcs = wide_srcs();
    let sizes: Vec<usize> = if thorough { SIZES.iter().chain(SIZES_THOROUGH).copied().collect() } else { SIZES.to_vec() };
    let base = |kind: &str| D14 { src: "ws/bp".into(), bp: ".".into(), deps: vec![], platform: "none", map: vec![], opt: "", kind: kind.into() };

    // ---- 1. many dependencies: sizes around 16/17 … 256/257 (thorough: 500, 1000, 2049)
    for &n in &sizes {
        for shape in 0..8 {
            let mut r = rng(&mut idx);
            let mut d = base("many-deps");
            d.src = if shape % 2 == 0 { "ws/bp".into() } else { r.pick(&srcs).clone() };
            let m = match shape { 0 => 5, 1 => n, 2 => 33, _ => 7 };
            let ids: Vec<String> = (0..m).map(|i| format!("org{}/bp-{i}", i % 3)).collect();
            d.map = ids.iter().map(|id| (id.clone(), loc_for(&mut r, &leaf_of(id)))).collect();
            d.deps = (0..n).map(|i| match shape {
                0 | 1 => format!("libcnb:{}", ids[i % m]),                                           // libcnb references only (every id again and again / each once)
                2 => format!("libcnb:{}", ids[(i * 7 + 3) % m]),
                3 => format!("../d{i}/./x"),                                                           // distinct relative paths
                4 => "../same/dep".to_string(),                                                        // one dependency n times
                5 => match i % 4 { 0 => format!("libcnb:{}", ids[i % m]), 1 => format!("sub/../../up{i}"), 2 => (*r.pick(OTHERS)).to_string(), _ => format!("/abs/{i}/../x") },
                6 => { let (p, _) = rel_path(&mut r); p }                                              // random relative paths
                _ => match r.below(3) { 0 => format!("libcnb:{}", r.pick(&ids)), 1 => { let (p, _) = rel_path(&mut r); p }, _ => (*r.pick(OTHERS)).to_string() },
            }).collect();
            d.opt = *r.pick(&["", "", "twice", "link"]);
            d.platform = *r.pick(&["none", "linux", "windows"]);
            emit(d14_case(&d));
            // the same with one reference that has no location / an invalid id, placed last, first, and right after a threshold
            if shape == 0 || shape == 5 {
                for (at, bad) in [(n - 1, "libcnb:org9/missing"), (0, "libcnb:org9/missing"), (n / 2 + 1, "libcnb:under_score"), (n - 1, "libcnb:app")] {
                    let mut e = D14 { deps: d.deps.clone(), map: d.map.clone(), src: d.src.clone(), bp: d.bp.clone(), kind: if bad.ends_with("missing") { "many-deps-missing".into() } else { "many-deps-invalid".into() }, ..base("") };
                    e.deps[at] = bad.to_string();
                    emit(d14_case(&e));
                }
            }
        }
    }
    // ---- 2. big id -> path maps, ids sharing prefixes; every id referenced once in shuffled order; one prefix / extension of a known id missing
    for &m in sizes.iter().filter(|m| [17usize, 33, 65, 129, 257, 1000].contains(m)) {
        for variant in 0..3 {
            let mut r = rng(&mut idx);
            let mut ids: Vec<String> = vec![];
            let stems = ["a", "heroku/nodejs", "x.y", "app", "config", "sbom", "B"];
            let mut k = 0;
            while ids.len() < m {
                let stem = stems[k % stems.len()];
                let depth = k / stems.len();
                let id = match depth { 0 => stem.to_string(), d => format!("{stem}{}", (0..d).map(|j| format!("{}{}", [".", "/", "-"][(j + k) % 3], (j + k) % 10)).collect::<String>()) };
                if valid_id(&id) && !ids.contains(&id) { ids.push(id); }
                k += 1;
            }
            let mut d = base("big-map");
            d.src = r.pick(&srcs).clone();
            d.map = ids.iter().map(|id| (id.clone(), loc_for(&mut r, &leaf_of(id)))).collect();
            let mut order = ids.clone();
            r.shuffle(&mut order);
            d.deps = order.iter().map(|id| format!("libcnb:{id}")).collect();
            if variant == 1 { let at = r.below(d.deps.len() as u64) as usize; let gone = d.deps[at].clone(); d.map.retain(|(k, _)| format!("libcnb:{k}") != gone); d.kind = "big-map-missing".into(); }
            if variant == 2 { d.opt = "twice"; d.deps.truncate(40); }
            emit(d14_case(&d));
        }
    }
    // ---- 3. '..' chains and deep / long relative paths, against source locations of different depth
    let chain_sizes: Vec<usize> = { let mut v: Vec<usize> = (0..=9).collect(); v.extend(&sizes); v };
    for src in ["ws/bp", "x", "ws/deep/er/bp", "ws/sub/../bp", srcs[srcs.len() - 5].as_str(), srcs[srcs.len() - 2].as_str()] {
        let mut d = base("dot-chains");
        d.src = src.to_string();
        for &k in &chain_sizes {
            let up = vec![".."; k].join("/");
            d.deps.push(if k == 0 { ".".into() } else { up.clone() });
            d.deps.push(format!("{}{}x/y", up, if k == 0 { "" } else { "/" }));
            d.deps.push(format!("{}/", vec!["a/.."; k.max(1)].join("/")));                         // down and up again k times
            d.deps.push(format!("{}/{}", vec!["n"; k.max(1)].join("/"), vec![".."; k.max(1)].join("/"))); // k down, then k up
            if k > 0 { d.deps.push(format!("{}/{}/t", vec!["n"; k].join("/"), vec![".."; k + 1].join("/"))); } // k down, k+1 up
            d.deps.push(format!("{}z", vec!["./"; k.max(1)].join("/")));                            // './' and '//' runs
        }
        emit(d14_case(&d));
        // the same chains one per descriptor for a few sizes (position-independent errors show as single-dependency replays)
        for &k in &[1usize, 2, 3, 4, 5, 33, 257] {
            let mut e = base("dot-chains");
            e.src = src.to_string();
            e.deps = vec![format!("{}/x", vec![".."; k].join("/"))];
            emit(d14_case(&e));
        }
    }
    // long names and long paths (>= 256, >= 4096 characters), as relative path, absolute path, other URI, buildpack URI and packaged location
    for &len in &[255usize, 256, 257, 1000, 4095, 4096, 5000] {
        let mut r = rng(&mut idx);
        let name = "n".repeat(len);
        let many = (0..len / 4).map(|i| format!("c{}", i % 7)).collect::<Vec<_>>().join("/");
        let mut d = base("long");
        d.src = r.pick(&srcs).clone();
        d.map = vec![("long/id".into(), format!("$T/packaged/{name}")), (format!("id-{}", "i".repeat(len.min(1000))), "/opt/x".into())];
        d.deps = vec![name.clone(), format!("../{name}/../{name}"), many.clone(), format!("{many}/../../x"), format!("/{many}/./x"), format!("https://example.com/{name}?q={name}"), format!("urn:cnb:{name}"),
                      "libcnb:long/id".into(), format!("libcnb:{}", d.map[1].0), format!("./{}", vec![".."; len / 3].join("/"))];
        d.bp = if len % 2 == 0 { name.clone() } else { format!("../{many}") };
        emit(d14_case(&d));
    }
    // ---- 4. character content: every special segment as the only, a middle, the last segment of a relative path, after '..', with a trailing slash,
    //         inside an absolute path and an opaque URI (copied verbatim), and as packaged location of a libcnb reference; crossed with source locations
    let colon_ok: Vec<&str> = SEGS.iter().chain(COLON_SEGS).copied().collect();
    for (si, seg) in colon_ok.iter().enumerate() {
        let mut r = rng(&mut idx);
        let first_ok = !seg.contains(':');
        let mut d = base("chars");
        d.src = if si % 3 == 0 { "ws/bp".into() } else { r.pick(&srcs).clone() };
        d.map = vec![("c/seg".into(), format!("$T/packaged/{seg}")), ("c/seg2".into(), format!("/opt/{seg}/{seg}/"))];
        if first_ok { d.deps.push(seg.to_string()); d.deps.push(format!("{seg}/")); d.deps.push(format!("{seg}/../{seg}/x")); }
        d.deps.extend([format!("./{seg}"), format!("a/{seg}/b"), format!("../{seg}"), format!("../../{seg}/./../{seg}/"), format!("x/{seg}/.."), format!("/abs/{seg}/../x"), format!("urn:x:{seg}"),
                       format!("https://example.com/{seg}/../y"), "libcnb:c/seg".into(), "libcnb:c/seg2".into()]);
        d.bp = match si % 4 { 0 => ".".into(), 1 => format!("./{seg}"), 2 => format!("/abs/{seg}"), _ => format!("x:{seg}") };
        d.opt = ["", "twice", "link", ""][si % 4];
        emit(d14_case(&d));
    }
    // every source location of the wide pool with one fixed descriptor (location dimension on its own)
    for (i, src) in srcs.iter().enumerate() {
        for opt in ["", "twice", "link", "twice+link"] {
            let mut d = base("src");
            d.src = src.clone();
            d.opt = opt;
            d.map = vec![("heroku/nodejs".into(), "$T/packaged/heroku_nodejs".into())];
            d.deps = vec![".".into(), "..".into(), "../..".into(), "x".into(), "../x/./y/".into(), "../../../../../../../../up".into(), "libcnb:heroku/nodejs".into(), "/abs/path/bp".into(), "docker://docker.io/heroku/example:1.2.3".into(), "a/../../b".into()];
            d.platform = ["none", "linux", "windows"][i % 3];
            emit(d14_case(&d));
        }
    }
    // ---- 5. schemes: every scheme of the pools x the forms a URI with a scheme takes; names that only resemble `libcnb`
    let forms: [&dyn Fn(&str) -> String; 7] = [&|s| format!("{s}:opaque"), &|s| format!("{s}:/abs/../x"), &|s| format!("{s}://host.example/p/../q"), &|s| format!("{s}:rel/./x/.."), &|s| format!("{s}:"),
                                               &|s| format!("{s}://user@host.example:8080/a%20b?x=1#f"), &|s| format!("{s}:heroku/nodejs")];
    let all_schemes: Vec<&str> = SCHEMES_REG.iter().chain(SCHEMES_UNREG).chain(SCHEMES_LIBCNBLIKE).copied().collect();
    for chunk in all_schemes.chunks(4) {
        let mut r = rng(&mut idx);
        let mut d = base("schemes");
        d.src = if r.chance(1, 2) { "ws/bp".into() } else { r.pick(&srcs).clone() };
        d.map = vec![("heroku/nodejs".into(), "$T/packaged/heroku_nodejs".into())];
        for s in chunk { for f in forms { d.deps.push(f(s)); } }
        d.deps.insert(r.below(d.deps.len() as u64) as usize, "libcnb:heroku/nodejs".into());
        d.bp = forms[r.below(7) as usize](chunk[0]);
        emit(d14_case(&d));
    }
    // the known-finding class, kept apart (tag spelling=1): registered schemes in upper / mixed case, authority followed by an empty path for every kind of scheme
    for chunk in all_schemes.chunks(6) {
        let mut d = base("spelling");
        d.map = vec![("heroku/nodejs".into(), "$T/packaged/heroku_nodejs".into())];
        for s in chunk {
            let up = s.to_uppercase();
            let mixed: String = s.chars().enumerate().map(|(i, c)| if i % 2 == 0 { c.to_ascii_uppercase() } else { c }).collect();
            d.deps.extend([format!("{up}:opaque"), format!("{mixed}://host.example/p"), format!("{s}://host.example"), format!("{s}://host.example?x=1"), format!("{up}://host.example#f")]);
        }
        emit(d14_case(&d));
    }
    // ---- 6. correlated ids: maps holding ids that are prefixes / one edit / case variants of each other; references to present and absent neighbours
    let good: Vec<&str> = CORR_IDS.iter().copied().filter(|i| valid_id(i)).collect();
    for round in 0..(if thorough { 400 } else { 60 }) {
        let mut r = rng(&mut idx);
        let mut pool = good.clone();
        r.shuffle(&mut pool);
        let k = r.range(2, 12) as usize;
        let (known, absent) = pool.split_at(k);
        let mut d = base("corr-ids");
        d.src = if round % 2 == 0 { "ws/bp".into() } else { r.pick(&srcs).clone() };
        // two ids may share a location; a location may be the source directory itself
        d.map = known.iter().enumerate().map(|(i, id)| (id.to_string(), if i == 1 && r.chance(1, 2) { format!("$T/packaged/{}", leaf_of(known[0])) } else if r.chance(1, 10) { format!("$T/{}", "ws/bp") } else { format!("$T/packaged/{}", leaf_of(id)) })).collect();
        for _ in 0..r.range(1, 10) {
            let id = *r.pick(known);
            d.deps.push(match r.below(6) { 0 => id.to_string(), 1 => format!("./{id}"), 2 => format!("../packaged/{}", leaf_of(id)), _ => format!("libcnb:{id}") });
        }
        match round % 5 {
            0 => { let at = r.below(d.deps.len() as u64 + 1) as usize; d.deps.insert(at, format!("libcnb:{}", r.pick(absent))); d.kind = "corr-ids-missing".into(); }
            1 => { let bad = *r.pick(&["app", "config", "sbom", "a_b", "heroku/nodejs@1", "a b", "", "a%2Fb", "heroku/node.js+", "ä"]); if bad.is_ascii() && !bad.contains(' ') { let at = r.below(d.deps.len() as u64 + 1) as usize; d.deps.insert(at, format!("libcnb:{bad}")); d.kind = "corr-ids-invalid".into(); } }
            _ => {}
        }
        emit(d14_case(&d));
    }
    // ---- 7. buildpack URI dimension (never rewritten, whatever it looks like)
    let bps: Vec<String> = ["libcnb:heroku/nodejs", "libcnb:missing/id", "libcnb:app", "../../../../../../../../..", "a/../../b/./c//", "./%2e%2e/x", "my%20bp", "/abs/../x/.", "urn:cnb:registry:heroku/nodejs@1.0.0", "x:", "file:///a/b/../c",
        "https://user:pw@host.example:8443/p/q?x=1#f", "docker://docker.io/heroku/example:1.2.3", "~", "+", "$T/x", "a:b", "./a:b", "//host/path", "?q", "#f", "x?y#z"].iter().map(|s| s.to_string()).collect();
    for (i, bp) in bps.iter().enumerate() {
        let mut d = base("bp-uri");
        d.bp = bp.clone();
        d.src = srcs[i % srcs.len()].clone();
        d.map = vec![("heroku/nodejs".into(), "$T/packaged/heroku_nodejs".into())];
        d.deps = vec!["libcnb:heroku/nodejs".into(), "../x".into(), bp.clone()];
        if bp.starts_with("libcnb:") || bp.starts_with("//") || bp.starts_with('?') || bp.starts_with('#') || bp.contains('?') && !bp.contains(':') { d.deps.pop(); }
        d.platform = ["none", "linux", "windows"][i % 3];
        d.opt = ["", "twice"][i % 2];
        emit(d14_case(&d));
    }
    // ---- 8. known finding C14-root-colon-segment: a text `/<segment holding ':'>…` reaches uriparse — as the path a relative dependency denotes
    //         (it climbs to `/`), as an absolute dependency or buildpack URI written in package.toml, as packaged location of a libcnb reference;
    //         alone, and together with things that must win (earlier missing / invalid reference) or lose (later ones)
    for (i, seg) in COLON_SEGS.iter().enumerate() {
        let mut d = base("root-colon");
        d.deps = vec![format!("../../../../{seg}/x"), format!("../../../../../../{seg}"), format!("../../../../x/../{seg}/./y")];
        emit(d14_case(&d));
        for dep in [format!("../../../../{seg}/x"), format!("../../../../{seg}"), format!("../../../../../../../../../x/../{seg}/./y/")] {
            let mut d = base("root-colon");
            d.src = ["ws/bp", "x", "ws/deep/er/bp"][i % 3].into();
            d.deps = vec!["ok/../fine".into(), dep, "docker://docker.io/heroku/example:1.2.3".into()];
            emit(d14_case(&d));
        }
        // a colon in a later segment, or behind `/.`, is accepted
        let mut d = base("root-colon-later");
        d.deps = vec![format!("../../../../x/{seg}"), format!("/a/{seg}/x"), format!("/./{seg}"), format!("../../../{seg}"), format!("../{seg}/..")];
        d.map = vec![("c/loc".into(), format!("/opt/{seg}/x"))];
        d.deps.push("libcnb:c/loc".into());
        emit(d14_case(&d));
        // written as an absolute dependency / as the buildpack URI
        let mut d = base("root-colon");
        d.deps = vec!["../x".into(), format!("/{seg}/x")];
        emit(d14_case(&d));
        let mut d = base("root-colon");
        d.bp = format!("/{seg}");
        d.deps = vec!["../x".into()];
        emit(d14_case(&d));
        // as packaged location: referenced (alone / before a missing reference / after one / after an invalid one) and not referenced
        let map = vec![("c/loc".to_string(), format!("/{seg}/packaged")), ("c/fine".to_string(), "$T/packaged/fine".to_string())];
        for deps in [vec!["libcnb:c/loc"], vec!["libcnb:c/fine", "libcnb:c/loc", "libcnb:c/absent"], vec!["libcnb:c/absent", "libcnb:c/loc"], vec!["libcnb:under_score", "libcnb:c/loc"], vec!["libcnb:c/fine", "../x"]] {
            let mut d = base("root-colon");
            d.map = map.clone();
            d.deps = deps.iter().map(|x| x.to_string()).collect();
            emit(d14_case(&d));
        }
        // a relative dependency that lands there, after a reference without location (the missing reference must be what is reported)
        let mut d = base("root-colon");
        d.deps = vec![format!("../../../../{seg}"), "libcnb:c/absent".into()];
        emit(d14_case(&d));
    }
}

/// seeded sampling over the wide pools: every dimension drawn independently, sizes occasionally beyond the thresholds
fn generate_wide(thorough: bool, seed: u64, emit: &mut dyn FnMut(Case)) {
    let srcs = wide_srcs();
    let samples: u64 = if thorough { 30_000 } else { 2_000 };
    let mut good: Vec<&str> = CORR_IDS.iter().chain(IDS).copied().filter(|i| valid_id(i)).collect();
    good.sort();
    good.dedup();
    let all_schemes: Vec<&str> = SCHEMES_REG.iter().chain(SCHEMES_UNREG).chain(SCHEMES_LIBCNBLIKE).copied().collect();
    for idx in 0..samples {
        let mut r = Rng::for_case(seed ^ 0x14_3A_7E, idx);
        let seg = |r: &mut Rng, first: bool| -> String {
            match r.below(12) { 0 | 1 => "..".into(), 2 => ".".into(), 3 => if first { ".".into() } else { "".into() }, 4..=6 => (*r.pick(NAMES)).to_string(),
                                 7 if !first => (*r.pick(COLON_SEGS)).to_string(), _ => (*r.pick(SEGS)).to_string() }
        };
        let rel = |r: &mut Rng| -> String {
            let n = match r.below(20) { 0 => r.range(10, 40), 1 => *r.pick(SIZES) as u64, _ => r.range(1, 9) };
            let mut v: Vec<String> = (0..n).map(|i| seg(r, i == 0)).collect();
            if r.chance(1, 6) { for _ in 0..r.range(1, 14) { v.insert(0, "..".into()); } }
            if r.chance(1, 8) { v.push(String::new()); }
            v.join("/")
        };
        let other = |r: &mut Rng| -> String {
            match r.below(4) {
                0 => (*r.pick(OTHERS)).to_string(),
                1 => { let s = *r.pick(&all_schemes); match r.below(5) { 0 => format!("{s}:{}", r.pick(SEGS)), 1 => format!("{s}:/{}/../{}", r.pick(SEGS), r.pick(SEGS)), 2 => format!("{s}://h.example/{}", r.pick(SEGS)), 3 => format!("{s}:{}", r.pick(&good)), _ => format!("{s}:") } }
                2 => format!("/{}/{}/../{}", r.pick(SEGS), r.pick(NAMES), r.pick(SEGS)),
                _ => format!("/{}", rel(r)),
            }
        };
        let mut pool = good.clone();
        r.shuffle(&mut pool);
        let nk = if r.chance(1, 20) { (*r.pick(&[17usize, 33, 65])).min(pool.len() - 3) } else { r.range(0, 8) as usize };
        let (known, absent) = pool.split_at(nk);
        let map: Vec<(String, String)> = known.iter().map(|id| (id.to_string(), loc_for(&mut r, &leaf_of(id)))).collect();
        let ndeps = match r.below(30) { 0 => 0, 1 => *r.pick(SIZES), 2 => r.range(13, 40) as usize, _ => r.range(1, 12) as usize };
        let mut deps: Vec<String> = vec![];
        for _ in 0..ndeps {
            match r.below(10) {
                0..=2 if !known.is_empty() => deps.push(format!("libcnb:{}", r.pick(known))),
                3..=6 => deps.push(rel(&mut r)),
                _ => deps.push(other(&mut r)),
            }
            if r.chance(1, 10) && !deps.is_empty() { let again = r.pick(&deps).clone(); deps.push(again); } // the same dependency twice
        }
        let mode = r.below(20);
        let mut kind = "wide";
        if mode == 0 { let at = r.below(deps.len() as u64 + 1) as usize; deps.insert(at, format!("libcnb:{}", r.pick(BAD_IDS))); kind = "wide-invalid-id"; }
        else if mode <= 2 { let at = r.below(deps.len() as u64 + 1) as usize; deps.insert(at, format!("libcnb:{}", r.pick(absent))); kind = "wide-missing-id"; }
        let bp = match r.below(6) { 0 => rel(&mut r), 1 => other(&mut r), 2 => (*r.pick(BPS)).to_string(), _ => ".".to_string() };
        let src = if r.chance(1, 3) { (*r.pick(SRCS)).to_string() } else { r.pick(&srcs).clone() };
        let d = D14 { src, bp, deps, platform: *r.pick(&["none", "none", "linux", "windows"]), map,
                      opt: *r.pick(&["", "", "", "twice", "link", "twice+link"]), kind: kind.into() };
        emit(d14_case(&d));
    }
}

fn main() { main_loop_jobs("c14", 8, &generate, &run_case); }
