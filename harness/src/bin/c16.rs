//! C16 correspondence: scenario trees × injection points → the real `TestRunner` (child process `trun`, stand-in
//! docker/pack; closures that panic at a chosen step; the k-th external command failing; fault scripts failing any set of
//! sub-commands by position / container; a tool disappearing from PATH).
//! Observation: how the process ended, the command log (random names renamed by first occurrence), what is left in TMPDIR.
#[path = "../lct/mod.rs"]
mod lct;
use cnbv::{Case, Rng};
use lct::*;

fn s(x: &str) -> String { x.to_string() }

fn bcfg(expect_success: bool, pack_nonzero: bool, pre: bool, app: AppDir, triple: char) -> BCfg {
    BCfg {
        builder: s("heroku/builder:24"), app, pre: if pre { Some(vec![Edit::Write(s("added.txt"), b"x".to_vec())]) } else { None },
        bps: vec![s("heroku/procfile")], env: vec![(s("K"), s("v"))], expect_success, triple, pack_nonzero,
    }
}
fn rel() -> AppDir { AppDir::Rel(s("fixtures/app")) }

/// container config 0 exposes port 8080 (9999 is not exposed)
fn ccfgs() -> Vec<CCfg> {
    vec![CCfg { entrypoint: Some(s("web")), command: None, env: vec![(s("PORT"), s("8080"))], ports: vec![8080], mounts: vec![] }]
}

fn cact_sym(x: &str) -> CAct {
    match x { "LN" => CAct::LogsNow, "LW" => CAct::LogsWait, "P" => CAct::Port(8080), "Pu" => CAct::Port(9999), "E" => CAct::Exec(s("ps")), _ => CAct::Panic }
}

fn cact_lists(tier: &str) -> Vec<Vec<CAct>> {
    let singles = ["LN", "LW", "P", "Pu", "E", "X"];
    let pair_syms: &[&str] = if tier == "thorough" { &singles } else { &["LN", "P", "X"] };
    let mut out: Vec<Vec<CAct>> = vec![vec![]];
    for a in singles { out.push(vec![cact_sym(a)]); }
    for a in pair_syms { for b in pair_syms { out.push(vec![cact_sym(a), cact_sym(b)]); } }
    if tier == "thorough" { for a in ["LN", "P", "X"] { for b in ["LN", "P", "E"] { for c in ["LN", "Pu", "X"] { out.push(vec![cact_sym(a), cact_sym(b), cact_sym(c)]); } } } }
    out
}

fn simple_acts(tier: &str) -> Vec<Act> {
    let mut out: Vec<Act> = cact_lists(tier).into_iter().map(|c| Act::Start(0, c)).collect();
    out.push(Act::Shell(s("true")));
    out.push(Act::Sbom);
    out.push(Act::Panic);
    out
}

/// closures without a rebuild
fn act_lists(tier: &str) -> Vec<Vec<Act>> {
    let all = simple_acts(tier);
    let mut firsts: Vec<Act> =
        vec![Act::Start(0, vec![]), Act::Start(0, vec![CAct::LogsNow]), Act::Start(0, vec![CAct::Panic]), Act::Shell(s("true")), Act::Sbom, Act::Panic];
    if tier == "thorough" {
        firsts.extend([Act::Start(0, vec![CAct::Port(8080)]), Act::Start(0, vec![CAct::Port(9999)]), Act::Start(0, vec![CAct::Exec(s("ps"))]),
            Act::Start(0, vec![CAct::LogsWait]), Act::Start(0, vec![CAct::LogsNow, CAct::Panic]), Act::Start(0, vec![CAct::Port(8080), CAct::LogsNow])]);
    }
    let mut out: Vec<Vec<Act>> = vec![vec![]];
    for a in &all { out.push(vec![a.clone()]); }
    for a in &firsts { for b in &all { out.push(vec![a.clone(), b.clone()]); } }
    out
}

/// an upper bound on the number of external commands a tree can issue (injection points beyond the real count are no-ops)
fn max_cmds(acts: &[Act]) -> usize {
    3 + acts.iter().map(|a| match a {
        Act::Start(_, c) => 2 + c.iter().map(|x| match x { CAct::Port(_) => 2, CAct::Panic => 0, _ => 1 }).sum::<usize>(),
        Act::Shell(_) | Act::Sbom => 1, Act::Panic => 0,
        Act::Rebuild(_, inner) | Act::RebuildCtx(_, inner) => max_cmds(inner) - 2,
    }).sum::<usize>()
}

fn describe(tree: &Tree, bcfgs: &[BCfg], inj: &str) -> (Vec<(String, String)>, bool) {
    fn walk(a: &[Act], top_panic: &mut usize, ctr_panic: &mut usize, unexposed: &mut usize, ports: &mut usize, shapes: &mut Vec<&'static str>, depth: &mut usize, d: usize) {
        *depth = (*depth).max(d);
        for x in a { match x {
            Act::Panic => { *top_panic += 1; shapes.push("panic"); }
            Act::Shell(_) => shapes.push("shell"), Act::Sbom => shapes.push("sbom"),
            Act::Start(_, c) => { shapes.push("start"); if !c.is_empty() { *depth = (*depth).max(d + 1); } for y in c { match y { CAct::Panic => *ctr_panic += 1, CAct::Port(9999) => *unexposed += 1, CAct::Port(_) => *ports += 1, _ => {} } } }
            Act::RebuildCtx(_, inner) => { shapes.push("rebuild-from-context-config"); walk(inner, top_panic, ctr_panic, unexposed, ports, shapes, depth, d + 1); }
            Act::Rebuild(_, inner) => { shapes.push("rebuild"); walk(inner, top_panic, ctr_panic, unexposed, ports, shapes, depth, d + 1); }
        } }
    }
    let (mut tp, mut cp, mut un, mut ports, mut shapes, mut depth) = (0, 0, 0, 0, vec![], 1);
    walk(&tree.acts, &mut tp, &mut cp, &mut un, &mut ports, &mut shapes, &mut depth, 2);
    shapes.sort(); shapes.dedup();
    let ch = chain(tree);
    let intrinsic = ch.iter().any(|i| { let b = &bcfgs[*i]; matches!(b.app, AppDir::Missing) || b.triple == 'o' || b.expect_success == b.pack_nonzero });
    let sources = tp + cp + un;
    let (inj, outputs) = match inj.split_once('~') { Some((a, o)) => (a, Some(o)), None => (inj, None) };
    let (base_inj, flavour) = inj.split_once('@').unwrap_or((inj, "0"));
    let kind = base_inj.split(':').next().unwrap_or("-");
    let status = if kind == "z" { base_inj.split(':').nth(2).unwrap_or("7") } else { "-" };
    // (flavour 3 — unparsable `docker port` output — turns every exposed-port look-up into one more panic source)
    let sources = sources + if flavour == "3" { ports } else { 0 };
    // mirrors `DriverC16.inScope`: judged unless a `docker rm` is made to fail while something else goes wrong (for `z:k` that
    // depends on which command turns out to be the k-th) or docker is missing altogether
    let rules = if kind == "f" { parse_fault_rules(&base_inj[2..]).unwrap_or_default() } else { vec![] };
    let spares_rm = rules.iter().all(|r| r.kind != "rm" && r.kind != "any");
    let in_scope = match kind {
        "-" | "nfp" => "1",
        "z" => if sources == 0 { "1" } else { "unless-kth-is-docker-rm" },
        "f" => if spares_rm || (sources == 0 && rules.len() == 1 && matches!(rules[0].sel, FaultSel::At(_))) { "1" } else { "0" },
        _ => "0",
    };
    let mut tags = vec![
        (s("inj"), s(match kind { "-" => "none", "z" => "kth-command-nonzero", "nfp" => "pack-not-found", "f" => "fault-script", _ => "docker-not-found" })),
        (s("panic"), s(if sources == 0 { "none" } else if sources > 1 { "several" } else if tp == 1 { "test-closure" } else if cp == 1 { "container-closure" } else { "unexposed-port" })),
        (s("shape"), if shapes.is_empty() { s("build-only") } else { shapes.join("+") }),
        (s("depth"), depth.to_string()),
        (s("builds"), ch.len().to_string()),
        (s("cfg"), s(if intrinsic { "panics-by-itself" } else { "proceeds" })),
        (s("in_quantifier"), s(in_scope)),
        (s("status"), s(status)), (s("outputs"), s(flavour)),
    ];
    if kind == "f" {
        let mut kinds: Vec<&str> = rules.iter().map(|r| match r.kind.as_str() { "rd" => "start", "ln" | "lf" | "lg" => "logs", "ex" | "po" => "exec-or-port", "rr" | "sb" | "pb" => "pack-or-attached-run", "ri" | "vr" => "rmi-or-volume-remove", "nr" => "all-but-docker-rm", _ => "docker-rm-too" }).collect(); kinds.sort(); kinds.dedup();
        let mut sels: Vec<&str> = rules.iter().map(|r| match r.sel { FaultSel::All => "always", FaultSel::At(_) => "at-position", FaultSel::From(_) => "from-position-on", FaultSel::Ctr(_) => "for-container" }).collect(); sels.sort(); sels.dedup();
        tags.push((s("fault_kinds"), kinds.join("+")));
        tags.push((s("fault_sel"), sels.join("+")));
        tags.push((s("fault_rules"), rules.len().to_string()));
        tags.push((s("fault_with_panic_step"), s(if sources > 0 { "1" } else { "0" })));
    }
    // the output script: what the selected commands print (pattern, size class, stream, alignment) and whether one of them is a
    // command that is made to fail (then the bytes end up in a CommandError, i.e. in a panic message)
    if let Some(orules) = outputs.and_then(parse_out_rules) {
        let uniq = |mut v: Vec<String>| { v.sort(); v.dedup(); v.join("+") };
        tags.push((s("out_pattern"), uniq(orules.iter().map(|r| s(match r.pat { 'a' => "ascii", '2' => "2-byte", '3' => "3-byte", '4' => "4-byte", 'm' => "mixed", _ => "not-utf8" })).collect())));
        tags.push((s("out_size"), uniq(orules.iter().map(|r| s(match r.size { 0..=4000 => "<4K", 4001..=4200 => "~4K", 4201..=8000 => "4K-8K", 8001..=8400 => "~8K", 8401..=16300 => "8K-16K", 16301..=16383 => "just-below-16K", 16384 => "16K", 16385..=16500 => "just-above-16K", 16501..=65000 => "16K-64K", 65001..=66000 => "~64K", 66001..=1000000 => "64K-1M", _ => ">=1M" })).collect())));
        tags.push((s("out_stream"), uniq(orules.iter().map(|r| s(match r.stream { 'o' => "stdout", 'e' => "stderr", _ => "both" })).collect())));
        tags.push((s("out_shift"), uniq(orules.iter().map(|r| r.shift.to_string()).collect())));
        // same kind word or a catch-all on either side: the failing command is (among) the ones that print the generated bytes
        let on_failing = rules.iter().any(|f| orules.iter().any(|o| o.kind == f.kind || o.kind == "any" || (o.kind == "nr" && f.kind != "rm") || (o.kind == "lg" && (f.kind == "ln" || f.kind == "lf"))));
        tags.push((s("out_on"), s(if on_failing { "failing-command" } else if rules.is_empty() && kind == "-" { "succeeding-commands-only" } else { "other-command-than-the-failing-one" })));
    }
    (tags, kind != "-" || sources > 0 || intrinsic)
}

/// exit statuses of an injected failure: generic, shell conventions (126/127), docker's own 125, 137 (128+SIGKILL), 255, death by signal
const STATUSES: [&str; 9] = ["1", "2", "7", "125", "126", "127", "137", "255", "sig"];

fn generate(tier: &str, seed: u64, emit: &mut dyn FnMut(Case)) {
    let fixture = vec![(s("Procfile"), b"web: true\n".to_vec())];
    let cc = ccfgs();
    let thorough = tier == "thorough";
    // the exit status of an injected failure and the texts the tools print rotate through the enumeration, so that every
    // status meets every command kind in many trees; block 0 below pairs every command kind with every status explicitly
    let mut counter = 0usize;
    let mut push = |bcfgs: &[BCfg], tree: &Tree, inj: String| {
        counter += 1;
        let inj = if inj.contains('@') { inj } else {
            let base = if inj.starts_with("z:") && inj.matches(':').count() == 1 { format!("{inj}:{}", STATUSES[counter % STATUSES.len()]) }
                else if let Some(script) = inj.strip_prefix("f:") {
                    // rules without an explicit status get one, rotating
                    format!("f:{}", script.split('+').enumerate().map(|(i, r)| if r.matches('.').count() == 1 { format!("{r}.{}", STATUSES[(counter + i) % STATUSES.len()]) } else { r.to_string() }).collect::<Vec<_>>().join("+"))
                } else { inj };
            format!("{base}@{}", (counter / STATUSES.len()) % 3)
        };
        let (tags, nt) = describe(tree, bcfgs, &inj);
        emit(Case {
            fields: vec![enc_fixture(&fixture), enc_list(bcfgs.iter().map(enc_bcfg).collect()), enc_list(cc.iter().map(enc_ccfg).collect()), enc_tree(tree), inj],
            tags, nontrivial: nt,
        });
    };
    let base = vec![bcfg(true, false, true, rel(), 'x'), bcfg(true, false, false, AppDir::Abs(s("/app")), 'x')];
    // 0. every kind of external command × every exit status × three sets of tool outputs; unparsable `docker port` output
    let start = |c: Vec<CAct>| vec![Act::Start(0, c)];
    let kinds: Vec<(&str, Vec<Act>, usize)> = vec![
        ("pack build", vec![], 1), ("docker rmi", vec![], 2), ("docker volume remove", vec![], 3),
        ("docker run --detach", start(vec![]), 2), ("docker rm", start(vec![]), 3),
        ("docker logs", start(vec![CAct::LogsNow]), 3), ("docker logs --follow", start(vec![CAct::LogsWait]), 3),
        ("docker port", start(vec![CAct::Port(8080)]), 3), ("docker exec", start(vec![CAct::Exec(s("ps"))]), 3),
        ("docker rm after steps", start(vec![CAct::LogsNow, CAct::Exec(s("ps"))]), 5),
        ("docker run --rm", vec![Act::Shell(s("true"))], 2), ("pack sbom download", vec![Act::Sbom], 2),
        ("pack build (rebuild)", vec![Act::Rebuild(1, vec![])], 2), ("docker run --detach (after rebuild)", vec![Act::RebuildCtx(1, start(vec![]))], 3),
    ];
    for (_, acts, k) in &kinds { for st in STATUSES { for f in 0..3 {
        push(&base, &Tree { cfg: 0, acts: acts.clone() }, format!("z:{k}:{st}@{f}"));
    } } }
    for acts in [start(vec![CAct::Port(8080)]), start(vec![CAct::LogsNow, CAct::Port(8080), CAct::Exec(s("ps"))]), start(vec![CAct::Port(9999)]), vec![Act::Shell(s("true"))]] {
        let tree = Tree { cfg: 0, acts };
        push(&base, &tree, s("-@3"));
        for k in 1..=max_cmds(&tree.acts) { push(&base, &tree, format!("z:{k}:125@3")); }
    }
    // 1. every closure without rebuild × every injection point
    let lists = act_lists(tier);
    for acts in &lists {
        let tree = Tree { cfg: 0, acts: acts.clone() };
        push(&base, &tree, s("-"));
        for k in 1..=max_cmds(acts) { push(&base, &tree, format!("z:{k}")); }
    }
    // 2. rebuild as the last act: prefix × inner closure × every injection point
    let mut prefixes: Vec<Vec<Act>> = vec![vec![], vec![Act::Shell(s("true"))], vec![Act::Start(0, vec![CAct::LogsNow])]];
    if thorough { prefixes.extend([vec![Act::Sbom], vec![Act::Start(0, vec![CAct::Port(8080), CAct::Exec(s("ps"))])], vec![Act::Shell(s("true")), Act::Start(0, vec![])]]); }
    let singles: Vec<Vec<Act>> = lists.iter().filter(|l| l.len() <= 1).cloned().collect();
    let mut inners: Vec<Vec<Act>> = singles.clone();
    if thorough { inners.extend(act_lists("quick").into_iter().filter(|l| l.len() == 2)); }
    for p in &prefixes { for inner in &inners {
        let mut acts = p.clone(); acts.push(Act::Rebuild(1, inner.clone()));
        let tree = Tree { cfg: 0, acts };
        push(&base, &tree, s("-"));
        for k in 1..=max_cmds(&tree.acts) { push(&base, &tree, format!("z:{k}")); }
    } }
    // 2a. the same with `context.config.clone()` as the rebuild's configuration (the overlay config 1 only contributes its env
    //     and expected pack result), for the empty prefix
    for inner in &singles {
        let tree = Tree { cfg: 0, acts: vec![Act::RebuildCtx(1, inner.clone())] };
        push(&base, &tree, s("-"));
        for k in 1..=max_cmds(&tree.acts) { push(&base, &tree, format!("z:{k}")); }
    }
    // 2b. (thorough) depth 4: a rebuild inside a rebuild
    if thorough {
        for p in &prefixes[..2] { for q in &prefixes[..3] { for inner in &singles {
            let mut mid = q.clone(); mid.push(Act::Rebuild(0, inner.clone()));
            let mut acts = p.clone(); acts.push(Act::Rebuild(1, mid));
            let tree = Tree { cfg: 0, acts };
            push(&base, &tree, s("-"));
            for k in 1..=max_cmds(&tree.acts) { push(&base, &tree, format!("z:{k}")); }
        } } }
    }
    // 3. builds that end by themselves: pack against either expectation, missing app dir, unknown target triple,
    //    with/without preprocessor, as first build and as rebuild, × representative closures × injection points
    let reps: Vec<Vec<Act>> = vec![vec![], vec![Act::Start(0, vec![CAct::LogsNow])], vec![Act::Start(0, vec![CAct::Panic])], vec![Act::Shell(s("true"))], vec![Act::Sbom, Act::Panic]];
    let mut variants = vec![];
    for pre in [false, true] { for (e, p) in [(true, false), (true, true), (false, true), (false, false)] { variants.push(bcfg(e, p, pre, rel(), 'x')); } }
    variants.push(bcfg(true, false, true, AppDir::Missing, 'x'));
    variants.push(bcfg(true, false, true, rel(), 'o'));
    variants.push(bcfg(false, true, false, rel(), 'a'));
    for v in &variants { for acts in &reps {
        let first = Tree { cfg: 0, acts: acts.clone() };
        let cfgs = vec![v.clone(), base[0].clone()];
        push(&cfgs, &first, s("-"));
        for k in 1..=max_cmds(acts) { push(&cfgs, &first, format!("z:{k}")); }
        let second = Tree { cfg: 1, acts: vec![Act::Start(0, vec![]), Act::Rebuild(0, acts.clone())] };
        push(&cfgs, &second, s("-"));
        for k in 1..=max_cmds(&second.acts) { push(&cfgs, &second, format!("z:{k}")); }
    } }
    // 4. a tool missing from PATH from its j-th invocation on (pack: a single "not found" failure; docker: usually a
    //    double fault, outside the quantifier, compared with the model only)
    let nf_reps: Vec<Vec<Act>> = vec![
        vec![], vec![Act::Sbom], vec![Act::Shell(s("true"))], vec![Act::Start(0, vec![CAct::Port(8080), CAct::LogsNow])],
        vec![Act::Sbom, Act::Rebuild(1, vec![Act::Sbom])], vec![Act::Start(0, vec![CAct::Panic]), Act::Shell(s("true"))],
        vec![Act::Start(0, vec![CAct::Exec(s("ps"))]), Act::Rebuild(1, vec![Act::Start(0, vec![])])],
    ];
    for acts in &nf_reps {
        let tree = Tree { cfg: 0, acts: acts.clone() };
        for j in 1..=4 { push(&base, &tree, format!("nfp:{j}")); }
        for j in 1..=7 { push(&base, &tree, format!("nfd:{j}")); }
    }
    // 5. seeded random deeper scenarios (chains of up to 3 builds, up to 4 acts, random injection)
    let n = if thorough { 6000 } else { 300 };
    let all = simple_acts("thorough");
    for i in 0..n {
        let mut r = Rng::for_case(seed, i);
        let nb = 1 + r.below(3) as usize;
        let mut cfgs = vec![];
        for _ in 0..nb {
            let (e, p) = *r.pick(&[(true, false), (true, false), (true, false), (false, true), (true, true), (false, false)]);
            cfgs.push(bcfg(e, p, r.chance(1, 2), if r.chance(1, 12) { AppDir::Missing } else { rel() }, if r.chance(1, 12) { 'o' } else { 'x' }));
        }
        let mut acts: Vec<Act> = vec![];
        for b in (0..nb).rev() {
            let mut mine: Vec<Act> = (0..r.below(4)).map(|_| r.pick(&all).clone()).collect();
            if b + 1 < nb { mine.push(if r.chance(1, 3) { Act::RebuildCtx(b + 1, acts) } else { Act::Rebuild(b + 1, acts) }); }
            acts = mine;
        }
        let tree = Tree { cfg: 0, acts };
        let m = max_cmds(&tree.acts) as u64;
        let inj = match r.below(8) { 0 => s("-"), 1 => format!("nfp:{}", 1 + r.below(3)), 2 => format!("nfd:{}", 1 + r.below(6)), _ => format!("z:{}:{}", 1 + r.below(m), r.pick(&STATUSES)) };
        let inj = format!("{inj}@{}", r.below(4));
        push(&cfgs, &tree, inj);
    }
    // 6. fault scripts: several commands failing in one run, selected by sub-command and by position / container, crossed with
    //    closures that panic (or not) while a container context is alive
    let st = |c: &[&str]| Act::Start(0, c.iter().map(|x| cact_sym(x)).collect());
    let sh = || Act::Shell(s("true"));
    let mut ftrees: Vec<Vec<Act>> = vec![
        vec![st(&["X"])], vec![st(&["LN", "X"])], vec![st(&["LN"])], vec![st(&["LW"])], vec![st(&["E"])], vec![st(&["P"])], vec![st(&["Pu"])],
        vec![st(&["E", "LN", "X"])], vec![st(&[])], vec![st(&["LN"]), Act::Panic], vec![st(&["X"]), sh()], vec![sh(), st(&["P", "X"])],
        vec![st(&["LN"]), st(&["X"])], vec![Act::Sbom, st(&["LW", "X"])], vec![Act::Rebuild(1, vec![st(&["X"])])],
        vec![st(&["LN"]), Act::Rebuild(1, vec![st(&["E", "X"])])], vec![Act::RebuildCtx(1, vec![st(&["Pu"])])],
        vec![st(&[]), Act::Rebuild(1, vec![sh(), Act::Rebuild(0, vec![st(&["LN", "X"])])])], vec![Act::Panic], vec![st(&["P", "LN"])],
    ];
    if thorough {
        for c in cact_lists("quick") { let t = vec![Act::Start(0, c)]; ftrees.push(t.clone()); ftrees.push(vec![st(&["E"]), Act::Rebuild(1, t)]); }
    }
    // never-created containers (`docker run` and every command addressing that container fail, `docker rm --force` of a missing
    // container succeeds), a daemon that lost its logging driver, commands failing for good, cleanup commands whose failure
    // libcnb-test ignores, everything but `docker rm` failing
    let static_scripts = [
        "lg.a", "ln.a", "lf.a", "ex.a", "po.a", "rd.a", "rr.a", "sb.a", "pb.a", "ri.a", "vr.a", "ri.a+vr.a",
        "lg.c1", "lg.c2", "ex.c1", "po.c1", "rd.c1", "rd.c2", "rd.c1+lg.c1+ex.c1+po.c1", "rd.c2+lg.c2+ex.c2+po.c2",
        "lg.a+ex.a+po.a", "nr.a", "lg.a+ri.a+vr.a", "rd.a+lg.a",
        // outside the quantifier (docker rm failing as well): compared with the model only
        "rm.a", "any.a", "rm.c1", "lg.a+rm.a",
    ];
    for (ti, acts) in ftrees.iter().enumerate() {
        let tree = Tree { cfg: 0, acts: acts.clone() };
        let m = max_cmds(acts) + 1;
        for sc in static_scripts { push(&base, &tree, format!("f:{sc}")); }
        for k in 1..=m {
            push(&base, &tree, format!("f:lg.g{k}"));
            push(&base, &tree, format!("f:nr.f{k}"));
            if thorough || ti % 3 == 0 { push(&base, &tree, format!("f:any.f{k}")); push(&base, &tree, format!("f:rm.g{k}+lg.a")); }
        }
        // two commands failing, neither of them a `docker rm`: every pair of positions
        if thorough || ti < 10 { for k1 in 1..=m { for k2 in k1 + 1..=m { push(&base, &tree, format!("f:nr.g{k1}+nr.g{k2}")); } } }
        if thorough && ti < 20 { for k1 in 1..=m { for k2 in k1 + 1..=m { for k3 in k2 + 1..=m { push(&base, &tree, format!("f:nr.g{k1}+nr.g{k2}+nr.g{k3}")); } } } }
    }
    // 7. seeded random chains (as in 5) with a random fault script of 1-3 rules
    let n = if thorough { 2500 } else { 250 };
    for i in 0..n {
        let mut r = Rng::for_case(seed ^ 0x16c, i);
        let nb = 1 + r.below(3) as usize;
        let mut cfgs = vec![];
        for _ in 0..nb {
            let (e, p) = *r.pick(&[(true, false), (true, false), (true, false), (true, false), (false, true), (true, true)]);
            cfgs.push(bcfg(e, p, r.chance(1, 2), rel(), 'x'));
        }
        let mut acts: Vec<Act> = vec![];
        for b in (0..nb).rev() {
            let mut mine: Vec<Act> = (0..1 + r.below(3)).map(|_| r.pick(&all).clone()).collect();
            if b + 1 < nb { mine.push(if r.chance(1, 3) { Act::RebuildCtx(b + 1, acts) } else { Act::Rebuild(b + 1, acts) }); }
            acts = mine;
        }
        let tree = Tree { cfg: 0, acts };
        let m = max_cmds(&tree.acts) as u64 + 1;
        let nrules = 1 + r.below(3);
        let rules: Vec<String> = (0..nrules).map(|_| {
            // mostly rules that spare `docker rm` (inside the quantifier)
            let kind = if r.chance(1, 10) { *r.pick(&["rm", "any"]) } else { *r.pick(&["pb", "sb", "rd", "rr", "ln", "lf", "lg", "lg", "ex", "po", "ri", "vr", "nr"]) };
            let sel = match r.below(4) { 0 => s("a"), 1 => format!("g{}", 1 + r.below(m)), 2 => format!("f{}", 1 + r.below(m)), _ => format!("c{}", 1 + r.below(3)) };
            format!("{kind}.{sel}.{}", r.pick(&STATUSES))
        }).collect();
        push(&cfgs, &tree, format!("f:{}@{}", rules.join("+"), r.below(4)));
    }
    // 8. what the commands print as a dimension (`~<output script>`): each path on which a failing command becomes a panic message
    //    (CommandError in `panic!`), with a container / an image alive so that removals are owed, × pattern × alignment × size ×
    //    stream; and the same amounts printed by commands that succeed
    let rb = |inner: Vec<Act>| Act::Rebuild(1, inner);
    // (tree, fault script, kind word of the output rule)
    let paths: Vec<(&str, Vec<Act>, &str, &str)> = vec![
        ("pack build", vec![], "pb.a.1", "pb.a"),
        ("pack build of a rebuild", vec![st(&["LN"]), rb(vec![])], "pb.f2.1", "pb.f2"),
        ("docker run --detach (start_container)", vec![st(&[])], "rd.a.125", "rd.a"),
        ("docker run (run_shell_command)", vec![st(&["LN"]), sh()], "rr.a.1", "rr.a"),
        ("docker run (run_shell_command) in a rebuild", vec![rb(vec![sh()])], "rr.a.127", "rr.a"),
        ("docker logs (logs_now)", vec![st(&["LN"])], "ln.a.1", "ln.a"),
        ("docker logs --follow (logs_wait)", vec![st(&["LW"])], "lf.a.1", "lf.a"),
        ("docker exec (shell_exec)", vec![st(&["LN", "E"])], "ex.a.1", "ex.a"),
        ("docker exec of the 2nd container of a rebuild", vec![st(&["E"]), rb(vec![st(&["E"])])], "ex.c2.2", "ex.c2"),
        ("docker port", vec![st(&["P"])], "po.a.1", "po.a"),
        // a failing `docker port` panics with the container's logs in the message: `logs_now()` is called for it and fails as well
        ("docker logs for the message of a failed docker port", vec![st(&["P"])], "po.a.1+ln.a.1", "ln.a"),
        ("pack sbom download", vec![st(&[]), Act::Sbom], "sb.a.1", "sb.a"),
        // the removal itself failing as the only fault (no unwinding in progress): rmi / volume remove still owed
        ("docker rm", vec![st(&[])], "rm.g3.1", "rm.g3"),
    ];
    let core_sizes = [16383usize, 16384, 16385, 16386, 16387, 16388];
    let mut sizes = vec![0usize, 1, 4095, 4096, 4097, 8191, 8192, 8193, 32767, 32769, 65535, 65536, 65537];
    sizes.extend(core_sizes);
    if thorough { sizes.extend([12288, 16384 + 4096, 2 * 16384 + 1, 2 * 16384 + 2, 2 * 16384 + 3, 131071, 131073, 1048575, 1048576, 1048577, 1048578]); }
    let streams = ['o', 'e', 'b'];
    let mut rot = 0usize;
    let out_case = |push: &mut dyn FnMut(&[BCfg], &Tree, String), acts: &[Act], fault: &str, okind: &str, stream: char, pat: char, shift: usize, size: usize, fl: usize| {
        let base_inj = if fault.is_empty() { s("-") } else { format!("f:{fault}") };
        push(&base, &Tree { cfg: 0, acts: acts.to_vec() }, format!("{base_inj}@{fl}~{okind}.{stream}{pat}{shift}.{size}"));
    };
    // 8a. every path × every multi-byte / mixed / invalid pattern × every alignment × the sizes around 16 KiB (stream rotating;
    //     thorough: every stream)
    for (_, acts, fault, okind) in &paths { for pat in ['2', '3', '4', 'm', 'i'] { for shift in 0..4 { for size in core_sizes {
        if thorough { for st in streams { out_case(&mut push, acts, fault, okind, st, pat, shift, size, 0); } }
        else { rot += 1; out_case(&mut push, acts, fault, okind, streams[rot % 3], pat, shift, size, 0); }
    } } } }
    // 8b. every pattern × every alignment × every size (paths and streams rotating; thorough: every path, 1 MiB included)
    for pat in OUT_PATTERNS { for shift in 0..4 { for &size in &sizes {
        if thorough { for (_, acts, fault, okind) in &paths { rot += 1; out_case(&mut push, acts, fault, okind, streams[rot % 3], pat, shift, size, rot % 3); } }
        else { rot += 1; let (_, acts, fault, okind) = &paths[rot % paths.len()]; out_case(&mut push, acts, fault, okind, streams[(rot / paths.len()) % 3], pat, shift, size, rot % 3); }
    } } }
    // 8c. 1 MiB in the quick tier: one case per pattern (on 6 different paths)
    if !thorough { for (i, pat) in OUT_PATTERNS.iter().enumerate() { let (_, acts, fault, okind) = &paths[(2 * i + 1) % paths.len()]; out_case(&mut push, acts, fault, okind, streams[i % 3], *pat, i % 4, 1048577 + i, 0); } }
    // 8d. commands that succeed print these amounts (every command but `docker rm`, resp. every command): no fault at all; a
    //     closure panic afterwards; a short failing command after long successful ones; the long output on another command
    //     than the failing one
    let quiet: Vec<(Vec<Act>, &str, &str)> = vec![
        (vec![st(&["LN", "E", "P"]), sh(), Act::Sbom], "", "any.a"),
        (vec![st(&["LN", "LW", "X"])], "", "nr.a"),
        (vec![st(&["LN", "E"]), rb(vec![st(&["E"]), Act::Panic])], "", "any.a"),
        (vec![st(&["LN", "E"])], "ex.a.1", "ln.a"),
        (vec![st(&["E"]), sh()], "rr.a.1", "pb.a"),
    ];
    for (acts, fault, okind) in &quiet { for pat in OUT_PATTERNS { for (j, size) in [16385usize, 16386, 16387, 65537, 4097].into_iter().enumerate() {
        if !thorough && j >= 3 && pat != '3' && pat != 'i' { continue; }
        rot += 1; out_case(&mut push, acts, fault, okind, streams[rot % 3], pat, rot % 4, size, 0);
    } } }
    // 8e. seeded: random path, random output rules (1-2), random sizes near a power of two between 2^10 and 2^17 (thorough 2^20)
    let n = if thorough { 1500 } else { 150 };
    for i in 0..n {
        let mut r = Rng::for_case(seed ^ 0x16e, i);
        let (_, acts, fault, okind) = r.pick(&paths).clone();
        let mut orules = vec![];
        for j in 0..1 + r.below(2) {
            let e = 10 + r.below(if thorough { 11 } else { 8 });
            let size = ((1u64 << e) + r.below(9)).saturating_sub(4) as usize;
            let kind = if j == 0 { okind } else { *r.pick(&["nr.a", "any.a", "pb.a", "lg.a", "ex.a", "rd.a"]) };
            orules.push(format!("{kind}.{}{}{}.{size}", r.pick(&streams), r.pick(&OUT_PATTERNS), r.below(4)));
        }
        let fault = if r.chance(1, 6) { String::new() } else { format!("f:{}", fault.rsplit_once('.').unwrap().0) };
        let inj = if fault.is_empty() { s("-") } else { format!("{fault}.{}", r.pick(&STATUSES)) };
        push(&base, &Tree { cfg: 0, acts }, format!("{inj}@{}~{}", r.below(3), orules.join("+")));
    }
}

fn run_case(fields: &[String]) -> String { run_scenario_case(fields) }

fn main() { cnbv::main_loop_jobs("c16", 12, &generate, &run_case) }
