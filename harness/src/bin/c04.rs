//! C04 correspondence: real `LayerEnv::insert` / `LayerEnv::apply` on generated insert sequences.
use cnbv::*;
use libcnb::Env;
use libcnb::layer_env::{LayerEnv, ModificationBehavior, Scope};
use std::ffi::OsString;
use std::os::unix::ffi::{OsStrExt, OsStringExt};

fn os(b: &[u8]) -> OsString { OsString::from_vec(b.to_vec()) }

fn parse_scope(s: &str) -> Scope {
    match s {
        "A" => Scope::All,
        "B" => Scope::Build,
        "L" => Scope::Launch,
        _ => Scope::Process(String::from_utf8(unhex(s.strip_prefix("P:").unwrap()).unwrap()).unwrap()),
    }
}
fn parse_beh(s: &str) -> ModificationBehavior {
    match s {
        "a" => ModificationBehavior::Append,
        "d" => ModificationBehavior::Default,
        "m" => ModificationBehavior::Delimiter,
        "o" => ModificationBehavior::Override,
        "p" => ModificationBehavior::Prepend,
        _ => panic!("beh"),
    }
}

fn render_env(env: &Env) -> String {
    let mut v: Vec<(Vec<u8>, Vec<u8>)> = env.iter().map(|(k, v)| (k.as_bytes().to_vec(), v.as_bytes().to_vec())).collect();
    v.sort();
    join(",", &v.iter().map(|(k, v)| format!("{}={}", hex(k), hex(v))).collect::<Vec<_>>())
}

type Ins = (String, String, Vec<u8>, Vec<u8>);

fn build(ins: &[Ins]) -> LayerEnv {
    let mut le = LayerEnv::new();
    for (s, b, n, v) in ins { le.insert(parse_scope(s), parse_beh(b), os(n), os(v)); }
    le
}

fn run_case(f: &[String]) -> String {
    let qs = parse_scope(&f[0]);
    let mut env = Env::new();
    for kv in split_list(&f[1], ",") { let (k, v) = kv.split_once('=').unwrap(); env.insert(os(&unhex(k).unwrap()), os(&unhex(v).unwrap())); }
    let ins: Vec<Ins> = split_list(&f[2], ",").iter().map(|i| { let p: Vec<&str> = i.split('/').collect(); (p[0].to_string(), p[1].to_string(), unhex(p[2]).unwrap(), unhex(p[3]).unwrap()) }).collect();
    let le = build(&ins);
    let before = env.clone();
    let out = le.apply(qs.clone(), &env);
    let pure = before == env;
    // insertion-order independence: the effective (last-wins) entries inserted in a shuffled order
    let mut eff: Vec<Ins> = vec![];
    for i in ins.iter().rev() { if !eff.iter().any(|e| e.0 == i.0 && e.1 == i.1 && e.2 == i.2) { eff.push(i.clone()); } }
    let mut rng = Rng::new(ins.len() as u64 * 7919 + f[2].len() as u64);
    rng.shuffle(&mut eff);
    let le2 = build(&eff);
    let permeq = le2 == le && le2.apply(qs, &env) == out;
    // history independence: the same inserts with queries (for the query scope and the three fixed scopes, also on a clone)
    // made after a prefix must give the same value and the same result as the freshly built one
    let mut histeq = true;
    let qs2 = parse_scope(&f[0]);
    let n = ins.len();
    for k in [0, n / 2, n.saturating_sub(1)] {
        if k > n { continue; }
        let mut h = build(&ins[..k]);
        for sc in [qs2.clone(), Scope::All, Scope::Build, Scope::Launch] { let _ = h.apply(sc.clone(), &env); let _ = h.apply_to_empty(sc); }
        let mut hc = h.clone();
        for (s, b, nm, v) in &ins[k..] { h.insert(parse_scope(s), parse_beh(b), os(nm), os(v)); hc.insert(parse_scope(s), parse_beh(b), os(nm), os(v)); }
        if h != le || h.apply(qs2.clone(), &env) != out || hc.apply(qs2.clone(), &env) != out { histeq = false; }
    }
    // `chainable_insert` builds the same value as the same sequence of `insert` calls
    let mut chained = LayerEnv::new();
    for (s, b, nm, v) in &ins { chained = chained.chainable_insert(parse_scope(s), parse_beh(b), os(nm), os(v)); }
    let chaineq = chained == le && chained.apply(parse_scope(&f[0]), &env) == out;
    // `apply_to_empty` is observed on its own (it is documented as `apply` to an empty environment)
    let empty = le.apply_to_empty(qs2);
    format!("{};pure={};permeq={};histeq={};chaineq={};empty={}", render_env(&out), u8::from(pure), u8::from(permeq), u8::from(histeq), u8::from(chaineq), render_env(&empty))
}

const NAMES: &[&[u8]] = &[b"A", b"B", b"PATH", b"A.b", b"\xffz", b"", b"A=", b"a"];
// values double as delimiters: include line breaks, tabs, multi-byte delimiters with a trailing newline, '=' and NUL
const VALS: &[&[u8]] = &[b"", b"x", b"y", b"/bin:/usr/bin", b"\xfe\x00", b":", b" ", b";\n", b",\r\n", b"\n", b"\r\n", b"a\nb", b"\t", b"=", b"::"];
const SCOPES: &[&str] = &["A", "B", "L", "P:776562", "P:776f726b6572", "P:6275696c64", "P:6c61756e6368"];
// query scopes incl. an unknown process and process types named like the phases
const QSCOPES: &[&str] = &["A", "B", "L", "P:776562", "P:776f726b6572", "P:6e6f6e65", "P:6275696c64", "P:6c61756e6368"];
const BEHS: &[&str] = &["a", "d", "m", "o", "p"];

fn mk_case(qs: &str, env: &[(Vec<u8>, Vec<u8>)], ins: &[Ins], kind: &str) -> Case {
    let envs = join(",", &env.iter().map(|(k, v)| format!("{}={}", hex(k), hex(v))).collect::<Vec<_>>());
    let inss = join(",", &ins.iter().map(|(s, b, n, v)| format!("{s}/{b}/{}/{}", hex(n), hex(v))).collect::<Vec<_>>());
    // non-trivial: some variable has >= 2 entries that reach the query scope, or an entry meets a set variable
    let reach = |s: &str| s == "A" || s == qs;
    let mut multi = false;
    for (i, a) in ins.iter().enumerate() { for b in &ins[i + 1..] { if a.2 == b.2 && reach(&a.0) && reach(&b.0) && (a.0.as_str(), a.1.as_str()) != (b.0.as_str(), b.1.as_str()) { multi = true; } } }
    let meets = ins.iter().any(|i| reach(&i.0) && env.iter().any(|(k, _)| *k == i.2));
    Case { fields: vec![qs.to_string(), envs, inss], tags: vec![("kind".into(), kind.into()), ("n_ins".into(), ins.len().min(9).to_string()), ("qs".into(), qs[..1].to_string()), ("multi".into(), u8::from(multi).to_string()), ("meets".into(), u8::from(meets).to_string())], nontrivial: multi || meets }
}

fn generate(tier: &str, seed: u64, emit: &mut dyn FnMut(Case)) {
    // 1. exhaustive small universe
    let names: [&[u8]; 2] = [b"A", b"B"];
    let vals: [&[u8]; 2] = [b"v", b""];
    let scopes = ["A", "B", "L", "P:776562"];
    let mut universe: Vec<Ins> = vec![];
    for s in scopes { for b in BEHS { for n in names { for v in vals { universe.push((s.to_string(), b.to_string(), n.to_vec(), v.to_vec())); } } } }
    let envs: Vec<Vec<(Vec<u8>, Vec<u8>)>> = {
        let opts: [Option<&[u8]>; 3] = [None, Some(b""), Some(b"e")];
        let mut r = vec![];
        for a in opts { for b in opts { let mut e = vec![]; if let Some(a) = a { e.push((b"A".to_vec(), a.to_vec())); } if let Some(b) = b { e.push((b"B".to_vec(), b.to_vec())); } r.push(e); } }
        r
    };
    let qss = ["A", "B", "L", "P:776562"];
    let max_subset = if tier == "thorough" { 3 } else { 1 };
    let n = universe.len();
    let mut subsets: Vec<Vec<usize>> = vec![vec![]];
    for i in 0..n { subsets.push(vec![i]); }
    if max_subset >= 2 { for i in 0..n { for j in 0..n { if i != j && (universe[i].0 != universe[j].0 || universe[i].1 != universe[j].1 || universe[i].2 != universe[j].2 || i < j) { subsets.push(vec![i, j]); } } } }
    if max_subset >= 3 {
        // ordered triples are too many; take unordered triples on one name with distinct keys
        for i in 0..n { for j in i + 1..n { for k in j + 1..n { if universe[i].2 == universe[j].2 && universe[j].2 == universe[k].2 && universe[i].3 == universe[k].3 { subsets.push(vec![i, j, k]); } } } }
    }
    for sub in &subsets {
        let ins: Vec<Ins> = sub.iter().map(|&i| universe[i].clone()).collect();
        for qs in qss { for env in &envs { emit(mk_case(qs, env, &ins, "exh")); } }
    }
    // 2. sampled
    let samples = if tier == "thorough" { 300_000 } else { 20_000 };
    for idx in 0..samples {
        let mut r = Rng::for_case(seed, idx);
        let pool = 1 + r.below(3) as usize; // few names => collisions
        let kmax = if r.chance(1, 10) { 25 } else { 9 };
        let k = r.below(kmax);
        let mut ins = vec![];
        for _ in 0..k {
            let extra = if r.chance(1, 5) { 5 } else { 0 };
            let ni = r.below(pool as u64 + extra) as usize % NAMES.len();
            ins.push((r.pick(SCOPES).to_string(), r.pick(BEHS).to_string(), NAMES[ni].to_vec(), r.pick(VALS).to_vec()));
        }
        let mut env = vec![];
        for nm in NAMES { if r.chance(1, 3) { env.push((nm.to_vec(), r.pick(VALS).to_vec())); } }
        let qs = *r.pick(QSCOPES);
        emit(mk_case(qs, &env, &ins, "rnd"));
    }
    // 3. big deltas: many variables (and many entries) in ONE scope. Sizes straddle the thresholds at which sorting / grouping
    //    code changes algorithm (16/17, 20/21, 32/33, 64/65, 128/129, 256/257); every variable carries an order-sensitive
    //    combination of behaviours, inserted in a shuffled order.
    let sizes: &[usize] = if tier == "thorough" { &[8, 12, 16, 17, 20, 21, 24, 28, 32, 33, 34, 40, 48, 63, 64, 65, 96, 128, 129, 200, 256, 257, 300] } else { &[12, 17, 21, 33, 40, 65, 129] };
    let combos: &[&[&str]] = &[&["a", "d"], &["a", "o"], &["d", "p"], &["o", "p"], &["a", "p"], &["a", "m", "p"], &["o", "m", "p"], &["a", "d", "m", "o", "p"], &["d", "o"]];
    let mut bi = 0u64;
    for &nv in sizes { for (ci, combo) in combos.iter().enumerate() { for (sci, sc) in ["A", "B", "L", "P:776562"].iter().enumerate() {
        if tier != "thorough" && (ci + sci + nv) % 2 == 1 { continue; }
        bi += 1;
        let mut r = Rng::for_case(seed ^ 0xb16, bi);
        let mut ins: Vec<Ins> = vec![];
        for v in 0..nv { for b in combo.iter() {
            let val: Vec<u8> = match *b { "m" => b":".to_vec(), other => format!("{other}{v}").into_bytes() };
            ins.push((sc.to_string(), b.to_string(), format!("V{v:03}").into_bytes(), val));
        } }
        r.shuffle(&mut ins);
        // a few entries of other scopes in between (must not matter / must matter only through their own scope)
        for _ in 0..r.below(4) { let at = r.below(ins.len() as u64 + 1) as usize; ins.insert(at, (r.pick(SCOPES).to_string(), r.pick(BEHS).to_string(), format!("V{:03}", r.below(nv as u64)).into_bytes(), r.pick(VALS).to_vec())); }
        let mut env = vec![];
        match bi % 3 { 0 => {}, 1 => { for v in 0..nv { if v % 2 == 0 { env.push((format!("V{v:03}").into_bytes(), b"e".to_vec())); } } }, _ => { for v in 0..nv { env.push((format!("V{v:03}").into_bytes(), if v % 3 == 0 { b"".to_vec() } else { b"e".to_vec() })); } } }
        let qs = if *sc == "A" { *r.pick(&["A", "B", "L", "P:776562"]) } else { *sc };
        emit(mk_case(qs, &env, &ins, "big"));
    } } }
    // 4. sampled big: 30..200 inserts over a name pool of 10..80, mostly into one scope
    let big_samples = if tier == "thorough" { 3_000 } else { 150 };
    for idx in 0..big_samples {
        let mut r = Rng::for_case(seed ^ 0xb17, idx);
        let pool = 10 + r.below(71);
        let k = 30 + r.below(171);
        let main_scope = *r.pick(SCOPES);
        let mut ins = vec![];
        for _ in 0..k {
            let sc = if r.chance(4, 5) { main_scope } else { *r.pick(SCOPES) };
            ins.push((sc.to_string(), r.pick(BEHS).to_string(), format!("N{}", r.below(pool)).into_bytes(), r.pick(VALS).to_vec()));
        }
        let mut env = vec![];
        for n in 0..pool { if r.chance(1, 3) { env.push((format!("N{n}").into_bytes(), r.pick(VALS).to_vec())); } }
        let qs = if r.chance(3, 4) { if main_scope == "A" { "B" } else { main_scope } } else { *r.pick(QSCOPES) };
        emit(mk_case(qs, &env, &ins, "big-rnd"));
    }
}

fn main() { main_loop("c04", &generate, &run_case); }
