//! C02 correspondence: histories of trait-API `BuildContext::handle_layer` calls (data-driven `Layer` impl that logs
//! its callbacks) and simulated lifecycle restores; after every step: returned layer data (metadata + `apply` probes),
//! callback log, full snapshot of the layers directory (C01's snapshot grammar).
#![allow(deprecated)]
use cnbv::ctx::{TbError, TestBuildpack, build_context};
use cnbv::*;
use libcnb::Env;
use libcnb::build::BuildContext;
use libcnb::data::layer::LayerName;
use libcnb::data::layer_content_metadata::{LayerContentMetadata, LayerTypes};
use libcnb::data::sbom::SbomFormat;
use libcnb::generic::GenericMetadata;
use libcnb::layer::{ExistingLayerStrategy, Layer, LayerData, LayerResult, LayerResultBuilder, MetadataMigration};
use libcnb::layer_env::{LayerEnv, ModificationBehavior, Scope};
use libcnb::sbom::Sbom;
use serde::{Deserialize, Serialize};
use std::cell::RefCell;
use std::ffi::OsString;
use std::os::unix::ffi::{OsStrExt, OsStringExt};
use std::path::{Path, PathBuf};
use std::rc::Rc;

#[derive(Serialize, Deserialize, Clone, Debug)]
struct V { v: i64 }

fn os(b: &[u8]) -> OsString { OsString::from_vec(b.to_vec()) }
fn opt_int(s: &str) -> Option<i64> { if s == "~" { None } else { Some(s.parse().unwrap()) } }
fn meta_str(v: Option<i64>, w: Option<i64>) -> String { format!("{}_{}", v.map_or("~".into(), |x| x.to_string()), w.map_or("~".into(), |x| x.to_string())) }
fn table_vw(t: &Option<toml::Table>) -> String {
    match t { None => "~".into(), Some(t) => meta_str(t.get("v").and_then(toml::Value::as_integer), t.get("w").and_then(toml::Value::as_integer)) }
}
fn mk_table(v: Option<i64>, w: Option<i64>) -> toml::Table { let mut t = toml::Table::new(); if let Some(v) = v { t.insert("v".into(), v.into()); } if let Some(w) = w { t.insert("w".into(), w.into()); } t }

/// the two metadata types a layer definition can use
trait MetaKind: Sized { fn mk(s: &str) -> Self; fn show(&self) -> String; }
impl MetaKind for GenericMetadata {
    fn mk(s: &str) -> Self { if s == "~" { None } else { let (v, w) = s.split_once('_').unwrap(); Some(mk_table(opt_int(v), opt_int(w))) } }
    fn show(&self) -> String { table_vw(self) }
}
impl MetaKind for V {
    // the generator only produces values of the type (`<v>_~`)
    fn mk(s: &str) -> Self { let (v, _) = s.split_once('_').expect("versioned metadata needs v"); V { v: opt_int(v).expect("versioned metadata needs v") } }
    fn show(&self) -> String { meta_str(Some(self.v), None) }
}

const FMTS: [SbomFormat; 3] = [SbomFormat::CycloneDxJson, SbomFormat::SpdxJson, SbomFormat::SyftJson];
const FMT_SUFFIX: [&str; 3] = ["cdx.json", "spdx.json", "syft.json"];

fn parse_scope(s: &str) -> Scope { match s { "A" => Scope::All, "B" => Scope::Build, "L" => Scope::Launch, _ => Scope::Process(String::from_utf8(unhex(s.strip_prefix("P:").unwrap()).unwrap()).unwrap()) } }
fn parse_beh(s: &str) -> ModificationBehavior { match s { "a" => ModificationBehavior::Append, "d" => ModificationBehavior::Default, "m" => ModificationBehavior::Delimiter, "o" => ModificationBehavior::Override, "p" => ModificationBehavior::Prepend, _ => panic!() } }

/// a `Layer` whose answers are data and which logs every callback invocation
struct DataLayer<M> { types: LayerTypes, strategy: String, migrate: String, create: String, update: String, log: Rc<RefCell<Vec<String>>>, srcs: PathBuf, tag: String, _m: std::marker::PhantomData<M> }

impl<M: MetaKind> DataLayer<M> {
    /// `<meta>!<env>!<execd>!<sboms>!<files>`: performs the callback's file writes, returns the `LayerResult`
    fn result(&self, spec: &str, layer_path: &Path, which: &str) -> Result<LayerResult<M>, TbError> {
        if spec == "f" { return Err(TbError(which.into())); }
        let p: Vec<&str> = spec.split('!').collect();
        for f in split_list(p[4], "+") {
            let (n, h) = f.split_once('=').unwrap();
            let fp = layer_path.join(os(&unhex(n).unwrap()));
            if let Ok(md) = std::fs::symlink_metadata(&fp) { if md.is_dir() { std::fs::remove_dir_all(&fp).unwrap(); } else { std::fs::remove_file(&fp).unwrap(); } }
            // `*` a directory; `@D` / `@F` / `@x` a symlink to a directory / a file / nothing (targets outside the layers directory)
            let outside = self.srcs.parent().unwrap();
            match h { "*" => std::fs::create_dir(&fp).unwrap(),
                "@D" => std::os::unix::fs::symlink(outside.join("somedir"), &fp).unwrap(),
                "@F" => std::os::unix::fs::symlink(outside.join("somefile"), &fp).unwrap(),
                "@x" => std::os::unix::fs::symlink(outside.join("nowhere"), &fp).unwrap(),
                _ => std::fs::write(&fp, unhex(h).unwrap()).unwrap() }
        }
        let mut b = LayerResultBuilder::new(M::mk(p[0]));
        if p[1] != "~" {
            let mut le = LayerEnv::new();
            for i in split_list(p[1], ",") { let q: Vec<&str> = i.split('/').collect(); le.insert(parse_scope(q[0]), parse_beh(q[1]), os(&unhex(q[2]).unwrap()), os(&unhex(q[3]).unwrap())); }
            b = b.env(le);
        }
        for (j, x) in split_list(p[2], "+").iter().enumerate() {
            let (n, h) = x.split_once('=').unwrap();
            let src = self.srcs.join(format!("{}_{which}_{j}", self.tag));
            if h != "~" { std::fs::write(&src, unhex(h).unwrap()).unwrap(); }
            b = b.exec_d_program(String::from_utf8(unhex(n).unwrap()).unwrap(), src);
        }
        for x in split_list(p[3], "+") { let (i, h) = x.split_once('=').unwrap(); b = b.sbom(Sbom::from_bytes(FMTS[i.parse::<usize>().unwrap()].clone(), unhex(h).unwrap())); }
        Ok(b.build_unwrapped())
    }
}

impl<M: MetaKind + serde::de::DeserializeOwned + Serialize + Clone> Layer for DataLayer<M> {
    type Buildpack = TestBuildpack;
    type Metadata = M;
    fn types(&self) -> LayerTypes { self.types }
    fn create(&mut self, _c: &BuildContext<TestBuildpack>, layer_path: &Path) -> Result<LayerResult<M>, TbError> {
        let empty = layer_path.is_dir() && std::fs::read_dir(layer_path).map(|mut d| d.next().is_none()).unwrap_or(false);
        self.log.borrow_mut().push(format!("C{}", u8::from(empty)));
        self.result(&self.create, layer_path, "c")
    }
    fn existing_layer_strategy(&mut self, _c: &BuildContext<TestBuildpack>, d: &LayerData<M>) -> Result<ExistingLayerStrategy, TbError> {
        self.log.borrow_mut().push(format!("S{}", d.content_metadata.metadata.show()));
        match self.strategy.as_str() { "k" => Ok(ExistingLayerStrategy::Keep), "u" => Ok(ExistingLayerStrategy::Update), "r" => Ok(ExistingLayerStrategy::Recreate), _ => Err(TbError("strategy".into())) }
    }
    fn update(&mut self, _c: &BuildContext<TestBuildpack>, d: &LayerData<M>) -> Result<LayerResult<M>, TbError> {
        self.log.borrow_mut().push(format!("U{}", d.content_metadata.metadata.show()));
        self.result(&self.update, &d.path, "u")
    }
    fn migrate_incompatible_metadata(&mut self, _c: &BuildContext<TestBuildpack>, gm: &GenericMetadata) -> Result<MetadataMigration<M>, TbError> {
        self.log.borrow_mut().push(format!("M{}", table_vw(gm)));
        match &self.migrate[..1] { "r" => Ok(MetadataMigration::RecreateLayer), "p" => Ok(MetadataMigration::ReplaceMetadata(M::mk(&self.migrate[1..]))), _ => Err(TbError("migrate".into())) }
    }
}

fn err_kind(e: &libcnb::Error<TbError>) -> &'static str {
    // the inner error types are not all nameable from outside the crate: classify by variant name (Debug)
    let d = format!("{e:?}");
    match e {
        libcnb::Error::BuildpackError(_) => "buildpack",
        libcnb::Error::LayerError(_) => {
            if d.contains("LayerContentMetadataParseError(") { "parse" } else if d.contains("MissingExecDFile(") { "missingExecd" }
            else if d.contains("UnexpectedMissingLayer") || d.contains("MissingLayer(") { "missingLayer" }
            else if d.contains("WriteLayerMetadataError(") { "metaFile" } else { "io" }
        }
        _ => "io",
    }
}

fn dir_snap(root: &Path) -> String {
    if !root.is_dir() { return "~".into(); }
    fn walk(dir: &Path, pre: &str, out: &mut Vec<String>) {
        for e in std::fs::read_dir(dir).unwrap() {
            let e = e.unwrap();
            let name = hex(e.file_name().as_bytes());
            let p = if pre.is_empty() { name } else { format!("{pre}/{name}") };
            let ft = e.file_type().unwrap();
            if ft.is_symlink() { let t = e.path(); out.push(format!("L {p} {}", if t.is_dir() { "D" } else if t.exists() { "F" } else { "x" })); }
            else if ft.is_dir() { out.push(format!("D {p}")); walk(&e.path(), &p, out); }
            else { out.push(format!("F {p} {}", hex(&std::fs::read(e.path()).unwrap()))); }
        }
    }
    let mut out = vec![]; walk(root, "", &mut out); out.sort(); join(",", &out)
}

fn toml_state(p: &Path) -> String {
    match std::fs::read_to_string(p) {
        Err(_) => "~".into(),
        Ok(s) => match toml::from_str::<LayerContentMetadata<GenericMetadata>>(&s) {
            Err(_) => "B".into(),
            Ok(d) => format!("{}/{}", d.types.map_or("~".into(), |t| format!("{}{}{}", u8::from(t.launch), u8::from(t.build), u8::from(t.cache))), table_vw(&d.metadata)),
        },
    }
}

fn snapshot_layers(layers: &Path, names: &[Vec<u8>]) -> String {
    let mut parts = vec![];
    let mut ns = names.to_vec(); ns.sort();
    for n in ns {
        let name = String::from_utf8(n.clone()).unwrap();
        let d = dir_snap(&layers.join(&name));
        let t = toml_state(&layers.join(format!("{name}.toml")));
        let mut sb = vec![];
        for (i, suf) in FMT_SUFFIX.iter().enumerate() { if let Ok(b) = std::fs::read(layers.join(format!("{name}.sbom.{suf}"))) { sb.push(format!("{i}={}", hex(&b))); } }
        if d == "~" && t == "~" && sb.is_empty() { continue; }
        parts.push(format!("{}:{}:{}:{}", hex(&n), d, t, join("+", &sb)));
    }
    // anything else in the layers directory that is not accounted for
    let mut extra = vec![];
    let mut known: std::collections::HashSet<String> = std::collections::HashSet::new();
    for n in names { let n = String::from_utf8_lossy(n).to_string(); known.insert(format!("{n}.toml")); for s in FMT_SUFFIX { known.insert(format!("{n}.sbom.{s}")); } known.insert(n); }
    for e in std::fs::read_dir(layers).unwrap() { let f = e.unwrap().file_name().to_string_lossy().to_string();
        if !known.contains(&f) { extra.push(hex(f.as_bytes())); } }
    extra.sort();
    if !extra.is_empty() { parts.push(format!("EXTRA:{}", extra.join(","))); }
    join("&", &parts)
}

/// lifecycle restore between two builds, as fixed by the property text (same simulation as C01)
fn restore(layers: &Path, names: &[Vec<u8>]) {
    for n in names {
        let name = String::from_utf8(n.clone()).unwrap();
        let dir = layers.join(&name); let tp = layers.join(format!("{name}.toml"));
        let doc = std::fs::read_to_string(&tp).ok().and_then(|s| toml::from_str::<LayerContentMetadata<GenericMetadata>>(&s).ok());
        let rm_sboms = || for s in FMT_SUFFIX { let _ = std::fs::remove_file(layers.join(format!("{name}.sbom.{s}"))); };
        let rm_dir = || if dir.exists() { let _ = std::fs::remove_dir_all(&dir); };
        match doc {
            Some(LayerContentMetadata { types: Some(t), metadata }) if t.cache => {
                std::fs::write(&tp, toml::to_string(&LayerContentMetadata { types: None, metadata }).unwrap()).unwrap();
            }
            Some(LayerContentMetadata { types: Some(t), metadata }) if t.launch => {
                rm_dir(); rm_sboms();
                std::fs::write(&tp, toml::to_string(&LayerContentMetadata { types: None, metadata }).unwrap()).unwrap();
            }
            _ => { rm_dir(); rm_sboms(); let _ = std::fs::remove_file(&tp); }
        }
    }
}

const PROBE_NAMES: [&str; 4] = ["P", "Q.x", "PATH", "LD_LIBRARY_PATH"];

/// `apply` for every scope (two process types) × {empty env, every probe name = "0"}; the layers directory is written `$L`
fn probes(le: &LayerEnv, layers: &Path) -> String {
    let lbytes = layers.as_os_str().as_bytes();
    let canon = |v: &[u8]| -> Vec<u8> {
        let mut out = vec![]; let mut i = 0;
        while i < v.len() { if v[i..].starts_with(lbytes) { out.extend_from_slice(b"$L"); i += lbytes.len(); } else { out.push(v[i]); i += 1; } }
        out
    };
    let mut full = Env::new(); for n in PROBE_NAMES { full.insert(n, "0"); }
    let mut parts = vec![];
    for sc in [Scope::All, Scope::Build, Scope::Launch, Scope::Process("web".into()), Scope::Process("worker".into()), Scope::Process("build".into()), Scope::Process("launch".into())] {
        for start in [Env::new(), full.clone()] {
            let res = le.apply(sc.clone(), &start);
            let mut kv: Vec<(Vec<u8>, Vec<u8>)> = res.iter().map(|(k, v)| (k.as_bytes().to_vec(), canon(v.as_bytes()))).collect();
            kv.sort();
            let items: Vec<String> = kv.iter().map(|(k, v)| format!("{}={}", hex(k), hex(v))).collect();
            parts.push(join(",", &items));
        }
    }
    parts.join("|")
}

fn handle<M: MetaKind + serde::de::DeserializeOwned + Serialize + Clone>(ctx: &BuildContext<TestBuildpack>, name: LayerName, p: &[&str], log: &Rc<RefCell<Vec<String>>>, srcs: &Path, tag: String, layers: &Path) -> String {
    let t = p[2].as_bytes();
    let layer = DataLayer::<M> { types: LayerTypes { launch: t[0] == b'1', build: t[1] == b'1', cache: t[2] == b'1' }, strategy: p[4].into(), migrate: p[5].into(), create: p[6].into(), update: p[7].into(), log: log.clone(), srcs: srcs.to_path_buf(), tag, _m: std::marker::PhantomData };
    let expect_path = layers.join(name.as_str());
    match ctx.handle_layer(name.clone(), layer) {
        Ok(d) => if d.name != name || d.path != expect_path { "data-for-another-layer".into() } else { format!("data^{}^{}", d.content_metadata.metadata.show(), probes(&d.env, layers)) },
        Err(e) => format!("err:{}", err_kind(&e)),
    }
}

fn run_case(f: &[String]) -> String {
    let tmp = tempfile::tempdir().unwrap();
    let layers = tmp.path().join("layers");
    std::fs::create_dir(&layers).unwrap();
    let srcs = tmp.path().join("srcs"); std::fs::create_dir(&srcs).unwrap();
    std::fs::create_dir(tmp.path().join("somedir")).unwrap(); std::fs::write(tmp.path().join("somefile"), b"x").unwrap();
    let ctx = build_context(&layers, tmp.path());
    let names: Vec<Vec<u8>> = split_list(&f[0], ",").iter().map(|n| unhex(n).unwrap()).collect();
    let mut steps = vec![];
    for (k, op) in split_list(&f[1], ";").iter().enumerate() {
        let p: Vec<&str> = op.split('.').collect();
        let log = Rc::new(RefCell::new(Vec::<String>::new()));
        let out: String = match p[0] {
            "R" => { restore(&layers, &names); "ok".into() }
            "B" => { std::fs::write(layers.join(format!("{}.toml", String::from_utf8(unhex(p[1]).unwrap()).unwrap())), "this is = not [toml").unwrap(); "ok".into() }
            "H" if p.len() == 8 => {
                let name: LayerName = String::from_utf8(unhex(p[1]).unwrap()).unwrap().parse().unwrap();
                if p[3] == "V" { handle::<V>(&ctx, name, &p, &log, &srcs, format!("s{k}"), &layers) } else { handle::<GenericMetadata>(&ctx, name, &p, &log, &srcs, format!("s{k}"), &layers) }
            }
            _ => "badop".into(),
        };
        steps.push(format!("{}#{}#{}", out, join(",", &log.borrow()), snapshot_layers(&layers, &names)));
    }
    steps.join(";")
}

// ---------------------------------------------------------------------------------------------- generation
fn h(n: &str, ty: &str, mt: &str, st: &str, mg: &str, cr: &str, up: &str) -> String { format!("H.{n}.{ty}.{mt}.{st}.{mg}.{cr}.{up}") }

/// env with entries in all four scopes incl. two process types
const ENV_RICH: &str = "A/a/50/76,A/m/50/3a,B/p/50415448/2f78,L/d/50/6c,P:776562/o/51/77,P:776f726b6572/a/50/78,L/o/512e78/79";

fn rich(meta: &str) -> String { format!("{meta}!{ENV_RICH}!{}=2321+{}=30!0=63+2=73!{}=64+{}=*", hex(b"prog"), hex(b"p2"), hex(b"f1"), hex(b"bin")) }
fn small(meta: &str) -> String { format!("{meta}!~!-!-!-") }
fn upd(meta: &str) -> String { format!("{meta}!L/o/51/75,P:776562/p/50/7a!{}=31!1=6e!{}=65+{}=*", hex(b"p3"), hex(b"f2"), hex(b"lib")) }

/// reduced alphabet of the exhaustive part (one layer name)
fn alphabet(n: &str) -> Vec<String> {
    let mut a = vec![];
    for st in ["k", "u", "r", "f"] {
        // generic metadata: the migration callback is unreachable
        a.push(h(n, "111", "G", st, "r", &rich("~_9"), &upd("~_8")));
        for mg in ["r", "p7_~", "f"] { a.push(h(n, "101", "V", st, mg, &rich("5_~"), &upd("6_~"))); }
    }
    a.push(h(n, "111", "G", "u", "r", "f", "f"));
    a.push(h(n, "011", "V", "u", "r", "f", "f"));
    a.push(h(n, "100", "G", "k", "r", &small("~"), &small("~")));
    a.push(h(n, "010", "V", "k", "p3_~", &small("2_~"), &small("2_~")));
    a.push(h(n, "111", "G", "r", "r", &format!("~!P:776562/o/51/77!{}=~!-!-", hex(b"gone")), &small("~")));
    a.push("R".into());
    a.push(format!("B.{n}"));
    a
}

fn has_process_env(ops: &[String]) -> bool { ops.iter().any(|o| o.contains("P:")) }

fn nontrivial(ops: &[String]) -> bool {
    // a restore followed by a handle call on a name handled before it, in a history whose results carry a per-process env entry
    let mut seen: Vec<&str> = vec![]; let mut after = false;
    for o in ops { let p: Vec<&str> = o.split('.').collect();
        match p[0] { "R" => after = !seen.is_empty(), "H" => { if after && seen.contains(&p[1]) { return has_process_env(ops); } if !seen.contains(&p[1]) { seen.push(p[1]); } } _ => {} } }
    false
}

const SCOPES: [&str; 5] = ["A", "B", "L", "P:776562", "P:776f726b6572"];

/// the parts of a callback result that end up in the layer (metadata is drawn separately)
#[derive(Clone, Default)]
struct Parts { env: Option<Vec<String>>, execd: Vec<String>, sboms: Vec<String>, files: Vec<String> }

fn render(meta: &str, p: &Parts) -> String {
    format!("{meta}!{}!{}!{}!{}", p.env.as_ref().map_or("~".to_string(), |e| join(",", e)), join("+", &p.execd), join("+", &p.sboms), join("+", &p.files))
}
fn scope_of(e: &str) -> &str { e.split('/').next().unwrap() }
/// further process types (named like the phases; with dots, dashes, digits), further variable names (lower case, a name that
/// ends like a behaviour suffix, non-UTF-8, with `=`), further values (non-UTF-8, line break, blank, long)
const SCOPES_X: [&str; 4] = ["P:6275696c64", "P:6c61756e6368", "P:772d312e78", "P:31"];
const ENV_NAMES_X: [&[u8]; 6] = [b"lower", b"X.append", b"N\xff", b"A=B", b"LD_LIBRARY_PATH", b"CPATH"];
const ENV_VALS_X: [&[u8]; 5] = [b"\xff\xfe", b"a\nb", b"a b", b"::", b"/x:/y:"];
const PROG_NAMES_X: [&str; 5] = ["a.b", "with-dash", "\u{fc}", "UPPER", "0"];
const INTS: [i64; 8] = [0, 1, -1, 7, 49, i64::MAX, i64::MIN, 1 << 53];
fn content_pool() -> Vec<Vec<u8>> { vec![vec![], b"x".to_vec(), b"{\"k\":1}".to_vec(), vec![0xff, 0x00, 0xfe], vec![b'z'; 300], b"line\nline\n".to_vec()] }
fn rnd_content(r: &mut Rng, base: u8) -> String { if r.chance(1, 6) { hex(r.pick::<Vec<u8>>(&content_pool())) } else { hex(&[base + r.below(20) as u8]) } }

fn rnd_entry(r: &mut Rng) -> String {
    let sc = if r.chance(1, 8) { *r.pick(&SCOPES_X) } else { *r.pick(&SCOPES) };
    let name: &[u8] = if r.chance(1, 6) { *r.pick::<&[u8]>(&ENV_NAMES_X) } else { r.pick(&["P", "Q.x", "PATH"]).as_bytes() };
    let val: &[u8] = if r.chance(1, 6) { *r.pick::<&[u8]>(&ENV_VALS_X) } else { r.pick(&["", "v", "/x", ":"]).as_bytes() };
    format!("{sc}/{}/{}/{}", r.pick(&["a", "d", "m", "o", "p"]), hex(name), hex(val))
}
fn rnd_prog(r: &mut Rng) -> String { let n = if r.chance(1, 5) { r.pick(&PROG_NAMES_X).to_string() } else { format!("p{}", r.below(3)) }; format!("{}={}", hex(n.as_bytes()), if r.chance(1, 6) { hex(r.pick::<Vec<u8>>(&content_pool())) } else { hex(&[b'0' + r.below(9) as u8]) }) }
fn rnd_file(r: &mut Rng) -> String {
    let n = *r.pick(&["f1", "f2", "bin", "lib", "data", "include", "pkgconfig", ".hidden", "with space"]);
    if matches!(n, "bin" | "lib" | "include" | "pkgconfig") && r.chance(3, 4) { format!("{}={}", hex(n.as_bytes()), if r.chance(1, 3) { *r.pick(&["@D", "@D", "@F", "@x"]) } else { "*" }) }
    else if n == "data" && r.chance(1, 4) { format!("{}={}", hex(n.as_bytes()), r.pick(&["@D", "@F", "@x", "*"])) }
    else { format!("{}={}", hex(n.as_bytes()), rnd_content(r, b'A')) }
}
fn key_of(x: &str) -> &str { x.split('=').next().unwrap() }
/// keep at most one element per key (exec.d names and SBOM formats are map keys / one file each)
fn uniq(v: Vec<String>) -> Vec<String> { let mut out: Vec<String> = vec![]; for x in v { if let Some(i) = out.iter().position(|y| key_of(y) == key_of(&x)) { out[i] = x; } else { out.push(x); } } out }

fn fresh_parts(r: &mut Rng) -> Parts {
    let env = match r.below(6) { 0 => None, 1 | 2 => Some(ENV_RICH.split(',').map(str::to_string).collect()), _ => { let k = if r.chance(1, 12) { 8 + r.below(30) } else { r.below(7) }; Some((0..k).map(|_| rnd_entry(r)).collect()) } };
    let execd = if r.chance(2, 5) { vec![] } else { let hi = if r.chance(1, 6) { 5 } else { 2 }; let k = 1 + r.below(hi); uniq((0..k).map(|_| rnd_prog(r)).collect()) };
    let mut sboms = vec![]; for i in 0..3 { if r.chance(1, 3) { sboms.push(format!("{i}={}", rnd_content(r, b'a'))); } }
    let k = r.below(3); let files = (0..k).map(|_| rnd_file(r)).collect();
    Parts { env, execd, sboms, files }
}

/// one small edit of a set given as a list: identical / drop one / change one / add one
fn edit_set(r: &mut Rng, v: &[String], mk: &mut dyn FnMut(&mut Rng) -> String, dedup: bool) -> Vec<String> {
    let mut v = v.to_vec();
    match r.below(6) {
        0 | 1 | 2 => {}
        3 => if !v.is_empty() { let i = r.below(v.len() as u64) as usize; v.remove(i); },
        4 => if !v.is_empty() { let i = r.below(v.len() as u64) as usize; let k = key_of(&v[i]).to_string(); let n = mk(r); v[i] = format!("{k}={}", n.split_once('=').unwrap().1); },
        _ => { let n = mk(r); v.push(n); }
    }
    if dedup { uniq(v) } else { v }
}

/// a result derived from the previous one of the same layer: some scopes / sets stay byte-identical, others shrink,
/// vanish, change or grow
fn derive(r: &mut Rng, p: &Parts) -> Parts {
    let env = match &p.env {
        None => if r.chance(1, 2) { None } else { fresh_parts(r).env },
        Some(e) => {
            let mut e = e.clone();
            match r.below(10) {
                0 | 1 => {}
                2..=5 => { // drop a whole scope, a process scope twice as likely
                    let mut present: Vec<String> = vec![]; for x in e.iter() { let sc = scope_of(x).to_string(); if !present.contains(&sc) { if sc.starts_with("P:") { present.push(sc.clone()); } present.push(sc); } }
                    if !present.is_empty() { let sc = r.pick(&present).to_string(); e.retain(|x| scope_of(x) != sc); }
                }
                6 => if !e.is_empty() { let i = r.below(e.len() as u64) as usize; e.remove(i); },
                7 => if !e.is_empty() { let i = r.below(e.len() as u64) as usize; let q: Vec<&str> = e[i].split('/').collect(); e[i] = format!("{}/{}/{}/{}", q[0], q[1], q[2], hex(r.pick(&["", "w", "/y"]).as_bytes())); },
                8 => { let n = rnd_entry(r); e.push(n); }
                _ => return Parts { env: None, ..derive_sets(r, p) },
            }
            Some(e)
        }
    };
    Parts { env, ..derive_sets(r, p) }
}
fn derive_sets(r: &mut Rng, p: &Parts) -> Parts {
    Parts { env: None, execd: edit_set(r, &p.execd, &mut rnd_prog, true), sboms: edit_set(r, &p.sboms, &mut |r| format!("{}={}", r.below(3), rnd_content(r, b'a')), true), files: edit_set(r, &p.files, &mut rnd_file, false) }
}

fn rnd_meta(r: &mut Rng, mt: &str, xkeys: &mut bool) -> String {
    if r.chance(1, 10) { let i = *r.pick(&INTS); return if mt == "V" { format!("{i}_~") } else if r.chance(1, 2) { format!("~_{i}") } else { format!("{i}_~") }; }
    if mt == "V" { format!("{}_~", r.below(50)) } else { match r.below(20) { 0 => { *xkeys = true; format!("{}_{}", r.below(50), r.below(50)) } 1..=5 => "~".into(), 6..=9 => format!("~_{}", r.below(50)), 10..=12 => "~_~".into(), _ => format!("{}_~", r.below(50)) } }
}

/// a callback answer: fails, or a result that is fresh (1/4) or derived from `base`; returns the parts when they are usable as a next base
fn rnd_result(r: &mut Rng, mt: &str, xkeys: &mut bool, base: Option<&Parts>) -> (String, Option<Parts>) {
    if r.chance(1, 9) { return ("f".into(), None); }
    let meta = rnd_meta(r, mt, xkeys);
    let parts = match base { Some(b) if !r.chance(1, 4) => derive(r, b), _ => fresh_parts(r) };
    if r.chance(1, 12) { let gone = Parts { execd: vec![format!("{}=~", hex(b"gone"))], ..parts.clone() }; return (render(&meta, &gone), None); }
    (render(&meta, &parts), Some(parts))
}

fn generate(tier: &str, seed: u64, emit: &mut dyn FnMut(Case)) {
    let mk = |names: &[&str], ops: Vec<String>, kind: &str, xkeys: bool| -> Case {
        let nt = nontrivial(&ops);
        let nh = ops.iter().filter(|o| o.starts_with('H')).count();
        Case { fields: vec![names.join(","), join(";", &ops)], tags: vec![("kind".into(), kind.into()), ("len".into(), ops.len().min(10).to_string()), ("restores".into(), ops.iter().filter(|o| *o == "R").count().min(4).to_string()), ("handles".into(), nh.min(9).to_string()), ("procenv".into(), u8::from(has_process_env(&ops)).to_string()), ("xkeys".into(), u8::from(xkeys).to_string()), ("dotted".into(), u8::from(names.len() > 1 && names.iter().all(|n| n.starts_with(names[0]))).to_string())], nontrivial: nt }
    };
    let a = hex(b"a"); let b = hex(b"bee"); let c = hex(b"c-3");
    // layer names sharing a dotted prefix: `<name>.toml` / `<name>.sbom.<fmt>.json` of one must not be taken for another's
    let at = hex(b"a.tools"); let asb = hex(b"a.sbom");
    // 1. exhaustive: all histories of length <= 2 over one name and the reduced alphabet
    let alpha = alphabet(&a);
    for x in &alpha { emit(mk(&[&a], vec![x.clone()], "exh1", false)); }
    for x in &alpha { for y in &alpha { emit(mk(&[&a], vec![x.clone(), y.clone()], "exh2", false)); } }
    // 2. directed: create (rich result), restore, then every second operation of the alphabet, restore, keep
    for ty in ["111", "101", "011", "100", "010"] { for second in alpha.iter().filter(|o| o.starts_with('H')) {
        let ops = vec![h(&a, ty, "G", "k", "r", &rich("4_~"), &small("~")), "R".into(), second.clone(), "R".into(), h(&a, "111", "G", "k", "r", &small("~"), &small("~"))];
        emit(mk(&[&a], ops, "directed", false));
    } }
    // 3. exhaustive family "scopes": an env populating all five scope directories, then update (and create-after-recreate)
    //    returning exactly the entries of every subset of the scopes (identical entries), everything else identical
    let full = Parts { env: Some(ENV_RICH.split(',').map(str::to_string).collect()), execd: vec![format!("{}=2321", hex(b"prog")), format!("{}=30", hex(b"p2"))], sboms: vec!["0=63".into(), "2=73".into()], files: vec![format!("{}=64", hex(b"f1")), format!("{}=*", hex(b"bin"))] };
    let first = h(&a, "111", "G", "u", "r", &render("~_9", &full), &small("~"));
    for mask in 0..32u32 {
        let kept: Vec<String> = full.env.as_ref().unwrap().iter().filter(|e| { let i = SCOPES.iter().position(|s| *s == scope_of(e)).unwrap(); mask >> i & 1 == 1 }).cloned().collect();
        let res = render("~_9", &Parts { env: Some(kept), ..full.clone() });
        for st in ["u", "r"] { for with_restore in [false, true] {
            let mut ops = vec![first.clone()]; if with_restore { ops.push("R".into()); }
            ops.push(h(&a, "111", "G", st, "r", &res, &res));
            emit(mk(&[&a, &at], ops, "scopes", false));
        } }
    }
    // 4. exhaustive family "sets": identical env, every subset of the exec.d programs x SBOMs, with/without the files
    for xm in 0..4u32 { for sm in 0..4u32 { for keep_files in [true, false] {
        let sub = |v: &Vec<String>, m: u32| -> Vec<String> { v.iter().enumerate().filter(|(i, _)| m >> i & 1 == 1).map(|(_, x)| x.clone()).collect() };
        let res = render("~_9", &Parts { env: full.env.clone(), execd: sub(&full.execd, xm), sboms: sub(&full.sboms, sm), files: if keep_files { full.files.clone() } else { vec![] } });
        emit(mk(&[&a, &at], vec![first.clone(), h(&a, "111", "G", "u", "r", &res, &res)], "sets", false));
    } } }
    // 5. directed family "dotted": three layers whose names are correlated (dotted prefix, another layer's file stem, case, one
    //    edit, unusual characters, long), each populated, restored, then kept / updated / recreated one at a time in every order
    let pools = name_pools();
    for (pname, pool) in &pools {
        let hn: Vec<String> = pool.iter().map(|n| hex(n.as_bytes())).collect();
        let (a, at, asb) = (&hn[0], &hn[1], &hn[2]);
        for (s1, s2, s3) in [("k", "u", "r"), ("k", "r", "u"), ("u", "k", "r"), ("u", "r", "k"), ("r", "k", "u"), ("r", "u", "k")] { for ty in ["111", "101"] {
            if *pname != "dotted" && ty == "101" && s1 != "r" { continue; }
            let ops = vec![h(a, ty, "G", "k", "r", &rich("1_~"), &upd("2_~")), h(at, ty, "V", "k", "r", &rich("3_~"), &upd("4_~")), h(asb, ty, "G", "k", "r", &rich("~_5"), &upd("~_6")), "R".into(),
                h(at, ty, "V", s1, "r", &upd("7_~"), &upd("8_~")), h(asb, ty, "G", s2, "r", &small("~"), &upd("~_9")), h(a, ty, "G", s3, "r", &small("1_~"), &small("~")), "R".into(),
                h(asb, "111", "G", "k", "r", &small("~"), &small("~"))];
            let mut c = mk(&[a, at, asb], ops, "dotted", false); c.tags.push(("names".into(), pname.to_string())); emit(c);
        } }
    }
    // 5b. directed "empties": nothing vs. the empty value for every part of a result (no metadata / empty table, no env / empty
    //     env, no exec.d programs, no SBOMs, no files) after a rich result, by update and by recreate, then restore and keep
    for m in ["~", "~_~"] { for e in ["~", "-"] { for x in [true, false] { for sb in [true, false] { for st in ["u", "r"] {
        let res = render(m, &Parts { env: if e == "~" { None } else { Some(vec![]) }, execd: if x { vec![] } else { full.execd.clone() }, sboms: if sb { vec![] } else { full.sboms.clone() }, files: vec![] });
        let ops = vec![first.clone(), h(&a, "111", "G", st, "r", &res, &res), "R".into(), h(&a, "111", "G", "k", "r", &small("~"), &small("~")), h(&a, "110", "G", "u", "r", &small("~"), &render("~_9", &full))];
        emit(mk(&[&a, &at], ops, "empties", false));
    } } } } }
    // 5c. directed "chain": keep / update chains over 3..6 (thorough ..9) restores, the types and the strategy changing along the
    //     chain (cache stays on, so the layer survives), ending in recreate, restore, keep
    let max_chain = if tier == "thorough" { 9 } else { 6 };
    for len in 3..=max_chain { for variant in 0..4usize { for mt in ["G", "V"] {
        let meta = |i: usize| if mt == "V" { format!("{}_~", INTS[i % 8]) } else { format!("~_{}", INTS[i % 8]) };
        let mut ops = vec![h(&a, "111", mt, "k", "r", &rich(&meta(0)), &upd(&meta(1)))];
        for i in 0..len {
            ops.push("R".into());
            let ty = ["111", "011", "101", "001"][(i + variant) % 4];
            let st = ["k", "k", "u", "k"][(i + variant) % 4];
            ops.push(h(&a, ty, mt, st, "r", &small(&meta(i)), &upd(&meta(i + 2))));
        }
        ops.push("R".into()); ops.push(h(&a, "111", mt, "r", "r", &rich(&meta(5)), &small(&meta(0)))); ops.push("R".into()); ops.push(h(&a, "111", mt, "k", "r", &small(&meta(0)), &small(&meta(0))));
        let mut c = mk(&[&a, &asb], ops, "chain", false); c.tags.push(("chain".into(), len.to_string())); emit(c);
    } } }
    // 5d. directed "retry": a populated, restored layer; a call that fails (strategy / update / create after recreate / migrate
    //     callback fails, an exec.d source is missing, the metadata file is not a document; metadata unparsable as the layer's
    //     type x ReplaceMetadata x {strategy fails, update fails} with and without a restore before it), the same call again,
    //     then the call with every strategy x migration (recreate / replace); restore; keep
    let gone = format!("5_~!~!{}=~!-!-", hex(b"gone"));
    let failing: Vec<(&str, Vec<String>)> = vec![
        ("strategy", vec![h(&a, "111", "V", "f", "r", &rich("5_~"), &upd("6_~"))]),
        ("update", vec![h(&a, "111", "V", "u", "r", &rich("5_~"), "f")]),
        ("create", vec![h(&a, "111", "V", "r", "r", "f", &upd("6_~"))]),
        ("execd", vec![h(&a, "111", "V", "u", "r", &rich("5_~"), &gone)]),
        ("migrate", vec![h(&a, "111", "G", "u", "r", &small("~"), &upd("~_7")), "R".into(), h(&a, "111", "V", "k", "f", &rich("5_~"), &upd("6_~"))]),
        ("broken", vec![format!("B.{a}"), h(&a, "111", "V", "k", "r", &rich("5_~"), &upd("6_~"))]),
        // the migration callback asks for a replacement, a callback consulted after it fails: the replacement must be on disk
        // after the failed call, and the next call must not migrate again
        ("replace-strategy", vec![h(&a, "111", "G", "u", "r", &small("~"), &upd("~_7")), "R".into(), h(&a, "111", "V", "f", "p8_~", &rich("5_~"), &upd("6_~"))]),
        ("replace-update", vec![h(&a, "111", "G", "u", "r", &small("~"), &upd("~_7")), "R".into(), h(&a, "111", "V", "u", "p8_~", &rich("5_~"), "f")]),
        ("replace-strategy-typed", vec![h(&a, "110", "G", "u", "r", &small("~"), &upd("~_7")), h(&a, "111", "V", "f", "p8_~", &rich("5_~"), &upd("6_~"))]),
        ("replace-update-typed", vec![h(&a, "110", "G", "u", "r", &small("~"), &upd("~_7")), h(&a, "111", "V", "u", "p8_~", &rich("5_~"), "f")]),
    ];
    for (fname, fops) in &failing { for st in ["k", "u", "r"] { for mg in ["r", "p3_~"] {
        let mut ops = vec![h(&a, "111", "V", "k", "r", &rich("4_~"), &upd("2_~")), "R".into()];
        ops.extend(fops.iter().cloned()); ops.push(fops.last().unwrap().clone());
        ops.push(h(&a, "111", "V", st, mg, &rich("5_~"), &upd("6_~"))); ops.push("R".into()); ops.push(h(&a, "101", "V", "k", mg, &small("9_~"), &small("9_~")));
        let mut c = mk(&[&a, &at], ops, "retry", false); c.tags.push(("failing".into(), fname.to_string())); emit(c);
    } } }
    // 5e. directed "procs": per-process env for process types named like the phases or with dots / dashes / digits next to web
    //     and worker; update keeps every subset of three of them (identical entries); restore; keep
    let procs = ["P:776562", "P:6275696c64", "P:6c61756e6368", "P:772d312e78", "P:31"];
    let penv: Vec<String> = procs.iter().enumerate().flat_map(|(i, pr)| vec![format!("{pr}/o/50415448/{}", hex(format!("/p{i}").as_bytes())), format!("{pr}/a/51/{}", hex(format!("q{i}").as_bytes()))]).chain(["L/p/50415448/2f6c".to_string(), "B/a/50415448/2f62".to_string()]).collect();
    for mask in 0..32u32 { for st in ["u", "r"] {
        let kept: Vec<String> = penv.iter().filter(|e| match procs.iter().position(|p| *p == scope_of(e)) { Some(i) => mask >> i & 1 == 1, None => true }).cloned().collect();
        let r0 = render("~_9", &Parts { env: Some(penv.clone()), execd: vec![], sboms: vec![], files: vec![format!("{}=*", hex(b"bin"))] });
        let r1 = render("~_9", &Parts { env: Some(kept), execd: vec![], sboms: vec![], files: vec![] });
        let ops = vec![h(&a, "111", "G", "k", "r", &r0, &r0), h(&a, "111", "G", st, "r", &r1, &r1), "R".into(), h(&a, "111", "G", "k", "r", &r0, &r0)];
        emit(mk(&[&a], ops, "procs", false));
    } }
    // 5f. directed "links": bin / lib / include / pkgconfig as directories or symlinks (to a directory, a file, nothing) left by the
    //     callback: the returned layer data must carry the implicit layer paths exactly as a reader of the directory finds them
    let lk = ["*", "@D", "@F", "@x", "2a"];
    for (i, kb) in lk.iter().enumerate() { for (j, kl) in lk.iter().enumerate() { for st in ["k", "u", "r"] {
        let files = vec![format!("{}={kb}", hex(b"bin")), format!("{}={kl}", hex(b"lib")), format!("{}={}", hex(b"include"), lk[(i + j) % 5]), format!("{}={}", hex(b"pkgconfig"), lk[(i + 2 * j + 1) % 5])];
        let r0 = render("~_9", &Parts { env: Some(vec!["B/a/50415448/2f62".into(), "L/o/4c445f4c4942524152595f50415448/2f6c".into()]), execd: vec![], sboms: vec![], files });
        let r1 = render("~_9", &Parts { env: Some(vec!["A/p/50415448/2f61".into()]), execd: vec![], sboms: vec![], files: vec![format!("{}={}", hex(b"bin"), lk[(i + 1) % 5])] });
        let ops = vec![h(&a, "111", "G", "k", "r", &r0, &r0), "R".into(), h(&a, "111", "G", st, "r", &r1, &r1), "R".into(), h(&a, "111", "G", "k", "r", &r0, &r0)];
        emit(mk(&[&a, &at], ops, "links", false));
    } } }
    // 5g. directed "big": container sizes on both sides of 16/20/32/64/128 - env entries (all scopes, many process types), exec.d
    //     programs, SBOM bytes, files, layers - created, restored, kept, updated to one element less, restored, recreated
    let sizes: Vec<usize> = if tier == "thorough" { vec![15, 16, 17, 18, 19, 20, 21, 22, 31, 32, 33, 34, 63, 64, 65, 66, 127, 128, 129, 130] } else { vec![17, 21, 33, 65, 129] };
    for &n in &sizes {
        // `k` entries in ONE env directory (`env` / `env.launch`) or, for `procs`, one entry in each of `k` process directories;
        // plus one entry in every other scope
        let benv = |k: usize, main: &str| -> Vec<String> { let mut e: Vec<String> = (0..k).map(|i| { let sc = if main == "procs" { format!("P:{}", hex(format!("proc{i:03}").as_bytes())) } else { main.to_string() };
            format!("{sc}/{}/{}/{}", ["a", "d", "m", "o", "p"][i % 5], hex(format!("V{:03}", i / 5).as_bytes()), hex(format!("v{i}").as_bytes())) }).collect();
            for sc in ["A", "B", "L", "P:776562"] { if sc != main { e.push(format!("{sc}/a/{}/{}", hex(b"V000"), hex(b"other"))); } } e };
        let bprogs = |k: usize| -> Vec<String> { (0..k).map(|i| format!("{}={}", hex(format!("prog{i:03}").as_bytes()), hex(format!("#!{i}").as_bytes()))).collect() };
        let bfiles = |k: usize| -> Vec<String> { (0..k).map(|i| format!("{}={}", hex(format!("f{i:03}").as_bytes()), if i % 9 == 8 { "*".to_string() } else { hex(format!("{i}").as_bytes()) })).collect() };
        let bsboms = |k: usize| -> Vec<String> { (0..3).map(|i| format!("{i}={}", hex(&vec![b'a' + i as u8; k]))).collect() };
        for (what, p0, p1) in [
            ("env-all", Parts { env: Some(benv(n, "A")), ..Default::default() }, Parts { env: Some(benv(n - 1, "A")), ..Default::default() }),
            ("env-launch", Parts { env: Some(benv(n, "L")), ..Default::default() }, Parts { env: Some(benv(n - 1, "L")), ..Default::default() }),
            ("env-procs", Parts { env: Some(benv(n, "procs")), ..Default::default() }, Parts { env: Some(benv(n - 1, "procs")), ..Default::default() }),
            ("execd", Parts { execd: bprogs(n), ..Default::default() }, Parts { execd: bprogs(n - 1), ..Default::default() }),
            ("files", Parts { files: bfiles(n), ..Default::default() }, Parts { files: vec![format!("{}=", hex(b"f000"))], ..Default::default() }),
            ("all", Parts { env: Some(benv(n, "B")), execd: bprogs(n), sboms: bsboms(n), files: bfiles(n) }, Parts { env: Some(benv(n + 1, "B")), execd: bprogs(n + 1), sboms: bsboms(n + 1), files: vec![] }),
        ] {
            if what == "all" && n > 66 && tier != "thorough" { continue; }
            let (r0, r1) = (render("~_9", &p0), render("~_8", &p1));
            let ops = vec![h(&a, "111", "G", "k", "r", &r0, &r1), "R".into(), h(&a, "111", "G", "k", "r", &r0, &r1), h(&a, "111", "G", "u", "r", &r0, &r1), "R".into(), h(&a, "101", "G", "r", "r", &r1, &r0)];
            let mut c = mk(&[&a, &at], ops, "big", false); c.tags.push(("big".into(), what.into())); c.tags.push(("size".into(), n.to_string())); emit(c);
        }
        if n <= 66 || tier == "thorough" {
            let names: Vec<String> = (0..n).map(|i| hex(format!("l{i:03}").as_bytes())).collect();
            let mut ops: Vec<String> = names.iter().enumerate().map(|(i, l)| h(l, ["111", "101", "011", "110", "001"][i % 5], "G", "k", "r", &if i % 4 == 0 { rich("~_9") } else { small(&format!("~_{i}")) }, &small("~"))).collect();
            ops.push("R".into());
            ops.push(h(&names[n / 2], "111", "G", "r", "r", &small("~_1"), &small("~"))); ops.push(h(&names[0], "111", "G", "u", "r", &small("~"), &upd("~_2"))); ops.push(h(&names[n - 1], "111", "G", "k", "r", &small("~"), &small("~")));
            ops.push(format!("B.{}", names[1])); ops.push(h(&names[1], "111", "G", "k", "r", &small("~"), &small("~")));
            let nr: Vec<&str> = names.iter().map(String::as_str).collect();
            let mut c = mk(&nr, ops, "big", false); c.tags.push(("big".into(), "layers".into())); c.tags.push(("size".into(), n.to_string())); emit(c);
        }
    }
    // 6. sampled histories over two or three names; the results of successive calls on a layer are correlated
    let samples = if tier == "thorough" { 30_000 } else { 2_000 };
    for idx in 0..samples {
        let mut r = Rng::for_case(seed, idx);
        let pool_names: Vec<String>;
        let names: Vec<&str> = match r.below(6) { 0 | 1 => vec![a.as_str(), at.as_str(), asb.as_str()], 2 => vec![a.as_str(), b.as_str()], 3 => vec![a.as_str(), b.as_str(), c.as_str()],
            _ => { pool_names = r.pick(&pools).1.iter().map(|n| hex(n.as_bytes())).collect(); pool_names.iter().map(String::as_str).collect() } };
        let len = 1 + r.below(10);
        let mut ops: Vec<String> = vec![]; let mut xkeys = false;
        let mut base: std::collections::HashMap<&str, Parts> = std::collections::HashMap::new();
        for _ in 0..len {
            if r.chance(1, 5) { ops.push("R".into()); continue; }
            let n = if r.chance(2, 3) { names[0] } else { *r.pick(&names) };
            if r.chance(1, 40) { ops.push(format!("B.{n}")); continue; }
            let mt = if r.chance(1, 2) { "G" } else { "V" };
            let ty = format!("{}{}{}", r.below(2), r.below(2), if r.chance(3, 4) { 1 } else { 0 });
            let st = *r.pick(&["k", "k", "u", "u", "u", "r", "r", "f"]);
            let mg = match r.below(7) { 0 | 1 => "r".to_string(), 2..=5 => format!("p{}_~", r.below(50)), _ => "f".into() };
            let (cr, crp) = rnd_result(&mut r, mt, &mut xkeys, base.get(n));
            let (up, upp) = rnd_result(&mut r, mt, &mut xkeys, base.get(n));
            // what is most likely on disk afterwards: the create result for a new or recreated layer, the update result on update
            let next = if !base.contains_key(n) || st == "r" { crp } else if st == "u" { upp } else { None };
            if let Some(p) = next { base.insert(n, p); }
            ops.push(h(n, &ty, mt, st, &mg, &cr, &up));
        }
        emit(mk(&names, ops, "rnd", xkeys));
    }
}

/// layer-name universes (same as C01's): names that share a dotted prefix / look like another layer's files / differ by case or
/// one character / carry unusual characters / are long. (A layer named `<other>.toml` or `<other>.sbom.<fmt>.json` would *be* the
/// other layer's file: such pairs cannot both satisfy the property and are left out.)
fn name_pools() -> Vec<(&'static str, Vec<String>)> {
    let long = "n".repeat(200);
    let long2 = format!("{}.x", "n".repeat(198));
    vec![
        ("dotted", vec!["a".into(), "a.tools".into(), "a.sbom".into()]),
        ("deep", vec!["a".into(), "a.b".into(), "a.b.c".into()]),
        ("filelike", vec!["a".into(), "a.sbom.cdx".into(), "a.toml.x".into()]),
        ("filelike2", vec!["a.sbom".into(), "a.sbom.spdx".into(), "a.sbom.cdx.json.x".into()]),
        ("case", vec!["a".into(), "A".into(), "a.A".into()]),
        ("edit", vec!["a".into(), "ab".into(), "a-b".into()]),
        ("chars", vec!["Abc 123.-_!".into(), "123".into(), "\u{fc}-\u{5c42}".into()]),
        ("hidden", vec![".hidden".into(), "..x".into(), "x.".into()]),
        ("phase", vec!["build-foo".into(), "launch.x".into(), "store.build".into()]),
        ("long", vec![long, long2, "n".into()]),
    ]
}

fn main() { main_loop_jobs("c02", 12, &generate, &run_case); }
