//! Runs one libcnb-test scenario (C16/C17) with the real `TestRunner`: `trun <bcfgs> <ccfgs> <tree>` (formats in
//! `src/lct/mod.rs`). The environment (PATH with the stand-ins, TMPDIR, CARGO_MANIFEST_DIR, LCT_ABS_BASE) is set by the caller.
//! A `panic` act panics; the process exit status tells the caller how the scenario ended.
#[path = "../lct/mod.rs"]
mod lct;
use lct::*;
use libcnb_test::{BuildConfig, BuildpackReference, ContainerConfig, ContainerContext, PackResult, TestContext, TestRunner};
use std::path::PathBuf;

fn build_config(c: &BCfg) -> BuildConfig {
    let app: PathBuf = match &c.app {
        AppDir::Rel(s) => PathBuf::from(s),
        AppDir::Abs(s) => PathBuf::from(format!("{}{}", std::env::var("LCT_ABS_BASE").unwrap(), s)),
        AppDir::Missing => PathBuf::from("missing-dir"),
    };
    // absolute app dirs go through the `app_dir` setter, env lists of two or more through `envs`
    let mut cfg = if matches!(c.app, AppDir::Abs(_)) { let mut cfg = BuildConfig::new(c.builder.clone(), "replaced-by-app_dir-setter"); cfg.app_dir(app); cfg } else { BuildConfig::new(c.builder.clone(), app) };
    cfg.buildpacks(c.bps.iter().map(|b| BuildpackReference::Other(b.clone())).collect::<Vec<_>>());
    if c.env.len() >= 2 { cfg.envs(c.env.clone()); } else { for (k, v) in &c.env { cfg.env(k, v); } }
    cfg.expected_pack_result(if c.expect_success { PackResult::Success } else { PackResult::Failure });
    cfg.target_triple(match c.triple { 'x' => "x86_64-unknown-linux-musl", 'a' => "aarch64-unknown-linux-musl", _ => "riscv64gc-unknown-linux-gnu" });
    if let Some(edits) = c.pre.clone() {
        cfg.app_dir_preprocessor(move |dir: PathBuf| {
            for e in &edits {
                match e {
                    Edit::Write(p, b) => { let f = dir.join(p); std::fs::create_dir_all(f.parent().unwrap()).unwrap(); std::fs::write(f, b).unwrap(); }
                    Edit::Delete(p) => { let _ = std::fs::remove_file(dir.join(p)); }
                    Edit::Append(p, b) => {
                        use std::io::Write;
                        let f = dir.join(p); std::fs::create_dir_all(f.parent().unwrap()).unwrap();
                        std::fs::OpenOptions::new().append(true).create(true).open(f).unwrap().write_all(b).unwrap();
                    }
                    Edit::Rename(a, b) => { let t = dir.join(b); std::fs::create_dir_all(t.parent().unwrap()).unwrap(); std::fs::rename(dir.join(a), t).unwrap(); }
                    Edit::Remove(p) => std::fs::remove_file(dir.join(p)).unwrap(),
                }
            }
        });
    }
    cfg
}

fn container_config(c: &CCfg) -> ContainerConfig {
    let mut cfg = ContainerConfig::new();
    if let Some(e) = &c.entrypoint { cfg.entrypoint(e); }
    if let Some(w) = &c.command { cfg.command(w.clone()); }
    if c.env.len() >= 2 { cfg.envs(c.env.clone()); } else { for (k, v) in &c.env { cfg.env(k, v); } }
    for p in &c.ports { cfg.expose_port(*p); }
    for (s, t) in &c.mounts { cfg.bind_mount(mount_source(s), t); }
    cfg
}

fn run_cacts(container: &ContainerContext, cacts: &[CAct]) {
    for a in cacts {
        match a {
            CAct::LogsNow => { let _ = container.logs_now(); }
            CAct::LogsWait => { let _ = container.logs_wait(); }
            CAct::Port(p) => { let _ = container.address_for_port(*p); }
            CAct::Exec(c) => { let _ = container.shell_exec(c); }
            CAct::Panic => panic!("injected panic in container closure"),
        }
    }
}

/// (C17) inactive unless TRUN_CTX_LOG names a file: one line `h<pack_stdout hex> h<pack_stderr hex>` per closure entered
fn record_ctx(context: &TestContext) {
    if let Some(p) = std::env::var_os("TRUN_CTX_LOG") {
        use std::io::Write;
        std::fs::OpenOptions::new().append(true).create(true).open(p).unwrap()
            .write_all(format!("h{} h{}\n", hex(context.pack_stdout.as_bytes()), hex(context.pack_stderr.as_bytes())).as_bytes()).unwrap();
    }
}

fn run_acts(context: TestContext, acts: &[Act], bcfgs: &[BCfg], ccfgs: &[CCfg]) {
    record_ctx(&context);
    for a in acts {
        match a {
            Act::Start(i, cacts) => context.start_container(container_config(&ccfgs[*i]), |container| run_cacts(&container, cacts)),
            Act::Shell(c) => { let _ = context.run_shell_command(c.clone()); }
            Act::Sbom => context.download_sbom_files(|_files| ()),
            Act::Panic => panic!("injected panic in test closure"),
            Act::Rebuild(i, inner) => { context.rebuild(build_config(&bcfgs[*i]), |ctx| run_acts(ctx, inner, bcfgs, ccfgs)); return; }
            Act::RebuildCtx(i, inner) => {
                // the pattern of the `rebuild` docs: start from the context's own config, change it after the clone
                let mut cfg = context.config.clone();
                for (k, v) in &bcfgs[*i].env { cfg.env(k, v); }
                cfg.expected_pack_result(if bcfgs[*i].expect_success { PackResult::Success } else { PackResult::Failure });
                context.rebuild(cfg, |ctx| run_acts(ctx, inner, bcfgs, ccfgs));
                return;
            }
        }
    }
}

fn main() {
    // (C17) inactive unless TRUN_PANIC_LOG names a file: the message of every panic is appended as `h<hex>`
    if let Some(p) = std::env::var_os("TRUN_PANIC_LOG") {
        let prev = std::panic::take_hook();
        std::panic::set_hook(Box::new(move |info| {
            use std::io::Write;
            let msg = info.payload().downcast_ref::<String>().cloned().or_else(|| info.payload().downcast_ref::<&str>().map(|s| (*s).to_string())).unwrap_or_default();
            if let Ok(mut f) = std::fs::OpenOptions::new().append(true).create(true).open(&p) { let _ = f.write_all(format!("h{}\n", hex(msg.as_bytes())).as_bytes()); }
            prev(info);
        }));
    }
    let args: Vec<String> = std::env::args().collect();
    if args.len() != 4 { eprintln!("usage: trun <bcfgs> <ccfgs> <tree>"); std::process::exit(2); }
    let (Some(bcfgs), Some(ccfgs), Some(tree)) = (parse_cfg_list(&args[1], parse_bcfg), parse_cfg_list(&args[2], parse_ccfg), parse_tree(&args[3])) else { eprintln!("trun: unparsable scenario"); std::process::exit(2) };
    TestRunner::default().build(build_config(&bcfgs[tree.cfg]), |ctx| run_acts(ctx, &tree.acts, &bcfgs, &ccfgs));
}
