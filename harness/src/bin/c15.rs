//! C15 correspondence: the real `cargo-libcnb` executable (built from /repo's working tree on every run) on generated
//! workspaces of trivial crates; stdout / exit status and the tree below the package directory are observed.
//!
//! fields (see lean/CnbVerif/Driver/C15.lean): bps | inv | cfg | prev | ops
//! observation: `ok;<stdout lines sorted>;<tree before>;<tree after>[;src-changed:<hex path>]` | `err:<kind>;<stdout lines>` | `timeout` | `tool-build-failed`
//!
//! The package directory may be any directory: outside the workspace, a fresh one inside it, or one that holds buildpack
//! sources (the workspace root, `bps`, a buildpack's own directory …). The observed tree is what lies below the package
//! directory *minus* the workspace sources as they were materialised and minus cargo's own files (`target/`, `Cargo.lock`);
//! the sources are compared separately (before the first run / after the last one): any difference is `src-changed`.
use cnbv::*;
use std::collections::{BTreeMap, BTreeSet};
use std::fs;
use std::os::unix::ffi::OsStrExt;
use std::os::unix::process::CommandExt;
use std::path::{Component, Path, PathBuf};
use std::process::{Command, Stdio};
use std::sync::{OnceLock, RwLock};
use std::time::{Duration, Instant};

const TRIPLE: &str = "x86_64-unknown-linux-gnu";
const TOOL_TARGET_DIR: &str = "/verif/harness/target/c15-tool";
const RUN_TIMEOUT: Duration = Duration::from_secs(120);

fn hx(s: &str) -> String { hex(s.as_bytes()) }
fn unhx(s: &str) -> Option<String> { String::from_utf8(unhex(s)?).ok() }

// ------------------------------------------------------------------------------------------------ the tool

/// `cargo build -p libcnb-cargo` from /repo's working tree into a target directory below /verif/harness/target (never below /repo).
fn tool() -> &'static Result<PathBuf, String> {
    static TOOL: OnceLock<Result<PathBuf, String>> = OnceLock::new();
    TOOL.get_or_init(|| {
        let out = Command::new("cargo")
            .args(["build", "--offline", "-p", "libcnb-cargo", "--manifest-path", "/repo/Cargo.toml", "--target-dir", TOOL_TARGET_DIR])
            .env("CARGO_NET_OFFLINE", "true").env_remove("CARGO_TARGET_DIR").env_remove("CI")
            .stdin(Stdio::null()).output().map_err(|e| format!("cannot spawn cargo: {e}"))?;
        if !out.status.success() {
            let err = String::from_utf8_lossy(&out.stderr);
            eprintln!("c15: building cargo-libcnb from /repo failed:\n{}", &err[err.len().saturating_sub(3000)..]);
            return Err("tool-build-failed".into());
        }
        let p = PathBuf::from(TOOL_TARGET_DIR).join("debug/cargo-libcnb");
        if p.is_file() { Ok(p) } else { Err("tool-build-failed".into()) }
    })
}

/// ordinary runs share this lock, the retry of a timed-out run holds it exclusively ("retried once alone")
static ALONE: RwLock<()> = RwLock::new(());

#[allow(dead_code)]
enum Guard<'a> { Shared(std::sync::RwLockReadGuard<'a, ()>), Excl(std::sync::RwLockWriteGuard<'a, ()>) }

struct Outcome { status: Option<i32>, stdout: String, stderr: String, timed_out: bool }

fn run_tool_once(tool: &Path, scratch: &Path, cwd: &Path, release: bool, package_dir: Option<&str>, tag: &str) -> Outcome {
    let so = scratch.join(format!("{tag}.stdout"));
    let se = scratch.join(format!("{tag}.stderr"));
    let mut cmd = Command::new(tool);
    cmd.args(["libcnb", "package", "--target", TRIPLE, "--no-cross-compile-assistance"]);
    if release { cmd.arg("--release"); }
    if let Some(d) = package_dir { cmd.arg("--package-dir").arg(d); }
    cmd.current_dir(cwd)
        .env("CARGO", std::env::var("CARGO").unwrap_or_else(|_| "cargo".into()))
        .env("CARGO_NET_OFFLINE", "true").env("CARGO_TERM_COLOR", "never")
        .env_remove("CARGO_TARGET_DIR").env_remove("CARGO_BUILD_TARGET_DIR").env_remove("CARGO_BUILD_TARGET").env_remove("CI")
        .env_remove("RUSTC_WRAPPER").env_remove("CARGO_MANIFEST_DIR")
        .stdin(Stdio::null())
        .stdout(fs::File::create(&so).unwrap()).stderr(fs::File::create(&se).unwrap())
        .process_group(0);
    let mut child = match cmd.spawn() { Ok(c) => c, Err(e) => return Outcome { status: None, stdout: String::new(), stderr: format!("spawn: {e}"), timed_out: false } };
    let deadline = Instant::now() + RUN_TIMEOUT;
    let mut timed_out = false;
    let status = loop {
        match child.try_wait() {
            Ok(Some(st)) => break st.code(),
            Ok(None) => {
                if Instant::now() > deadline {
                    timed_out = true;
                    let _ = Command::new("kill").args(["-9", &format!("-{}", child.id())]).status();
                    let _ = child.kill();
                    let _ = child.wait();
                    break None;
                }
                std::thread::sleep(Duration::from_millis(15));
            }
            Err(_) => break None,
        }
    };
    Outcome { status, stdout: fs::read_to_string(&so).unwrap_or_default(), stderr: String::from_utf8_lossy(&fs::read(&se).unwrap_or_default()).into_owned(), timed_out }
}

fn err_kind(stderr: &str) -> String {
    let Some(line) = stderr.lines().rev().find(|l| l.starts_with("❌")) else { return "crash".into() };
    let table = [("No buildpacks found", "no-buildpacks"), ("Ambiguous binary targets", "ambiguous-bins"), ("No binary targets", "no-bins"),
                 ("references unknown dependency", "missing-dep"), ("invalid buildpack id", "invalid-dep-id"), ("Missing path for buildpack", "descriptor")];
    for (needle, kind) in table { if line.contains(needle) { return kind.into(); } }
    eprintln!("c15: unclassified error line: {line}");
    "other".into()
}

// ------------------------------------------------------------------------------------------------ the case

#[derive(Clone)]
enum Kind { Libcnb { pkg: String, bins: Vec<String>, standalone: bool }, Composite { uri: String, deps: Vec<String>, platform: String }, Foreign }
#[derive(Clone)]
struct Bp { id: String, dir: String, descriptor: Vec<u8>, kind: Kind }

fn parse_bps(s: &str) -> Option<Vec<Bp>> {
    let mut out = vec![];
    for b in split_list(s, ";") {
        let p: Vec<&str> = b.split('>').collect();
        if p.len() != 5 { return None; }
        let kind = match p[3] {
            "F" => Kind::Foreign,
            "L" | "S" => { let (pkg, bins) = p[4].split_once(':')?; Kind::Libcnb { pkg: pkg.into(), bins: split_list(bins, ",").iter().map(|x| x.to_string()).collect(), standalone: p[3] == "S" } }
            "C" => {
                let q: Vec<&str> = p[4].split(':').collect();
                if q.len() != 3 { return None; }
                Kind::Composite { uri: unhx(q[0])?, deps: split_list(q[1], ",").iter().map(|d| unhx(d)).collect::<Option<Vec<_>>>()?, platform: q[2].into() }
            }
            _ => return None,
        };
        out.push(Bp { id: p[0].into(), dir: p[1].into(), descriptor: unhex(p[2])?, kind });
    }
    Some(out)
}

fn toml_str(s: &str) -> String {
    let mut o = String::from("\"");
    for c in s.chars() { match c { '"' => o.push_str("\\\""), '\\' => o.push_str("\\\\"), c => o.push(c) } }
    o.push('"');
    o
}

fn bin_source(pkg: &str, bin: &str) -> String {
    format!("#[cfg(debug_assertions)]\nconst M: &str = \"C15MARK:{pkg}:{bin}:dev:END\";\n#[cfg(not(debug_assertions))]\nconst M: &str = \"C15MARK:{pkg}:{bin}:release:END\";\nfn main() {{ println!(\"{{}}\", M); }}\n")
}

fn dir_of(ws: &Path, rel: &str) -> PathBuf { if rel == "." { ws.to_path_buf() } else { ws.join(rel) } }

fn materialise(ws: &Path, bps: &[Bp]) {
    fs::create_dir_all(ws).unwrap();
    let mut members = vec![];
    let mut excluded = vec![];
    let mut root_package = String::new();
    for bp in bps {
        let d = dir_of(ws, &bp.dir);
        fs::create_dir_all(&d).unwrap();
        fs::write(d.join("buildpack.toml"), &bp.descriptor).unwrap();
        match &bp.kind {
            Kind::Foreign => {}
            Kind::Libcnb { pkg, bins, standalone } => {
                let package = format!("[package]\nname = \"{pkg}\"\nversion = \"0.0.0\"\nedition = \"2021\"\n");
                if bp.dir == "." {
                    // the workspace root is itself a package (and a buildpack): one manifest with [package] and [workspace]
                    root_package = package;
                } else if *standalone {
                    // its own cargo workspace, excluded from the outer one
                    excluded.push(bp.dir.clone());
                    fs::write(d.join("Cargo.toml"), format!("{package}\n[workspace]\n")).unwrap();
                    fs::write(d.join(".ignore"), "packaged/\n").unwrap();
                } else {
                    members.push(bp.dir.clone());
                    fs::write(d.join("Cargo.toml"), package).unwrap();
                }
                fs::create_dir_all(d.join("src/bin")).unwrap();
                if bins.is_empty() { fs::write(d.join("src/lib.rs"), "pub fn nothing() {}\n").unwrap(); }
                for b in bins {
                    let f = if b == pkg { d.join("src/main.rs") } else { d.join(format!("src/bin/{b}.rs")) };
                    fs::write(f, bin_source(pkg, b)).unwrap();
                }
            }
            Kind::Composite { uri, deps, platform } => {
                let mut text = format!("[buildpack]\nuri = {}\n", toml_str(uri));
                for dep in deps { text.push_str(&format!("\n[[dependencies]]\nuri = {}\n", toml_str(dep))); }
                if platform != "none" { text.push_str(&format!("\n[platform]\nos = \"{platform}\"\n")); }
                fs::write(d.join("package.toml"), text).unwrap();
            }
        }
    }
    let list: Vec<String> = members.iter().map(|m| toml_str(m)).collect();
    let excl: Vec<String> = excluded.iter().map(|m| toml_str(m)).collect();
    let sep = if root_package.is_empty() { "" } else { "\n" };
    fs::write(ws.join("Cargo.toml"), format!("{root_package}{sep}[workspace]\nresolver = \"2\"\nmembers = [{}]\nexclude = [{}]\n", list.join(", "), excl.join(", "))).unwrap();
}

/// the root of the cargo workspace `inv` belongs to: the innermost standalone crate at or above it, else the outer root
fn effective_root(bps: &[Bp], inv: &str) -> String {
    let mut best: Option<&str> = None;
    for bp in bps {
        if let Kind::Libcnb { standalone: true, .. } = &bp.kind {
            if inv == bp.dir || inv.starts_with(&format!("{}/", bp.dir)) {
                if best.map(|b| b.len() < bp.dir.len()).unwrap_or(true) { best = Some(&bp.dir); }
            }
        }
    }
    best.unwrap_or(".").to_string()
}

/// lexical resolution of `.` and `..` (the directories involved exist or are created by us, no symlinks among them)
fn lexical(p: &Path) -> PathBuf {
    let mut out = PathBuf::new();
    for c in p.components() {
        match c { Component::CurDir => {} Component::ParentDir => { out.pop(); } c => out.push(c.as_os_str()) }
    }
    out
}

fn rm_any(p: &Path) {
    match fs::symlink_metadata(p) {
        Ok(md) if md.is_dir() => { let _ = fs::remove_dir_all(p); }
        Ok(_) => { let _ = fs::remove_file(p); }
        Err(_) => {}
    }
}

/// `+path=D|F<hex>|L<hex>` / `-path` on the package directory (same meaning as `applyOp` in the driver)
fn apply_op(pkgdir: &Path, op: &str) -> Option<()> {
    if let Some(p) = op.strip_prefix('-') { rm_any(&pkgdir.join(p)); return Some(()); }
    let (p, v) = op.strip_prefix('+')?.split_once('=')?;
    let full = pkgdir.join(p);
    rm_any(&full);
    // non-directories on the way become directories
    let mut cur = pkgdir.to_path_buf();
    let comps: Vec<&str> = p.split('/').collect();
    for c in &comps[..comps.len() - 1] {
        cur.push(c);
        match fs::symlink_metadata(&cur) { Ok(md) if md.is_dir() => {} Ok(_) => { rm_any(&cur); fs::create_dir(&cur).ok()?; } Err(_) => { fs::create_dir(&cur).ok()?; } }
    }
    match v.as_bytes().first()? {
        b'D' => fs::create_dir(&full).ok()?,
        b'F' => fs::write(&full, unhex(&v[1..])?).ok()?,
        b'L' => std::os::unix::fs::symlink(unhx(&v[1..])?, &full).ok()?,
        _ => return None,
    }
    Some(())
}

fn contract(scratch: &str, p: &str) -> String {
    if p == scratch { "$T".to_string() } else if let Some(rest) = p.strip_prefix(&format!("{scratch}/")) { format!("$T/{rest}") } else { p.to_string() }
}

fn find_sub(h: &[u8], n: &[u8]) -> Option<usize> { h.windows(n.len()).position(|w| w == n) }

/// the token of a regular file's content
fn content_token(path: &Path, scratch: &str, tdirs: &[PathBuf], seeded: &[Vec<u8>]) -> String {
    let Ok(bytes) = fs::read(path) else { return "raw:?".into() };
    // content put there by the case itself is reported as the bytes it is (the model knows it as such)
    if seeded.iter().any(|s| *s == bytes) { return format!("raw:{}", hex(&bytes)); }
    if path.file_name().map(|n| n == "package.toml").unwrap_or(false) {
        if let Some(t) = pkg_token(&bytes, scratch) { return t; }
    }
    if let Some(at) = find_sub(&bytes, b"C15MARK:") {
        let rest = &bytes[at + 8..];
        if let Some(end) = find_sub(rest, b":END") {
            if let Ok(s) = std::str::from_utf8(&rest[..end]) {
                let parts: Vec<&str> = s.split(':').collect();
                if parts.len() == 3 && (parts[2] == "dev" || parts[2] == "release") {
                    // bytes identical to the cargo artifact (the outer workspace's target directory, or a standalone crate's own)
                    let hit = tdirs.iter().any(|t| {
                        let artifact = t.join(TRIPLE).join(if parts[2] == "dev" { "debug" } else { "release" }).join(parts[1]);
                        matches!(fs::read(&artifact), Ok(a) if a == bytes)
                    });
                    return if hit { format!("art:{}:{}:{}", parts[2], parts[0], parts[1]) } else { format!("notart:{}:{}:{}", parts[2], parts[0], parts[1]) };
                }
            }
        }
    }
    if bytes.len() > 4096 { return format!("big:{}", bytes.len()); }
    format!("raw:{}", hex(&bytes))
}

fn pkg_token(bytes: &[u8], scratch: &str) -> Option<String> {
    let v: toml::Value = std::str::from_utf8(bytes).ok()?.parse().ok()?;
    let t = v.as_table()?;
    if t.keys().any(|k| !["buildpack", "dependencies", "platform"].contains(&k.as_str())) { return None; }
    let bp = t.get("buildpack")?.as_table().filter(|b| b.len() == 1)?.get("uri")?.as_str()?;
    let mut deps = vec![];
    if let Some(d) = t.get("dependencies") {
        for e in d.as_array()? { deps.push(hx(&contract(scratch, e.as_table().filter(|e| e.len() == 1)?.get("uri")?.as_str()?))); }
    }
    let os = match t.get("platform") { None => "linux".to_string(), Some(p) => p.as_table().filter(|p| p.len() == 1)?.get("os")?.as_str()?.to_string() };
    Some(format!("pkg:{}:{}:{}", hx(bp), join(",", &deps), os))
}

/// what the walk below the package directory does not report: the workspace sources as materialised (their directories are
/// still entered), cargo's target directories and lock files (never entered)
struct Hide { sources: BTreeMap<PathBuf, String>, cargo: Vec<PathBuf> }

/// sorted entries below the package directory
fn tree(pkgdir: &Path, scratch: &str, ws: &[PathBuf], seeded: &[Vec<u8>], hide: &Hide) -> String {
    fn walk(root: &Path, dir: &Path, scratch: &str, ws: &[PathBuf], seeded: &[Vec<u8>], hide: &Hide, out: &mut Vec<(String, String)>) {
        let Ok(rd) = fs::read_dir(dir) else { return };
        for e in rd.filter_map(Result::ok) {
            let p = e.path();
            if hide.cargo.iter().any(|c| *c == p) { continue; }
            let rel = String::from_utf8_lossy(p.strip_prefix(root).unwrap().as_os_str().as_bytes()).into_owned();
            let Ok(md) = fs::symlink_metadata(&p) else { continue };
            let hidden = hide.sources.contains_key(&p);
            if md.file_type().is_symlink() {
                if !hidden { out.push((rel.clone(), format!("L {} {}", rel, hex(fs::read_link(&p).unwrap().as_os_str().as_bytes())))); }
            } else if md.is_dir() {
                if !hidden { out.push((rel.clone(), format!("D {rel}"))); }
                walk(root, &p, scratch, ws, seeded, hide, out);
            } else if !hidden {
                out.push((rel.clone(), format!("F {} {}", rel, content_token(&p, scratch, ws, seeded))));
            }
        }
    }
    let mut out = vec![];
    walk(pkgdir, pkgdir, scratch, ws, seeded, hide, &mut out);
    out.sort();
    join("|", &out.into_iter().map(|(_, l)| l).collect::<Vec<_>>())
}

fn source_token(p: &Path) -> String {
    match fs::symlink_metadata(p) {
        Err(_) => "gone".into(),
        Ok(md) if md.file_type().is_symlink() => format!("L{}", hex(fs::read_link(p).map(|t| t.as_os_str().as_bytes().to_vec()).unwrap_or_default().as_slice())),
        Ok(md) if md.is_dir() => "D".into(),
        Ok(_) => format!("F{}", hex(&fs::read(p).unwrap_or_default())),
    }
}

/// every entry below the workspace directory with what it is / holds (taken before the tool runs for the first time)
fn snapshot_sources(ws: &Path) -> BTreeMap<PathBuf, String> {
    fn walk(dir: &Path, out: &mut BTreeMap<PathBuf, String>) {
        let Ok(rd) = fs::read_dir(dir) else { return };
        for e in rd.filter_map(Result::ok) {
            let p = e.path();
            let t = source_token(&p);
            let is_dir = t == "D";
            out.insert(p.clone(), t);
            if is_dir { walk(&p, out); }
        }
    }
    let mut out = BTreeMap::new();
    walk(ws, &mut out);
    out
}

/// the first source entry that is no longer what it was
fn first_source_change(ws: &Path, snap: &BTreeMap<PathBuf, String>) -> Option<String> {
    snap.iter().find(|(p, t)| source_token(p) != **t).map(|(p, _)| p.strip_prefix(ws).unwrap_or(p).to_string_lossy().into_owned())
}

fn stdout_lines(scratch: &str, s: &str) -> String {
    let mut v: Vec<String> = s.lines().filter(|l| !l.is_empty()).map(|l| contract(scratch, l)).collect();
    v.sort();
    join(",", &v)
}

fn run_case_inner(f: &[String], alone: bool) -> String {
    if f.len() != 5 { return "bad-case".into(); }
    let Some(bps) = parse_bps(&f[0]) else { return "bad-case".into() };
    let inv = f[1].as_str();
    // cfg: profile , package dir [, L<hex dir> = `$T/lnk` is a symbolic link to that workspace directory] [, N = no ignore file]
    let mut cfgp = f[2].split(',');
    let (Some(profile), Some(pd)) = (cfgp.next(), cfgp.next()) else { return "bad-case".into() };
    let mut link: Option<String> = None;
    let mut no_ignore = false;
    for x in cfgp {
        if x == "N" { no_ignore = true; }
        else if let Some(t) = x.strip_prefix('L').and_then(unhx) { if t.is_empty() || t.starts_with('/') || t.split('/').any(|c| c == "..") { return "bad-case".into(); } link = Some(t); }
        else { return "bad-case".into(); }
    }
    let release = match profile { "dev" => false, "release" => true, _ => return "bad-case".into() };
    let tool = match tool() { Ok(p) => p.clone(), Err(e) => return e.clone() };
    let tmp = tempfile::Builder::new().prefix("c15-").tempdir_in("/tmp").unwrap();
    let scratch = tmp.path().to_str().unwrap().to_string();
    let ws = tmp.path().join("ws");
    materialise(&ws, &bps);
    let cwd = dir_of(&ws, inv);
    if !cwd.is_dir() { fs::create_dir_all(&cwd).unwrap(); }
    let lnk = tmp.path().join("lnk");
    if let Some(t) = &link {
        let target = dir_of(&ws, t);
        if !target.is_dir() { fs::create_dir_all(&target).unwrap(); }
        std::os::unix::fs::symlink(&target, &lnk).unwrap();
    }
    // the --package-dir argument as the tool receives it, and where that is
    let arg: Option<String> = if pd == "-" { None } else {
        let Some(t) = unhx(pd) else { return "bad-case".into() };
        Some(if let Some(rest) = t.strip_prefix("$T") { format!("{scratch}{rest}") } else { t })
    };
    let eff_root = dir_of(&ws, &effective_root(&bps, inv));
    let pkgdir = match &arg { None => eff_root.join("packaged"), Some(a) => lexical(&cwd.join(a)) };
    let mut tdirs: Vec<PathBuf> = vec![ws.join("target")];
    for bp in &bps { if let Kind::Libcnb { standalone: true, .. } = &bp.kind { tdirs.push(dir_of(&ws, &bp.dir).join("target")); } }
    if !pkgdir.starts_with(tmp.path()) { return "bad-case:package-dir-outside-scratch".into(); }
    // the directory the package directory really is (through `$T/lnk`)
    let real_pkgdir = match (&link, pkgdir.strip_prefix(&lnk)) { (Some(t), Ok(rest)) => lexical(&dir_of(&ws, t).join(rest)), _ => pkgdir.clone() };
    // the ignore file for the output directory (the property's quantifier). A package directory that exists already — it is or
    // holds workspace sources — is not ignored as a whole (that would hide the buildpacks), only the output below it is.
    if no_ignore {
        for bp in &bps { let _ = fs::remove_file(dir_of(&ws, &bp.dir).join(".ignore")); }
    } else {
        let mut ignore = String::from("packaged/\n");
        if let Ok(rel) = real_pkgdir.strip_prefix(&eff_root) {
            let rel = rel.to_str().unwrap();
            if real_pkgdir.is_dir() { ignore.push_str(&format!("/{}{}{TRIPLE}/\n", rel, if rel.is_empty() { "" } else { "/" })); }
            else if !rel.is_empty() { ignore.push_str(&format!("/{rel}/\n")); }
        }
        fs::write(eff_root.join(".ignore"), &ignore).unwrap();
        if eff_root != ws { fs::write(ws.join(".ignore"), "packaged/\n").unwrap(); }
    }
    let mut cargo_files: Vec<PathBuf> = tdirs.clone();
    cargo_files.extend(tdirs.iter().map(|t| t.with_file_name("Cargo.lock")));
    let hide = Hide { sources: snapshot_sources(&ws), cargo: cargo_files };

    let _guard = if alone { Guard::Excl(ALONE.write().unwrap()) } else { Guard::Shared(ALONE.read().unwrap()) };

    // an earlier complete run
    if f[3] != "-" {
        let Some((pinv, pprof)) = f[3].split_once(',') else { return "bad-case".into() };
        if effective_root(&bps, pinv) != effective_root(&bps, inv) { return "bad-case:earlier-run-in-another-cargo-workspace".into(); }
        let pcwd = dir_of(&ws, pinv);
        // same package directory: the argument is re-expressed as an absolute path for the other invocation directory
        let parg = arg.as_ref().map(|_| pkgdir.to_str().unwrap().to_string());
        let o = run_tool_once(&tool, tmp.path(), &pcwd, pprof == "release", parg.as_deref(), "prev");
        if o.timed_out { return "timeout".into(); }
    }
    for op in split_list(&f[4], "|") {
        fs::create_dir_all(&real_pkgdir).unwrap();
        if apply_op(&real_pkgdir, op).is_none() { return "bad-case:op".into(); }
    }
    let seeded: Vec<Vec<u8>> = split_list(&f[4], "|").iter().filter_map(|op| op.split_once("=F").and_then(|(_, h)| unhex(h))).collect();
    let pre = tree(&real_pkgdir, &scratch, &tdirs, &seeded, &hide);
    let o = run_tool_once(&tool, tmp.path(), &cwd, release, arg.as_deref(), "run");
    if o.timed_out { return "timeout".into(); }
    let lines = stdout_lines(&scratch, &o.stdout);
    match o.status {
        Some(0) => {
            let changed = first_source_change(&ws, &hide.sources).map(|p| format!(";src-changed:{}", hx(&p))).unwrap_or_default();
            format!("ok;{};{};{}{}", lines, pre, tree(&real_pkgdir, &scratch, &tdirs, &seeded, &hide), changed)
        }
        Some(_) => format!("err:{};{}", err_kind(&o.stderr), lines),
        None => format!("err:killed;{lines}"),
    }
}

fn run_case(f: &[String]) -> String {
    let o = run_case_inner(f, false);
    if o == "timeout" { run_case_inner(f, true) } else { o }
}

// ------------------------------------------------------------------------------------------------ generation

fn component_toml(id: &str, style: u64) -> Vec<u8> {
    match style % 4 {
        0 => format!("api = \"0.10\"\n\n[buildpack]\nid = \"{id}\"\nversion = \"0.0.1\"\n"),
        1 => format!("# packaged by C15, comment must survive\napi = \"0.10\"\n\n[buildpack]\nid = \"{id}\"   # trailing comment\nversion = \"1.2.3\"\nname = \"Sample\"\n\n[[targets]]\nos = \"linux\"\narch = \"amd64\"\n"),
        2 => format!("api=\"0.10\"\n[buildpack]\nversion='0.0.1'\nid = '{id}'\n\n[metadata]\nkey = [1, 2,   3]\nnested = {{ a = \"b\" }}"),
        _ => format!("api = \"0.10\"\r\n[buildpack]\r\nid = \"{id}\"\r\nversion = \"0.0.1\"\r\nhomepage = \"https://example.com/\u{e9}\"\r\n"),
    }.into_bytes()
}

fn composite_toml(id: &str, style: u64, members: &[String]) -> Vec<u8> {
    let mut s = if style % 2 == 0 { format!("api = \"0.10\"\n\n[buildpack]\nid = \"{id}\"\nversion = \"0.0.1\"\n") }
                else { format!("# composite, comment must survive\napi = \"0.10\"\n[buildpack]\nid = \"{id}\"\nversion = \"2.0.0\"\nkeywords = [\"a\",   \"b\"]\n") };
    s.push_str("\n[[order]]\n");
    let ms: Vec<String> = if members.is_empty() { vec!["some/other".to_string()] } else { members.to_vec() };
    for m in ms { s.push_str(&format!("\n[[order.group]]\nid = \"{m}\"\nversion = \"0.0.1\"\n")); }
    s.into_bytes()
}

fn enc_bp(bp: &Bp) -> String {
    let (k, extra) = match &bp.kind {
        Kind::Foreign => ("F", "-".to_string()),
        Kind::Libcnb { pkg, bins, standalone } => (if *standalone { "S" } else { "L" }, format!("{}:{}", pkg, join(",", bins))),
        Kind::Composite { uri, deps, platform } => ("C", format!("{}:{}:{}", hx(uri), join(",", &deps.iter().map(|d| hx(d)).collect::<Vec<_>>()), platform)),
    };
    format!("{}>{}>{}>{}>{}", bp.id, bp.dir, hex(&bp.descriptor), k, extra)
}

fn dir_name(id: &str) -> String { id.replace('/', "_") }
fn dest_rel(release: bool, id: &str) -> String { format!("{TRIPLE}/{}/{}", if release { "release" } else { "debug" }, dir_name(id)) }

/// `libcnb:` ids a composite refers to (generator-side bookkeeping for tags only)
fn refs(bp: &Bp) -> Vec<String> {
    match &bp.kind { Kind::Composite { deps, .. } => deps.iter().filter_map(|d| d.strip_prefix("libcnb:").map(str::to_string)).collect(), _ => vec![] }
}

fn closure(bps: &[Bp], roots: &[String]) -> BTreeSet<String> {
    let mut seen: BTreeSet<String> = BTreeSet::new();
    let mut todo: Vec<String> = roots.to_vec();
    while let Some(id) = todo.pop() {
        if !seen.insert(id.clone()) { continue; }
        if let Some(bp) = bps.iter().find(|b| b.id == id) { todo.extend(refs(bp)); }
    }
    seen
}

fn up(from_dir: &str) -> String { if from_dir == "." { String::new() } else { "../".repeat(from_dir.split('/').count()) } }

struct Shape { bps: Vec<Bp>, plain_dirs: Vec<String> }

fn fixed_shapes() -> Vec<Shape> {
    let l = |id: &str, dir: &str, pkg: &str, bins: &[&str], style: u64| Bp { id: id.into(), dir: dir.into(), descriptor: component_toml(id, style), kind: Kind::Libcnb { pkg: pkg.into(), bins: bins.iter().map(|b| b.to_string()).collect(), standalone: false } };
    let st = |id: &str, dir: &str, pkg: &str, bins: &[&str]| Bp { id: id.into(), dir: dir.into(), descriptor: component_toml(id, 1), kind: Kind::Libcnb { pkg: pkg.into(), bins: bins.iter().map(|b| b.to_string()).collect(), standalone: true } };
    let f = |id: &str, dir: &str| Bp { id: id.into(), dir: dir.into(), descriptor: component_toml(id, 0), kind: Kind::Foreign };
    let c = |id: &str, dir: &str, deps: &[&str], members: &[&str], style: u64| Bp { id: id.into(), dir: dir.into(), descriptor: composite_toml(id, style, &members.iter().map(|m| m.to_string()).collect::<Vec<_>>()),
        kind: Kind::Composite { uri: ".".into(), deps: deps.iter().map(|d| d.to_string()).collect(), platform: "none".into() } };
    vec![
        Shape { bps: vec![l("v/a", "bps/a", "bp-a", &["bp-a"], 1), f("ext/shell", "vendor/shell")], plain_dirs: vec!["bps".into()] },
        Shape { bps: vec![l("v/a", "bps/a", "bp-a", &["bp-a", "a-helper", "a-tool"], 0), l("v/b", "bps/b", "bp-b", &["b-only"], 2), f("ext/shell", "vendor/shell"),
                          c("v/mid", "meta/mid", &["libcnb:v/a", "../../vendor/shell", "docker://docker.io/heroku/procfile:3.0.0"], &["v/a", "ext/shell"], 0),
                          c("v/top", "meta/top", &["libcnb:v/mid", "libcnb:v/b", "https://example.com/bp.tgz"], &["v/mid", "v/b"], 1)], plain_dirs: vec!["meta".into()] },
        Shape { bps: vec![c("grp/all", "grp", &["libcnb:grp/inner", ".//inner/../../x/./y"], &["grp/inner"], 1), l("grp/inner", "grp/inner", "inner", &["inner", "inner-extra"], 3),
                          l("grp/amb", "grp/amb", "amb", &["amb-p", "amb-q"], 0), l("solo", "solo", "solo", &["solo"], 0)], plain_dirs: vec![] },
        // the workspace root is itself a libcnb.rs buildpack (root package + members); another member is not among its dependencies
        Shape { bps: vec![l("r/root", ".", "root-pkg", &["root-pkg", "root-tool"], 1), l("r/one", "sub/one", "one", &["one"], 0), f("ext/shell", "vendor/shell"),
                          c("r/meta", "meta", &["libcnb:r/root", "../vendor/shell"], &["r/root"], 0)], plain_dirs: vec!["src".into(), "sub".into(), "sub/one/src".into()] },
        // a composite at the workspace root with members below, a buildpack nested inside another buildpack's directory
        Shape { bps: vec![c("c/root", ".", &["libcnb:c/dep", "bps/../vendor/none"], &["c/dep"], 1), l("c/dep", "bps/dep", "dep", &["dep"], 2), l("c/nested", "bps/dep/nested", "nested", &["nested", "nested-x"], 0),
                          l("c/other", "bps/other", "other", &["other"], 3)], plain_dirs: vec!["bps".into(), "bps/dep/src".into()] },
        // a buildpack crate that is its own cargo workspace (excluded from the outer one), with a composite nested in it, next to ordinary members
        Shape { bps: vec![l("m/a", "m/a", "m-a", &["m-a"], 0), st("x/solo", "ext/solo", "solo-crate", &["solo-crate", "solo-aux"]), c("x/inner", "ext/solo/inner", &["libcnb:x/solo"], &["x/solo"], 0),
                          c("m/all", "all", &["libcnb:m/a", "libcnb:x/solo"], &["m/a", "x/solo"], 1)], plain_dirs: vec!["ext".into(), "ext/solo/src".into(), "m/a/src".into()] },
    ]
}

const IDS: &[&str] = &["v/a", "v/b", "heroku/nodejs-engine", "x.y/z-1", "solo", "acme/deep/er", "A0", "b-c", "io.buildpacks/sample", "v/a-b"];
const OTHERS: &[&str] = &["docker://docker.io/heroku/example:1.2.3", "https://example.com/bp.tgz", "urn:cnb:registry:heroku/nodejs@1.0.0", "/abs/path/bp", "file:///abs/bp.tgz"];

fn random_shape(r: &mut Rng, thorough: bool) -> Shape {
    let mut ids: Vec<&str> = IDS.to_vec();
    r.shuffle(&mut ids);
    let n_l = r.range(1, if thorough { 5 } else { 3 }) as usize;
    let n_c = r.range(0, if thorough { 3 } else { 2 }) as usize;
    let n_f = if r.chance(3, 4) { 1 } else { if thorough && r.chance(1, 2) { 2 } else { 0 } };
    let mut bps: Vec<Bp> = vec![];
    let mut plain = vec![];
    let mut next = 0;
    let layout = r.below(3);
    let special = r.below(8); // 0,1: a libcnb.rs buildpack at the workspace root; 2: a composite at the workspace root
    let nest = r.chance(1, 4);
    let own_ws = r.chance(1, 4);
    let mut bad_used = false; // at most one crate without a determined main binary (else the error kind depends on the walk order)
    for i in 0..n_l {
        let id = ids[next]; next += 1;
        let leaf = format!("l{i}");
        let dir = match (layout + i as u64) % 3 { 0 => format!("bps/{leaf}"), 1 => leaf.clone(), _ => format!("deep/er/{leaf}") };
        // the first crate may be the root package of the workspace; the second may live inside the first one's directory
        let dir = if i == 0 && special <= 1 { ".".to_string() }
                  else if i == 1 && nest { let first = bps[0].dir.clone(); if first == "." { format!("inside/{leaf}") } else { format!("{first}/inside/{leaf}") } }
                  else { dir };
        let standalone = dir != "." && i + 1 == n_l && i > 0 && own_ws;
        let pkg = format!("c{i}-pkg");
        let roll = r.below(24);
        let roll = if roll >= 21 { if bad_used { 0 } else { bad_used = true; roll } } else { roll };
        let bins: Vec<String> = match roll {
            0..=9 => vec![pkg.clone()],
            10..=14 => vec![pkg.clone(), format!("c{i}-helper")],
            15..=17 => vec![format!("c{i}-x"), pkg.clone(), format!("c{i}-y")],
            18..=20 => vec![format!("c{i}-only")],
            21 | 22 => vec![format!("c{i}-p"), format!("c{i}-q")],
            _ => vec![],
        };
        bps.push(Bp { id: id.into(), dir, descriptor: component_toml(id, r.below(4)), kind: Kind::Libcnb { pkg, bins, standalone } });
    }
    let mut foreign: Vec<(String, String)> = vec![];
    for i in 0..n_f {
        let id = ids[next]; next += 1;
        let dir = if i == 0 { "vendor/shell".to_string() } else { "other".to_string() };
        foreign.push((id.to_string(), dir.clone()));
        bps.push(Bp { id: id.into(), dir, descriptor: component_toml(id, r.below(4)), kind: Kind::Foreign });
    }
    for j in 0..n_c {
        let id = ids[next]; next += 1;
        let dir = if j == 0 && special == 2 { ".".to_string() } else if r.chance(1, 2) { format!("meta/m{j}") } else { format!("m{j}") };
        let candidates: Vec<String> = bps.iter().filter(|b| !matches!(b.kind, Kind::Foreign)).map(|b| b.id.clone()).collect();
        let mut deps: Vec<String> = vec![];
        for _ in 0..r.range(1, 4) {
            match r.below(12) {
                0..=5 => deps.push(format!("libcnb:{}", r.pick(&candidates))),
                6 | 7 if !foreign.is_empty() => { let (_, fd) = r.pick(&foreign).clone(); let deco = *r.pick(&["", "./", "sub/../", ".//"]); deps.push(format!("{deco}{}{fd}", up(&dir))); }
                8 => deps.push(format!("{}bps/../nowhere/x", up(&dir))),
                _ => deps.push((*r.pick(OTHERS)).to_string()),
            }
        }
        if r.chance(1, 24) { let at = r.below(deps.len() as u64 + 1) as usize; deps.insert(at, "libcnb:no/such".into()); }
        else if !foreign.is_empty() && r.chance(1, 25) { deps.push(format!("libcnb:{}", foreign[0].0)); }
        let members: Vec<String> = deps.iter().filter_map(|d| d.strip_prefix("libcnb:").map(str::to_string)).collect();
        let platform = (*r.pick(&["none", "none", "linux"])).to_string();
        let uri = (*r.pick(&[".", ".", ".", "./", "../x"])).to_string();
        bps.push(Bp { id: id.into(), dir, descriptor: composite_toml(id, r.below(2), &members), kind: Kind::Composite { uri, deps, platform } });
    }
    r.shuffle(&mut bps);
    for d in ["bps", "deep", "meta", "vendor"] { if bps.iter().any(|b| b.dir.starts_with(&format!("{d}/"))) { plain.push(d.to_string()); } }
    // a directory inside a buildpack that is not itself a buildpack directory
    let crates: Vec<String> = bps.iter().filter(|b| matches!(b.kind, Kind::Libcnb { .. })).map(|b| b.dir.clone()).collect();
    let inside = r.pick(&crates).clone();
    plain.insert(0, if inside == "." { "src".to_string() } else { format!("{inside}/src") });
    r.shuffle(&mut plain);
    Shape { bps, plain_dirs: plain }
}

fn random_ops(r: &mut Rng, bps: &[Bp], release: bool, after_prev: bool) -> Vec<String> {
    let packable: Vec<&Bp> = bps.iter().filter(|b| !matches!(b.kind, Kind::Foreign)).collect();
    let mut ops = vec![];
    let n = if after_prev { r.range(0, 5) } else { r.range(1, 6) };
    for k in 0..n {
        let bp = *r.pick(&packable);
        let d = dest_rel(if r.chance(1, 8) { !release } else { release }, &bp.id);
        let stale = hx(&format!("stale {k}\n"));
        let op = if after_prev && r.chance(2, 3) {
            // a crash point: something the earlier run wrote is missing
            format!("-{}{}", d, r.pick(&["/package.toml", "/bin/detect", "/bin/build", "/bin", "/.libcnb-cargo", "/buildpack.toml", "", "/.libcnb-cargo/additional-bin"]))
        } else {
            match r.below(20) {
                0 => format!("+{d}/stale.txt=F{stale}"),
                1 => format!("+{d}/bin/old-helper=F{stale}"),
                2 => format!("+{d}/.libcnb-cargo/additional-bin/gone=F{stale}"),
                3 => format!("+{d}/buildpack.toml=F{}", hx("api = \"0.9\"\n# stale\n")),
                4 => format!("+{d}/buildpack.toml/x=F{stale}"),
                5 => format!("+{d}/bin/build/nested=F{stale}"),
                6 => format!("+{d}/package.toml/d=D"),
                7 => format!("+{d}/bin=F{stale}"),
                8 => format!("+{d}/.libcnb-cargo=F{stale}"),
                9 => format!("+{d}/bin/detect=L{}", hx("gone")),
                10 => format!("+{d}/bin/detect=L{}", hx("../buildpack.toml")),
                11 => format!("+{d}/bin/build=L{}", hx("../stale-target")),
                12 => format!("+{d}/bin=L{}", hx(&format!("../../elsewhere-{k}"))),
                13 => format!("+{d}=L{}", hx("../shared-dir")),
                14 => format!("+{d}/empty-dir=D"),
                15 => format!("+{d}/package.toml=F{}", hx("[buildpack]\nuri = \"stale\"\n")),
                16 => format!("+README.md=F{stale}"),
                17 => format!("+{TRIPLE}/{}/not-a-buildpack/file=F{stale}", if release { "release" } else { "debug" }),
                18 => format!("+other-target/debug/x/bin/build=F{stale}"),
                _ => format!("+{d}/bin/build=F{}", hx("\u{7f}ELF truncated")),
            }
        };
        ops.push(op);
    }
    ops
}

/// the `--package-dir` of a case: the argument, what `$T/lnk` points to (if used), whether the workspace carries an ignore
/// file, and the relation of the package directory to the buildpack sources (tag)
#[derive(Clone)]
struct PdSpec { arg: Option<String>, link: Option<String>, no_ignore: bool, rel: &'static str, spell: &'static str }

impl PdSpec {
    /// default / a fresh directory that holds no sources (parts 1 and 2)
    fn plain(arg: Option<&str>) -> PdSpec { PdSpec { arg: arg.map(str::to_string), link: None, no_ignore: false, rel: if arg.is_some() { "fresh" } else { "default" }, spell: "-" } }
    fn holds_sources(&self) -> bool { matches!(self.rel, "root" | "anc-all" | "anc-some" | "bpdir" | "foreign-dir" | "in-bp") }
}

fn emit_case(emit: &mut dyn FnMut(Case), shape: &Shape, inv: &str, profile: &str, pds: &PdSpec, prev: &str, ops: &[String], family: &str) {
    let pd: Option<&str> = pds.arg.as_deref();
    let all = &shape.bps;
    // what the tool sees: the buildpack directories at or below the root of the cargo workspace the invocation directory belongs to
    let eff = effective_root(all, inv);
    let visible: Vec<Bp> = all.iter().filter(|b| eff == "." || b.dir == eff || b.dir.starts_with(&format!("{eff}/"))).cloned().collect();
    let bps = &visible;
    let at_bp = all.iter().any(|b| b.dir == inv && !matches!(b.kind, Kind::Foreign));
    let inv_kind = if inv == eff { if at_bp { if eff == "." { "root-and-buildpack" } else { "own-workspace-crate" } } else { "root" } } else { match bps.iter().find(|b| b.dir == inv).map(|b| &b.kind) { Some(Kind::Libcnb { .. }) => "libcnb", Some(Kind::Composite { .. }) => "composite", Some(Kind::Foreign) => "foreign", None => "plain" } };
    let packable: Vec<&Bp> = bps.iter().filter(|b| !matches!(b.kind, Kind::Foreign)).collect();
    let roots: Vec<String> = match bps.iter().find(|b| b.dir == inv && !matches!(b.kind, Kind::Foreign)) { Some(b) => vec![b.id.clone()], None => if inv == eff { packable.iter().map(|b| b.id.clone()).collect() } else { vec![] } };
    let cl = closure(bps, &roots);
    let dangling = packable.iter().any(|b| refs(b).iter().any(|x| !packable.iter().any(|p| &p.id == x)));
    let bad_bins = |b: &Bp| match &b.kind { Kind::Libcnb { pkg, bins, .. } => bins.is_empty() || (bins.len() > 1 && !bins.contains(pkg)), _ => false };
    let expect = if roots.is_empty() { "no-selection" } else if dangling { "dangling" } else if packable.iter().any(|b| cl.contains(&b.id) && bad_bins(b)) { "bad-bins" } else { "ok" };
    let release = profile == "release";
    let touched = ops.iter().any(|o| cl.iter().any(|id| { let d = dest_rel(release, id); let p = &o[1..]; p.starts_with(&format!("{d}/")) || p.starts_with(&format!("{d}=")) || p == d }));
    let stale = touched || (prev != "-");
    let extra_deps = cl.len() > roots.len();
    let multi_bin = packable.iter().any(|b| cl.contains(&b.id) && matches!(&b.kind, Kind::Libcnb { bins, .. } if bins.len() > 1));
    let mut cfg = format!("{},{}", profile, pd.map(hx).unwrap_or_else(|| "-".into()));
    if let Some(t) = &pds.link { cfg.push_str(&format!(",L{}", hx(t))); }
    if pds.no_ignore { cfg.push_str(",N"); }
    let fields = vec![join(";", &all.iter().map(enc_bp).collect::<Vec<_>>()), inv.to_string(), cfg, prev.to_string(), join("|", ops)];
    let pd_kind = match pd { None => "default", Some(p) if p.starts_with("$T") => "absolute", Some(_) => "relative" };
    emit(Case {
        fields,
        tags: vec![("kind".into(), format!("{family}-{expect}")), ("inv".into(), inv_kind.into()), ("profile".into(), profile.into()), ("pkgdir".into(), pd_kind.into()), ("pdrel".into(), pds.rel.into()), ("pdspell".into(), pds.spell.into()), ("ignore-file".into(), u8::from(!pds.no_ignore).to_string()),
                   ("seed".into(), (if prev != "-" { "earlier-run" } else if ops.is_empty() { "clean" } else { "puts" }).into()), ("bps".into(), all.len().to_string()), ("unselected-besides".into(), u8::from(packable.len() > cl.len()).to_string()),
                   ("built".into(), cl.len().min(6).to_string()), ("deps-beyond-selection".into(), u8::from(extra_deps).to_string()), ("multi-bin".into(), u8::from(multi_bin).to_string())],
        nontrivial: expect == "ok" && (stale || extra_deps || multi_bin || pds.holds_sources()) || expect == "bad-bins",
    });
}

fn inv_dirs(shape: &Shape, r: Option<&mut Rng>) -> Vec<String> {
    let mut v = vec![".".to_string()];
    match r {
        None => { v.extend(shape.bps.iter().filter(|b| b.dir != ".").map(|b| b.dir.clone())); v.extend(shape.plain_dirs.iter().cloned()); }
        // random workspaces: every libcnb.rs / composite directory, the unselectable ones (foreign, plain) only now and then
        Some(r) => {
            for b in &shape.bps { if b.dir != "." && (!matches!(b.kind, Kind::Foreign) || r.chance(1, 3)) { v.push(b.dir.clone()); } }
            if r.chance(1, 2) { v.extend(shape.plain_dirs.iter().take(1).cloned()); }
        }
    }
    v
}

// ------------------------------------------------------------------------------------------------ part 3: where the package directory is

fn join_rel(a: &str, b: &str) -> String { if a == "." { b.to_string() } else if b == "." { a.to_string() } else { format!("{a}/{b}") } }
fn below(d: &str, anc: &str) -> bool { anc == "." || d == anc || d.starts_with(&format!("{anc}/")) }

/// directories (relative to the outer workspace root) by their relation to the buildpack sources the tool sees from `inv`:
/// the root of the cargo workspace, plain ancestors of all / of some buildpack directories, a buildpack's own directory
/// (libcnb.rs / composite, foreign), a directory inside a crate, a fresh sibling of sources, a fresh directory in cargo's `target/`
fn related_dirs(shape: &Shape, inv: &str) -> Vec<(&'static str, String)> {
    let eff = effective_root(&shape.bps, inv);
    let visible: Vec<&Bp> = shape.bps.iter().filter(|b| below(&b.dir, &eff)).collect();
    let packable: Vec<&Bp> = visible.iter().copied().filter(|b| !matches!(b.kind, Kind::Foreign)).collect();
    let mut out: Vec<(&'static str, String)> = vec![("root", eff.clone())];
    let mut ancs: BTreeSet<String> = BTreeSet::new();
    for b in &visible {
        let mut d = b.dir.clone();
        while let Some((parent, _)) = d.rsplit_once('/') {
            d = parent.to_string();
            if d != eff && below(&d, &eff) && !visible.iter().any(|x| x.dir == d) { ancs.insert(d.clone()); }
        }
    }
    for a in &ancs { out.push((if packable.iter().all(|b| below(&b.dir, a)) { "anc-all" } else { "anc-some" }, a.clone())); }
    for b in &visible { if b.dir != eff { out.push((if matches!(b.kind, Kind::Foreign) { "foreign-dir" } else { "bpdir" }, b.dir.clone())); } }
    for b in &packable { if matches!(b.kind, Kind::Libcnb { .. }) { out.push(("in-bp", join_rel(&b.dir, "src"))); } }
    for b in &packable {
        if b.dir == eff { continue; }
        let parent = b.dir.rsplit_once('/').map(|(p, _)| p.to_string()).unwrap_or_else(|| ".".into());
        if below(&parent, &eff) { out.push(("sibling", join_rel(&parent, "zz-out"))); }
    }
    out.push(("in-target", join_rel(&eff, "target/pk")));
    out.dedup();
    out
}

const SPELLINGS: &[&str] = &["rel", "abs", "abs-slash", "abs-dotdot", "rel-dotdot", "link", "link-slash"];

/// the `--package-dir` argument naming the workspace directory `d` when the tool is started in `inv`
fn spell_pkgdir(d: &str, inv: &str, spelling: &'static str, rel: &'static str, no_ignore: bool) -> PdSpec {
    let tail = if d == "." { String::new() } else { format!("/{d}") };
    let (arg, link) = match spelling {
        "rel" => (if d == inv { ".".to_string() } else if inv == "." { d.to_string() } else if let Some(r) = d.strip_prefix(&format!("{inv}/")) { r.to_string() } else { let u = up(inv); if d == "." { u.trim_end_matches('/').to_string() } else { format!("{u}{d}") } }, None),
        "abs" => (format!("$T/ws{tail}"), None),
        "abs-slash" => (format!("$T/ws{tail}/"), None),
        "abs-dotdot" => (format!("$T/x/../ws{tail}"), None),
        "rel-dotdot" => (format!("{}../ws{tail}", up(inv)), None),
        "link" => ("$T/lnk".to_string(), Some(d.to_string())),
        _ => ("$T/lnk/".to_string(), Some(d.to_string())),
    };
    PdSpec { arg: Some(arg), link, no_ignore, rel, spell: spelling }
}

fn can_rerun(shape: &Shape) -> bool {
    let packable: Vec<&Bp> = shape.bps.iter().filter(|b| !matches!(b.kind, Kind::Foreign)).collect();
    let dangling = packable.iter().any(|b| refs(b).iter().any(|x| !packable.iter().any(|p| &p.id == x)));
    let any_bad = packable.iter().any(|b| matches!(&b.kind, Kind::Libcnb { pkg, bins, .. } if bins.is_empty() || (bins.len() > 1 && !bins.contains(pkg))));
    !dangling && !any_bad
}

/// part 3: the relation between the package directory and the source tree as a dimension
fn generate_pkgdir_relations(thorough: bool, search: bool, seed: u64, emit: &mut dyn FnMut(Case)) {
    // 3a (bounded exhaustive): three fixed workspaces x invocation directories x every related directory, first run, ignore file present
    if !search {
        let shapes = fixed_shapes();
        let plan: [(usize, &[&str]); 4] = [(0, &[".", "bps/a"]), (1, &[".", "bps/a", "meta/top", "meta"]), (3, &[".", "sub/one"]), (5, &[".", "ext/solo", "m/a"])];
        let mut k = 0usize;
        for (si, invs) in plan {
            let shape = &shapes[si];
            for inv in invs {
                let at_root = effective_root(&shape.bps, inv) == *inv;
                let mut seen: BTreeSet<String> = BTreeSet::new();
                let mut per_rel: BTreeMap<&'static str, usize> = BTreeMap::new();
                for (rel, d) in related_dirs(shape, inv) {
                    if !seen.insert(d.clone()) { continue; }
                    // from the root of the cargo workspace: every ancestor and buildpack directory, one of the other relations;
                    // from elsewhere: the root, the invocation directory itself, one directory of every other relation
                    let n = per_rel.entry(rel).or_insert(0);
                    *n += 1;
                    let every = at_root && matches!(rel, "anc-all" | "anc-some" | "bpdir" | "foreign-dir");
                    if !(every || *n == 1 || d == *inv) { continue; }
                    let spelling = SPELLINGS[k % SPELLINGS.len()];
                    let profile = if k % 3 == 2 { "release" } else { "dev" };
                    k += 1;
                    emit_case(emit, shape, inv, profile, &spell_pkgdir(&d, inv, spelling, rel, false), "-", &[], "pkgdir-fixed");
                }
            }
        }
    }
    // 3b: seeded random workspaces x (root, a buildpack directory, now and then a plain one) x a related directory x a spelling x history
    let n_ws: u64 = if thorough { 150 } else if search { 10 } else { 14 };
    for w in 0..n_ws {
        let mut r = Rng::for_case(seed, 1_000_000 + w);
        let shape = random_shape(&mut r, thorough);
        let packable_dirs: Vec<String> = shape.bps.iter().filter(|b| !matches!(b.kind, Kind::Foreign)).map(|b| b.dir.clone()).collect();
        let mut invs = vec![".".to_string()];
        let others: Vec<String> = packable_dirs.iter().filter(|d| *d != ".").cloned().collect();
        if !others.is_empty() { invs.push(r.pick(&others).clone()); }
        if thorough && others.len() > 1 && r.chance(1, 2) { let d = r.pick(&others).clone(); if !invs.contains(&d) { invs.push(d); } }
        if r.chance(1, 3) { invs.extend(shape.plain_dirs.iter().take(1).cloned()); }
        // from the root of a workspace whose root is no buildpack, a second package directory: that is where "everything is selected"
        if !shape.bps.iter().any(|b| b.dir == ".") { invs.push(".".to_string()); }
        for inv in invs {
            let cands = related_dirs(&shape, &inv);
            // relations first, then a directory of that relation (else the many buildpack directories dominate)
            let mut rels: Vec<&'static str> = cands.iter().map(|c| c.0).collect();
            rels.dedup();
            let rel = *r.pick(&rels);
            let of_rel: Vec<&(&'static str, String)> = cands.iter().filter(|c| c.0 == rel).collect();
            let d = r.pick(&of_rel).1.clone();
            let spelling = *r.pick(SPELLINGS);
            let profile = if r.chance(1, 2) { "dev" } else { "release" };
            let mode = r.below(12);
            let here = effective_root(&shape.bps, &inv);
            let (no_ignore, prev, ops) = if mode < 5 { (false, "-".to_string(), vec![]) }
                else if mode < 7 { (true, "-".to_string(), vec![]) }
                else if mode < 9 || !can_rerun(&shape) { (false, "-".to_string(), random_ops(&mut r, &shape.bps, profile == "release", false)) }
                else {
                    let same: Vec<String> = packable_dirs.iter().filter(|d| effective_root(&shape.bps, d) == here).cloned().collect();
                    let pinv = if same.is_empty() || r.chance(1, 2) { here.clone() } else { r.pick(&same).clone() };
                    let pprof = if r.chance(3, 4) { profile } else if profile == "dev" { "release" } else { "dev" };
                    (false, format!("{pinv},{pprof}"), random_ops(&mut r, &shape.bps, profile == "release", true))
                };
            emit_case(emit, &shape, &inv, profile, &spell_pkgdir(&d, &inv, spelling, rel, no_ignore), &prev, &ops, "pkgdir-random");
        }
    }
}

fn generate(tier: &str, seed: u64, emit: &mut dyn FnMut(Case)) {
    let thorough = tier == "thorough";
    let search = std::env::var("VERIF_SEARCH").is_ok();
    // part 1 (bounded exhaustive): three fixed workspaces x every invocation directory x both profiles, clean package directory
    if !search {
        for shape in fixed_shapes() {
            for inv in inv_dirs(&shape, None) { for profile in ["dev", "release"] { emit_case(emit, &shape, &inv, profile, &PdSpec::plain(None), "-", &[], "fixed"); } }
        }
    }
    // part 2: seeded random workspaces x every invocation directory
    let n_ws: u64 = if thorough { 300 } else if search { 16 } else { 28 };
    let pds: &[&str] = &["out", "./out/./dir", "../pk", "$T/abs/pkg", "$T/abs/pkg/", "$T/x/../abs2", "nested/out/../dir"];
    for w in 0..n_ws {
        let mut r = Rng::for_case(seed, w);
        let shape = random_shape(&mut r, thorough);
        let packable_dirs: Vec<String> = shape.bps.iter().filter(|b| !matches!(b.kind, Kind::Foreign)).map(|b| b.dir.clone()).collect();
        for inv in inv_dirs(&shape, Some(&mut r)) {
            let profile = if r.chance(1, 2) { "dev" } else { "release" };
            let pd: Option<&str> = if r.chance(3, 5) { None } else { Some(*r.pick(pds)) };
            // `../pk` from the workspace root leaves the workspace but stays inside the scratch directory; from deeper it stays inside the workspace
            let mode = r.below(20);
            let (prev, ops) = if mode < 6 { ("-".to_string(), vec![]) }
                else if mode < 13 { ("-".to_string(), random_ops(&mut r, &shape.bps, profile == "release", false)) }
                else {
                    let here = effective_root(&shape.bps, &inv);
                    let same: Vec<String> = packable_dirs.iter().filter(|d| effective_root(&shape.bps, d) == here).cloned().collect();
                    let pinv = if same.is_empty() || r.chance(1, 2) { here.clone() } else { r.pick(&same).clone() };
                    let pprof = if r.chance(3, 4) { profile } else if profile == "dev" { "release" } else { "dev" };
                    (format!("{pinv},{pprof}"), random_ops(&mut r, &shape.bps, profile == "release", true))
                };
            // an earlier run is only used where it succeeds (a failed run leaves an order-dependent tree): checked by the generator's own bookkeeping
            let packable: Vec<&Bp> = shape.bps.iter().filter(|b| !matches!(b.kind, Kind::Foreign)).collect();
            let dangling = packable.iter().any(|b| refs(b).iter().any(|x| !packable.iter().any(|p| &p.id == x)));
            let any_bad = packable.iter().any(|b| matches!(&b.kind, Kind::Libcnb { pkg, bins, .. } if bins.is_empty() || (bins.len() > 1 && !bins.contains(pkg))));
            let prev = if prev != "-" && (dangling || any_bad) { "-".to_string() } else { prev };
            emit_case(emit, &shape, &inv, profile, &PdSpec::plain(pd), &prev, &ops, "random");
        }
    }
    // part 3: package directories that are, hold, or lie among the buildpack sources
    if std::env::var("VERIF_C15_NO_PKGDIR_RELATIONS").is_err() { generate_pkgdir_relations(thorough, search, seed, emit); }
}

fn main() { main_loop_jobs("c15", 8, &generate, &run_case); }
