//! C11 correspondence: generated layer trees (depth, permission modes, every symlink kind, top-level symlink, hard links
//! between names inside the layer and files outside it / inside it / the other way round) built on
//! disk beside canary trees and sibling layers; the real `uncached_layer`, `cached_layer` + DeleteLayer and trait
//! `handle_layer` + Recreate; whole-root snapshot (kind, mode, content, link target, link count of a regular file when
//! it is not 1) before and after.
//! The outcome of the buildpack's part of the call is a dimension of the request field: `U` `C` `T` = every callback
//! succeeds and decides to delete; `Cd` / `Td` = the deciding callback (`restored_layer_action` / `invalid_metadata_action`,
//! `existing_layer_strategy` / `migrate_incompatible_metadata`) returns `Err`; `Tc` = `Layer::create` returns `Err`
//! (a recreate is a deletion, then the buildpack's `create`: the state right after the failing call is what is judged).
//! None of the test buildpack's callbacks touches the file system.
//! Cases tagged `user` run the operation in a child process under `setpriv --reuid=65534 --regid=65534 --clear-groups`
//! (the tree is built, chown-ed and snapshotted by the root parent).
#![allow(deprecated)]
use cnbv::ctx::{TbError, TestBuildpack, build_context};
use cnbv::*;
use libcnb::build::BuildContext;
use libcnb::data::layer::LayerName;
use libcnb::data::layer_content_metadata::{LayerContentMetadata, LayerTypes};
use libcnb::generic::GenericMetadata;
use libcnb::layer::{
    CachedLayerDefinition, EmptyLayerCause, ExistingLayerStrategy, InvalidMetadataAction, Layer, LayerData, LayerError, LayerResult,
    LayerResultBuilder, LayerState, MetadataMigration, RestoredLayerAction, UncachedLayerDefinition,
};
use serde::{Deserialize, Serialize};
use std::cell::Cell;
use std::ffi::OsString;
use std::os::unix::ffi::{OsStrExt, OsStringExt};
use std::os::unix::fs::{MetadataExt, PermissionsExt};
use std::path::{Path, PathBuf};

const NOBODY: u32 = 65534;

/// layer names of the sampled cases: plain, dotted (one/two dots, leading, trailing), and names that look like another layer's
/// metadata or SBOM file (`lyr.toml` owns `lyr.toml/` and `lyr.toml.toml`; `lyr.sbom` owns `lyr.sbom.sbom.cdx.json` …)
const LAYER_NAMES: [&[u8]; 12] = [b"lyr", b"a", b"my-layer.1", b"lyr.x", b"lyr.x.y", b".hidden", b"lyr.", b"lyr.sbom", b"lyr.toml", b"lyr.sbom.cdx", b"lyr.toml.toml", b"a.b"];

#[derive(Serialize, Deserialize, Clone, Debug)]
struct V { v: i64 }

// ---------------------------------------------------------------------------------------------- the operations
/// what the buildpack's callbacks do in one request
#[derive(Clone, Copy, PartialEq)]
enum Bp { Ok, CreateErr, DecideErr }

/// the request field: API + what the buildpack's part does (`Cc`, `Uc`, `Ud` do not exist: no such callback)
fn parse_api(api: &str) -> Option<(&'static str, Bp)> {
    match api { "U" => Some(("U", Bp::Ok)), "C" => Some(("C", Bp::Ok)), "T" => Some(("T", Bp::Ok)), "Cd" => Some(("C", Bp::DecideErr)), "Td" => Some(("T", Bp::DecideErr)), "Tc" => Some(("T", Bp::CreateErr)), _ => None }
}

struct RecreateLayer<'a> { consulted: &'a Cell<bool>, bp: Bp }
impl Layer for RecreateLayer<'_> {
    type Buildpack = TestBuildpack;
    type Metadata = V;
    fn types(&self) -> LayerTypes { LayerTypes { launch: true, build: true, cache: true } }
    fn create(&mut self, _c: &BuildContext<TestBuildpack>, _p: &Path) -> Result<LayerResult<V>, TbError> {
        if self.bp == Bp::CreateErr { return Err(TbError("create".into())); }
        LayerResultBuilder::new(V { v: 7 }).build()
    }
    fn existing_layer_strategy(&mut self, _c: &BuildContext<TestBuildpack>, _d: &LayerData<V>) -> Result<ExistingLayerStrategy, TbError> {
        self.consulted.set(true);
        if self.bp == Bp::DecideErr { return Err(TbError("decide".into())); }
        Ok(ExistingLayerStrategy::Recreate)
    }
    fn migrate_incompatible_metadata(&mut self, _c: &BuildContext<TestBuildpack>, _m: &GenericMetadata) -> Result<MetadataMigration<V>, TbError> {
        self.consulted.set(true);
        if self.bp == Bp::DecideErr { return Err(TbError("decide".into())); }
        Ok(MetadataMigration::RecreateLayer)
    }
}

/// `consulted`: the deciding callback ran (and, unless it failed, decided to delete) before the error arose
fn stage(e: &libcnb::Error<TbError>, consulted: bool) -> &'static str {
    match e {
        libcnb::Error::LayerError(le) => match le {
            LayerError::ReadLayerError(_) | LayerError::CouldNotReadGenericLayerMetadata(_) => "err:read",
            LayerError::DeleteLayerError(_) => "err:delete",
            LayerError::WriteLayerError(_) | LayerError::CouldNotReadLayerAfterCreate(_) | LayerError::IoError(_) | LayerError::UnexpectedMissingLayer => "err:write",
        },
        // the buildpack's own error, by the callback that returned it: the deciding one (nothing was deleted yet), `create` for
        // a layer that did not exist, `create` after the existing layer had been deleted
        libcnb::Error::BuildpackError(TbError(which)) => match which.as_str() { "decide" => "err:decide", "create" if consulted => "err:recreate", "create" => "err:create", _ => "err:other" },
        _ => "err:other",
    }
}

fn state_res<A, B>(s: &LayerState<A, B>) -> &'static str {
    match s {
        LayerState::Restored { .. } => "ok:restored",
        LayerState::Empty { cause: EmptyLayerCause::NewlyCreated } => "ok:new",
        LayerState::Empty { .. } => "ok:recreated",
    }
}

/// run one request of the real API on `<layers>/<name>`
fn do_op(api: &str, layers: &Path, name: &str) -> String {
    let ctx = build_context(layers, layers.parent().unwrap());
    let Ok(lname) = name.parse::<LayerName>() else { return "bad-name".into() };
    let Some((api, bp)) = parse_api(api) else { return "bad-api".into() };
    let decide_fails = bp == Bp::DecideErr;
    match api {
        "U" => match ctx.uncached_layer(lname, UncachedLayerDefinition { build: true, launch: true }) { Ok(r) => state_res(&r.state).into(), Err(e) => stage(&e, false).into() },
        "C" => match ctx.cached_layer(lname, CachedLayerDefinition {
            build: true, launch: true,
            invalid_metadata_action: &|_: &GenericMetadata| -> Result<InvalidMetadataAction<V>, TbError> { if decide_fails { Err(TbError("decide".into())) } else { Ok(InvalidMetadataAction::DeleteLayer) } },
            restored_layer_action: &|_: &V, _: &Path| -> Result<RestoredLayerAction, TbError> { if decide_fails { Err(TbError("decide".into())) } else { Ok(RestoredLayerAction::DeleteLayer) } },
        }) { Ok(r) => state_res(&r.state).into(), Err(e) => stage(&e, false).into() },
        "T" => { let consulted = Cell::new(false);
            match ctx.handle_layer(lname, RecreateLayer { consulted: &consulted, bp }) { Ok(_) => if consulted.get() { "ok:recreated".into() } else { "ok:new".into() }, Err(e) => stage(&e, consulted.get()).into() } }
        _ => "bad-api".into(),
    }
}

// ---------------------------------------------------------------------------------------------- trees
/// `H(target)`: a hard link — another name of the regular file entered (earlier in the list) at path `target`, relative to the root
#[derive(Clone)]
enum Kind { D(u32), F(u32, Vec<u8>), L(Vec<u8>), H(Vec<Vec<u8>>) }
#[derive(Clone)]
struct Entry { path: Vec<Vec<u8>>, kind: Kind }

fn enc_path(p: &[Vec<u8>]) -> String { p.iter().map(|c| hex(c)).collect::<Vec<_>>().join("/") }
fn enc_entry(e: &Entry) -> String {
    match &e.kind {
        Kind::D(m) => format!("D:{}:{:o}", enc_path(&e.path), m),
        Kind::F(m, c) => format!("F:{}:{:o}:{}", enc_path(&e.path), m, if c.is_empty() { "-".into() } else { hex(c) }),
        Kind::L(t) => format!("L:{}:{}", enc_path(&e.path), hex(t)),
        Kind::H(t) => format!("H:{}:{}", enc_path(&e.path), enc_path(t)),
    }
}
fn dec_path(s: &str) -> Option<Vec<Vec<u8>>> { if s.is_empty() { return None; } s.split('/').map(|c| unhex(c).filter(|b| !b.is_empty() && !b.contains(&b'/') && !b.contains(&0) && b != b"." && b != b"..")).collect() }
fn dec_entry(s: &str) -> Option<Entry> {
    let p: Vec<&str> = s.split(':').collect();
    match p.as_slice() {
        ["D", path, m] => Some(Entry { path: dec_path(path)?, kind: Kind::D(u32::from_str_radix(m, 8).ok()?) }),
        ["F", path, m, c] => Some(Entry { path: dec_path(path)?, kind: Kind::F(u32::from_str_radix(m, 8).ok()?, if *c == "-" { vec![] } else { unhex(c)? }) }),
        ["L", path, t] => Some(Entry { path: dec_path(path)?, kind: Kind::L(unhex(t).filter(|t| !t.is_empty() && !t.contains(&0))?) }),
        ["H", path, t] => Some(Entry { path: dec_path(path)?, kind: Kind::H(dec_path(t)?) }),
        _ => None,
    }
}

/// the target layer's `<name>.toml` is recorded as a token: token -> TOML text written to disk
fn toml_text(token: &[u8]) -> Option<&'static str> {
    match token { b"E" => Some(""), b"T" => Some("[types]\nlaunch = true\nbuild = true\ncache = true\n\n[metadata]\nv = 1\n"), b"G" => Some("[metadata]\nw = 2\n"), b"B" => Some("this is = not [toml"), _ => None }
}
/// TOML text found on disk -> token (by the decoded document, not its text)
fn toml_token(text: &[u8]) -> Vec<u8> {
    let Ok(s) = std::str::from_utf8(text) else { return b"B".to_vec() };
    let Ok(doc) = toml::from_str::<LayerContentMetadata<GenericMetadata>>(s) else { return b"B".to_vec() };
    let types = doc.types.map(|t| (t.launch, t.build, t.cache));
    let meta: Vec<(String, Option<i64>)> = doc.metadata.map(|t| t.iter().map(|(k, v)| (k.clone(), v.as_integer())).collect()).unwrap_or_default();
    let is = |k: &str, v: i64| meta.len() == 1 && meta[0].0 == k && meta[0].1 == Some(v);
    match types {
        None if meta.is_empty() => b"E".to_vec(),
        None if is("w", 2) => b"G".to_vec(),
        Some((true, true, true)) if is("v", 1) => b"T".to_vec(),
        Some((true, true, false)) if meta.is_empty() => b"U".to_vec(),
        Some((true, true, true)) if meta.is_empty() => b"C".to_vec(),
        Some((true, true, true)) if is("v", 7) => b"R".to_vec(),
        _ => b"X".to_vec(),
    }
}

fn os_path(root: &Path, comps: &[Vec<u8>]) -> PathBuf { let mut p = root.to_path_buf(); for c in comps { p.push(OsString::from_vec(c.clone())); } p }

fn build(root: &Path, entries: &[Entry], target_toml: &[Vec<u8>]) -> std::io::Result<()> {
    for e in entries {
        let p = os_path(root, &e.path);
        match &e.kind {
            Kind::D(m) => { std::fs::create_dir(&p)?; std::fs::set_permissions(&p, std::fs::Permissions::from_mode(*m))?; }
            Kind::F(m, c) => {
                let bytes: Vec<u8> = if e.path == target_toml { toml_text(c).map(|s| s.as_bytes().to_vec()).unwrap_or_else(|| c.clone()) } else { c.clone() };
                std::fs::write(&p, bytes)?; std::fs::set_permissions(&p, std::fs::Permissions::from_mode(*m))?;
            }
            Kind::L(t) => {
                let target: Vec<u8> = if t.first() == Some(&b'/') { let mut v = root.as_os_str().as_bytes().to_vec(); if t.len() > 1 { v.extend_from_slice(t); } v } else { t.clone() };
                std::os::unix::fs::symlink(OsString::from_vec(target), &p)?;
            }
            Kind::H(t) => {
                // only regular files entered as `F` are linked to (the model's reading of the entry)
                if !entries.iter().any(|x| &x.path == t && matches!(x.kind, Kind::F(..))) { return Err(std::io::Error::from(std::io::ErrorKind::InvalidInput)); }
                std::fs::hard_link(os_path(root, t), &p)?;
            }
        }
    }
    Ok(())
}

fn chown_all(root: &Path) -> std::io::Result<()> {
    std::os::unix::fs::lchown(root, Some(NOBODY), Some(NOBODY))?;
    if std::fs::symlink_metadata(root)?.file_type().is_dir() { for e in std::fs::read_dir(root)? { chown_all(&e?.path())?; } }
    Ok(())
}

/// make everything removable again (never follows links)
fn unlock(p: &Path) {
    if let Ok(md) = std::fs::symlink_metadata(p) { if md.file_type().is_dir() {
        let _ = std::fs::set_permissions(p, std::fs::Permissions::from_mode(0o755));
        if let Ok(rd) = std::fs::read_dir(p) { for e in rd.flatten() { unlock(&e.path()); } }
    } }
}

fn snap(root: &Path, target_toml: &[Vec<u8>]) -> String {
    fn walk(root: &Path, dir: &Path, rel: &mut Vec<Vec<u8>>, target_toml: &[Vec<u8>], out: &mut Vec<(Vec<Vec<u8>>, String)>) {
        let Ok(rd) = std::fs::read_dir(dir) else { out.push((rel.clone(), format!("E {}", enc_path(rel)))); return };
        for e in rd.flatten() {
            let p = e.path();
            rel.push(e.file_name().as_bytes().to_vec());
            let md = std::fs::symlink_metadata(&p).unwrap();
            let mode = md.permissions().mode() & 0o7777;
            if md.file_type().is_symlink() {
                let mut t = std::fs::read_link(&p).unwrap().as_os_str().as_bytes().to_vec();
                let rb = root.as_os_str().as_bytes();
                if t.starts_with(rb) && (t.len() == rb.len() || t[rb.len()] == b'/') { t = if t.len() == rb.len() { b"/".to_vec() } else { t[rb.len()..].to_vec() }; }
                out.push((rel.clone(), format!("L {} {}", enc_path(rel), hex(&t))));
            } else if md.is_dir() {
                out.push((rel.clone(), format!("D {} {:o}", enc_path(rel), mode)));
                walk(root, &p, rel, target_toml, out);
            } else {
                let body = std::fs::read(&p).unwrap_or_else(|_| b"?".to_vec());
                let body = if rel.as_slice() == target_toml { toml_token(&body) } else { body };
                let nlink = if md.nlink() == 1 { String::new() } else { format!(" n{}", md.nlink()) };
                out.push((rel.clone(), format!("F {} {:o} {}{}", enc_path(rel), mode, if body.is_empty() { "-".into() } else { hex(&body) }, nlink)));
            }
            rel.pop();
        }
    }
    let mut out = vec![];
    walk(root, root, &mut vec![], target_toml, &mut out);
    out.sort();
    join("|", &out.into_iter().map(|(_, l)| l).collect::<Vec<_>>())
}

fn run_case(f: &[String]) -> String {
    if f.len() != 4 { return "bad-case".into(); }
    let (api, uid) = (f[0].as_str(), f[1].as_str());
    let Some(name) = unhex(&f[2]).and_then(|b| String::from_utf8(b).ok()) else { return "bad-case".into() };
    let Some(entries) = split_list(&f[3], ";").iter().map(|s| dec_entry(s)).collect::<Option<Vec<Entry>>>() else { return "bad-case".into() };
    // a memory-backed file system when there is one (several checks hammer /tmp at the same time); same semantics for everything observed here
    let shm = Path::new("/dev/shm");
    let tmp = if std::env::var_os("C11_TMP_DEFAULT").is_none() && shm.is_dir() { tempfile::Builder::new().prefix("c11-").tempdir_in(shm).or_else(|_| tempfile::Builder::new().prefix("c11-").tempdir()).unwrap() }
        else { tempfile::Builder::new().prefix("c11-").tempdir().unwrap() };
    std::fs::set_permissions(tmp.path(), std::fs::Permissions::from_mode(0o755)).unwrap();
    let root = tmp.path().join("r");
    std::fs::create_dir(&root).unwrap();
    std::fs::set_permissions(&root, std::fs::Permissions::from_mode(0o755)).unwrap();
    let target_toml = vec![b"layers".to_vec(), format!("{name}.toml").into_bytes()];
    let res = (|| {
        if build(&root, &entries, &target_toml).is_err() { return "bad-tree".to_string(); }
        if uid == "user" && chown_all(&root).is_err() { return "bad-chown".to_string(); }
        let before = snap(&root, &target_toml);
        let layers = root.join("layers");
        // the request runs in a child process (a crash or a hang of the code under test must not take the harness down);
        // `user` cases run it as uid 65534
        let exe = std::env::current_exe().unwrap();
        let mut cmd = match uid {
            "root" => std::process::Command::new(&exe),
            "user" => { let mut c = std::process::Command::new("setpriv"); c.args(["--reuid=65534", "--regid=65534", "--clear-groups"]).arg(&exe); c }
            _ => return "bad-uid".to_string(),
        };
        cmd.arg("op").arg(api).arg(&layers).arg(&name).stdin(std::process::Stdio::null()).stdout(std::process::Stdio::piped()).stderr(std::process::Stdio::null());
        let r = match cmd.spawn() {
            Err(_) => if uid == "user" { "no-setpriv".to_string() } else { "no-child".to_string() },
            Ok(mut child) => {
                let t0 = std::time::Instant::now();
                loop {
                    match child.try_wait() {
                        Ok(Some(_)) => break,
                        Ok(None) if t0.elapsed().as_secs() >= 30 => { let _ = child.kill(); break; }
                        Ok(None) => std::thread::sleep(std::time::Duration::from_millis(2)),
                        Err(_) => break,
                    }
                }
                let timed_out = t0.elapsed().as_secs() >= 30;
                match child.wait_with_output() {
                    Ok(o) if o.status.success() => String::from_utf8_lossy(&o.stdout).trim().to_string(),
                    Ok(_) if timed_out => "timeout".to_string(),
                    Ok(_) => "crash".to_string(),
                    Err(_) => "crash".to_string(),
                }
            }
        };
        let after = snap(&root, &target_toml);
        format!("{r}@{before}@{after}")
    })();
    unlock(tmp.path());
    res
}

// ---------------------------------------------------------------------------------------------- generation
struct Gen<'a> { r: &'a mut Rng, entries: Vec<Entry>, name: Vec<u8>, maxdepth: usize, budget: usize, links: Vec<&'static str>, oddmode: bool, hards: Vec<&'static str>, fresh: usize }

const DIR_MODES: [u32; 9] = [0o755, 0o755, 0o700, 0o500, 0o300, 0o000, 0o555, 0o777, 0o755];
const FILE_MODES: [u32; 6] = [0o644, 0o644, 0o600, 0o444, 0o000, 0o755];
const NAMES: [&[u8]; 16] = [b"a", b"b", b"c", b"d", b"e", b"f0", b"g.txt", b"h h", b"\xff\xfe", b".hid", b"l1", b"l2", b"l3", b"x", b"y", b"z"];

impl Gen<'_> {
    fn d(&mut self, path: Vec<Vec<u8>>, mode: u32) { self.entries.push(Entry { path, kind: Kind::D(mode) }); }
    fn f(&mut self, path: Vec<Vec<u8>>, mode: u32, c: &[u8]) { self.entries.push(Entry { path, kind: Kind::F(mode, c.to_vec()) }); }
    fn l(&mut self, path: Vec<Vec<u8>>, t: Vec<u8>) { self.entries.push(Entry { path, kind: Kind::L(t) }); }
    fn h(&mut self, path: Vec<Vec<u8>>, target: Vec<Vec<u8>>) { self.entries.push(Entry { path, kind: Kind::H(target) }); }
    /// one hard link involving the new name `p` inside the layer: to a file outside (canary tree, root, sibling layer; existing or
    /// freshly made with a random mode), to a file inside the layer, or an outside name for a new file at `p`
    fn hard_link(&mut self, p: Vec<Vec<u8>>) {
        let lp = vec![b"layers".to_vec(), self.name.clone()];
        let own = own_names(&self.name);
        let is_own = |q: &Vec<Vec<u8>>| q.starts_with(&lp) || (q.len() == 2 && q[0] == b"layers" && own.contains(&q[1]));
        let files = |g: &Self, inside: bool| -> Vec<Vec<Vec<u8>>> { g.entries.iter().filter(|e| matches!(e.kind, Kind::F(..)) && if inside { e.path.starts_with(&lp) } else { !is_own(&e.path) }).map(|e| e.path.clone()).collect() };
        let readonly = |g: &Self, q: &Vec<Vec<u8>>| g.entries.iter().any(|e| &e.path == q && matches!(e.kind, Kind::F(m, _) if m & 0o222 == 0));
        let c = |xs: &[&[u8]]| xs.iter().map(|x| x.to_vec()).collect::<Vec<_>>();
        match self.r.below(10) {
            // an existing outside file: beside the layers directory (2 in 5), in a sibling layer (2 in 5), a read-only one (1 in 5)
            0..=4 => { let all = files(self, false);
                let want = self.r.below(5);
                let mut cands: Vec<Vec<Vec<u8>>> = all.iter().filter(|q| match want { 0 | 1 => q[0] != b"layers", 2 | 3 => q[0] == b"layers", _ => readonly(self, q) }).cloned().collect();
                if cands.is_empty() { cands = all; }
                let t = self.r.pick(&cands).clone();
                if readonly(self, &t) { self.hards.push("out-readonly"); }
                self.hards.push(if t[0] == b"layers" { "out-sibling" } else { "out" }); self.h(p, t); }
            5 | 6 => { self.fresh += 1; let m = *self.r.pick(&FILE_MODES);
                let t = if self.r.chance(1, 3) { c(&[b"layers", b"other", format!("s{}", self.fresh).as_bytes()]) } else { c(&[b"canary", format!("x{}", self.fresh).as_bytes()]) };
                self.f(t.clone(), m, b"shared"); self.hards.push("out-fresh"); self.h(p, t); }
            7 | 8 => { let cands = files(self, true);
                if cands.is_empty() { let m = *self.r.pick(&FILE_MODES); self.f(p, m, b"solo"); } else { let t = self.r.pick(&cands).clone(); self.hards.push("in-in"); self.h(p, t); } }
            _ => { self.fresh += 1; let m = *self.r.pick(&FILE_MODES); self.f(p.clone(), m, b"inner");
                let o = if self.r.chance(1, 3) { c(&[b"layers", b"other", format!("o{}", self.fresh).as_bytes()]) } else { c(&[b"canary", b"d1", format!("o{}", self.fresh).as_bytes()]) };
                self.hards.push("from-out"); self.h(o, p); }
        }
    }
    fn ups(n: usize) -> Vec<u8> { "../".repeat(n).into_bytes() }
    /// a symlink target for a link living in the directory `depth` levels below the layer directory
    fn link_target(&mut self, depth: usize, siblings: &[Vec<u8>]) -> (Vec<u8>, &'static str) {
        let up_root = Self::ups(depth + 2);
        let up_layers = Self::ups(depth + 1);
        let cat = |a: &[u8], b: &[u8]| { let mut v = a.to_vec(); v.extend_from_slice(b); v };
        let n = self.name.clone();
        match self.r.below(22) {
            0 => (cat(&up_root, b"canary/d1"), "out-dir-rel"),
            1 => (b"/canary/d1".to_vec(), "out-dir-abs"),
            2 => (cat(&up_root, b"canary/f1"), "out-file-rel"),
            3 => (b"/canary/f1".to_vec(), "out-file-abs"),
            4 => (cat(&up_root, b"canary/d0"), "out-dir-rel"),
            5 => (cat(&up_root, b"canary/dz/z"), "out-file-rel"),
            6 => (b"/cfile".to_vec(), "out-file-abs"),
            7 => (cat(&up_layers, &cat(&n, b"x")), "sibling-dir"),
            8 => (cat(&up_layers, &cat(&n, b"x.toml")), "sibling-file"),
            9 => (cat(b"/layers/", &cat(&n, b"x")), "sibling-dir"),
            10 => (cat(&up_layers, &n), "in-dir"),
            11 => (b".".to_vec(), "in-dir"),
            12 => (if depth == 0 { b".".to_vec() } else { b"..".to_vec() }, "in-dir"),
            13 => (b"..".to_vec(), if depth == 0 { "out-dir-rel" } else { "in-dir" }),
            14 | 15 | 16 => if siblings.is_empty() { (b"nope".to_vec(), "dangling") } else { (self.r.pick(siblings).clone(), "in-entry") },
            17 => (b"nope".to_vec(), "dangling"),
            18 => (b"/no/such".to_vec(), "dangling"),
            19 => (cat(&up_root, b"canary/missing"), "dangling"),
            20 => (cat(&cat(b"/layers/", &n), b"/a"), "in-abs"),
            _ => (cat(&up_root, b"canary/d1/sub/../g"), "out-file-rel"),
        }
    }
    fn fill(&mut self, dir: &[Vec<u8>], depth: usize) {
        let count = if depth == 0 { 1 + self.r.below(6) as usize } else { self.r.below(5) as usize };
        let mut pool: Vec<&[u8]> = NAMES.to_vec();
        self.r.shuffle(&mut pool);
        let mut made: Vec<Vec<u8>> = vec![];
        let mut i = 0;
        while i < count && self.budget > 0 && pool.len() >= 2 {
            i += 1; self.budget -= 1;
            let nm = pool.pop().unwrap().to_vec();
            let mut p = dir.to_vec(); p.push(nm.clone());
            let roll = self.r.below(100);
            if roll < 33 && depth < self.maxdepth {
                let m = *self.r.pick(&DIR_MODES);
                if m & 0o700 != 0o700 { self.oddmode = true; }
                self.d(p.clone(), m);
                self.fill(&p, depth + 1);
            } else if roll < 54 {
                let m = *self.r.pick(&FILE_MODES);
                let c: Vec<u8> = (0..self.r.below(4)).map(|_| b'a' + self.r.below(26) as u8).collect();
                self.f(p, m, &c);
            } else if roll < 62 {
                self.hard_link(p);
            } else if roll < 70 {
                // a two-link cycle, or a link to itself
                if self.r.chance(1, 3) { self.l(p, nm.clone()); self.links.push("cycle"); }
                else { let other = pool.pop().unwrap().to_vec(); let mut q = dir.to_vec(); q.push(other.clone()); self.l(p, other); self.l(q, nm.clone()); self.links.push("cycle"); self.budget = self.budget.saturating_sub(1); }
            } else {
                let (t, kind) = self.link_target(depth, &made);
                self.l(p, t); self.links.push(kind);
            }
            made.push(nm);
        }
    }
}

/// the target layer's own paths below `layers/` (directory, metadata file, SBOM files) as entry names
fn own_names(n: &[u8]) -> Vec<Vec<u8>> {
    let cat = |a: &[u8], b: &[u8]| { let mut v = a.to_vec(); v.extend_from_slice(b); v };
    vec![n.to_vec(), cat(n, b".toml"), cat(n, b".sbom.cdx.json"), cat(n, b".sbom.spdx.json"), cat(n, b".sbom.syft.json")]
}

/// a sibling layer `<s>/` (with a file, every second one also a read-only sub-directory), `<s>.toml`, `<s>.sbom.<fmt>.json`
fn add_sibling(g: &mut Gen, sname: &[u8], k: usize) {
    let cat = |a: &[u8], b: &[u8]| { let mut v = a.to_vec(); v.extend_from_slice(b); v };
    if sname.is_empty() || sname == b"." || sname == b".." || sname == b"other" { return; }
    let reserved = own_names(&g.name);
    let free = |g: &Gen, e: &[u8]| !reserved.iter().any(|r| r == e) && !g.entries.iter().any(|x| x.path.len() == 2 && x.path[0] == b"layers" && x.path[1] == e);
    if free(g, sname) {
        g.d(vec![b"layers".to_vec(), sname.to_vec()], if k % 3 == 1 { 0o700 } else { 0o755 });
        g.f(vec![b"layers".to_vec(), sname.to_vec(), b"keep".to_vec()], 0o644, b"keep");
        if k % 2 == 0 { g.d(vec![b"layers".to_vec(), sname.to_vec(), b"d".to_vec()], 0o500); g.f(vec![b"layers".to_vec(), sname.to_vec(), b"d".to_vec(), b"in".to_vec()], 0o400, b"in"); }
    }
    let t = cat(sname, b".toml");
    if free(g, &t) { g.f(vec![b"layers".to_vec(), t], if k % 2 == 0 { 0o644 } else { 0o600 }, b"[types]\nlaunch = true\n"); }
    for (suf, body) in [("cdx.json", b"{}".as_slice()), ("spdx.json", b"{\"s\":1}"), ("syft.json", b"[]")] {
        let f = cat(sname, format!(".sbom.{suf}").as_bytes());
        if free(g, &f) { g.f(vec![b"layers".to_vec(), f], 0o644, body); }
    }
}

fn surroundings(g: &mut Gen, layers_mode: u32) {
    let n = g.name.clone();
    let cat = |a: &[u8], b: &[u8]| { let mut v = a.to_vec(); v.extend_from_slice(b); v };
    let c = |xs: &[&[u8]]| xs.iter().map(|x| x.to_vec()).collect::<Vec<_>>();
    g.d(c(&[b"canary"]), 0o755);
    g.f(c(&[b"canary", b"f1"]), 0o644, b"canary-f1");
    g.d(c(&[b"canary", b"d1"]), 0o755);
    g.f(c(&[b"canary", b"d1", b"g"]), 0o600, b"g");
    g.d(c(&[b"canary", b"d1", b"sub"]), 0o700);
    g.f(c(&[b"canary", b"d1", b"sub", b"h"]), 0o644, b"");
    g.d(c(&[b"canary", b"d0"]), 0o500);
    g.f(c(&[b"canary", b"d0", b"k"]), 0o444, b"k");
    g.d(c(&[b"canary", b"dz"]), 0o000);
    g.f(c(&[b"canary", b"dz", b"z"]), 0o600, b"z");
    g.l(c(&[b"canary", b"back"]), b"../layers".to_vec());
    g.f(c(&[b"cfile"]), 0o640, b"cfile");
    g.d(c(&[b"layers"]), 0o755);
    // sibling layers whose names path arithmetic on `<name>`, `<name>.toml`, `<name>.sbom.<fmt>.json` could confuse with the
    // target: the name extended (`<n>x`, `<n>.x`, `<n>.sbom`, `<n>.toml` when that path is free), the name shortened by one byte,
    // and every stem of the name (`a.b.c` -> `a.b`, `a`; `a.` -> `a`). Each has its own directory, `<s>.toml` and all three
    // SBOM files; whatever would collide with one of the target's own paths (or is already there) is left out.
    let mut sibs: Vec<Vec<u8>> = vec![cat(&n, b"x"), cat(&n, b".x"), cat(&n, b".sbom"), cat(&n, b".toml"), cat(&n, b".sbom.cdx")];
    if n.len() > 1 { sibs.push(n[..n.len() - 1].to_vec()); }
    let mut stem = n.clone();
    while let Some(i) = stem.iter().rposition(|b| *b == b'.') { stem.truncate(i); if stem.is_empty() { break; } sibs.push(stem.clone()); }
    for (k, sname) in sibs.iter().enumerate() { add_sibling(g, sname, k); }
    g.f(vec![b"layers".to_vec(), cat(&n, b".tomlx")], 0o644, b"near miss");
    g.d(c(&[b"layers", b"other"]), 0o700);
    g.l(c(&[b"layers", b"other", b"peer"]), cat(b"../", &n));
    g.f(c(&[b"layers", b"other.toml"]), 0o644, b"[metadata]\nk = 1\n");
    // the layers directory's own mode last (it is applied when the entry is created; root builds the tree)
    if layers_mode != 0o755 { let i = g.entries.iter().position(|e| e.path == c(&[b"layers"])).unwrap(); g.entries[i].kind = Kind::D(layers_mode); }
}

const FILE_TOPS: [&str; 5] = ["top-hard-file", "top-hard-file-rw", "top-file-644", "top-file-444", "top-file-000"];

struct Shape { top: &'static str, toml: &'static str, sboms: [bool; 3], layers_mode: u32 }

fn make_case(api: &str, uid: &str, name: &[u8], kindtag: &str, shape: &Shape, r: &mut Rng, maxdepth: usize, fixed: Option<&dyn Fn(&mut Gen, &[Vec<u8>])>) -> Case {
    let mut g = Gen { r, entries: vec![], name: name.to_vec(), maxdepth, budget: 28, links: vec![], oddmode: false, hards: vec![], fresh: 0 };
    surroundings(&mut g, shape.layers_mode);
    let lp = vec![b"layers".to_vec(), name.to_vec()];
    let mut present = true;
    match shape.top {
        "dir" => { let m = if g.r.chance(1, 5) { *g.r.pick(&DIR_MODES) } else { 0o755 }; if m & 0o700 != 0o700 { g.oddmode = true; } g.d(lp.clone(), m); match fixed { Some(f) => f(&mut g, &lp), None => g.fill(&lp, 0) } }
        "absent" => { present = false; }
        // `<layers>/<name>` itself a regular file that has a second name outside the layer (mode 0444 / 0644): defect D8
        "top-hard-file" => { g.h(lp.clone(), vec![b"canary".to_vec(), b"d0".to_vec(), b"k".to_vec()]); g.hards.push("top"); }
        "top-hard-file-rw" => { g.h(lp.clone(), vec![b"canary".to_vec(), b"f1".to_vec()]); g.hards.push("top"); }
        // `<layers>/<name>` a regular file with no other name
        "top-file-644" => { g.f(lp.clone(), 0o644, b"plain"); }
        "top-file-444" => { g.f(lp.clone(), 0o444, b"plain"); }
        "top-file-000" => { g.f(lp.clone(), 0o000, b""); }
        t => { let target: &[u8] = match t {
                "top-out-dir-rel" => b"../canary/d1", "top-out-dir-abs" => b"/canary/d1", "top-out-ro-dir" => b"../canary/d0", "top-out-noexec-dir" => b"../canary/dz",
                "top-out-file" => b"../canary/f1", "top-sibling" => b"other", "top-dangling" => b"nope", "top-loop" => b"", _ => b"../canary/d1" };
            let target = if t == "top-loop" { name.to_vec() } else { target.to_vec() };
            g.l(lp.clone(), target); g.links.push("top"); }
    }
    if shape.toml != "~" { let mut n = name.to_vec(); n.extend_from_slice(b".toml"); g.f(vec![b"layers".to_vec(), n], 0o644, shape.toml.as_bytes()); }
    for (i, suf) in ["cdx.json", "spdx.json", "syft.json"].iter().enumerate() { if shape.sboms[i] { let mut n = name.to_vec(); n.extend_from_slice(format!(".sbom.{suf}").as_bytes()); g.f(vec![b"layers".to_vec(), n], 0o644, b"{\"old\":1}"); } }
    let depth = g.entries.iter().filter(|e| e.path.starts_with(&lp)).map(|e| e.path.len() - 2).max().unwrap_or(0);
    let mut lk: Vec<&str> = g.links.clone(); lk.sort(); lk.dedup();
    let mut hk: Vec<&str> = g.hards.clone(); hk.sort(); hk.dedup();
    let nontrivial = present && shape.toml != "B" && (!g.links.is_empty() || g.oddmode || !g.hards.is_empty() || shape.top.starts_with("top-file"));
    let bp = match api { "Tc" => "create-err", "Td" | "Cd" => "decide-err", _ => "ok" };
    let mut tags = vec![("kind".to_string(), format!("{kindtag}-{api}-{uid}")), ("bp".into(), bp.into()), ("top".into(), shape.top.into()), ("toml".into(), shape.toml.into()), ("depth".into(), depth.to_string()),
        ("links".into(), g.links.len().min(6).to_string()), ("hard".into(), g.hards.len().min(6).to_string()), ("oddmode".into(), u8::from(g.oddmode).to_string()), ("layersmode".into(), format!("{:o}", shape.layers_mode))];
    for k in lk { tags.push((format!("link-{k}"), "1".into())); }
    for k in hk { tags.push((format!("hard-{k}"), "1".into())); }
    Case { fields: vec![api.into(), uid.into(), hex(name), join(";", &g.entries.iter().map(enc_entry).collect::<Vec<_>>())], tags, nontrivial }
}

fn generate(tier: &str, seed: u64, emit: &mut dyn FnMut(Case)) {
    let maxdepth = if tier == "thorough" { 5 } else { 3 };
    // 1. directed: every top-level shape x metadata file state, and hand-made contents, for every API and both users
    let tops = ["dir", "top-out-dir-rel", "top-out-dir-abs", "top-out-ro-dir", "top-out-noexec-dir", "top-out-file", "top-sibling", "top-dangling", "top-loop", "absent"];
    let c = |xs: &[&[u8]], base: &[Vec<u8>]| { let mut v = base.to_vec(); v.extend(xs.iter().map(|x| x.to_vec())); v };
    type Fixed = Box<dyn Fn(&mut Gen, &[Vec<u8>])>;
    let contents: Vec<(&str, Fixed)> = vec![
        ("empty", Box::new(|_g, _l| {})),
        ("readonly-nested", Box::new(move |g, l| { g.oddmode = true; g.d(c(&[b"ro"], l), 0o500); g.f(c(&[b"ro", b"f"], l), 0o444, b"x"); g.d(c(&[b"ro", b"deep"], l), 0o555); g.f(c(&[b"ro", b"deep", b"f"], l), 0o400, b"y"); })),
        ("noexec-nested", Box::new(move |g, l| { g.oddmode = true; g.d(c(&[b"nx"], l), 0o600); g.f(c(&[b"nx", b"f"], l), 0o644, b"x"); g.d(c(&[b"zero"], l), 0); g.d(c(&[b"zero", b"in"], l), 0); g.f(c(&[b"zero", b"in", b"f"], l), 0, b""); })),
        ("outside-links", Box::new(move |g, l| { g.links.push("out-dir-rel"); g.l(c(&[b"o1"], l), b"../../canary/d1".to_vec()); g.l(c(&[b"o2"], l), b"/canary/d1".to_vec()); g.l(c(&[b"o3"], l), b"../../canary/f1".to_vec()); g.l(c(&[b"o4"], l), b"/cfile".to_vec()); g.l(c(&[b"o5"], l), b"../..".to_vec()); g.l(c(&[b"o6"], l), b"..".to_vec());
            g.d(c(&[b"sub"], l), 0o755); g.l(c(&[b"sub", b"o7"], l), b"../../../canary/d0".to_vec()); g.l(c(&[b"sub", b"o8"], l), b"../../other".to_vec()); })),
        ("cycles", Box::new(move |g, l| { g.links.push("cycle"); g.l(c(&[b"p"], l), b"q".to_vec()); g.l(c(&[b"q"], l), b"p".to_vec()); g.l(c(&[b"s"], l), b"s".to_vec()); g.d(c(&[b"sub"], l), 0o700); g.l(c(&[b"sub", b"up"], l), b"..".to_vec()); g.l(c(&[b"sub", b"me"], l), b".".to_vec()); g.l(c(&[b"dang"], l), b"nope".to_vec()); g.l(c(&[b"dang2"], l), b"/no/such".to_vec()); })),
    ];
    // 0. directed hard links, first (own random stream: the cases below keep theirs): for every API, user and file mode, a layer whose
    // names share inodes with a file in the canary tree (twice: also from inside a read-only directory), in a sibling layer, at the
    // root, with files in a read-only / a non-searchable canary directory, with each other, and outside names of files that live in
    // the layer; then the layer's SBOM file being such a name
    let mut hidx = 0u64;
    for api in ["U", "C", "T"] { for uid in ["root", "user"] {
        for mode in [0o444u32, 0o400, 0o000, 0o644, 0o755] {
            hidx += 1; let mut r = Rng::for_case(seed ^ 0xC11B, hidx);
            let shape = Shape { top: "dir", toml: "T", sboms: [true, false, true], layers_mode: 0o755 };
            let f = move |g: &mut Gen, l: &[Vec<u8>]| {
                g.oddmode = true;
                g.f(c(&[b"canary", b"hl"], &[]), mode, b"shared-1");
                g.f(c(&[b"layers", b"other", b"shared"], &[]), mode, b"shared-2");
                g.f(c(&[b"hroot"], &[]), mode, b"");
                g.h(c(&[b"h1"], l), c(&[b"canary", b"hl"], &[]));
                g.d(c(&[b"ro"], l), 0o500); g.h(c(&[b"ro", b"h1b"], l), c(&[b"canary", b"hl"], &[]));
                g.h(c(&[b"h2"], l), c(&[b"layers", b"other", b"shared"], &[]));
                g.d(c(&[b"sub"], l), 0o755); g.h(c(&[b"sub", b"h3"], l), c(&[b"hroot"], &[]));
                g.h(c(&[b"k"], l), c(&[b"canary", b"d0", b"k"], &[]));
                g.h(c(&[b"z"], l), c(&[b"canary", b"dz", b"z"], &[]));
                g.f(c(&[b"a"], l), mode, b"aa"); g.h(c(&[b"sub", b"a2"], l), c(&[b"a"], l));
                g.f(c(&[b"inner"], l), mode, b"inner"); g.h(c(&[b"canary", b"from-in"], &[]), c(&[b"inner"], l));
                g.f(c(&[b"ro", b"inner2"], l), mode, b"i2"); g.h(c(&[b"layers", b"other", b"from-in2"], &[]), c(&[b"ro", b"inner2"], l));
                for k in ["out", "out", "out-sibling", "out", "out", "out", "in-in", "from-out", "from-out"] { g.hards.push(k); }
            };
            let mut cs = make_case(api, uid, b"lyr", "directed-hard", &shape, &mut r, 1, Some(&f)); cs.tags.push(("content".into(), format!("hard-{mode:o}"))); emit(cs);
        }
        // the layer's own SBOM file is a second name of an outside read-only file; one inside name of the same inode as well
        hidx += 1; let mut r = Rng::for_case(seed ^ 0xC11B, hidx);
        let shape = Shape { top: "dir", toml: "T", sboms: [true, false, true], layers_mode: 0o755 };
        let f = move |g: &mut Gen, l: &[Vec<u8>]| {
            g.h(c(&[b"layers", b"lyr.sbom.spdx.json"], &[]), c(&[b"canary", b"d0", b"k"], &[]));
            g.h(c(&[b"k"], l), c(&[b"canary", b"d0", b"k"], &[]));
            g.hards.push("sbom"); g.hards.push("out");
        };
        let mut cs = make_case(api, uid, b"lyr", "directed-hard", &shape, &mut r, 1, Some(&f)); cs.tags.push(("content".into(), "hard-sbom".into())); emit(cs);
        // `<layers>/<name>` itself a regular file: a second name of a canary file (D8), or a file with no other name
        for top in FILE_TOPS { for toml in ["T", "~"] {
            hidx += 1; let mut r = Rng::for_case(seed ^ 0xC11B, hidx);
            let shape = Shape { top, toml, sboms: [toml == "T", false, false], layers_mode: 0o755 };
            emit(make_case(api, uid, b"lyr", "directed-hard", &shape, &mut r, 1, None));
        } }
    } }
    // 0b. directed: the buildpack's part fails (own random stream). `Tc`: `Layer::create` returns Err - after the deletion when the
    // layer existed (both deciding routes: a typed document -> existing_layer_strategy, any other document -> migrate_incompatible_metadata);
    // `Td` / `Cd`: the deciding callback returns Err before anything is deleted. Every top-level shape x metadata-file state with
    // SBOM files present, the hand-made contents, a hard-linked layer, confusable names.
    let mut bidx = 0u64;
    for api in ["Tc", "Td", "Cd"] { for uid in ["root", "user"] {
        for top in tops { for toml in ["T", "~", "E", "G", "B"] {
            if top != "dir" && top != "top-out-dir-rel" && top != "absent" && toml != "T" && toml != "~" { continue; }
            if api != "Tc" && toml == "B" { continue; }
            bidx += 1; let mut r = Rng::for_case(seed ^ 0xC11D, bidx);
            let shape = Shape { top, toml, sboms: [true, bidx % 2 == 0, top == "dir"], layers_mode: 0o755 };
            emit(make_case(api, uid, b"lyr", "directed-bp", &shape, &mut r, 1, if top == "dir" { Some(&*contents[(bidx % 5) as usize].1) } else { None }));
        } }
        for (cname, f) in &contents { for toml in ["T", "G"] { if api != "Tc" && toml == "G" { continue; }
            bidx += 1; let mut r = Rng::for_case(seed ^ 0xC11D, bidx);
            let shape = Shape { top: "dir", toml, sboms: [true, true, true], layers_mode: 0o755 };
            let mut cs = make_case(api, uid, b"my-layer.1", "directed-bp", &shape, &mut r, 1, Some(&**f)); cs.tags.push(("content".into(), (*cname).into())); emit(cs); } }
        for top in ["top-hard-file", "top-file-444"] { bidx += 1; let mut r = Rng::for_case(seed ^ 0xC11D, bidx);
            let shape = Shape { top, toml: "T", sboms: [true, false, true], layers_mode: 0o755 };
            emit(make_case(api, uid, b"lyr", "directed-bp", &shape, &mut r, 1, None)); }
        for nm in [b"lyr.x".as_slice(), b"lyr.", b"lyr.toml", b"lyr.sbom", b"a.b"] { bidx += 1; let mut r = Rng::for_case(seed ^ 0xC11D, bidx);
            let shape = Shape { top: "dir", toml: "T", sboms: [true, true, true], layers_mode: 0o755 };
            let mut cs = make_case(api, uid, nm, "directed-bp", &shape, &mut r, 1, Some(&*contents[1].1)); cs.tags.push(("names".into(), "confusable".into())); emit(cs); }
        if uid == "user" { for lm in [0o555u32, 0o300] { bidx += 1; let mut r = Rng::for_case(seed ^ 0xC11D, bidx);
            let shape = Shape { top: "dir", toml: "T", sboms: [true, false, false], layers_mode: lm };
            emit(make_case(api, uid, b"lyr", "directed-bp", &shape, &mut r, 1, Some(&*contents[1].1))); } }
    } }
    let mut idx = 0u64;
    for api in ["U", "C", "T"] { for uid in ["root", "user"] {
        for top in tops { for toml in ["T", "~", "E", "G", "B"] {
            if top != "dir" && top != "top-out-dir-rel" && top != "absent" && toml != "T" && toml != "~" { continue; }
            idx += 1; let mut r = Rng::for_case(seed ^ 0xC11, idx);
            let shape = Shape { top, toml, sboms: [top != "absent", false, top == "dir"], layers_mode: 0o755 };
            emit(make_case(api, uid, b"lyr", "directed", &shape, &mut r, 1, if top == "dir" { Some(&*contents[1].1) } else { None }));
        } }
        for (cname, f) in &contents { idx += 1; let mut r = Rng::for_case(seed ^ 0xC11, idx);
            let shape = Shape { top: "dir", toml: "T", sboms: [true, true, true], layers_mode: 0o755 };
            let mut cs = make_case(api, uid, b"my-layer.1", "directed", &shape, &mut r, 1, Some(&**f)); cs.tags.push(("content".into(), (*cname).into())); emit(cs); }
        for nm in LAYER_NAMES { for toml in ["T", "~"] { idx += 1; let mut r = Rng::for_case(seed ^ 0xC11, idx);
            let shape = Shape { top: "dir", toml, sboms: [true, true, true], layers_mode: 0o755 };
            let mut cs = make_case(api, uid, nm, "directed", &shape, &mut r, 1, Some(&*contents[1].1)); cs.tags.push(("names".into(), "confusable".into())); emit(cs); } }
        if uid == "user" { for lm in [0o555u32, 0o300, 0o600, 0o000, 0o700] { for top in ["dir", "top-out-dir-rel", "absent"] { idx += 1; let mut r = Rng::for_case(seed ^ 0xC11, idx);
            let shape = Shape { top, toml: "T", sboms: [true, false, false], layers_mode: lm };
            emit(make_case(api, uid, b"lyr", "directed", &shape, &mut r, 1, if top == "dir" { Some(&*contents[1].1) } else { None })); } } }
    } }
    // 2. sampled trees
    let total: u64 = if tier == "thorough" { 40_000 } else { 2_000 };
    let samples = total.saturating_sub(idx + hidx + bidx);
    for i in 0..samples {
        let mut r = Rng::for_case(seed, i);
        // 5 in 12 of the sampled requests with a failing callback (create three times as often as each deciding one)
        let api = *r.pick(&["U", "U", "C", "C", "T", "T", "T", "Tc", "Tc", "Tc", "Td", "Cd"]);
        let uid = if r.chance(2, 5) { "user" } else { "root" };
        let name: &[u8] = *r.pick(&LAYER_NAMES);
        let top = match r.below(100) { 0..=83 => "dir", 84..=94 => *r.pick(&tops[1..9]), 95..=97 => *r.pick(&FILE_TOPS), _ => "absent" };
        let toml = match r.below(100) { 0..=19 => "~", 20..=34 => "E", 35..=69 => "T", 70..=91 => "G", _ => "B" };
        let sboms = if top == "absent" { [false; 3] } else { [r.chance(1, 3), r.chance(1, 3), r.chance(1, 3)] };
        let layers_mode = if uid == "user" && r.chance(1, 4) { *r.pick(&[0o555u32, 0o300, 0o600, 0o000, 0o700, 0o500]) } else { 0o755 };
        emit(make_case(api, uid, name, "rnd", &Shape { top, toml, sboms, layers_mode }, &mut r, maxdepth, None));
    }
}

fn main() {
    let args: Vec<String> = std::env::args().collect();
    // files and directories the code under test creates get their mode from the umask: pin it (std has no umask call)
    if std::env::var_os("C11_UMASK").is_none() {
        use std::os::unix::process::CommandExt;
        let e = std::process::Command::new("sh").arg("-c").arg("umask 022; exec \"$0\" \"$@\"").arg(std::env::current_exe().unwrap()).args(&args[1..]).env("C11_UMASK", "1").exec();
        eprintln!("c11: cannot re-execute under sh: {e}"); std::process::exit(2);
    }
    if args.get(1).map(String::as_str) == Some("op") {
        // child mode (runs as uid 65534): one request, result on stdout
        std::panic::set_hook(Box::new(|_| {}));
        let r = std::panic::catch_unwind(|| do_op(&args[2], Path::new(&args[3]), &args[4])).unwrap_or_else(|_| "PANIC".into());
        println!("{r}");
        return;
    }
    main_loop_jobs("c11", 12, &generate, &run_case);
}
