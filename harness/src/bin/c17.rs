//! C17 correspondence: configurations → the real `TestRunner::build` / `start_container` / `run_shell_command` /
//! `shell_exec` / `download_sbom_files` / `rebuild` (child process `trun`, stand-in docker/pack recording argv).
//! Observation: the exact argv of every command (random names renamed by first occurrence), the app-dir contents
//! pack saw, whether the fixture changed, what is left in TMPDIR.
#[path = "../lct/mod.rs"]
mod lct;
use cnbv::{Case, Rng};
use lct::*;

/// strings that are hostile to a careless command line: leading dashes, `=`, spaces, empty, quotes for a shell,
/// Unicode, option look-alikes of docker and pack
const HOSTILE: &[&str] = &[
    "", "-", "--", "--env", "-e", "--entrypoint=x", "--rm", "--detach", "-b=c", "--x", "--buildpack", "--path=/", "a b", " lead", "trail ",
    "k=v", "=x", "a==b", "é", "日本語 テスト", "it's", "$HOME", "a\\b", "x;y", "*", "--mount", "type=bind", "-p", "--publish=1:2", "--name",
    "--trust-builder", "--", "--force",
];
const PLAIN: &[&str] = &["web", "worker", "echo", "hello", "heroku/builder:24", "heroku/procfile", "libcnb/test", "value", "1", "bash -c true"];
const KEYS: &[&str] = &["PORT", "A", "B_C", "-e", "--env", "a b", "é", "K.1", "x-y", "PATH", "_", "0"];
const SRC: &[&str] = &["/src", "/src dir", "./cache", "cache", "a/../b", "./a//b", "/x=1", "/-t", "--mount", "-v", "/é", "/a/b/c", "a/b", "a-b", "/tmp/x y/z", "rel/./p"];
const DST: &[&str] = &["/dst", "/workspace/cache", "/t=1", "/-t", "/a b", "dst", "--target", "/é/ü"];
const META: &[&str] = &["/src,a", "/src,readonly", "/a\"b", "/line\nbreak", "x,y", ",", "a,b,c", "/cr\rx"];
const BP_META: &[&str] = &["x,y", "heroku/a,heroku/b", "\"quoted\"", "a\nb", ",lead", "trail,"];

fn s(x: &str) -> String { x.to_string() }
fn pk(r: &mut Rng, pool: &[&str]) -> String { pool[r.below(pool.len() as u64) as usize].to_string() }

fn any_string(r: &mut Rng) -> String { if r.chance(2, 3) { pk(r, HOSTILE) } else { pk(r, PLAIN) } }

fn distinct_paths(r: &mut Rng, n: usize, pool: &[&str]) -> Vec<String> {
    // distinct as `PathBuf`s (the configuration is a HashMap keyed by PathBuf)
    let mut out: Vec<String> = vec![];
    let mut tries = 0;
    while out.len() < n && tries < 50 {
        tries += 1;
        let c = pk(r, pool);
        if !out.iter().any(|o| std::path::PathBuf::from(o) == std::path::PathBuf::from(&c)) { out.push(c); }
    }
    out
}

fn gen_ccfg(r: &mut Rng, meta_mount: bool) -> CCfg {
    let entrypoint = if r.chance(1, 2) { Some(any_string(r)) } else { None };
    let command = if r.chance(2, 3) { Some((0..r.below(4)).map(|_| any_string(r)).collect()) } else { None };
    let mut env: Vec<(String, String)> = vec![];
    for _ in 0..r.below(4) { let k = pk(r, KEYS); if !env.iter().any(|(a, _)| *a == k) || r.chance(1, 4) { env.push((k, any_string(r))); } }
    let mut ports: Vec<u16> = vec![];
    for _ in 0..r.below(4) { let p = if r.chance(1, 2) { *r.pick(&[0u16, 1, 80, 8080, 12345, 65535]) } else { r.below(65536) as u16 }; if !ports.contains(&p) { ports.push(p); } }
    let n = r.below(4) as usize;
    let srcs = distinct_paths(r, n, SRC);
    let mut mounts: Vec<(String, String)> = srcs.into_iter().map(|x| (x, pk(r, DST))).collect();
    if meta_mount {
        let m = pk(r, META);
        if r.chance(1, 2) { mounts.push((m, pk(r, DST))); } else { mounts.push((s("/meta-src"), m)); }
    }
    CCfg { entrypoint, command, env, ports, mounts }
}

/// up to 3 preprocessor edits, most of them **not idempotent** (append, rename, strict remove); the strict ones are valid
/// on the fixture as edited so far, so that a single application never panics
fn gen_edits(r: &mut Rng, fixture: &[(String, Vec<u8>)]) -> Vec<Edit> {
    let mut files: Vec<String> = fixture.iter().map(|(p, _)| p.clone()).collect();
    let mut e = vec![];
    for _ in 0..r.below(4) {
        match r.below(6) {
            0 => { let p = pk(r, &["new.txt", "Procfile", "sub/added", "a b", "-x"]); if !files.contains(&p) { files.push(p.clone()); } e.push(Edit::Write(p, r.pick(&[&b"edited"[..], b"", b"\xff\x00bin"]).to_vec())); }
            1 => if !fixture.is_empty() { let p = fixture[r.below(fixture.len() as u64) as usize].0.clone(); files.retain(|f| *f != p); e.push(Edit::Delete(p)); },
            2 | 3 => { let p = pk(r, &["Procfile", "app.txt", "log.txt", "sub/appended", "-x"]); if !files.contains(&p) { files.push(p.clone()); } e.push(Edit::Append(p, r.pick(&[&b"extra: line\n"[..], b"x", b"\n"]).to_vec())); }
            4 => if !files.is_empty() {
                let from = files[r.below(files.len() as u64) as usize].clone();
                let to = pk(r, &["renamed.txt", "sub/moved", "Procfile.bak"]);
                if from != to { files.retain(|f| *f != from && *f != to); files.push(to.clone()); e.push(Edit::Rename(from, to)); }
            },
            _ => if !files.is_empty() { let p = files[r.below(files.len() as u64) as usize].clone(); files.retain(|f| *f != p); e.push(Edit::Remove(p)); },
        }
    }
    e
}

fn gen_bcfg(r: &mut Rng, meta_bp: bool, fixture: &[(String, Vec<u8>)]) -> BCfg {
    let builder = if r.chance(1, 2) { any_string(r) } else { s("heroku/builder:24") };
    let app = if r.chance(1, 2) { AppDir::Rel(pk(r, &["fixtures/app", "./fixtures/app", "fixtures//app/", "fixtures/../fixtures/app", "fixtures/app/."])) }
              else { AppDir::Abs(pk(r, &["/app", "/app/", "//app", "/./app"])) };
    let pre = if r.chance(1, 2) { None } else { Some(gen_edits(r, fixture)) };
    let mut bps: Vec<String> = (0..r.below(4)).map(|_| { let mut b = any_string(r); while b.is_empty() { b = any_string(r); } b }).collect();
    if meta_bp { let at = r.below(bps.len() as u64 + 1) as usize; bps.insert(at, pk(r, BP_META)); }
    let mut env: Vec<(String, String)> = vec![];
    for _ in 0..r.below(4) { let k = pk(r, KEYS); if !env.iter().any(|(a, _)| *a == k) { env.push((k, any_string(r))); } }
    let fail = r.chance(1, 8);
    BCfg { builder, app, pre, bps, env, expect_success: !fail, triple: if r.chance(1, 3) { 'a' } else { 'x' }, pack_nonzero: fail }
}

fn gen_fixture(r: &mut Rng) -> Vec<(String, Vec<u8>)> {
    let all: [(&str, &[u8]); 5] = [("Procfile", b"web: true\n"), ("app.txt", b"content"), ("sub/inner", b"x"), ("a b", b""), ("-x", b"dash")];
    let mut out = vec![];
    for (p, c) in all { if r.chance(1, 2) { out.push((s(p), c.to_vec())); } }
    out
}

fn hostile(x: &str) -> bool { x.is_empty() || x.starts_with('-') || x.contains('=') || x.contains(' ') || !x.is_ascii() }

struct Built { fields: Vec<String>, tags: Vec<(String, String)>, nontrivial: bool }

fn assemble(fixture: Vec<(String, Vec<u8>)>, bcfgs: Vec<BCfg>, ccfgs: Vec<CCfg>, tree: Tree, kind: &str) -> Built {
    let mut strings: Vec<&str> = vec![];
    for b in &bcfgs { strings.push(&b.builder); for x in &b.bps { strings.push(x); } for (k, v) in &b.env { strings.push(k); strings.push(v); } }
    for c in &ccfgs { if let Some(e) = &c.entrypoint { strings.push(e); } for w in c.command.iter().flatten() { strings.push(w); } for (k, v) in c.env.iter().chain(c.mounts.iter()) { strings.push(k); strings.push(v); } }
    fn walk<'a>(a: &'a [Act], out: &mut Vec<&'a str>, shapes: &mut Vec<&'static str>) {
        for x in a { match x {
            Act::Shell(c) => { out.push(c); shapes.push("shell"); }
            Act::Start(_, cas) => { shapes.push("start"); for ca in cas { if let CAct::Exec(c) = ca { out.push(c); shapes.push("exec"); } } }
            Act::Sbom => shapes.push("sbom"),
            Act::Rebuild(_, inner) => { shapes.push("rebuild"); walk(inner, out, shapes); }
            Act::RebuildCtx(_, inner) => { shapes.push("rebuild-ctx"); walk(inner, out, shapes); }
            Act::Panic => shapes.push("panic"),
        } }
    }
    let mut shapes = vec![];
    walk(&tree.acts, &mut strings, &mut shapes);
    shapes.sort(); shapes.dedup();
    let n_hostile = strings.iter().filter(|x| hostile(x)).count();
    let tags = vec![
        (s("kind"), s(kind)), (s("shape"), if shapes.is_empty() { s("build-only") } else { shapes.join("+") }),
        (s("hostile"), s(match n_hostile { 0 => "0", 1..=2 => "1-2", 3..=5 => "3-5", _ => "6+" })),
        (s("pre"), s(if bcfgs.iter().any(|b| b.pre.iter().flatten().any(|e| matches!(e, Edit::Append(..) | Edit::Rename(..) | Edit::Remove(..)))) { "non-idempotent" }
            else if bcfgs.iter().any(|b| b.pre.is_some()) { "idempotent" } else { "none" })),
        (s("app"), s(if bcfgs.iter().any(|b| matches!(b.app, AppDir::Abs(_))) { "abs" } else { "rel" })),
        (s("n_bp"), bcfgs.iter().map(|b| b.bps.len()).max().unwrap_or(0).to_string()),
        (s("n_env"), ccfgs.iter().map(|c| c.env.len()).chain(bcfgs.iter().map(|b| b.env.len())).max().unwrap_or(0).to_string()),
        (s("n_mounts"), ccfgs.iter().map(|c| c.mounts.len()).max().unwrap_or(0).to_string()),
        (s("n_ports"), ccfgs.iter().map(|c| c.ports.len()).max().unwrap_or(0).to_string()),
    ];
    Built {
        fields: vec![enc_fixture(&fixture), enc_list(bcfgs.iter().map(enc_bcfg).collect()), enc_list(ccfgs.iter().map(enc_ccfg).collect()), enc_tree(&tree), s("-")],
        tags, nontrivial: n_hostile >= 1,
    }
}

fn plain_bcfg() -> BCfg {
    BCfg { builder: s("heroku/builder:24"), app: AppDir::Rel(s("fixtures/app")), pre: None, bps: vec![s("heroku/procfile")], env: vec![], expect_success: true, triple: 'x', pack_nonzero: false }
}
fn plain_ccfg() -> CCfg { CCfg { entrypoint: None, command: None, env: vec![], ports: vec![], mounts: vec![] } }

fn generate(tier: &str, seed: u64, emit: &mut dyn FnMut(Case)) {
    let fixture0 = vec![(s("Procfile"), b"web: true\n".to_vec()), (s("app.txt"), b"content".to_vec())];
    let mut push = |b: Built| emit(Case { fields: b.fields, tags: b.tags, nontrivial: b.nontrivial });
    // bounded-exhaustive part: every hostile string, alone, in every position a user string can take
    for h in HOSTILE {
        let h = s(h);
        let mut variants: Vec<(Vec<BCfg>, Vec<CCfg>, Tree)> = vec![];
        let start = |c: CCfg| (vec![plain_bcfg()], vec![c], Tree { cfg: 0, acts: vec![Act::Start(0, vec![CAct::LogsNow])] });
        variants.push(start(CCfg { entrypoint: Some(h.clone()), ..plain_ccfg() }));
        variants.push(start(CCfg { command: Some(vec![h.clone()]), ..plain_ccfg() }));
        variants.push(start(CCfg { command: Some(vec![s("first"), h.clone(), s("last")]), entrypoint: Some(s("web")), ..plain_ccfg() }));
        variants.push(start(CCfg { env: vec![(s("KEY"), h.clone())], ..plain_ccfg() }));
        if !h.is_empty() && !h.contains('=') { variants.push(start(CCfg { env: vec![(h.clone(), s("value"))], ..plain_ccfg() })); }
        if !h.is_empty() {
            variants.push(start(CCfg { mounts: vec![(h.clone(), s("/dst"))], ..plain_ccfg() }));
            variants.push(start(CCfg { mounts: vec![(s("/src"), h.clone())], ..plain_ccfg() }));
            variants.push((vec![BCfg { bps: vec![s("a/b"), h.clone(), s("c/d")], ..plain_bcfg() }], vec![], Tree { cfg: 0, acts: vec![] }));
        }
        variants.push((vec![BCfg { builder: h.clone(), ..plain_bcfg() }], vec![], Tree { cfg: 0, acts: vec![] }));
        variants.push((vec![BCfg { env: vec![(s("KEY"), h.clone())], ..plain_bcfg() }], vec![], Tree { cfg: 0, acts: vec![] }));
        variants.push((vec![plain_bcfg()], vec![], Tree { cfg: 0, acts: vec![Act::Shell(h.clone())] }));
        variants.push((vec![plain_bcfg()], vec![plain_ccfg()], Tree { cfg: 0, acts: vec![Act::Start(0, vec![CAct::Exec(h.clone())])] }));
        for (b, c, t) in variants { push(assemble(fixture0.clone(), b, c, t, "exhaustive")); }
    }
    // bounded-exhaustive part 2: every kind of preprocessor edit (and a combination) x {relative, absolute app dir} x
    // {rebuild with the caller's own fresh config, with `context.config.clone()`, with that plus env set after the clone,
    //  twice in a row from the context's config} — pack must see fixture + edits exactly once, every time
    let edit_sets: Vec<Vec<Edit>> = vec![
        vec![Edit::Write(s("new.txt"), b"edited".to_vec())], vec![Edit::Delete(s("app.txt"))],
        vec![Edit::Append(s("Procfile"), b"worker: run\n".to_vec())], vec![Edit::Append(s("log.txt"), b"x".to_vec())],
        vec![Edit::Rename(s("app.txt"), s("sub/moved"))], vec![Edit::Remove(s("app.txt"))],
        vec![Edit::Write(s("tmp.part"), b"data".to_vec()), Edit::Rename(s("tmp.part"), s("final.txt"))],
        vec![Edit::Append(s("Procfile"), b"x".to_vec()), Edit::Rename(s("Procfile"), s("Procfile.bak")), Edit::Remove(s("app.txt"))],
        vec![],
    ];
    for edits in &edit_sets { for app in [AppDir::Rel(s("fixtures/app")), AppDir::Abs(s("/app"))] {
        let first = BCfg { pre: Some(edits.clone()), app: app.clone(), env: vec![(s("K"), s("v"))], ..plain_bcfg() };
        let overlay = BCfg { env: vec![(s("K"), s("--env")), (s("NEW"), s("a=b"))], ..plain_bcfg() };
        let none = BCfg { env: vec![], ..plain_bcfg() };
        let shell = vec![Act::Shell(s("true"))];
        push(assemble(fixture0.clone(), vec![first.clone()], vec![], Tree { cfg: 0, acts: vec![Act::Rebuild(0, shell.clone())] }, "exhaustive-rebuild"));
        push(assemble(fixture0.clone(), vec![first.clone(), none.clone()], vec![], Tree { cfg: 0, acts: vec![Act::RebuildCtx(1, shell.clone())] }, "exhaustive-rebuild"));
        push(assemble(fixture0.clone(), vec![first.clone(), overlay.clone()], vec![], Tree { cfg: 0, acts: vec![Act::RebuildCtx(1, vec![])] }, "exhaustive-rebuild"));
        push(assemble(fixture0.clone(), vec![first.clone(), overlay.clone(), none.clone()], vec![], Tree { cfg: 0, acts: vec![Act::RebuildCtx(2, vec![Act::RebuildCtx(1, vec![])])] }, "exhaustive-rebuild"));
        push(assemble(fixture0.clone(), vec![none.clone(), first.clone()], vec![], Tree { cfg: 0, acts: vec![Act::Rebuild(1, vec![Act::RebuildCtx(0, vec![])])] }, "exhaustive-rebuild"));
    } }
    let n = match tier { "thorough" => 20000, _ => 1600 };
    let search = std::env::var("VERIF_SEARCH").is_ok();
    for i in 0..n {
        let mut r = Rng::for_case(seed, i);
        // a clearly tagged minority carries the CSV metacharacters of finding D6 (none during a violation search)
        let (meta_mount, meta_bp) = if search { (false, false) } else { (i % 40 == 7, i % 40 == 23) };
        let fixture = gen_fixture(&mut r);
        let mut bcfgs = vec![gen_bcfg(&mut r, meta_bp, &fixture)];
        let mut ccfgs = vec![];
        let mut acts = vec![];
        let n_acts = r.below(4);
        for a in 0..n_acts {
            match r.below(6) {
                0 | 1 | 2 => {
                    let c = gen_ccfg(&mut r, meta_mount && ccfgs.is_empty());
                    let mut cas = vec![];
                    for _ in 0..r.below(4) {
                        cas.push(match r.below(4) { 0 => CAct::LogsNow, 1 => CAct::LogsWait, 2 if !c.ports.is_empty() => CAct::Port(*r.pick(&c.ports)), _ => CAct::Exec(any_string(&mut r)) });
                    }
                    ccfgs.push(c);
                    acts.push(Act::Start(ccfgs.len() - 1, cas));
                }
                3 => acts.push(Act::Shell(any_string(&mut r))),
                4 => acts.push(Act::Sbom),
                _ if a + 1 == n_acts => {
                    let inner = if r.chance(1, 2) { vec![Act::Shell(any_string(&mut r))] } else { vec![] };
                    if r.chance(1, 2) {
                        bcfgs.push(gen_bcfg(&mut r, false, &fixture));
                        acts.push(Act::Rebuild(1, inner));
                    } else {
                        // `context.config.clone()`, then env pairs (sometimes overriding an inherited key) and the expected result
                        let mut ov = plain_bcfg();
                        ov.env = vec![];
                        for _ in 0..r.below(3) {
                            let k = if !bcfgs[0].env.is_empty() && r.chance(1, 3) { bcfgs[0].env[0].0.clone() } else { pk(&mut r, KEYS) };
                            ov.env.push((k, any_string(&mut r)));
                        }
                        if r.chance(1, 8) { ov.expect_success = false; ov.pack_nonzero = true; }
                        bcfgs.push(ov);
                        // sometimes a third build, again from the (second) context's config
                        let inner = if r.chance(1, 4) { let mut i2 = inner; i2.push(Act::RebuildCtx(1, vec![])); i2 } else { inner };
                        acts.push(Act::RebuildCtx(1, inner));
                    }
                }
                _ => acts.push(Act::Shell(any_string(&mut r))),
            }
        }
        if meta_mount && ccfgs.is_empty() { ccfgs.push(gen_ccfg(&mut r, true)); acts.insert(0, Act::Start(0, vec![])); }
        let kind = if meta_mount { "d6-mount-csv-meta" } else if meta_bp { "d6-buildpack-csv-meta" } else { "random" };
        // what the stand-in tools print (container id, `docker port` text, pack/docker stdout) and the status an expected-failure
        // `pack build` exits with rotate through three sets; no configuration may depend on them
        let mut b = assemble(fixture, bcfgs, ccfgs, Tree { cfg: 0, acts }, kind);
        b.fields[4] = format!("-@{}", i % 3);
        b.tags.push((s("outputs"), (i % 3).to_string()));
        push(b);
    }
}

fn run_case(fields: &[String]) -> String { run_scenario_case(fields) }

fn main() { cnbv::main_loop_jobs("c17", 12, &generate, &run_case) }
