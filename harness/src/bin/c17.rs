//! C17 correspondence: configurations → the real `TestRunner::build` / `start_container` / `run_shell_command` /
//! `shell_exec` / `download_sbom_files` / `rebuild` (child process `trun`, stand-in docker/pack recording argv).
//! Observation: the exact argv of every command (random names renamed by first occurrence), the app-dir contents
//! pack saw, whether the fixture changed, what is left in TMPDIR.
#[path = "../lct/mod.rs"]
mod lct;
use cnbv::{Case, Rng};
use lct::*;

/// strings that are hostile to a careless command line: leading dashes, `=`, spaces, empty, quotes for a shell,
/// Unicode, option look-alikes of docker and pack
const HOSTILE: &[&str] = &[
    "", "-", "--", "--env", "-e", "--entrypoint=x", "--rm", "--detach", "-b=c", "--x", "--buildpack", "--path=/", "a b", " lead", "trail ",
    "k=v", "=x", "a==b", "é", "日本語 テスト", "it's", "$HOME", "a\\b", "x;y", "*", "--mount", "type=bind", "-p", "--publish=1:2", "--name",
    "--trust-builder", "--", "--force",
];
const PLAIN: &[&str] = &["web", "worker", "echo", "hello", "heroku/builder:24", "heroku/procfile", "libcnb/test", "value", "1", "bash -c true"];
const KEYS: &[&str] = &["PORT", "A", "B_C", "-e", "--env", "a b", "é", "K.1", "x-y", "PATH", "_", "0"];
const SRC: &[&str] = &["/src", "/src dir", "./cache", "cache", "a/../b", "./a//b", "/x=1", "/-t", "--mount", "-v", "/é", "/a/b/c", "a/b", "a-b", "/tmp/x y/z", "rel/./p"];
const DST: &[&str] = &["/dst", "/workspace/cache", "/t=1", "/-t", "/a b", "dst", "--target", "/é/ü"];
const META: &[&str] = &["/src,a", "/src,readonly", "/a\"b", "/line\nbreak", "x,y", ",", "a,b,c", "/cr\rx"];
const BP_META: &[&str] = &["x,y", "heroku/a,heroku/b", "\"quoted\"", "a\nb", ",lead", "trail,"];

/// bind-mount sources below the scratch directory `/$S` (`lct::make_mount_scratch`), which EXISTS on the host when
/// `start_container` runs: a real directory, the same directory through a symlink (relative, absolute, in a symlinked parent),
/// with `.` / `..` / `//` / a trailing slash, below a symlink, a file and a symlink to it, a dangling link, missing paths
const HOST: &[&str] = &[
    "/$S/real", "/$S/link", "/$S/via/link2", "/$S/abslink", "/$S/real/", "/$S/link/", "/$S/real/.", "/$S//real", "/$S/./real",
    "/$S/real/../real", "/$S/via/../real", "/$S/link/../real", "/$S/real/sub", "/$S/link/sub", "/$S/via/link2/sub/", "/$S/link/sub/..",
    "/$S/current", "/$S/releases/v2", "/$S/releases/../current", "/$S/file", "/$S/flink", "/$S/real/f", "/$S/link/f", "/$S/dangling",
    "/$S/missing", "/$S/real/missing", "/$S/link/missing/..", "/$S", "/$S/", "/$S/via/..",
];
/// different texts (different also as `PathBuf`s) for ONE location, `<scratch>/real`
const HOST_ALIAS: &[&str] = &["/$S/real", "/$S/link", "/$S/via/link2", "/$S/abslink", "/$S/real/../real", "/$S/via/../real", "/$S/link/sub/.."];
/// relative sources (never absolute: whatever the temp directory is called, an absolute path sorts before them in the code's
/// `BTreeMap<PathBuf, _>` exactly as `/$S/...` does in the model)
const REL_SRC: &[&str] = &["./cache", "cache", "a/../b", "./a//b", "--mount", "-v", "a/b", "a-b", "rel/./p"];

fn s(x: &str) -> String { x.to_string() }
fn pk(r: &mut Rng, pool: &[&str]) -> String { pool[r.below(pool.len() as u64) as usize].to_string() }

fn any_string(r: &mut Rng) -> String { if r.chance(2, 3) { pk(r, HOSTILE) } else { pk(r, PLAIN) } }

fn distinct_paths(r: &mut Rng, n: usize, pool: &[&str]) -> Vec<String> {
    // distinct as `PathBuf`s (the configuration is a HashMap keyed by PathBuf)
    let mut out: Vec<String> = vec![];
    let mut tries = 0;
    while out.len() < n && tries < 50 {
        tries += 1;
        let c = pk(r, pool);
        if !out.iter().any(|o| std::path::PathBuf::from(o) == std::path::PathBuf::from(&c)) { out.push(c); }
    }
    out
}

fn gen_ccfg(r: &mut Rng, meta_mount: bool) -> CCfg {
    let entrypoint = if r.chance(1, 2) { Some(any_string(r)) } else { None };
    let command = if r.chance(2, 3) { Some((0..r.below(4)).map(|_| any_string(r)).collect()) } else { None };
    let mut env: Vec<(String, String)> = vec![];
    for _ in 0..r.below(4) { let k = pk(r, KEYS); if !env.iter().any(|(a, _)| *a == k) || r.chance(1, 4) { env.push((k, any_string(r))); } }
    let mut ports: Vec<u16> = vec![];
    for _ in 0..r.below(4) { let p = if r.chance(1, 2) { *r.pick(&[0u16, 1, 80, 8080, 12345, 65535]) } else { r.below(65536) as u16 }; if !ports.contains(&p) { ports.push(p); } }
    let n = r.below(4) as usize;
    // one configuration in three (never the D6 minority): sources that exist on the host, in several spellings, among them
    // aliases of one location; mixed with relative and missing ones
    let srcs = if !meta_mount && r.chance(1, 3) {
        let n = n.max(1);
        let mut pool: Vec<&str> = if r.chance(1, 2) { HOST_ALIAS.to_vec() } else { HOST.to_vec() };
        if r.chance(1, 2) { pool.extend_from_slice(REL_SRC); }
        distinct_paths(r, n, &pool)
    } else { distinct_paths(r, n, SRC) };
    let mut mounts: Vec<(String, String)> = srcs.into_iter().map(|x| (x, pk(r, DST))).collect();
    if meta_mount {
        let m = pk(r, META);
        if r.chance(1, 2) { mounts.push((m, pk(r, DST))); } else { mounts.push((s("/meta-src"), m)); }
    }
    CCfg { entrypoint, command, env, ports, mounts }
}

/// up to 3 preprocessor edits, most of them **not idempotent** (append, rename, strict remove); the strict ones are valid
/// on the fixture as edited so far, so that a single application never panics
fn gen_edits(r: &mut Rng, fixture: &[(String, Vec<u8>)]) -> Vec<Edit> {
    let mut files: Vec<String> = fixture.iter().map(|(p, _)| p.clone()).collect();
    let mut e = vec![];
    for _ in 0..r.below(4) {
        match r.below(6) {
            0 => { let p = pk(r, &["new.txt", "Procfile", "sub/added", "a b", "-x"]); if !files.contains(&p) { files.push(p.clone()); } e.push(Edit::Write(p, r.pick(&[&b"edited"[..], b"", b"\xff\x00bin"]).to_vec())); }
            1 => if !fixture.is_empty() { let p = fixture[r.below(fixture.len() as u64) as usize].0.clone(); files.retain(|f| *f != p); e.push(Edit::Delete(p)); },
            2 | 3 => { let p = pk(r, &["Procfile", "app.txt", "log.txt", "sub/appended", "-x"]); if !files.contains(&p) { files.push(p.clone()); } e.push(Edit::Append(p, r.pick(&[&b"extra: line\n"[..], b"x", b"\n"]).to_vec())); }
            4 => if !files.is_empty() {
                let from = files[r.below(files.len() as u64) as usize].clone();
                let to = pk(r, &["renamed.txt", "sub/moved", "Procfile.bak"]);
                if from != to { files.retain(|f| *f != from && *f != to); files.push(to.clone()); e.push(Edit::Rename(from, to)); }
            },
            _ => if !files.is_empty() { let p = files[r.below(files.len() as u64) as usize].clone(); files.retain(|f| *f != p); e.push(Edit::Remove(p)); },
        }
    }
    e
}

fn gen_bcfg(r: &mut Rng, meta_bp: bool, fixture: &[(String, Vec<u8>)]) -> BCfg {
    let builder = if r.chance(1, 2) { any_string(r) } else { s("heroku/builder:24") };
    let app = if r.chance(1, 2) { AppDir::Rel(pk(r, &["fixtures/app", "./fixtures/app", "fixtures//app/", "fixtures/../fixtures/app", "fixtures/app/."])) }
              else { AppDir::Abs(pk(r, &["/app", "/app/", "//app", "/./app"])) };
    let pre = if r.chance(1, 2) { None } else { Some(gen_edits(r, fixture)) };
    let mut bps: Vec<String> = (0..r.below(4)).map(|_| { let mut b = any_string(r); while b.is_empty() { b = any_string(r); } b }).collect();
    if meta_bp { let at = r.below(bps.len() as u64 + 1) as usize; bps.insert(at, pk(r, BP_META)); }
    let mut env: Vec<(String, String)> = vec![];
    for _ in 0..r.below(4) { let k = pk(r, KEYS); if !env.iter().any(|(a, _)| *a == k) { env.push((k, any_string(r))); } }
    let fail = r.chance(1, 8);
    BCfg { builder, app, pre, bps, env, expect_success: !fail, triple: if r.chance(1, 3) { 'a' } else { 'x' }, pack_nonzero: fail }
}

fn gen_fixture(r: &mut Rng) -> Vec<(String, Vec<u8>)> {
    let all: [(&str, &[u8]); 5] = [("Procfile", b"web: true\n"), ("app.txt", b"content"), ("sub/inner", b"x"), ("a b", b""), ("-x", b"dash")];
    let mut out = vec![];
    for (p, c) in all { if r.chance(1, 2) { out.push((s(p), c.to_vec())); } }
    out
}

fn hostile(x: &str) -> bool { x.is_empty() || x.starts_with('-') || x.contains('=') || x.contains(' ') || !x.is_ascii() }

struct Built { fields: Vec<String>, tags: Vec<(String, String)>, nontrivial: bool }

fn assemble(fixture: Vec<(String, Vec<u8>)>, bcfgs: Vec<BCfg>, ccfgs: Vec<CCfg>, tree: Tree, kind: &str) -> Built {
    let mut strings: Vec<&str> = vec![];
    for b in &bcfgs { strings.push(&b.builder); for x in &b.bps { strings.push(x); } for (k, v) in &b.env { strings.push(k); strings.push(v); } }
    for c in &ccfgs { if let Some(e) = &c.entrypoint { strings.push(e); } for w in c.command.iter().flatten() { strings.push(w); } for (k, v) in c.env.iter().chain(c.mounts.iter()) { strings.push(k); strings.push(v); } }
    fn walk<'a>(a: &'a [Act], out: &mut Vec<&'a str>, shapes: &mut Vec<&'static str>) {
        for x in a { match x {
            Act::Shell(c) => { out.push(c); shapes.push("shell"); }
            Act::Start(_, cas) => { shapes.push("start"); for ca in cas { if let CAct::Exec(c) = ca { out.push(c); shapes.push("exec"); } } }
            Act::Sbom => shapes.push("sbom"),
            Act::Rebuild(_, inner) => { shapes.push("rebuild"); walk(inner, out, shapes); }
            Act::RebuildCtx(_, inner) => { shapes.push("rebuild-ctx"); walk(inner, out, shapes); }
            Act::Panic => shapes.push("panic"),
        } }
    }
    let mut shapes = vec![];
    walk(&tree.acts, &mut strings, &mut shapes);
    shapes.sort(); shapes.dedup();
    let n_hostile = strings.iter().filter(|x| hostile(x)).count();
    let tags = vec![
        (s("kind"), s(kind)), (s("shape"), if shapes.is_empty() { s("build-only") } else { shapes.join("+") }),
        (s("hostile"), s(match n_hostile { 0 => "0", 1..=2 => "1-2", 3..=5 => "3-5", _ => "6+" })),
        (s("pre"), s(if bcfgs.iter().any(|b| b.pre.iter().flatten().any(|e| matches!(e, Edit::Append(..) | Edit::Rename(..) | Edit::Remove(..)))) { "non-idempotent" }
            else if bcfgs.iter().any(|b| b.pre.is_some()) { "idempotent" } else { "none" })),
        (s("app"), s(if bcfgs.iter().any(|b| matches!(b.app, AppDir::Abs(_))) { "abs" } else { "rel" })),
        (s("n_bp"), bcfgs.iter().map(|b| b.bps.len()).max().unwrap_or(0).to_string()),
        (s("n_env"), ccfgs.iter().map(|c| c.env.len()).chain(bcfgs.iter().map(|b| b.env.len())).max().unwrap_or(0).to_string()),
        (s("n_mounts"), ccfgs.iter().map(|c| c.mounts.len()).max().unwrap_or(0).to_string()),
        (s("n_ports"), ccfgs.iter().map(|c| c.ports.len()).max().unwrap_or(0).to_string()),
        (s("mount_src"), s(match ccfgs.iter().map(|c| c.mounts.iter().filter(|(src, _)| src.contains(MOUNT_PLACEHOLDER)).count()).max().unwrap_or(0) { 0 => "opaque", 1 => "on-host", _ => "on-host-several" })),
    ];
    let on_host = uses_mount_scratch(&ccfgs);
    Built {
        fields: vec![enc_fixture(&fixture), enc_list(bcfgs.iter().map(enc_bcfg).collect()), enc_list(ccfgs.iter().map(enc_ccfg).collect()), enc_tree(&tree), s("-")],
        tags, nontrivial: n_hostile >= 1 || on_host,
    }
}

// ------------------------------------------------------------------------------------------------ what the tools print
/// the substrings on which a retry-on-flaky-registry heuristic would key (they occur in the pool below on their own, inside
/// realistic messages, broken by an invalid byte, and in other letter case)
const MARKERS: &[&str] = &["toomanyrequests", "TLS handshake timeout", "connection reset by peer", "i/o timeout", "unexpected EOF"];

/// texts a `pack` / `docker` process (or a registry, the lifecycle, a buildpack through them) prints: (class, bytes)
fn text_pool() -> Vec<(&'static str, Vec<u8>)> {
    let mut v: Vec<(&'static str, Vec<u8>)> = vec![];
    for m in [
        "ERROR: failed to build: failed to fetch builder image 'index.docker.io/heroku/builder:24': Error response from daemon: toomanyrequests: You have reached your pull rate limit. You may increase the limit by authenticating and upgrading: https://www.docker.com/increase-rate-limit\n",
        "ERROR: failed to build: failed to fetch base layers: Get \"https://registry-1.docker.io/v2/\": net/http: TLS handshake timeout\n",
        "ERROR: failed to build: executing lifecycle: failed to write image to the following tags: read tcp 10.1.0.4:51234->54.198.86.24:443: read: connection reset by peer\n",
        "ERROR: failed to build: failed to fetch builder image: Get \"https://registry-1.docker.io/v2/\": dial tcp 54.198.86.24:443: i/o timeout\n",
        "[Error: Download failed]\ncurl: (18) transfer closed with outstanding read data remaining: unexpected EOF\nERROR: failed to build: executing lifecycle: failed with status code: 51\n",
        "toomanyrequests", "TLS handshake timeout", "connection reset by peer", "i/o timeout", "unexpected EOF",
        "docker: Error response from daemon: toomanyrequests: too many requests.\nSee 'docker run --help'.\n",
    ] { v.push(("marker", m.as_bytes().to_vec())); }
    for m in [
        "Error response from daemon: Get \"https://registry-1.docker.io/v2/\": dial tcp: lookup registry-1.docker.io on 127.0.0.53:53: no such host\n",
        "denied: requested access to the resource is denied\n",
        "ERROR: failed to build: executing lifecycle. This may be the result of using an untrusted builder: failed with status code: 51\n",
        "ERROR: failed to build\n",
        "manifest unknown: manifest unknown\n",
        "context deadline exceeded\n", "EOF", "429 Too Many Requests\n", "HTTP 429", "503 Service Unavailable\n",
        "Retrying in 1 second (retry 1 of 5)\n", "retry", "Temporary failure in name resolution\n",
        "TOOMANYREQUESTS", "tls handshake timeout", "Connection reset by peer (os error 104)\n", "unexpected  EOF", "I/O timeout",
        "ERROR: Invalid Procfile!\n", "docker: Error response from daemon: driver failed programming external connectivity on endpoint x: Bind for 0.0.0.0:80 failed: port is already allocated.\n",
    ] { v.push(("failure", m.as_bytes().to_vec())); }
    for m in [
        "===> ANALYZING\n===> DETECTING\nheroku/procfile 3.0.0\n===> RESTORING\n===> BUILDING\n[Discovering process types]\n===> EXPORTING\nSuccessfully built image 'app'\n",
        "pack output\n", "Warning: Builder is trusted but additional modules were added, using the untrusted (5 phases) build flow\n", "\n", "no newline at the end",
        "## stderr:\n\nnot the real one\n## stdout:\n\n", "日本語 ✓ é\n", "a\u{fffd}b\n", "--env", "\u{1b}[1;31mERROR:\u{1b}[0m coloured\n",
    ] { v.push(("plain", m.as_bytes().to_vec())); }
    v.push(("empty", vec![]));
    v.push(("long", "downloading layer sha256:0123456789abcdef 12.5MB/48.1MB\n".repeat(110).into_bytes()));
    let mut long = "x".repeat(3000).into_bytes(); long.extend_from_slice(b"\nnet/http: TLS handshake timeout\n"); long.extend_from_slice("y".repeat(2000).as_bytes());
    v.push(("marker", long));
    for m in [&b"\xff\xfe not utf-8\n"[..], b"toomany\xffrequests\n", b"\xe2\x82", b"\xed\xa0\x80x", b"\xc0\xafpath\n", b"tail \xf0\x9f\x98", b"\xf0\x9f\x98\x80\xf0\x9f\x98", b"\x80\xbf\xc3", b"\xe1\x80\xe2\xf0\x91\x92\xf1\xbf\x41", b"\xf4\x90\x80\x80 \xf5\x80 \xef\xbf\xbd \xef\xbf"] { v.push(("non-utf8", m.to_vec())); }
    v.push(("marker", b"\xc3\x28 read: connection reset by peer \xa0\xa1\n".to_vec()));
    v
}

fn has_marker(b: &[u8]) -> bool { let t = String::from_utf8_lossy(b); MARKERS.iter().any(|m| t.contains(m)) }

/// position of every build's `pack build` among the pack invocations of the scenario (one per build of the chain, one per
/// `download_sbom_files`, in program order) and the positions of the sbom downloads
fn pack_positions(t: &Tree) -> (Vec<usize>, Vec<usize>) {
    fn walk(a: &[Act], n: &mut usize, b: &mut Vec<usize>, s: &mut Vec<usize>) {
        for x in a { match x {
            Act::Sbom => { s.push(*n); *n += 1; }
            Act::Rebuild(_, i) | Act::RebuildCtx(_, i) => { b.push(*n); *n += 1; walk(i, n, b, s); }
            _ => {}
        } }
    }
    let (mut b, mut s, mut n) = (vec![0], vec![], 1);
    walk(&t.acts, &mut n, &mut b, &mut s);
    (b, s)
}

/// a scripted case: the scenario plus the script as 6th field; tags say what the scripted `pack build`s do
fn assemble_scripted(fixture: Vec<(String, Vec<u8>)>, bcfgs: Vec<BCfg>, ccfgs: Vec<CCfg>, tree: Tree, script: Vec<SEntry>, flavour: u64, kind: &str) -> Built {
    let (builds, _) = pack_positions(&tree);
    let ch = chain(&tree);
    let find = |n: usize| script.iter().find(|e| e.prog == 'p' && e.n == n);
    let mut unexpected = false;
    let (mut retry, mut exits) = ("none", vec![]);
    for (i, n) in builds.iter().enumerate() {
        let Some(e) = find(*n) else { continue };
        exits.push(e.exit);
        if e.exit != 0 && has_marker(&e.err) { retry = "failing-stderr"; } else if retry == "none" && (has_marker(&e.err) || has_marker(&e.out)) { retry = "elsewhere"; }
        if (e.exit == 0) != bcfgs[ch[i]].expect_success { unexpected = true; break; }
    }
    let invalid = script.iter().any(|e| std::str::from_utf8(&e.out).is_err() || std::str::from_utf8(&e.err).is_err());
    let eventful = script.iter().any(|e| e.exit != 0 || !e.err.is_empty() || invalid);
    let mut b = assemble(fixture, bcfgs, ccfgs, tree, kind);
    b.fields[4] = format!("-@{flavour}");
    b.fields.push(enc_script(&script));
    b.tags.push((s("pack_result"), s(if unexpected { "unexpected" } else { "as-expected" })));
    b.tags.push((s("pack_exit"), s(if exits.iter().all(|e| *e == 0) { "0" } else if exits.iter().all(|e| *e != 0) { "nonzero" } else { "mixed" })));
    b.tags.push((s("marker"), s(retry)));
    b.tags.push((s("utf8"), s(if invalid { "invalid" } else { "valid" })));
    b.tags.push((s("docker_scripted"), script.iter().filter(|e| e.prog == 'd').count().to_string()));
    b.nontrivial = b.nontrivial || eventful;
    b
}

fn se(prog: char, n: usize, exit: u8, out: &[u8], err: &[u8]) -> SEntry { SEntry { prog, n, exit, out: out.to_vec(), err: err.to_vec() } }

fn plain_bcfg() -> BCfg {
    BCfg { builder: s("heroku/builder:24"), app: AppDir::Rel(s("fixtures/app")), pre: None, bps: vec![s("heroku/procfile")], env: vec![], expect_success: true, triple: 'x', pack_nonzero: false }
}
fn plain_ccfg() -> CCfg { CCfg { entrypoint: None, command: None, env: vec![], ports: vec![], mounts: vec![] } }

/// one random scenario: fixture, build configs, container configs, the acts of the outermost closure
fn gen_scenario(r: &mut Rng, meta_mount: bool, meta_bp: bool) -> (Vec<(String, Vec<u8>)>, Vec<BCfg>, Vec<CCfg>, Vec<Act>) {
    let fixture = gen_fixture(r);
    let mut bcfgs = vec![gen_bcfg(r, meta_bp, &fixture)];
    let mut ccfgs = vec![];
    let mut acts = vec![];
    let n_acts = r.below(4);
    for a in 0..n_acts {
        match r.below(6) {
            0 | 1 | 2 => {
                let c = gen_ccfg(r, meta_mount && ccfgs.is_empty());
                let mut cas = vec![];
                for _ in 0..r.below(4) {
                    cas.push(match r.below(4) { 0 => CAct::LogsNow, 1 => CAct::LogsWait, 2 if !c.ports.is_empty() => CAct::Port(*r.pick(&c.ports)), _ => CAct::Exec(any_string(r)) });
                }
                ccfgs.push(c);
                acts.push(Act::Start(ccfgs.len() - 1, cas));
            }
            3 => acts.push(Act::Shell(any_string(r))),
            4 => acts.push(Act::Sbom),
            _ if a + 1 == n_acts => {
                let inner = if r.chance(1, 2) { vec![Act::Shell(any_string(r))] } else { vec![] };
                if r.chance(1, 2) {
                    bcfgs.push(gen_bcfg(r, false, &fixture));
                    acts.push(Act::Rebuild(1, inner));
                } else {
                    // `context.config.clone()`, then env pairs (sometimes overriding an inherited key) and the expected result
                    let mut ov = plain_bcfg();
                    ov.env = vec![];
                    for _ in 0..r.below(3) {
                        let k = if !bcfgs[0].env.is_empty() && r.chance(1, 3) { bcfgs[0].env[0].0.clone() } else { pk(r, KEYS) };
                        ov.env.push((k, any_string(r)));
                    }
                    if r.chance(1, 8) { ov.expect_success = false; ov.pack_nonzero = true; }
                    bcfgs.push(ov);
                    // sometimes a third build, again from the (second) context's config
                    let inner = if r.chance(1, 4) { let mut i2 = inner; i2.push(Act::RebuildCtx(1, vec![])); i2 } else { inner };
                    acts.push(Act::RebuildCtx(1, inner));
                }
            }
            _ => acts.push(Act::Shell(any_string(r))),
        }
    }
    if meta_mount && ccfgs.is_empty() { ccfgs.push(gen_ccfg(r, true)); acts.insert(0, Act::Start(0, vec![])); }
    (fixture, bcfgs, ccfgs, acts)
}

fn generate(tier: &str, seed: u64, emit: &mut dyn FnMut(Case)) {
    let fixture0 = vec![(s("Procfile"), b"web: true\n".to_vec()), (s("app.txt"), b"content".to_vec())];
    let mut push = |b: Built| emit(Case { fields: b.fields, tags: b.tags, nontrivial: b.nontrivial });
    // bounded-exhaustive part: every hostile string, alone, in every position a user string can take
    for h in HOSTILE {
        let h = s(h);
        let mut variants: Vec<(Vec<BCfg>, Vec<CCfg>, Tree)> = vec![];
        let start = |c: CCfg| (vec![plain_bcfg()], vec![c], Tree { cfg: 0, acts: vec![Act::Start(0, vec![CAct::LogsNow])] });
        variants.push(start(CCfg { entrypoint: Some(h.clone()), ..plain_ccfg() }));
        variants.push(start(CCfg { command: Some(vec![h.clone()]), ..plain_ccfg() }));
        variants.push(start(CCfg { command: Some(vec![s("first"), h.clone(), s("last")]), entrypoint: Some(s("web")), ..plain_ccfg() }));
        variants.push(start(CCfg { env: vec![(s("KEY"), h.clone())], ..plain_ccfg() }));
        if !h.is_empty() && !h.contains('=') { variants.push(start(CCfg { env: vec![(h.clone(), s("value"))], ..plain_ccfg() })); }
        if !h.is_empty() {
            variants.push(start(CCfg { mounts: vec![(h.clone(), s("/dst"))], ..plain_ccfg() }));
            variants.push(start(CCfg { mounts: vec![(s("/src"), h.clone())], ..plain_ccfg() }));
            variants.push((vec![BCfg { bps: vec![s("a/b"), h.clone(), s("c/d")], ..plain_bcfg() }], vec![], Tree { cfg: 0, acts: vec![] }));
        }
        variants.push((vec![BCfg { builder: h.clone(), ..plain_bcfg() }], vec![], Tree { cfg: 0, acts: vec![] }));
        variants.push((vec![BCfg { env: vec![(s("KEY"), h.clone())], ..plain_bcfg() }], vec![], Tree { cfg: 0, acts: vec![] }));
        variants.push((vec![plain_bcfg()], vec![], Tree { cfg: 0, acts: vec![Act::Shell(h.clone())] }));
        variants.push((vec![plain_bcfg()], vec![plain_ccfg()], Tree { cfg: 0, acts: vec![Act::Start(0, vec![CAct::Exec(h.clone())])] }));
        for (b, c, t) in variants { push(assemble(fixture0.clone(), b, c, t, "exhaustive")); }
    }
    // bounded-exhaustive part 2: every kind of preprocessor edit (and a combination) x {relative, absolute app dir} x
    // {rebuild with the caller's own fresh config, with `context.config.clone()`, with that plus env set after the clone,
    //  twice in a row from the context's config} — pack must see fixture + edits exactly once, every time
    let edit_sets: Vec<Vec<Edit>> = vec![
        vec![Edit::Write(s("new.txt"), b"edited".to_vec())], vec![Edit::Delete(s("app.txt"))],
        vec![Edit::Append(s("Procfile"), b"worker: run\n".to_vec())], vec![Edit::Append(s("log.txt"), b"x".to_vec())],
        vec![Edit::Rename(s("app.txt"), s("sub/moved"))], vec![Edit::Remove(s("app.txt"))],
        vec![Edit::Write(s("tmp.part"), b"data".to_vec()), Edit::Rename(s("tmp.part"), s("final.txt"))],
        vec![Edit::Append(s("Procfile"), b"x".to_vec()), Edit::Rename(s("Procfile"), s("Procfile.bak")), Edit::Remove(s("app.txt"))],
        vec![],
    ];
    for edits in &edit_sets { for app in [AppDir::Rel(s("fixtures/app")), AppDir::Abs(s("/app"))] {
        let first = BCfg { pre: Some(edits.clone()), app: app.clone(), env: vec![(s("K"), s("v"))], ..plain_bcfg() };
        let overlay = BCfg { env: vec![(s("K"), s("--env")), (s("NEW"), s("a=b"))], ..plain_bcfg() };
        let none = BCfg { env: vec![], ..plain_bcfg() };
        let shell = vec![Act::Shell(s("true"))];
        push(assemble(fixture0.clone(), vec![first.clone()], vec![], Tree { cfg: 0, acts: vec![Act::Rebuild(0, shell.clone())] }, "exhaustive-rebuild"));
        push(assemble(fixture0.clone(), vec![first.clone(), none.clone()], vec![], Tree { cfg: 0, acts: vec![Act::RebuildCtx(1, shell.clone())] }, "exhaustive-rebuild"));
        push(assemble(fixture0.clone(), vec![first.clone(), overlay.clone()], vec![], Tree { cfg: 0, acts: vec![Act::RebuildCtx(1, vec![])] }, "exhaustive-rebuild"));
        push(assemble(fixture0.clone(), vec![first.clone(), overlay.clone(), none.clone()], vec![], Tree { cfg: 0, acts: vec![Act::RebuildCtx(2, vec![Act::RebuildCtx(1, vec![])])] }, "exhaustive-rebuild"));
        push(assemble(fixture0.clone(), vec![none.clone(), first.clone()], vec![], Tree { cfg: 0, acts: vec![Act::Rebuild(1, vec![Act::RebuildCtx(0, vec![])])] }, "exhaustive-rebuild"));
    } }
    // bounded-exhaustive part 3 (scripted tool results): every text of the pool (realistic failure messages of pack / docker /
    // registries, the retry-heuristic markers alone, inside messages, in other case, broken by an invalid byte; empty; ~6 kB;
    // ill-formed UTF-8) as what one `pack build` prints, in five situations; then failing/succeeding builds and rebuilds in a row
    let pool = text_pool();
    let ok_out: &[u8] = b"===> BUILDING\nSuccessfully built image\n";
    let fail_bcfg = || BCfg { expect_success: false, pack_nonzero: true, ..plain_bcfg() };
    let statuses = [1u8, 2, 125, 255, 51, 127, 130, 7];
    let tree0 = |acts: Vec<Act>| Tree { cfg: 0, acts };
    for (k, (_, t)) in pool.iter().enumerate() {
        let st = statuses[k % statuses.len()];
        let extra = [se('p', 1, 0, ok_out, b""), se('p', 2, 1, b"", b"ERROR: failed to build\n")];
        let with = |first: SEntry| { let mut v = vec![first]; v.extend(extra.iter().cloned()); v };
        // an expected failure printing the text on stderr / on stdout
        push(assemble_scripted(fixture0.clone(), vec![fail_bcfg()], vec![], tree0(vec![Act::Shell(s("true"))]), with(se('p', 0, st, b"pack output\n", t)), (k % 3) as u64, "out-exhaustive"));
        push(assemble_scripted(fixture0.clone(), vec![fail_bcfg()], vec![], tree0(vec![]), with(se('p', 0, 1, t, b"ERROR: failed to build: executing lifecycle: failed with status code: 51\n")), (k % 3) as u64, "out-exhaustive"));
        // a successful build printing it as a warning
        push(assemble_scripted(fixture0.clone(), vec![plain_bcfg()], vec![plain_ccfg()], tree0(vec![Act::Start(0, vec![CAct::LogsNow])]), with(se('p', 0, 0, ok_out, t)), (k % 3) as u64, "out-exhaustive"));
        // the unexpected results: a failure where success is expected, a success where failure is expected
        push(assemble_scripted(fixture0.clone(), vec![plain_bcfg()], vec![], tree0(vec![Act::Shell(s("never runs"))]), with(se('p', 0, st, b"pack output\n", t)), (k % 3) as u64, "out-exhaustive"));
        push(assemble_scripted(fixture0.clone(), vec![fail_bcfg()], vec![], tree0(vec![Act::Shell(s("never runs"))]), with(se('p', 0, 0, t, t)), (k % 3) as u64, "out-exhaustive"));
    }
    for (k, (class, t)) in pool.iter().enumerate() {
        if !(*class == "marker" || k % 4 == 0) { continue; }
        let tail = [se('p', 3, 0, ok_out, b""), se('p', 4, 0, ok_out, b"")];
        let mk = |v: Vec<SEntry>| { let mut v = v; v.extend(tail.iter().cloned()); v };
        let ok_cfg = BCfg { env: vec![(s("K"), s("v"))], ..plain_bcfg() };
        let fail_ctx = BCfg { env: vec![(s("FAIL"), s("1"))], expect_success: false, pack_nonzero: true, ..plain_bcfg() };
        // failing (expected), then a rebuild that succeeds, then one more from the context's config
        push(assemble_scripted(fixture0.clone(), vec![fail_bcfg(), ok_cfg.clone()], vec![], tree0(vec![Act::Rebuild(1, vec![Act::Shell(s("true")), Act::RebuildCtx(1, vec![])])]),
            mk(vec![se('p', 0, 1, b"", t), se('p', 1, 0, ok_out, b""), se('p', 2, 0, ok_out, b"")]), 0, "out-rebuild"));
        // succeeding, then an sbom download, then a rebuild from the context's config that fails as expected with the text
        push(assemble_scripted(fixture0.clone(), vec![ok_cfg.clone(), fail_ctx.clone()], vec![], tree0(vec![Act::Sbom, Act::RebuildCtx(1, vec![])]),
            mk(vec![se('p', 0, 0, ok_out, b""), se('p', 1, 0, b"sbom\n", t), se('p', 2, 2, t, t)]), 1, "out-rebuild"));
        // two expected failures in a row with different texts, then a success
        push(assemble_scripted(fixture0.clone(), vec![fail_bcfg(), ok_cfg.clone()], vec![], tree0(vec![Act::Rebuild(0, vec![Act::Rebuild(1, vec![Act::Shell(s("true"))])])]),
            mk(vec![se('p', 0, 1, b"first\n", t), se('p', 1, 255, b"second\n", b"ERROR: failed to build\n"), se('p', 2, 0, ok_out, b"")]), 2, "out-rebuild"));
    }
    // bounded-exhaustive part 4 (bind-mount sources that exist on the host): every spelling of HOST alone; every pair of
    // different texts for one location in both orders, at two targets; triples; mixes with relative and missing sources
    {
        let start = |m: Vec<(String, String)>, ep: Option<String>| (vec![plain_bcfg()], vec![CCfg { mounts: m, entrypoint: ep, ..plain_ccfg() }], Tree { cfg: 0, acts: vec![Act::Start(0, vec![CAct::LogsNow])] });
        let mut hv: Vec<(Vec<BCfg>, Vec<CCfg>, Tree)> = vec![];
        for h in HOST { hv.push(start(vec![(s(h), s("/dst"))], None)); }
        for (i, a) in HOST_ALIAS.iter().enumerate() { for (j, b) in HOST_ALIAS.iter().enumerate() {
            if i != j && std::path::PathBuf::from(a) != std::path::PathBuf::from(b) { hv.push(start(vec![(s(a), s("/srv/one")), (s(b), s("/srv/two"))], Some(s("web")))); }
        } }
        for t in [
            ["/$S/current", "/$S/releases/v2", "/$S/releases/../current"], ["/$S/real", "/$S/link", "/$S/via/link2"], ["/$S/abslink", "/$S/via/../real", "/$S/real/sub"],
            ["/$S/link", "cache", "/$S/missing"], ["/$S/flink", "/$S/file", "./a//b"], ["/$S/dangling", "/$S/real/", "a/../b"], ["/$S/link/sub", "/$S/real/sub", "/$S/via/link2/sub/"],
        ] {
            hv.push(start(vec![(s(t[0]), s("/srv/current")), (s(t[1]), s("/srv/pinned")), (s(t[2]), s("/a b"))], None));
            hv.push(start(vec![(s(t[2]), s("/x")), (s(t[1]), s("/x")), (s(t[0]), s("/x"))], None));
            hv.push(start(vec![(s(t[0]), s("/srv/current")), (s(t[1]), s("/srv/pinned"))], None));
        }
        for (b, c, t) in hv { push(assemble(fixture0.clone(), b, c, t, "exhaustive-host-mounts")); }
    }
    // seeded random scripted scenarios: the random scenarios of below with every pack invocation (and some docker ones) scripted
    let n_scripted = match tier { "thorough" => 6000, _ => 400 };
    for i in 0..n_scripted {
        let mut r = Rng::for_case(seed ^ 0x5c17, i);
        let (fixture, mut bcfgs, ccfgs, acts) = gen_scenario(&mut r, false, false);
        for b in &mut bcfgs { b.expect_success = !r.chance(2, 5); b.pack_nonzero = !b.expect_success; }
        let tree = Tree { cfg: 0, acts };
        let (builds, sboms) = pack_positions(&tree);
        let ch = chain(&tree);
        let text = |r: &mut Rng| -> Vec<u8> { if r.chance(1, 5) { vec![] } else { pool[r.below(pool.len() as u64) as usize].1.clone() } };
        let mut script = vec![];
        for (j, n) in builds.iter().enumerate() {
            let as_expected = !r.chance(1, 8);
            let zero = bcfgs[ch[j]].expect_success == as_expected;
            let (o, e) = (text(&mut r), text(&mut r));
            script.push(se('p', *n, if zero { 0 } else { *r.pick(&statuses) }, &o, &e));
        }
        for n in &sboms { let (o, e) = (text(&mut r), text(&mut r)); script.push(se('p', *n, 0, &o, &e)); }
        let total = builds.len() + sboms.len();
        for n in total..total + 2 { let (o, e) = (text(&mut r), text(&mut r)); script.push(se('p', n, if r.chance(1, 2) { 0 } else { 1 }, &o, &e)); }
        if r.chance(1, 2) {
            for _ in 0..r.range(1, 3) {
                let n = r.below(8) as usize;
                if script.iter().any(|e| e.prog == 'd' && e.n == n) { continue; }
                let (o, e) = (text(&mut r), text(&mut r));
                script.push(se('d', n, if r.chance(1, 6) { *r.pick(&statuses) } else { 0 }, &o, &e));
            }
        }
        push(assemble_scripted(fixture, bcfgs, ccfgs, tree, script, i % 3, "out-random"));
    }
    let n = match tier { "thorough" => 20000, _ => 1600 };
    let search = std::env::var("VERIF_SEARCH").is_ok();
    for i in 0..n {
        let mut r = Rng::for_case(seed, i);
        // a clearly tagged minority carries the CSV metacharacters of finding D6 (none during a violation search)
        let (meta_mount, meta_bp) = if search { (false, false) } else { (i % 40 == 7, i % 40 == 23) };
        let (fixture, bcfgs, ccfgs, acts) = gen_scenario(&mut r, meta_mount, meta_bp);
        let kind = if meta_mount { "d6-mount-csv-meta" } else if meta_bp { "d6-buildpack-csv-meta" } else { "random" };
        // what the stand-in tools print (container id, `docker port` text, pack/docker stdout) and the status an expected-failure
        // `pack build` exits with rotate through three sets; no configuration may depend on them
        let mut b = assemble(fixture, bcfgs, ccfgs, Tree { cfg: 0, acts }, kind);
        b.fields[4] = format!("-@{}", i % 3);
        b.tags.push((s("outputs"), (i % 3).to_string()));
        push(b);
    }
}

// ------------------------------------------------------------------------------------------------ scripted tool results
/// one scripted invocation: program (`p`ack / `d`ocker), its 0-based invocation number, exit status, stdout, stderr
#[derive(Clone)]
struct SEntry { prog: char, n: usize, exit: u8, out: Vec<u8>, err: Vec<u8> }

fn enc_script(s: &[SEntry]) -> String {
    if s.is_empty() { "-".into() } else { s.iter().map(|e| format!("{}{}:{}:{}:{}", e.prog, e.n, e.exit, hex(&e.out), hex(&e.err))).collect::<Vec<_>>().join(",") }
}
fn parse_script(s: &str) -> Option<Vec<SEntry>> {
    if s == "-" { return Some(vec![]); }
    s.split(',').map(|e| {
        let p: Vec<&str> = e.split(':').collect();
        if p.len() != 4 { return None; }
        let prog = p[0].chars().next().filter(|c| *c == 'p' || *c == 'd')?;
        if p[0].len() < 2 || !p[0][1..].bytes().all(|b| b.is_ascii_digit()) || p[1].is_empty() || !p[1].bytes().all(|b| b.is_ascii_digit()) { return None; }
        Some(SEntry { prog, n: p[0][1..].parse().ok()?, exit: p[1].parse().ok()?, out: unhex(p[2])?, err: unhex(p[3])? })
    }).collect()
}

/// how many pack invocations the scenario makes at most (one per build of the chain, one per `download_sbom_files`)
fn pack_invocations(t: &Tree) -> usize {
    fn walk(a: &[Act]) -> usize { a.iter().map(|x| match x { Act::Sbom => 1, Act::Rebuild(_, i) | Act::RebuildCtx(_, i) => 1 + walk(i), _ => 0 }).sum() }
    1 + walk(&t.acts)
}

/// Fields: fixture, bcfgs, ccfgs, tree, `-[@flavour]`, script. The real `TestRunner` runs in the child process `trun` with the
/// stand-ins first on PATH, every scripted invocation printing and exiting as scripted. Observation: the five parts of
/// `lct::run_scenario_case`, then what the test was handed (`ctx=`: pack_stdout/pack_stderr of every TestContext; `panic=`: the
/// message of the first panic if it is one of the two of `build_internal`'s match on the pack result, else `other`/`-`) and what
/// the stand-in recorded having printed at each `pack build` (`inv=`).
fn run_scripted_case(fields: &[String]) -> String {
    let (Some(fixture), Some(bcfgs), Some(ccfgs), Some(tree), Some(script)) = (parse_fixture(&fields[0]), parse_cfg_list(&fields[1], parse_bcfg), parse_cfg_list(&fields[2], parse_ccfg), parse_tree(&fields[3]), parse_script(&fields[5])) else { return "bad-op".into() };
    let ch = chain(&tree);
    if ch.iter().any(|i| *i >= bcfgs.len()) { return "bad-op".into(); }
    let flavour = match fields[4].split_once('@') { Some(("-", f)) => f, None if fields[4] == "-" => "0", _ => return "bad-op".into() };
    if flavour.parse::<u32>().map_or(true, |f| f > 3) { return "bad-op".into(); }
    if (0..pack_invocations(&tree)).any(|n| !script.iter().any(|e| e.prog == 'p' && e.n == n)) { return "bad-op".into(); }
    let root = tempfile::Builder::new().prefix("lct-").tempdir().unwrap();
    let root_path = root.path().canonicalize().unwrap();
    let (m, a, t, bin, log) = (root_path.join("m"), root_path.join("a"), root_path.join("t"), root_path.join("bin"), root_path.join("log"));
    for d in [&m, &a, &t, &bin] { std::fs::create_dir_all(d).unwrap(); }
    let write_fixture = |root: &std::path::Path| {
        std::fs::create_dir_all(root).unwrap();
        for (p, c) in &fixture { let f = root.join(p); std::fs::create_dir_all(f.parent().unwrap()).unwrap(); std::fs::write(f, c).unwrap(); }
    };
    write_fixture(&m.join("fixtures/app"));
    write_fixture(&a.join("app"));
    std::fs::write(&log, b"").unwrap();
    let before = (file_snapshot(&m), file_snapshot(&a));
    let scratch = if uses_mount_scratch(&ccfgs) { Some(make_mount_scratch(&root_path)) } else { None };
    let sibling = |name: &str| std::env::current_exe().unwrap().parent().unwrap().join(name);
    for prog in ["docker", "pack"] { std::os::unix::fs::symlink(sibling("standin"), bin.join(prog)).unwrap(); }
    let script_file = root_path.join("script");
    std::fs::write(&script_file, script.iter().map(|e| format!("{} {} {} h{} h{}\n", if e.prog == 'p' { "pack" } else { "docker" }, e.n, e.exit, hex(&e.out), hex(&e.err))).collect::<String>()).unwrap();
    let pack_results: Vec<String> = ch.iter().map(|i| u8::from(bcfgs[*i].pack_nonzero).to_string()).collect();
    let mut cmd = std::process::Command::new(sibling("trun"));
    cmd.args(&fields[1..4])
        .env_clear()
        .env("PATH", &bin).env("TMPDIR", &t).env("CARGO_MANIFEST_DIR", &m).env("LCT_ABS_BASE", &a)
        .env("STANDIN_LOG", &log).env("STANDIN_BIN", &bin).env("STANDIN_PACK_BUILD_RESULTS", pack_results.join(","))
        .env("STANDIN_FLAVOUR", flavour).env("STANDIN_SCRIPT", &script_file).env("STANDIN_OUTLOG", root_path.join("outlog"))
        .env("TRUN_CTX_LOG", root_path.join("ctxlog")).env("TRUN_PANIC_LOG", root_path.join("paniclog"))
        .stdin(std::process::Stdio::null()).stdout(std::process::Stdio::null()).stderr(std::process::Stdio::null());
    if let Some(h) = &scratch { cmd.env("LCT_MOUNT_BASE", h); }
    let mut child = cmd.spawn().unwrap();
    let start = std::time::Instant::now();
    let status = loop {
        match child.try_wait().unwrap() {
            Some(st) => break Some(st),
            None if start.elapsed().as_secs() > 60 => { let _ = child.kill(); let _ = child.wait(); break None; }
            None => std::thread::sleep(std::time::Duration::from_millis(2)),
        }
    };
    use std::os::unix::process::ExitStatusExt;
    let exit = match status {
        None => "timeout".to_string(),
        Some(st) => match (st.code(), st.signal()) { (Some(0), _) => "ok".into(), (Some(101), _) => "panic".into(), (_, Some(6)) => "abort".into(), (Some(c), _) => format!("other{c}"), (_, Some(s)) => format!("signal{s}"), (None, None) => "unknown".into() },
    };
    let mut canon = Canon::new(&t, &m, &a);
    let text = std::fs::read_to_string(&log).unwrap_or_default();
    let outlog = std::fs::read_to_string(root_path.join("outlog")).unwrap_or_default();
    let (mut cmds, mut inv) = (vec![], vec![]);
    for (k, line) in text.lines().enumerate() {
        let mut it = line.split(' ');
        let prog = match it.next() { Some("docker") => "d", Some("pack") => "p", _ => "?" };
        let mut c = prog.to_string();
        for w in it { let bytes = canon_scratch(&unhex(w.strip_prefix('h').unwrap_or("zz")).unwrap_or_default(), scratch.as_deref()); c.push_str(",h"); c.push_str(&hex(&canon.word(&bytes))); }
        cmds.push(c);
        if line.starts_with("pack h6275696c64 ") || line == "pack h6275696c64" {
            // what the stand-in recorded for this (1-based) line of its log
            let rec = outlog.lines().find_map(|l| { let p: Vec<&str> = l.split(' ').collect(); (p.len() == 4 && p[0].parse::<usize>().ok() == Some(k + 1)).then(|| format!("{}:{}:{}", p[1], p[2].trim_start_matches('h'), p[3].trim_start_matches('h'))) });
            inv.push(rec.unwrap_or_else(|| "?".into()));
        }
    }
    let snaps: Vec<String> = std::fs::read_to_string(root_path.join("log.snap")).unwrap_or_default().lines().map(str::to_string).collect();
    let left = std::fs::read_dir(&t).map(|rd| rd.count()).unwrap_or(0);
    let after = (file_snapshot(&m), file_snapshot(&a));
    let ctx: Vec<String> = std::fs::read_to_string(root_path.join("ctxlog")).unwrap_or_default().lines()
        .map(|l| l.split(' ').map(|w| w.trim_start_matches('h').to_string()).collect::<Vec<_>>().join(":")).collect();
    let panic = match std::fs::read_to_string(root_path.join("paniclog")).unwrap_or_default().lines().next() {
        None => "-".to_string(),
        Some(l) => {
            let msg = unhex(l.trim_start_matches('h')).unwrap_or_default();
            if msg.starts_with(b"Error performing pack build:") || msg.starts_with(b"The pack build was expected to fail") { format!("h{}", hex(&msg)) } else { "other".into() }
        }
    };
    let dash = |v: &Vec<String>, sep: &str| if v.is_empty() { "-".to_string() } else { v.join(sep) };
    format!("exit={} log={} tmp={} fixture={} snaps={} ctx={} panic={} inv={}", exit, dash(&cmds, ";"), left,
        if before == after { "same" } else { "changed" }, dash(&snaps, "/"), dash(&ctx, "/"), panic, dash(&inv, "/"))
}

fn run_case(fields: &[String]) -> String { if fields.len() == 6 { run_scripted_case(fields) } else { run_scenario_case(fields) } }

fn main() { cnbv::main_loop_jobs("c17", 12, &generate, &run_case) }
