//! Gen/Schemas.lean: one `Schema` value per serde type of the CNB data formats, read with `syn` from the
//! `#[derive(Serialize/Deserialize)]` items and their `#[serde(...)]` attributes.
//!
//! Normal forms: struct fields are emitted sorted by their TOML key (declaration order is not observable);
//! `untagged` variants keep declaration order (observable); an untagged enum `{ Unit, Newtype(T) }` is emitted as an
//! optional `T` (the unit variant is its `None`); generic parameters in field position become `Param` binders.
use crate::*;
use std::collections::{BTreeMap, BTreeSet};
#[allow(unused_imports)]
use std::fmt::Write as _;

const FILES: &[&str] = &[
    "libcnb-data/src/buildpack/mod.rs", "libcnb-data/src/buildpack/target.rs", "libcnb-data/src/buildpack/stack.rs",
    "libcnb-data/src/buildpack/id.rs", "libcnb-data/src/buildpack/version.rs", "libcnb-data/src/buildpack/api.rs",
    "libcnb-data/src/buildpack_plan.rs", "libcnb-data/src/build_plan.rs", "libcnb-data/src/launch.rs",
    "libcnb-data/src/layer_content_metadata.rs", "libcnb-data/src/store.rs", "libcnb-data/src/exec_d.rs",
    "libcnb-data/src/package_descriptor.rs", "libcnb-data/src/sbom.rs", "libcnb-data/src/generic.rs",
];

/// validated-string newtypes (`libcnb_newtype!`) and `try_from = "String"` types, by type name
const STRV: &[(&str, &str)] = &[
    ("BuildpackId", "buildpackId"), ("ProcessType", "processType"), ("ExecDProgramOutputKey", "execdKey"),
    ("BuildpackVersion", "version"), ("BuildpackApi", "api"),
];

#[derive(Default, Clone, Debug)]
struct SerdeAttrs {
    rename: Option<String>, rename_all: Option<String>, default: bool, skip_if: Option<String>, deny: bool, untagged: bool,
    try_from: Option<String>, de_with: Option<String>, ser_with: Option<String>, other: Vec<String>,
}

fn serde_attrs(attrs: &[syn::Attribute]) -> SerdeAttrs {
    let mut a = SerdeAttrs::default();
    for at in attrs {
        if !at.path().is_ident("serde") { continue; }
        let r = at.parse_nested_meta(|m| {
            let name = m.path.get_ident().map(|i| i.to_string()).unwrap_or_else(|| norm(&m.path));
            let strval = |m: &syn::meta::ParseNestedMeta| -> syn::Result<String> { let v = m.value()?; let s: syn::LitStr = v.parse()?; Ok(s.value()) };
            match name.as_str() {
                "rename" => a.rename = Some(strval(&m)?),
                "rename_all" => a.rename_all = Some(strval(&m)?),
                "default" => { if m.input.peek(syn::Token![=]) { a.other.push(format!("default = {}", strval(&m)?)); } else { a.default = true; } }
                "skip_serializing_if" => a.skip_if = Some(strval(&m)?),
                "deny_unknown_fields" => a.deny = true,
                "untagged" => a.untagged = true,
                "try_from" => a.try_from = Some(strval(&m)?),
                "deserialize_with" => a.de_with = Some(strval(&m)?),
                "serialize_with" => a.ser_with = Some(strval(&m)?),
                other => { a.other.push(other.to_string()); if m.input.peek(syn::Token![=]) { let _ = strval(&m); } }
            }
            Ok(())
        });
        if let Err(e) = r { a.other.push(format!("unparsable serde attribute: {e}")); }
    }
    a
}

fn derives(attrs: &[syn::Attribute]) -> (bool, bool) {
    let (mut ser, mut de) = (false, false);
    for at in attrs {
        if !at.path().is_ident("derive") { continue; }
        let _ = at.parse_nested_meta(|m| {
            let last = m.path.segments.last().map(|s| s.ident.to_string()).unwrap_or_default();
            if last == "Serialize" { ser = true; }
            if last == "Deserialize" { de = true; }
            Ok(())
        });
    }
    (ser, de)
}

fn is_cfg_test(attrs: &[syn::Attribute]) -> bool { attrs.iter().any(|a| a.path().is_ident("cfg") && norm(&a.meta).contains("test")) }

fn rename_all(rule: &str, words: &[String]) -> Option<String> {
    // `words`: the identifier split into lower-case words
    let cap = |w: &String| { let mut c = w.chars(); c.next().map(|f| f.to_uppercase().collect::<String>() + c.as_str()).unwrap_or_default() };
    Some(match rule {
        "lowercase" => words.concat(),
        "UPPERCASE" => words.concat().to_uppercase(),
        "PascalCase" => words.iter().map(cap).collect(),
        "camelCase" => words.iter().enumerate().map(|(i, w)| if i == 0 { w.clone() } else { cap(w) }).collect(),
        "snake_case" => words.join("_"),
        "SCREAMING_SNAKE_CASE" => words.join("_").to_uppercase(),
        "kebab-case" => words.join("-"),
        "SCREAMING-KEBAB-CASE" => words.join("-").to_uppercase(),
        _ => return None,
    })
}
fn pascal_words(id: &str) -> Vec<String> {
    let mut out: Vec<String> = vec![];
    for c in id.chars() { if c.is_uppercase() || out.is_empty() { out.push(String::new()); } out.last_mut().unwrap().extend(c.to_lowercase()); }
    out
}
fn snake_words(id: &str) -> Vec<String> { id.split('_').filter(|w| !w.is_empty()).map(str::to_lowercase).collect() }
fn ident_name(i: &syn::Ident) -> String { let s = i.to_string(); s.strip_prefix("r#").unwrap_or(&s).to_string() }
fn lean_str(s: &str) -> String { format!("{:?}", s) }

enum Item {
    Struct { generics: Vec<(String, Option<syn::Type>)>, attrs: SerdeAttrs, fields: Vec<(String, syn::Type, SerdeAttrs)>, file: String, ser: bool, de: bool },
    Newtype { inner: syn::Type, file: String, ser: bool, de: bool },
    Enum { generics: Vec<(String, Option<syn::Type>)>, attrs: SerdeAttrs, variants: Vec<(String, SerdeAttrs, Vec<syn::Type>)>, file: String, ser: bool, de: bool },
}

/// how a Rust type reads/writes in field position
#[derive(Clone, Debug)]
enum Ty {
    Schema(String, Option<String>),         // Lean schema term; Default::default() as a `Dflt` term when known
    OptLike { inner: String, none_enc: Option<String>, default_is_none: bool }, // untagged {Unit, Newtype(T)}
    Option(Box<Ty>),
    Param(String),
}

struct Tr<'a> {
    ctx: &'a mut Ctx,
    items: BTreeMap<String, Item>,
    aliases: BTreeMap<String, syn::Type>,
    newtypes: BTreeSet<String>,
    impls: Vec<(String, syn::ItemImpl)>,     // (self type name, impl)
    fns: BTreeMap<String, syn::ItemFn>,
    emitted: Vec<String>,
    out: String,
    done: BTreeSet<String>,
    in_progress: BTreeSet<String>,
}

fn generics_of(g: &syn::Generics) -> Vec<(String, Option<syn::Type>)> {
    g.params.iter().filter_map(|p| if let syn::GenericParam::Type(t) = p { Some((t.ident.to_string(), t.default.clone())) } else { None }).collect()
}

fn last_seg(t: &syn::Type) -> Option<(String, Vec<syn::Type>)> {
    if let syn::Type::Path(p) = t {
        let s = p.path.segments.last()?;
        let args = match &s.arguments {
            syn::PathArguments::AngleBracketed(a) => a.args.iter().filter_map(|x| if let syn::GenericArgument::Type(t) = x { Some(t.clone()) } else { None }).collect(),
            _ => vec![],
        };
        Some((s.ident.to_string(), args))
    } else { None }
}

impl Tr<'_> {
    fn broken(&mut self, s: String) { if !self.ctx.broken.contains(&s) { self.ctx.broken.push(s); } }

    fn collect(&mut self, file: &str, items: &[syn::Item]) {
        for it in items {
            match it {
                syn::Item::Mod(m) => { if !is_cfg_test(&m.attrs) { if let Some((_, content)) = &m.content { self.collect(file, content); } } }
                syn::Item::Struct(s) => {
                    let (ser, de) = derives(&s.attrs);
                    if !(ser || de) { continue; }
                    let name = s.ident.to_string();
                    match &s.fields {
                        syn::Fields::Named(n) => {
                            let fields = n.named.iter().map(|f| (ident_name(f.ident.as_ref().unwrap()), f.ty.clone(), serde_attrs(&f.attrs))).collect();
                            self.items.insert(name, Item::Struct { generics: generics_of(&s.generics), attrs: serde_attrs(&s.attrs), fields, file: file.into(), ser, de });
                        }
                        syn::Fields::Unnamed(u) if u.unnamed.len() == 1 => { self.items.insert(name, Item::Newtype { inner: u.unnamed[0].ty.clone(), file: file.into(), ser, de }); }
                        _ => self.broken(format!("{name}: tuple/unit struct with serde derive is not a supported shape ({file})")),
                    }
                }
                syn::Item::Enum(e) => {
                    let (ser, de) = derives(&e.attrs);
                    if !(ser || de) { continue; }
                    let variants = e.variants.iter().map(|v| (v.ident.to_string(), serde_attrs(&v.attrs), match &v.fields {
                        syn::Fields::Unit => vec![],
                        syn::Fields::Unnamed(u) => u.unnamed.iter().map(|f| f.ty.clone()).collect(),
                        syn::Fields::Named(n) => n.named.iter().map(|f| f.ty.clone()).chain(std::iter::once(syn::parse_quote!(()))).collect(),
                    })).collect();
                    self.items.insert(e.ident.to_string(), Item::Enum { generics: generics_of(&e.generics), attrs: serde_attrs(&e.attrs), variants, file: file.into(), ser, de });
                }
                syn::Item::Type(t) => { self.aliases.insert(t.ident.to_string(), (*t.ty).clone()); }
                syn::Item::Impl(i) => { if let Some((n, _)) = last_seg(&i.self_ty) { self.impls.push((n, i.clone())); } }
                syn::Item::Fn(f) => { self.fns.insert(f.sig.ident.to_string(), f.clone()); }
                syn::Item::Macro(m) => {
                    if m.mac.path.segments.last().map(|s| s.ident == "libcnb_newtype").unwrap_or(false) {
                        // libcnb_newtype!(path, [attrs] macro_name, [attrs] Name, [attrs] ErrName, regex): third bare identifier
                        let mut idents = vec![];
                        let mut prev_punct = false; // skip identifiers that are part of a path (a::b) or an attribute
                        for tt in m.mac.tokens.clone() {
                            match tt {
                                proc_macro2::TokenTree::Ident(i) => { if !prev_punct { idents.push(i.to_string()); } prev_punct = false; }
                                proc_macro2::TokenTree::Punct(p) => { prev_punct = p.as_char() == ':' || p.as_char() == '#'; if p.as_char() == ',' { idents.push(",".into()); } }
                                _ => { prev_punct = false; }
                            }
                        }
                        let args: Vec<Vec<String>> = idents.split(|s| s == ",").map(|a| a.to_vec()).collect();
                        if args.len() == 5 && args[2].len() == 1 { self.newtypes.insert(args[2][0].clone()); }
                        else { self.broken(format!("libcnb_newtype! in {file}: expected (path, macro_name, Name, ErrorName, regex)")); }
                    }
                }
                _ => {}
            }
        }
    }

    fn impl_of(&self, ty: &str, tr: &str) -> Option<syn::ItemImpl> {
        self.impls.iter().find(|(n, i)| n == ty && i.trait_.as_ref().map(|(_, p, _)| p.segments.last().unwrap().ident == tr).unwrap_or(false)).map(|(_, i)| i.clone())
    }
    fn inherent_fn(&self, ty: &str, f: &str) -> Option<syn::ImplItemFn> {
        for (n, i) in &self.impls { if n == ty && i.trait_.is_none() { for it in &i.items { if let syn::ImplItem::Fn(m) = it { if m.sig.ident == f { return Some(m.clone()); } } } } }
        None
    }

    /// variant names of a string enum after renaming; None if the item is not an enum of unit variants
    fn enum_names(&mut self, name: &str) -> Option<Vec<(String, String)>> {
        let (attrs, variants) = match self.items.get(name) { Some(Item::Enum { attrs, variants, .. }) if !attrs.untagged && variants.iter().all(|v| v.2.is_empty()) => (attrs.clone(), variants.clone()), _ => return None };
        let mut out = vec![];
        for (v, va, _) in variants {
            let n = if let Some(r) = va.rename { r } else if let Some(rule) = &attrs.rename_all {
                match rename_all(rule, &pascal_words(&v)) { Some(n) => n, None => { self.broken(format!("{name}: unsupported rename_all = {rule:?}")); return None; } }
            } else { v.clone() };
            if !va.other.is_empty() { self.broken(format!("{name}::{v}: unsupported serde attribute(s) {:?}", va.other)); }
            out.push((v, n));
        }
        Some(out)
    }

    /// (schema term, default) of a type used as a value
    fn ty(&mut self, t: &syn::Type, generics: &[String], what: &str) -> Option<Ty> {
        let (name, args) = match last_seg(t) { Some(x) => x, None => { self.broken(format!("{what}: unsupported type `{}`", norm(t))); return None; } };
        if generics.contains(&name) { return Some(Ty::Param(name)); }
        if let Some(al) = self.aliases.get(&name).cloned() { return self.ty(&al, generics, what); }
        let s = |x: &str, d: Option<&str>| Some(Ty::Schema(x.to_string(), d.map(str::to_string)));
        match (name.as_str(), args.len()) {
            ("String", 0) => s(".str .plain", Some("(.str \"\")")),
            ("PathBuf", 0) => s(".str .path", None),
            ("bool", 0) => s(".bool", Some("(.bool false)")),
            ("u8" | "u16" | "u32" | "u64" | "i8" | "i16" | "i32" | "i64" | "usize" | "isize", 0) => s(".int", None),
            ("Table", 0) => s(".table", Some(".emptyTbl")),
            ("Value", 0) => s(".any", None),
            ("Option", 1) => { let inner = self.ty(&args[0], generics, what)?; Some(Ty::Option(Box::new(inner))) }
            ("Vec" | "VecDeque", 1) => match self.ty(&args[0], generics, what)? {
                Ty::Schema(x, _) => Some(Ty::Schema(format!(".vec ({x})"), Some(".emptyArr".into()))),
                _ => { self.broken(format!("{what}: Vec of an optional/generic element is not a supported shape")); None }
            },
            ("HashSet" | "BTreeSet", 1) => match self.ty(&args[0], generics, what)? {
                Ty::Schema(x, _) if x.starts_with(".str ") => Some(Ty::Schema(format!(".set {}", &x[5..]), Some(".emptyArr".into()))),
                _ => { self.broken(format!("{what}: set of non-string elements is not a supported shape")); None }
            },
            ("HashMap" | "BTreeMap", 2) => match (self.ty(&args[0], generics, what)?, self.ty(&args[1], generics, what)?) {
                (Ty::Schema(k, _), Ty::Schema(v, _)) if k.starts_with(".str ") => Some(Ty::Schema(format!(".map {} ({v})", &k[5..]), Some(".emptyTbl".into()))),
                _ => { self.broken(format!("{what}: map with non-string keys is not a supported shape")); None }
            },
            _ => {
                if let Some((_, k)) = STRV.iter().find(|(n, _)| *n == name) {
                    // either a libcnb_newtype! or a #[serde(try_from = "String")] struct
                    let ok = self.newtypes.contains(&name) || matches!(self.items.get(&name), Some(Item::Struct { attrs, .. }) if attrs.try_from.as_deref() == Some("String"));
                    if !ok { self.broken(format!("{name}: expected a libcnb_newtype! or #[serde(try_from = \"String\")] type")); return None; }
                    return s(&format!(".str .{k}"), None);
                }
                if self.newtypes.contains(&name) { self.broken(format!("{name}: validated-string newtype without a model validator")); return None; }
                if let Some(vs) = self.enum_names(&name) {
                    let list = vs.iter().map(|(_, n)| lean_str(n)).collect::<Vec<_>>().join(", ");
                    // Default for the enum, if implemented as `Self::Variant`
                    return Some(Ty::Schema(format!(".str (.oneOf [{list}])"), None));
                }
                if let Some(Item::Enum { attrs, variants, .. }) = self.items.get(&name) {
                    let (attrs, variants) = (attrs.clone(), variants.clone());
                    if attrs.untagged && variants.len() == 2 && variants[0].2.is_empty() && variants[1].2.len() == 1 {
                        // option-like: Unit | Newtype(T)
                        let unit = variants[0].0.clone();
                        let inner = match self.ty(&variants[1].2[0], generics, what)? { Ty::Schema(x, _) => x, _ => { self.broken(format!("{name}: unsupported payload type")); return None; } };
                        // custom Serialize impl: match self { Self::Unit => serializer.serialize_str("lit"), Self::V(x) => x.serialize(serializer) }
                        let mut none_enc = None;
                        if let Some(imp) = self.impl_of(&name, "Serialize") {
                            let mut ok = false;
                            for it in &imp.items { if let syn::ImplItem::Fn(f) = it { for m in matches_in(&f.block) {
                                let mut unit_ok = false; let mut inner_ok = false;
                                for a in &m.arms {
                                    let pat = norm(&a.pat); let body = norm(&a.body);
                                    if pat == format!("Self::{unit}") { if let syn::Expr::MethodCall(mc) = &*a.body { if mc.method == "serialize_str" { if let Some(l) = mc.args.first().and_then(lit_str) { none_enc = Some(l); unit_ok = true; } } } }
                                    else if pat.starts_with(&format!("Self::{}(", variants[1].0)) && body.ends_with(".serialize(serializer)") { inner_ok = true; }
                                }
                                ok = unit_ok && inner_ok;
                            } } }
                            if !ok { self.broken(format!("{name}: `impl Serialize` is not `match self {{ Self::{unit} => serializer.serialize_str(<lit>), Self::{}(x) => x.serialize(serializer) }}`", variants[1].0)); return None; }
                        }
                        // Default: Self::Unit
                        let default_is_none = match self.impl_of(&name, "Default") {
                            Some(imp) => { let b = norm(&imp); if b.contains(&format!("Self::{unit}")) && !b.contains(&format!("Self::{}", variants[1].0)) { true } else { self.broken(format!("{name}: `Default` is not the unit variant `{unit}`")); return None; } }
                            None => false,
                        };
                        return Some(Ty::OptLike { inner, none_enc, default_is_none });
                    }
                }
                if self.items.contains_key(&name) {
                    self.emit(&name)?;
                    let item_generics = match &self.items[&name] { Item::Struct { generics, .. } | Item::Enum { generics, .. } => generics.clone(), _ => vec![] };
                    let mut term = format!("S.{name}");
                    if !item_generics.is_empty() {
                        // arguments given explicitly must be generic parameters of the user (passed through) — or absent (declared default)
                        if args.len() == item_generics.len() && args.iter().all(|a| last_seg(a).map(|(n, _)| generics.contains(&n)).unwrap_or(false)) {
                            for a in &args { term += &format!(" {}", last_seg(a).unwrap().0); }
                        } else if args.is_empty() {
                            for (g, d) in &item_generics { match d.clone().and_then(|d| self.param_of(&d, what)) { Some(p) => term += &format!(" {p}"), None => { self.broken(format!("{what}: generic parameter {g} of {name} has no usable default")); return None; } } }
                        } else { self.broken(format!("{what}: unsupported generic instantiation `{}`", norm(t))); return None; }
                        term = format!("({term})");
                    }
                    let dflt = self.default_of(&name);
                    return Some(Ty::Schema(term, dflt));
                }
                self.broken(format!("{what}: type `{}` is not known to the translator", norm(t)));
                None
            }
        }
    }

    /// a type in generic-argument position as a `Param` term
    fn param_of(&mut self, t: &syn::Type, what: &str) -> Option<String> {
        match self.ty(t, &[], what)? {
            Ty::Option(inner) => match *inner { Ty::Schema(x, _) if x == ".table" => Some("Param.optionalTable".into()), Ty::Schema(x, _) => Some(format!("⟨.optional, {x}⟩")), _ => None },
            Ty::Schema(x, _) => Some(format!("⟨.required, {x}⟩")),
            _ => None,
        }
    }

    /// `Default::default()` of a local struct as a `Dflt` term: `impl Default { Self { field: Variant } }` over string-enum fields
    fn default_of(&mut self, name: &str) -> Option<String> {
        let imp = self.impl_of(name, "Default")?;
        let fields = match self.items.get(name) { Some(Item::Struct { fields, .. }) => fields.clone(), _ => return None };
        for it in &imp.items { if let syn::ImplItem::Fn(f) = it { if f.sig.ident == "default" {
            if let Some(syn::Stmt::Expr(syn::Expr::Struct(st), None)) = f.block.stmts.last() {
                let mut pairs: Vec<(String, String)> = vec![];
                for fv in &st.fields {
                    let fname = if let syn::Member::Named(i) = &fv.member { ident_name(i) } else { return None };
                    let (_, fty, fa) = fields.iter().find(|(n, _, _)| *n == fname)?.clone();
                    let key = fa.rename.clone().unwrap_or(fname.clone());
                    let ename = last_seg(&fty)?.0;
                    let names = self.enum_names(&ename)?;
                    let vname = if let syn::Expr::Path(p) = &fv.expr { p.path.segments.last()?.ident.to_string() } else { return None };
                    let renamed = names.iter().find(|(v, _)| *v == vname)?.1.clone();
                    pairs.push((key, renamed));
                }
                if pairs.len() != fields.len() { return None; }
                pairs.sort();
                return Some(format!("(.recStr [{}])", pairs.iter().map(|(k, v)| format!("({}, {})", lean_str(k), lean_str(v))).collect::<Vec<_>>().join(", ")));
            }
        } } }
        None
    }

    fn skip_pred(&mut self, p: &str, what: &str) -> Option<&'static str> {
        let n = p.replace(' ', "");
        match n.as_str() {
            "Vec::is_empty" | "HashSet::is_empty" | "Table::is_empty" | "HashMap::is_empty" | "BTreeMap::is_empty" | "VecDeque::is_empty" => Some(".ifEmpty"),
            "std::ops::Not::not" | "core::ops::Not::not" | "Not::not" => Some(".ifFalse"),
            "Option::is_none" => Some(".ifAbsent"),
            _ => {
                // Type::method on an option-like enum: `matches!(self, Self::Unit)`
                if let Some((ty, m)) = n.split_once("::") {
                    if let (Some(Item::Enum { variants, attrs, .. }), Some(f)) = (self.items.get(ty), self.inherent_fn(ty, m)) {
                        if attrs.untagged && variants.len() == 2 && variants[0].2.is_empty() && norm(&f.block) == format!("{{matches!(self,Self::{})}}", variants[0].0) { return Some(".ifAbsent"); }
                    }
                }
                self.broken(format!("{what}: unsupported skip_serializing_if = {p:?}"));
                None
            }
        }
    }

    fn emit(&mut self, name: &str) -> Option<()> {
        if self.done.contains(name) { return Some(()); }
        if !self.in_progress.insert(name.to_string()) { self.broken(format!("{name}: recursive type")); return None; }
        let r = self.emit_inner(name);
        self.in_progress.remove(name);
        if r.is_some() { self.done.insert(name.to_string()); }
        r
    }

    fn emit_inner(&mut self, name: &str) -> Option<()> {
        let mut text = String::new();
        match self.items.get(name)? {
            Item::Struct { generics, attrs, fields, file, ser, de } => {
                let (generics, attrs, fields, file, ser, de) = (generics.clone(), attrs.clone(), fields.clone(), file.clone(), *ser, *de);
                if attrs.try_from.is_some() { return Some(()); } // validated string, referenced as `.str .kind`
                if !attrs.other.is_empty() || attrs.untagged || attrs.rename.is_some() { self.broken(format!("{name}: unsupported container attribute(s) {:?}", attrs.other)); return None; }
                let gnames: Vec<String> = generics.iter().map(|g| g.0.clone()).collect();
                let mut rows: Vec<(String, String)> = vec![];
                for (pos, (fname, fty, fa)) in fields.iter().enumerate() {
                    let what = format!("{name}.{fname}");
                    if !fa.other.is_empty() || fa.untagged || fa.deny || fa.try_from.is_some() || fa.rename_all.is_some() { self.broken(format!("{what}: unsupported field attribute(s) {:?}", fa.other)); return None; }
                    let key = if let Some(r) = &fa.rename { r.clone() } else if let Some(rule) = &attrs.rename_all {
                        match rename_all(rule, &snake_words(fname)) { Some(k) => k, None => { self.broken(format!("{name}: unsupported rename_all = {rule:?}")); return None; } }
                    } else { fname.clone() };
                    // custom (de)serialisers: URI references as plain strings
                    let t = if fa.de_with.is_some() || fa.ser_with.is_some() {
                        let de_ok = match &fa.de_with { None => !de, Some(f) => self.fns.get(f).map(|f| { let b = norm(&f.block); b.contains("String::deserialize(deserializer)") && b.contains("URIReference::try_from(") }).unwrap_or(false) };
                        let ser_ok = match &fa.ser_with { None => !ser, Some(f) => self.fns.get(f).map(|f| { let b = norm(&f.block); b.contains(".to_string()") && b.contains("serializer.serialize_str(") }).unwrap_or(false) };
                        if !(de_ok && ser_ok && last_seg(fty).map(|x| x.0 == "URIReference").unwrap_or(false)) { self.broken(format!("{what}: (de)serialize_with is not the plain-string URI reference codec")); return None; }
                        Ty::Schema(".str .uri".into(), None)
                    } else { self.ty(fty, &gnames, &what)? };
                    let skip = match &fa.skip_if { Some(p) => self.skip_pred(p, &what)?, None => ".never" };
                    let (pres, none_enc, schema) = match t {
                        Ty::Param(g) => { if fa.default { self.broken(format!("{what}: `default` on a generic field")); return None; } (format!("{g}.pres"), "none".to_string(), format!("{g}.schema")) }
                        Ty::Option(inner) => match *inner {
                            Ty::Schema(x, _) => (".optional".to_string(), "none".to_string(), x),
                            _ => { self.broken(format!("{what}: nested optional")); return None; }
                        },
                        Ty::OptLike { inner, none_enc, default_is_none } => {
                            let pres = if fa.default { if default_is_none { "(.dflt .absent)" } else { self.broken(format!("{what}: default of an option-like enum without `Default`")); return None; } } else { ".required" };
                            (pres.to_string(), none_enc.map(|e| format!("(some {})", lean_str(&e))).unwrap_or("none".into()), inner)
                        }
                        Ty::Schema(x, d) => {
                            let pres = if fa.default { match d { Some(d) => format!("(.dflt {d})"), None => { self.broken(format!("{what}: `default` on a type whose Default the translator cannot read")); return None; } } } else { ".required".to_string() };
                            (pres, "none".to_string(), x)
                        }
                    };
                    rows.push((key.clone(), format!("⟨{}, {pres}, {skip}, {none_enc}, {schema}, {pos}⟩", lean_str(&key))));
                }
                rows.sort();
                for w in rows.windows(2) { if w[0].0 == w[1].0 { self.broken(format!("{name}: two fields with key {:?}", w[0].0)); return None; } }
                let binders: String = gnames.iter().map(|g| format!(" ({g} : Param)")).collect();
                writeln!(text, "/-- {file} `struct {name}` (Serialize: {ser}, Deserialize: {de}, deny_unknown_fields: {}) -/", attrs.deny).unwrap();
                writeln!(text, "def {name}{binders} : Schema := .struct {} [", attrs.deny).unwrap();
                writeln!(text, "{}]\n", rows.iter().map(|r| format!("  {}", r.1)).collect::<Vec<_>>().join(",\n")).unwrap();
                self.ctx.items.push(format!("Schemas.{name} <- {file} struct {name}"));
            }
            Item::Newtype { inner, file, ser, de } => {
                let (inner, file, ser, de) = (inner.clone(), file.clone(), *ser, *de);
                let t = match self.ty(&inner, &[], name)? { Ty::Schema(x, _) => x, _ => { self.broken(format!("{name}: unsupported newtype payload")); return None; } };
                writeln!(text, "/-- {file} newtype `struct {name}(..)` (transparent; Serialize: {ser}, Deserialize: {de}) -/\ndef {name} : Schema := {t}\n").unwrap();
                self.ctx.items.push(format!("Schemas.{name} <- {file} struct {name}"));
            }
            Item::Enum { generics, attrs, variants, file, ser, de, .. } => {
                let (generics, attrs, variants, file, ser, de) = (generics.clone(), attrs.clone(), variants.clone(), file.clone(), *ser, *de);
                let gnames: Vec<String> = generics.iter().map(|g| g.0.clone()).collect();
                if let Some(vs) = self.enum_names(name) {
                    let list = vs.iter().map(|(_, n)| lean_str(n)).collect::<Vec<_>>().join(", ");
                    writeln!(text, "/-- {file} `enum {name}` of unit variants, by (renamed) variant name (Serialize: {ser}, Deserialize: {de}) -/\ndef {name} : Schema := .str (.oneOf [{list}])\n").unwrap();
                } else if attrs.untagged && variants.iter().all(|v| v.2.len() == 1) && attrs.other.is_empty() {
                    let mut terms = vec![];
                    for (v, va, tys) in &variants {
                        if !va.other.is_empty() || va.rename.is_some() { self.broken(format!("{name}::{v}: unsupported variant attribute")); return None; }
                        match self.ty(&tys[0], &gnames, &format!("{name}::{v}"))? { Ty::Schema(x, _) => terms.push(x), _ => { self.broken(format!("{name}::{v}: unsupported payload")); return None; } }
                    }
                    let binders: String = gnames.iter().map(|g| format!(" ({g} : Param)")).collect();
                    writeln!(text, "/-- {file} `#[serde(untagged)] enum {name}`: variants in declaration order [{}] (Serialize: {ser}, Deserialize: {de}) -/", variants.iter().map(|v| v.0.clone()).collect::<Vec<_>>().join(", ")).unwrap();
                    writeln!(text, "def {name}{binders} : Schema := .untagged [{}]\n", terms.join(", ")).unwrap();
                } else if attrs.untagged && variants.len() == 2 && variants[0].2.is_empty() && variants[1].2.len() == 1 {
                    // option-like enum: no schema of its own (folded into the field that uses it)
                    self.ty(&syn::parse_str::<syn::Type>(name).unwrap(), &[], name)?;
                    self.ctx.items.push(format!("Schemas (option-like) <- {file} enum {name}"));
                    return Some(());
                } else { self.broken(format!("{name}: enum shape not supported (externally tagged data variants)")); return None; }
                self.ctx.items.push(format!("Schemas.{name} <- {file} enum {name}"));
            }
        }
        self.out.push_str(&text);
        self.emitted.push(name.to_string());
        Some(())
    }
}

pub fn schemas(ctx: &mut Ctx) -> Option<String> {
    let before = ctx.broken.len();
    let mut parsed = vec![];
    for f in FILES { if let Some(p) = parse_file(ctx, f) { parsed.push((f.to_string(), p)); } }
    let mut tr = Tr { ctx, items: BTreeMap::new(), aliases: BTreeMap::new(), newtypes: BTreeSet::new(), impls: vec![], fns: BTreeMap::new(), emitted: vec![], out: String::new(), done: BTreeSet::new(), in_progress: BTreeSet::new() };
    for (f, p) in &parsed { tr.collect(f, &p.items); }
    let names: Vec<String> = tr.items.keys().cloned().collect();
    for n in &names { tr.emit(n); }
    // registry: generic parameters instantiated with their declared defaults
    let mut reg = vec![];
    for n in tr.emitted.clone() {
        let generics = match &tr.items[&n] { Item::Struct { generics, .. } | Item::Enum { generics, .. } => generics.clone(), _ => vec![] };
        let mut term = format!("S.{n}");
        let mut ok = true;
        for (g, d) in &generics { match d.clone().and_then(|d| tr.param_of(&d, &n)) { Some(p) => term += &format!(" {p}"), None => { tr.broken(format!("{n}: generic parameter {g} has no default the translator can instantiate")); ok = false; } } }
        let (ser, de) = match &tr.items[&n] { Item::Struct { ser, de, .. } | Item::Enum { ser, de, .. } | Item::Newtype { ser, de, .. } => (*ser, *de) };
        if ok { reg.push((format!("  ({}, {term})", lean_str(&n)), ser, de)); }
    }
    let mut o = String::new();
    writeln!(o, "-- GENERATED by /verif/harness/src/bin/translator/schemas.rs from /repo sources. Do not edit.").unwrap();
    writeln!(o, "import CnbVerif.Base.Schema\nnamespace CnbVerif.Gen\nopen CnbVerif.Codec\nnamespace S\n").unwrap();
    o.push_str(&tr.out);
    writeln!(o, "end S\n").unwrap();
    writeln!(o, "/-- every serde type of the CNB data formats, generic parameters instantiated with their declared defaults\n(`GenericMetadata = Option<toml::value::Table>`: optional free-form table) -/").unwrap();
    let list = |f: &dyn Fn(&(String, bool, bool)) -> bool| reg.iter().filter(|r| f(r)).map(|r| r.0.clone()).collect::<Vec<_>>().join(",\n");
    writeln!(o, "def schemas : List (String × Schema) := [\n{}]\n", list(&|_| true)).unwrap();
    writeln!(o, "/-- the types libcnb reads (`#[derive(Deserialize)]`) -/\ndef readable : List (String × Schema) := [\n{}]\n", list(&|r| r.2)).unwrap();
    writeln!(o, "/-- the types libcnb writes (`#[derive(Serialize)]`) -/\ndef written : List (String × Schema) := [\n{}]\n", list(&|r| r.1)).unwrap();
    writeln!(o, "end CnbVerif.Gen").unwrap();
    let broken_now = tr.ctx.broken.len() > before;
    if broken_now { None } else { Some(o) }
}
