//! Gen/Regexes.lean (property C09): the regex literal of each `libcnb_newtype!(…)` invocation, parsed with
//! **fancy_regex's own parser** (`Expr::parse_tree`; delegated sub-patterns with `regex-syntax`) and emitted as an
//! `Anchored` value (`^(?!neg$)pos$`). Any other shape is reported as TIE-BROKEN. Plus the shape check that
//! `newtypes.rs` uses one `$regex` for `FromStr`, `Deserialize` (through `parse`) and the literal macro, and that
//! `verify_regex!` compiles and matches with `fancy_regex::Regex::is_match` like `FromStr` does.
//!
//! Normal forms: character classes are sorted, merged, inclusive code-point ranges (so `[[:alnum:]./-]` and
//! `[A-Za-z0-9./-]` give the same term); capture groups are dropped (no back-references allowed); adjacent literals
//! are merged; greediness is dropped (whole-string matching does not observe it).
use crate::*;
use fancy_regex::{Assertion, Expr, LookAround};

#[derive(Clone, Debug, PartialEq)]
enum Re { Empty, Eps, Cls(Vec<(u32, u32)>), Lit(Vec<char>), Seq(Box<Re>, Box<Re>), Alt(Box<Re>, Box<Re>), Star(Box<Re>), Plus(Box<Re>) }

/// (file, type name, Lean constant)
const NEWTYPES: &[(&str, &str, &str)] = &[
    ("libcnb-data/src/layer.rs", "LayerName", "layerNameRe"),
    ("libcnb-data/src/launch.rs", "ProcessType", "processTypeRe"),
    ("libcnb-data/src/buildpack/id.rs", "BuildpackId", "buildpackIdRe"),
    ("libcnb-data/src/exec_d.rs", "ExecDProgramOutputKey", "execdKeyRe"),
];

/// the argument list of `libcnb_newtype!(path, #[..]* macro_name, #[..]* Name, #[..]* ErrorName, regex)`
struct NewtypeArgs { name: syn::Ident, regex: syn::Expr }
impl syn::parse::Parse for NewtypeArgs {
    fn parse(input: syn::parse::ParseStream) -> syn::Result<Self> {
        let _path: syn::Path = input.parse()?;
        input.parse::<syn::Token![,]>()?;
        let _ = input.call(syn::Attribute::parse_outer)?;
        let _macro_name: syn::Ident = input.parse()?;
        input.parse::<syn::Token![,]>()?;
        let _ = input.call(syn::Attribute::parse_outer)?;
        let name: syn::Ident = input.parse()?;
        input.parse::<syn::Token![,]>()?;
        let _ = input.call(syn::Attribute::parse_outer)?;
        let _error_name: syn::Ident = input.parse()?;
        input.parse::<syn::Token![,]>()?;
        let regex: syn::Expr = input.parse()?;
        let _ = input.parse::<Option<syn::Token![,]>>()?;
        if !input.is_empty() { return Err(input.error("unexpected tokens after the regex")); }
        Ok(NewtypeArgs { name, regex })
    }
}

fn norm_ranges(mut v: Vec<(u32, u32)>) -> Vec<(u32, u32)> {
    v.sort();
    let mut out: Vec<(u32, u32)> = vec![];
    for (a, b) in v {
        if let Some(last) = out.last_mut() {
            // adjacent over the surrogate gap counts as adjacent too (no scalar value lies in between)
            let next = if last.1 == 0xD7FF { 0xE000 } else { last.1 + 1 };
            if a <= next { if b > last.1 { last.1 = b; } continue; }
        }
        out.push((a, b));
    }
    out
}

fn seq(parts: Vec<Re>) -> Re {
    // merge adjacent literals, drop eps
    let mut flat: Vec<Re> = vec![];
    for p in parts {
        match (flat.last_mut(), p) {
            (_, Re::Eps) => {}
            (Some(Re::Lit(a)), Re::Lit(b)) => a.extend(b),
            (_, p) => flat.push(p),
        }
    }
    let mut it = flat.into_iter().rev();
    match it.next() { None => Re::Eps, Some(last) => it.fold(last, |acc, x| Re::Seq(Box::new(x), Box::new(acc))) }
}
fn alt(parts: Vec<Re>) -> Re {
    let mut it = parts.into_iter().rev();
    match it.next() { None => Re::Empty, Some(last) => it.fold(last, |acc, x| Re::Alt(Box::new(x), Box::new(acc))) }
}
fn repeat(child: Re, lo: usize, hi: usize) -> Result<Re, String> {
    match (lo, hi) {
        (0, usize::MAX) => Ok(Re::Star(Box::new(child))),
        (1, usize::MAX) => Ok(Re::Plus(Box::new(child))),
        (lo, usize::MAX) if lo <= 8 => { let mut v = vec![child.clone(); lo - 1]; v.push(Re::Plus(Box::new(child))); Ok(seq(v)) }
        (lo, hi) if lo <= hi && hi <= 8 => {
            let mut v = vec![child.clone(); lo];
            for _ in lo..hi { v.push(Re::Alt(Box::new(child.clone()), Box::new(Re::Eps))); }
            Ok(seq(v))
        }
        _ => Err(format!("repetition {{{lo},{hi}}} is outside the supported shapes")),
    }
}

fn hir_to_re(h: &regex_syntax::hir::Hir) -> Result<Re, String> {
    use regex_syntax::hir::{Class, HirKind};
    match h.kind() {
        HirKind::Empty => Ok(Re::Eps),
        HirKind::Literal(l) => std::str::from_utf8(&l.0).map(|s| Re::Lit(s.chars().collect())).map_err(|_| "non-UTF-8 literal".to_string()),
        HirKind::Class(Class::Unicode(c)) => Ok(Re::Cls(norm_ranges(c.ranges().iter().map(|r| (r.start() as u32, r.end() as u32)).collect()))),
        HirKind::Class(Class::Bytes(c)) => {
            if c.ranges().iter().all(|r| r.end() <= 0x7F) { Ok(Re::Cls(norm_ranges(c.ranges().iter().map(|r| (r.start() as u32, r.end() as u32)).collect()))) }
            else { Err("byte class with non-ASCII bytes".into()) }
        }
        HirKind::Look(l) => Err(format!("look-around {l:?} inside a delegated pattern")),
        HirKind::Repetition(r) => repeat(hir_to_re(&r.sub)?, r.min as usize, r.max.map(|m| m as usize).unwrap_or(usize::MAX)),
        HirKind::Capture(c) => hir_to_re(&c.sub),
        HirKind::Concat(v) => Ok(seq(v.iter().map(hir_to_re).collect::<Result<Vec<_>, _>>()?)),
        HirKind::Alternation(v) => Ok(alt(v.iter().map(hir_to_re).collect::<Result<Vec<_>, _>>()?)),
    }
}

fn delegate(inner: &str) -> Result<Re, String> {
    let hir = regex_syntax::ParserBuilder::new().build().parse(inner).map_err(|e| format!("regex-syntax cannot parse delegated pattern {inner:?}: {e}"))?;
    hir_to_re(&hir)
}

fn expr_to_re(e: &Expr) -> Result<Re, String> {
    match e {
        Expr::Empty => Ok(Re::Eps),
        Expr::Any { newline } => delegate(if *newline { "(?s:.)" } else { "." }),
        Expr::Literal { val, casei: false } => Ok(Re::Lit(val.chars().collect())),
        Expr::Concat(v) => exprs_to_re(v),
        Expr::Alt(v) => Ok(alt(v.iter().map(expr_to_re).collect::<Result<Vec<_>, _>>()?)),
        Expr::Group(g) => expr_to_re(g),
        Expr::Repeat { child, lo, hi, greedy: _ } => repeat(expr_to_re(child)?, *lo, *hi),
        Expr::Delegate { inner, casei: false, .. } => delegate(inner),
        other => Err(format!("unsupported construct {other:?}")),
    }
}

fn exprs_to_re(v: &[Expr]) -> Result<Re, String> { Ok(seq(v.iter().map(expr_to_re).collect::<Result<Vec<_>, _>>()?)) }

/// `^(?!neg$)pos$`
fn anchored(pattern: &str) -> Result<(Option<Re>, Re), String> {
    let tree = Expr::parse_tree(pattern).map_err(|e| format!("fancy_regex cannot parse {pattern:?}: {e}"))?;
    if !tree.backrefs.is_empty() { return Err("back-references".into()); }
    let Expr::Concat(parts) = &tree.expr else { return Err(format!("not `^…$`: {:?}", tree.expr)) };
    if parts.len() < 2 || !matches!(parts.first(), Some(Expr::Assertion(Assertion::StartText))) || !matches!(parts.last(), Some(Expr::Assertion(Assertion::EndText))) {
        return Err("the pattern is not anchored as `^…$`".into());
    }
    let mut mid = &parts[1..parts.len() - 1];
    let mut neg = None;
    if let Some(Expr::LookAround(inner, la)) = mid.first() {
        if *la != LookAround::LookAheadNeg { return Err(format!("look-around {la:?} is not a negative look-ahead")); }
        let Expr::Concat(np) = &**inner else { return Err("the look-ahead is not `(?!…$)`".into()) };
        if !matches!(np.last(), Some(Expr::Assertion(Assertion::EndText))) { return Err("the look-ahead does not end in `$`".into()); }
        neg = Some(exprs_to_re(&np[..np.len() - 1])?);
        mid = &mid[1..];
    }
    let pos = exprs_to_re(mid)?;
    Ok((neg, pos))
}

fn lean_char(c: char) -> String {
    if c.is_ascii_graphic() && c != '\'' && c != '\\' { format!("'{c}'") } else { format!("Char.ofNat {}", c as u32) }
}
fn lean_re(r: &Re) -> String {
    match r {
        Re::Empty => "Re.empty".into(),
        Re::Eps => "Re.eps".into(),
        Re::Cls(v) => format!("Re.cls [{}]", v.iter().map(|(a, b)| format!("({a}, {b})")).collect::<Vec<_>>().join(", ")),
        Re::Lit(cs) => format!("Re.lit [{}]", cs.iter().map(|c| lean_char(*c)).collect::<Vec<_>>().join(", ")),
        Re::Seq(a, b) => format!("Re.seq ({}) ({})", lean_re(a), lean_re(b)),
        Re::Alt(a, b) => format!("Re.alt ({}) ({})", lean_re(a), lean_re(b)),
        Re::Star(a) => format!("Re.star ({})", lean_re(a)),
        Re::Plus(a) => format!("Re.plus ({})", lean_re(a)),
    }
}

/// every `libcnb_newtype!(…)` invocation at item level of a file (also inside inline modules)
fn invocations(items: &[syn::Item], out: &mut Vec<syn::ItemMacro>) {
    for it in items {
        match it {
            syn::Item::Macro(m) if m.mac.path.segments.last().map(|s| s.ident == "libcnb_newtype").unwrap_or(false) && m.ident.is_none() => out.push(m.clone()),
            syn::Item::Mod(m) if !m.attrs.iter().any(|a| norm(a).contains("cfg(test)")) => { if let Some((_, items)) = &m.content { invocations(items, out); } }
            _ => {}
        }
    }
}

/// newtypes.rs: one `$regex` feeds FromStr, Deserialize (through parse) and the literal macro; Display/Serialize show the stored string
fn shape_check(ctx: &mut Ctx) {
    let Some(f) = parse_file(ctx, "libcnb-data/src/newtypes.rs") else { return };
    let def = f.items.iter().find_map(|it| match it { syn::Item::Macro(m) if m.ident.as_ref().map(|i| i == "libcnb_newtype").unwrap_or(false) => Some(m.mac.tokens.clone()), _ => None });
    let Some(tokens) = def else { ctx.broken.push("newtype-shape: `macro_rules! libcnb_newtype` not found in libcnb-data/src/newtypes.rs".into()); return };
    // rules: ( matcher ) => { transcriber } ;?
    let tt: Vec<proc_macro2::TokenTree> = tokens.into_iter().collect();
    let groups: Vec<&proc_macro2::Group> = tt.iter().filter_map(|t| if let proc_macro2::TokenTree::Group(g) = t { Some(g) } else { None }).collect();
    if groups.len() != 2 { ctx.broken.push(format!("newtype-shape: `libcnb_newtype` has {} rule groups, expected one matcher and one transcriber", groups.len())); return; }
    let matcher = norm(groups[0].stream());
    let body = norm(groups[1].stream());
    let mut why: Vec<&str> = vec![];
    if matcher.matches("$regex:expr").count() != 1 { why.push("the matcher does not bind `$regex:expr` exactly once"); }
    if body.matches("$regex").count() != 2 { why.push("`$regex` is not used exactly twice (FromStr, literal macro)"); }
    if !body.contains("fnfrom_str(value:&str)->Result<Self,Self::Err>{letregex_matches=::fancy_regex::Regex::new($regex).and_then(|regex|regex.is_match(value)).unwrap_or(false);ifregex_matches{Ok(Self(String::from(value)))}else{Err($error_name::InvalidValue(String::from(value)))}}") { why.push("FromStr::from_str is not `Regex::new($regex).and_then(|r| r.is_match(value)).unwrap_or(false)` keeping the value verbatim"); }
    if !body.contains("String::deserialize(d)?.parse::<$name>().map_err(::serde::de::Error::custom)") { why.push("Deserialize is not `String::deserialize(d)?.parse::<$name>()`"); }
    if !body.contains("$crate::internals::verify_regex!($regex,$value,{use$crate::$pathasbase;base::$name::new_unchecked($value)},compile_error!(") { why.push("the literal macro is not `verify_regex!($regex, $value, new_unchecked($value), compile_error!(…))`"); }
    if !body.contains("pubfnnew_unchecked(value:&str)->Self{Self(String::from(value))}") { why.push("new_unchecked does not store the value verbatim"); }
    if !body.contains("::serde::Serialize,") && !body.contains("::serde::Serialize)") { why.push("Serialize is not derived"); }
    if !body.contains("pubstruct$name(String);") { why.push("the type is not `struct $name(String)`"); }
    if !body.contains("impl::std::fmt::Displayfor$name{fnfmt(&self,f:&mut::std::fmt::Formatter)->::std::fmt::Result{::std::write!(f,\"{}\",self.0)}}") { why.push("Display does not write `self.0`"); }
    if why.is_empty() { ctx.items.push("newtype-shape: one `$regex` for FromStr, Deserialize (via parse) and the literal macro; value stored verbatim; Display/Serialize = the stored string <- libcnb-data/src/newtypes.rs".into()); }
    else { for w in why { ctx.broken.push(format!("newtype-shape: {w}")); } }

    // the proc macro must compile and match the same way as FromStr
    if let Some(pf) = parse_file(ctx, "libcnb-proc-macros/src/lib.rs") {
        let bodies: Vec<String> = find_fns(&pf, "verify_regex").iter().map(norm).collect();
        let ok = bodies.iter().any(|b| b.contains("matchfancy_regex::Regex::new(&input.regex.value()){Ok(regex)=>{letregex_matches=regex.is_match(&input.value.value()).unwrap_or(false);letexpression=ifregex_matches{input.expression_when_matched}else{input.expression_when_unmatched};"));
        if ok { ctx.items.push("verify_regex: `fancy_regex::Regex::new(regex).is_match(value).unwrap_or(false)` selects the expansion <- libcnb-proc-macros/src/lib.rs".into()); }
        else { ctx.broken.push("verify_regex: libcnb-proc-macros `verify_regex` no longer compiles the regex with fancy_regex and selects the expansion by `is_match(value).unwrap_or(false)`".into()); }
    }
}

pub fn regexes(ctx: &mut Ctx) -> Option<String> {
    let before = ctx.broken.len();
    let mut o = String::new();
    writeln!(o, "-- GENERATED by /verif/harness/src/bin/translator/regexes.rs from /repo sources. Do not edit.").unwrap();
    writeln!(o, "import CnbVerif.Base.Regex\nnamespace CnbVerif.Gen").unwrap();
    for (file, ty, lean_name) in NEWTYPES {
        let Some(f) = parse_file(ctx, file) else { continue };
        let mut invs = vec![];
        invocations(&f.items, &mut invs);
        let mut found = None;
        for m in &invs {
            match syn::parse2::<NewtypeArgs>(m.mac.tokens.clone()) {
                Ok(a) if a.name == ty => found = Some(a),
                Ok(_) => {}
                Err(e) => ctx.broken.push(format!("{lean_name}: a `libcnb_newtype!` invocation in {file} does not have the expected argument list: {e}")),
            }
        }
        let Some(args) = found else { ctx.broken.push(format!("{lean_name}: no `libcnb_newtype!` invocation defining `{ty}` in {file}")); continue };
        let Some(pattern) = lit_str(&args.regex) else { ctx.broken.push(format!("{lean_name}: the regex argument of `{ty}` is not a string literal")); continue };
        match anchored(&pattern) {
            Ok((neg, pos)) => {
                // line comment, not a doc comment: a regex may contain the two-character comment openers of Lean
                writeln!(o, "\n-- {file} `{ty}`: {}", pattern.replace('\n', "\\n")).unwrap();
                writeln!(o, "def {lean_name} : Anchored :=").unwrap();
                writeln!(o, "  {{ neg := {},", match &neg { Some(n) => format!("some ({})", lean_re(n)), None => "none".into() }).unwrap();
                writeln!(o, "    pos := {} }}", lean_re(&pos)).unwrap();
                ctx.items.push(format!("{lean_name} <- {file} libcnb_newtype!({ty}, {pattern:?})"));
            }
            Err(why) => ctx.broken.push(format!("{lean_name}: regex {pattern:?} of `{ty}` in {file} is not of the shape `^(?!neg$)pos$`: {why}")),
        }
    }
    shape_check(ctx);
    writeln!(o, "\nend CnbVerif.Gen").unwrap();
    if ctx.broken.len() > before { None } else { Some(o) }
}

#[cfg(test)]
mod tests {
    use super::*;
    #[test]
    fn posix_and_explicit_classes_agree() {
        assert_eq!(anchored(r"^(?!(app|config|sbom)$)[[:alnum:]./-]+$").unwrap(), anchored(r"^(?!(app|config|sbom)$)[A-Za-z0-9./-]+$").unwrap());
        assert_eq!(anchored(r"^[[:alnum:]._-]+$").unwrap(), anchored(r"^[-_.a-zA-Z0-9]+$").unwrap());
    }
    #[test]
    fn other_shapes_are_refused() {
        assert!(anchored(r"[a-z]+").is_err());
        assert!(anchored(r"^(?=a)[a-z]+$").is_err());
        assert!(anchored(r"^(?i)[a-z]+$").is_err() || anchored(r"^(?i)abc$").is_err());
    }
}
