//! Translator: regenerates the declarative parts of the Lean model (`lean/CnbVerif/Gen/*.lean`) from
//! /repo's current sources, parsed with `syn` (no text scraping). A file is rewritten only when its content
//! changes. Items that cannot be located in the expected shape are reported on stdout as
//! `TIE-BROKEN <item>: <why>` (exit status 3) and the previous file is left in place.
use quote::ToTokens;
use std::collections::BTreeMap;
use std::fmt::Write as _;
use std::path::{Path, PathBuf};
use syn::visit::Visit;

pub fn norm(ts: impl ToTokens) -> String { ts.to_token_stream().to_string().replace(' ', "") }

pub struct Ctx { pub repo: PathBuf, pub out: PathBuf, pub broken: Vec<String>, pub items: Vec<String> }

pub fn parse_file(ctx: &mut Ctx, rel: &str) -> Option<syn::File> {
    let p = ctx.repo.join(rel);
    let src = match std::fs::read_to_string(&p) { Ok(s) => s, Err(e) => { ctx.broken.push(format!("{rel}: cannot read: {e}")); return None; } };
    match syn::parse_file(&src) { Ok(f) => Some(f), Err(e) => { ctx.broken.push(format!("{rel}: cannot parse: {e}")); None } }
}

/// every `fn` (free, nested or in an impl) with this name
pub struct FnFinder<'a> { name: &'a str, found: Vec<syn::Block> }
impl<'ast> Visit<'ast> for FnFinder<'_> {
    fn visit_item_fn(&mut self, i: &'ast syn::ItemFn) { if i.sig.ident == self.name { self.found.push((*i.block).clone()); } syn::visit::visit_item_fn(self, i); }
    fn visit_impl_item_fn(&mut self, i: &'ast syn::ImplItemFn) { if i.sig.ident == self.name { self.found.push(i.block.clone()); } syn::visit::visit_impl_item_fn(self, i); }
}
pub fn find_fns(file: &syn::File, name: &str) -> Vec<syn::Block> { let mut f = FnFinder { name, found: vec![] }; f.visit_file(file); f.found }

pub struct MatchFinder { found: Vec<syn::ExprMatch> }
impl<'ast> Visit<'ast> for MatchFinder {
    fn visit_expr_match(&mut self, m: &'ast syn::ExprMatch) { self.found.push(m.clone()); syn::visit::visit_expr_match(self, m); }
    // do not descend into nested fn items: they are looked up by name separately
    fn visit_item_fn(&mut self, _: &'ast syn::ItemFn) {}
}
pub fn matches_in(b: &syn::Block) -> Vec<syn::ExprMatch> { let mut f = MatchFinder { found: vec![] }; f.visit_block(b); f.found }

pub fn lit_str(e: &syn::Expr) -> Option<String> { if let syn::Expr::Lit(l) = e { if let syn::Lit::Str(s) = &l.lit { return Some(s.value()); } } None }
pub fn lit_int(e: &syn::Expr) -> Option<i64> {
    match e {
        syn::Expr::Lit(l) => if let syn::Lit::Int(i) = &l.lit { i.base10_parse().ok() } else { None },
        syn::Expr::Unary(u) if matches!(u.op, syn::UnOp::Neg(_)) => lit_int(&u.expr).map(|x| -x),
        _ => None,
    }
}


mod tables;
mod regexes;
mod schemas;
mod runtime;
mod sites;
mod hashsites;

pub fn write_if_changed(p: &Path, content: &str) -> bool {
    if std::fs::read_to_string(p).ok().as_deref() == Some(content) { return false; }
    std::fs::create_dir_all(p.parent().unwrap()).unwrap();
    std::fs::write(p, content).unwrap();
    true
}

/// runs one translator part; every TIE-BROKEN / ITEM message it produces is tagged with the Gen file it belongs to, so
/// that ./check can tell which properties (those whose Lean modules import that Gen file) are affected.
fn run_part(ctx: &mut Ctx, stem: &str, part: fn(&mut Ctx) -> Option<String>) {
    let (b0, i0) = (ctx.broken.len(), ctx.items.len());
    let res = part(ctx);
    for m in ctx.broken[b0..].iter_mut() { *m = format!("{stem}/{m}"); }
    for m in ctx.items[i0..].iter_mut() { *m = format!("{stem}/{m}"); }
    if let Some(t) = res {
        let ch = write_if_changed(&ctx.out.join(format!("{stem}.lean")), &t);
        println!("GEN {stem}.lean {}", if ch { "rewritten" } else { "unchanged" });
    } else if ctx.broken.len() == b0 {
        ctx.broken.push(format!("{stem}/(whole file): the translator part produced nothing"));
    }
}

fn main() {
    let args: Vec<String> = std::env::args().collect();
    let repo = PathBuf::from(args.get(1).map(String::as_str).unwrap_or("/repo"));
    let out = PathBuf::from(args.get(2).map(String::as_str).unwrap_or("/verif/lean/CnbVerif/Gen"));
    let mut ctx = Ctx { repo, out, broken: vec![], items: vec![] };
    run_part(&mut ctx, "Tables", tables::tables);
    run_part(&mut ctx, "Sites", sites::sites);
    run_part(&mut ctx, "Runtime", runtime::runtime);
    run_part(&mut ctx, "Schemas", schemas::schemas);
    run_part(&mut ctx, "Regexes", regexes::regexes);
    run_part(&mut ctx, "HashSites", hashsites::hashsites);
    // fingerprints of the anchored source files (token stream without comments/whitespace): ./check uses a changed
    // fingerprint only to decide how hard to search (never as a verdict)
    if let Ok(list) = std::fs::read_to_string("/verif/anchor_files.txt") {
        for rel in list.lines().filter(|l| !l.trim().is_empty()) {
            let h = match std::fs::read_to_string(ctx.repo.join(rel)).ok().and_then(|src| syn::parse_file(&src).ok()) {
                Some(f) => { use std::hash::{Hash, Hasher}; let mut st = std::collections::hash_map::DefaultHasher::new(); quote::ToTokens::to_token_stream(&f).to_string().hash(&mut st); format!("{:016x}", st.finish()) }
                None => "unparsable".to_string(),
            };
            println!("FPRINT {rel} {h}");
        }
    }
    for i in &ctx.items { println!("ITEM {i}"); }
    for b in &ctx.broken { println!("TIE-BROKEN {b}"); }
    if !ctx.broken.is_empty() { std::process::exit(3); }
}
