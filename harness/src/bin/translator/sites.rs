//! Gen/Sites.lean: structural facts about call sites that the models rely on.
//! C19: the order of copier-thread spawns and joins inside `write_child_process_output`
//! (libherokubuildpack/src/command.rs), whether they all sit inside one `thread::scope(..)` closure, and whether the
//! closure of every spawned copier is exactly `std::io::copy(reader, writer)`.
//! C19, return point: every call of `wait` / `try_wait` / `wait_with_output` (method call or path, e.g. `Child::wait`) in the body of
//! `spawn_and_write_streams` or of a function of command.rs it mentions (by call, as a function value, or as a method), transitively.
use crate::*;
use syn::visit::Visit;

const WAITS: &[&str] = &["wait", "try_wait", "wait_with_output"];

/// names mentioned in a body: method names and last path segments, in source order
struct Mentions { names: Vec<String> }
impl<'ast> Visit<'ast> for Mentions {
    fn visit_expr_method_call(&mut self, m: &'ast syn::ExprMethodCall) { self.names.push(m.method.to_string()); syn::visit::visit_expr_method_call(self, m); }
    fn visit_expr_path(&mut self, p: &'ast syn::ExprPath) { if let Some(s) = p.path.segments.last() { self.names.push(s.ident.to_string()); } }
    fn visit_item_fn(&mut self, _: &'ast syn::ItemFn) {}
}

/// `<fn>:<call>` for every wait-like call reachable from `start` through the functions of this file
fn wait_calls(f: &syn::File, start: &str) -> Vec<String> {
    let (mut todo, mut seen, mut found) = (vec![start.to_string()], vec![], vec![]);
    while let Some(name) = todo.pop() {
        if seen.contains(&name) { continue; }
        seen.push(name.clone());
        for body in find_fns(f, &name) {
            let mut m = Mentions { names: vec![] };
            m.visit_block(&body);
            for n in m.names {
                if WAITS.contains(&n.as_str()) { found.push(format!("{name}:{n}")); }
                else if !find_fns(f, &n).is_empty() { todo.push(n); }
            }
        }
    }
    found.sort();
    found.dedup();
    found
}

#[derive(Clone, Copy, PartialEq)]
enum Ev { Spawn, Join }

/// Collects, in source order, `<recv>.spawn(..)` / `<recv>.join()` method calls and mentions of `join_and_unwind_panic`
/// (called or passed as a function value). `depth` counts enclosing `…::scope(|…| …)` call closures.
struct Events { evs: Vec<(Ev, usize)>, scope_depth: usize, scope_calls: usize, bodies: Vec<Result<(), String>> }

/// Is this the body of a copier closure in the shape the model (Model/Pipes.lean `copyStep`) stands for: exactly one call
/// `std::io::copy(<reader>, <writer>)` (also written `io::copy(..)`), possibly wrapped in a block / parentheses?
fn plain_io_copy(e: &syn::Expr) -> Result<(), String> {
    match e {
        syn::Expr::Paren(p) => plain_io_copy(&p.expr),
        syn::Expr::Block(b) if b.block.stmts.len() == 1 && b.label.is_none() => match &b.block.stmts[0] { syn::Stmt::Expr(x, None) => plain_io_copy(x), other => Err(norm(other)) },
        syn::Expr::Call(c) => {
            let path: Option<Vec<String>> = if let syn::Expr::Path(p) = &*c.func { Some(p.path.segments.iter().map(|s| s.ident.to_string()).collect()) } else { None };
            let is_copy = matches!(path.as_deref(), Some([a, b, c]) if a == "std" && b == "io" && c == "copy") || matches!(path.as_deref(), Some([b, c]) if b == "io" && c == "copy");
            if is_copy && c.args.len() == 2 { Ok(()) } else { Err(norm(e)) }
        }
        _ => Err(norm(e)),
    }
}
impl<'ast> Visit<'ast> for Events {
    fn visit_expr_method_call(&mut self, m: &'ast syn::ExprMethodCall) {
        // receiver first, then this call, then its arguments: source order of evaluation for straight-line code
        self.visit_expr(&m.receiver);
        if m.method == "spawn" {
            self.evs.push((Ev::Spawn, self.scope_depth));
            self.bodies.push(match m.args.first() { Some(syn::Expr::Closure(c)) if m.args.len() == 1 => plain_io_copy(&c.body), _ => Err(norm(&m.args)) });
        }
        if m.method == "join" { self.evs.push((Ev::Join, self.scope_depth)); }
        for a in &m.args { self.visit_expr(a); }
    }
    fn visit_expr_path(&mut self, p: &'ast syn::ExprPath) {
        if p.path.segments.last().map(|s| s.ident == "join_and_unwind_panic").unwrap_or(false) { self.evs.push((Ev::Join, self.scope_depth)); }
    }
    fn visit_expr_call(&mut self, c: &'ast syn::ExprCall) {
        let is_scope = if let syn::Expr::Path(p) = &*c.func { p.path.segments.last().map(|s| s.ident == "scope").unwrap_or(false) } else { false };
        if is_scope && c.args.len() == 1 && matches!(c.args[0], syn::Expr::Closure(_)) {
            self.scope_calls += 1;
            self.scope_depth += 1;
            self.visit_expr(&c.args[0]);
            self.scope_depth -= 1;
        } else { syn::visit::visit_expr_call(self, c); }
    }
    // nested fn items are separate functions
    fn visit_item_fn(&mut self, _: &'ast syn::ItemFn) {}
}

pub fn sites(ctx: &mut Ctx) -> Option<String> {
    let mut o = String::new();
    writeln!(o, "-- GENERATED by /verif/harness/src/bin/translator (sites.rs) from /repo sources. Do not edit.").unwrap();
    writeln!(o, "namespace CnbVerif.Gen.Sites\n").unwrap();
    writeln!(o, "inductive ThreadEv | spawn | join\nderiving DecidableEq, Repr\n").unwrap();
    let before = ctx.broken.len();
    if let Some(f) = parse_file(ctx, "libherokubuildpack/src/command.rs") {
        let fns = find_fns(&f, "write_child_process_output");
        if fns.len() != 1 { ctx.broken.push(format!("copierEvents: expected one fn write_child_process_output in libherokubuildpack/src/command.rs, found {}", fns.len())); }
        else {
            let mut v = Events { evs: vec![], scope_depth: 0, scope_calls: 0, bodies: vec![] };
            v.visit_block(&fns[0]);
            // the callers must reach it: spawn_and_write_streams calls it, output_and_write_streams calls spawn_and_write_streams
            let calls = |name: &str, callee: &str| find_fns(&f, name).iter().any(|b| norm(b).contains(callee));
            if find_fns(&f, "spawn_and_write_streams").len() != 1 { ctx.broken.push(format!("spawnWaitCalls: expected one fn body spawn_and_write_streams in libherokubuildpack/src/command.rs, found {}", find_fns(&f, "spawn_and_write_streams").len())); }
            if v.evs.is_empty() { ctx.broken.push("copierEvents: no thread spawn/join found in write_child_process_output".into()); }
            else if !calls("spawn_and_write_streams", "write_child_process_output(") || !calls("output_and_write_streams", "spawn_and_write_streams(") {
                ctx.broken.push("copierEvents: output_and_write_streams -> spawn_and_write_streams -> write_child_process_output call chain not found".into());
            } else if let Some((i, Err(found))) = v.bodies.iter().enumerate().find(|(_, b)| b.is_err()) {
                let found: String = found.chars().take(160).collect();
                ctx.broken.push(format!("copierBodies: the closure of copier thread #{} in write_child_process_output is no longer a plain `std::io::copy(reader, writer)` call (found `{found}`): the copier step of the model (forward what was read, in order, until EOF, and make no other call on the writer) and the stated assumption about io::copy are not tied to this code", i + 1));
            } else {
                let evs: Vec<&str> = v.evs.iter().map(|(e, _)| if *e == Ev::Spawn { ".spawn" } else { ".join" }).collect();
                let one_scope = v.scope_calls == 1 && v.evs.iter().all(|(_, d)| *d == 1);
                writeln!(o, "/-- libherokubuildpack/src/command.rs `write_child_process_output`: copier-thread spawns and joins in source order -/").unwrap();
                writeln!(o, "def copierEvents : List ThreadEv := [{}]\n", evs.join(", ")).unwrap();
                writeln!(o, "/-- all of them inside the closure of one `thread::scope(..)` call -/").unwrap();
                writeln!(o, "def copiersInOneScope : Bool := {}\n", one_scope).unwrap();
                writeln!(o, "inductive CopyBody | ioCopy\nderiving DecidableEq, Repr\n").unwrap();
                writeln!(o, "/-- the body of each spawned copier closure, in source order: `.ioCopy` = exactly `std::io::copy(<reader>, <writer>)` -/").unwrap();
                writeln!(o, "def copierBodies : List CopyBody := [{}]\n", v.bodies.iter().map(|_| ".ioCopy").collect::<Vec<_>>().join(", ")).unwrap();
                writeln!(o, "/-- `spawn_and_write_streams` and the functions of command.rs it mentions, transitively: every `wait` / `try_wait` / `wait_with_output` call, as `<fn>:<call>` (none = the call hands the child back without waiting for its exit) -/").unwrap();
                writeln!(o, "def spawnWaitCalls : List String := [{}]\n", wait_calls(&f, "spawn_and_write_streams").iter().map(|c| format!("{c:?}")).collect::<Vec<_>>().join(", ")).unwrap();
                ctx.items.push("Sites.spawnWaitCalls <- libherokubuildpack/src/command.rs spawn_and_write_streams (+ the local functions it mentions)".into());
                ctx.items.push("Sites.copierBodies <- libherokubuildpack/src/command.rs write_child_process_output (closures handed to spawn)".into());
                ctx.items.push("Sites.copierEvents, Sites.copiersInOneScope <- libherokubuildpack/src/command.rs write_child_process_output".into());
            }
        }
    }
    writeln!(o, "end CnbVerif.Gen.Sites").unwrap();
    if ctx.broken.len() > before { None } else { Some(o) }
}
