//! Gen/HashSites.lean (C20): where nondeterminism could enter the files written by detect/build.
//!
//!  (a) `iterSites`     every iteration over a hash-backed container (`for … in <hash>`, `.iter()`, `.keys()`, `.values()`,
//!                      `.into_iter()`, `.drain()` … on a value whose declared type is `HashMap`/`HashSet` or a wrapper of one)
//!                      in the phase/layer code of libcnb and in the libcnb-data files of the serialised documents,
//!                      as (file, enclosing fn, expression text, occurrence number of that text within the fn);
//!      `readDirSites`  the `read_dir` calls in the same files (the other unordered source: directory order);
//!  (b) `serFields`     every field of every `#[derive(Serialize)]` type of the phase documents with `hashBacked`;
//!      `serUnresolved` types named by such fields that are neither defined in the scanned files nor known leaves;
//!      `tomlPreserveOrder*`  is `toml::Table` a BTreeMap (feature `preserve_order` off, `toml` does not link `indexmap`)?
//!  (c) `entropySites`  mentions of clocks / randomness / process ids in those files.
//!
//! Types are approximated from what `syn` shows: field/param/local type annotations, struct and enum-variant field
//! types, initialisers that name `HashMap`/`HashSet`, return types of methods. A struct with a hash-backed field and an
//! `iter`/`into_iter`/`keys`/`values` method that iterates it counts as hash-backed itself (`Env`), as does a `type` alias of
//! a hash-backed type; this is iterated to a fixpoint. `#[cfg(test)]` items and `tests.rs` are skipped.
use crate::*;
use std::collections::{BTreeMap, BTreeSet};
use syn::visit::Visit;

/// phase / layer code (globs are expanded over the directory listing, so a new file is picked up)
const CODE_FILES: &[&str] = &[
    "libcnb/src/runtime.rs", "libcnb/src/layer/mod.rs", "libcnb/src/layer/shared.rs", "libcnb/src/layer/struct_api/*", "libcnb/src/layer/trait_api/*",
    "libcnb/src/layer_env.rs", "libcnb/src/env.rs", "libcnb/src/build.rs", "libcnb/src/detect.rs", "libcnb/src/sbom.rs", "libcnb/src/exec_d.rs",
    "libcnb/src/platform.rs", "libcnb/src/generic.rs", "libcnb/src/util.rs", "libcnb-common/src/toml_file.rs",
];
/// documents written by the phases (+ the exec.d program output)
const DATA_FILES: &[&str] = &[
    "libcnb-data/src/launch.rs", "libcnb-data/src/layer_content_metadata.rs", "libcnb-data/src/build_plan.rs", "libcnb-data/src/store.rs",
    "libcnb-data/src/sbom.rs", "libcnb-data/src/exec_d.rs", "libcnb-data/src/generic.rs",
];
const ITER_METHODS: &[&str] = &["iter", "iter_mut", "keys", "values", "values_mut", "into_iter", "into_keys", "into_values", "drain", "retain", "extract_if"];
const TRANSPARENT_METHODS: &[&str] = &["clone", "as_ref", "as_mut", "borrow", "borrow_mut", "to_owned", "unwrap_or_default"];
const ENTROPY_IDENTS: &[&str] = &["SystemTime", "Instant", "UNIX_EPOCH", "rand", "fastrand", "getrandom", "thread_rng", "RandomState", "Uuid", "uuid", "chrono", "OffsetDateTime", "tempfile", "TempDir", "tempdir", "getpid", "gettid", "ThreadId"];
/// leaf types of serialised fields (std / serde / toml), by last path segment
const LEAVES: &[&str] = &["String", "str", "bool", "i8", "i16", "i32", "i64", "u8", "u16", "u32", "u64", "usize", "isize", "f32", "f64", "char", "PathBuf", "Path",
    "Vec", "VecDeque", "Option", "Box", "BTreeMap", "BTreeSet", "Table", "Value", "toml", "value", "map", "Map", "std", "collections", "path", "Self"];

fn lean_str(s: &str) -> String {
    let mut o = String::from("\"");
    for c in s.chars() {
        match c {
            '"' => o.push_str("\\\""), '\\' => o.push_str("\\\\"), '\n' => o.push_str("\\n"), '\t' => o.push_str("\\t"),
            c if (c as u32) < 0x20 || (c as u32) > 0x7e => { let _ = write!(o, "\\u{{{:x}}}", c as u32); }
            c => o.push(c),
        }
    }
    o.push('"');
    o
}

fn is_cfg_test(attrs: &[syn::Attribute]) -> bool { attrs.iter().any(|a| a.path().is_ident("cfg") && norm(&a.meta).contains("test")) }
fn derives_serialize(attrs: &[syn::Attribute]) -> bool {
    let mut ser = false;
    for at in attrs { if at.path().is_ident("derive") { let _ = at.parse_nested_meta(|m| { if m.path.segments.last().map(|s| s.ident == "Serialize").unwrap_or(false) { ser = true; } Ok(()) }); } }
    ser
}

/// all path-segment identifiers of a type
struct TypeIdents(Vec<String>);
impl<'ast> Visit<'ast> for TypeIdents { fn visit_path_segment(&mut self, s: &'ast syn::PathSegment) { self.0.push(s.ident.to_string()); syn::visit::visit_path_segment(self, s); } }
fn type_idents(t: &syn::Type) -> Vec<String> { let mut v = TypeIdents(vec![]); v.visit_type(t); v.0 }
fn type_is_hash(t: &syn::Type, hash_types: &BTreeSet<String>) -> bool { type_idents(t).iter().any(|i| hash_types.contains(i)) }

#[derive(Default, Clone)]
struct Decls {
    /// struct name -> hash-typed named fields / tuple indices (as "0", "1", …)
    struct_hash_fields: BTreeMap<String, BTreeSet<String>>,
    /// every hash-typed named field of any struct or struct-like variant
    any_hash_field: BTreeSet<String>,
    /// tuple variant / tuple struct name -> hash flag per position
    tuple_hash: BTreeMap<String, Vec<bool>>,
    /// method / fn names whose declared return type is hash-typed
    returns_hash: BTreeSet<String>,
    /// `type X = <hash-backed>` aliases
    hash_aliases: BTreeSet<String>,
}

struct DeclScan<'a> { hash_types: &'a BTreeSet<String>, d: &'a mut Decls }
impl DeclScan<'_> {
    fn fields(&mut self, owner: &str, fields: &syn::Fields) {
        match fields {
            syn::Fields::Named(n) => for f in &n.named {
                if type_is_hash(&f.ty, self.hash_types) { let name = f.ident.as_ref().unwrap().to_string(); self.d.struct_hash_fields.entry(owner.to_string()).or_default().insert(name.clone()); self.d.any_hash_field.insert(name); }
            },
            syn::Fields::Unnamed(u) => {
                let flags: Vec<bool> = u.unnamed.iter().map(|f| type_is_hash(&f.ty, self.hash_types)).collect();
                for (i, h) in flags.iter().enumerate() { if *h { self.d.struct_hash_fields.entry(owner.to_string()).or_default().insert(i.to_string()); } }
                if flags.iter().any(|h| *h) { self.d.tuple_hash.insert(owner.to_string(), flags); }
            }
            syn::Fields::Unit => {}
        }
    }
}
impl<'ast> Visit<'ast> for DeclScan<'_> {
    fn visit_item_mod(&mut self, m: &'ast syn::ItemMod) { if !is_cfg_test(&m.attrs) { syn::visit::visit_item_mod(self, m); } }
    fn visit_item_struct(&mut self, s: &'ast syn::ItemStruct) { if !is_cfg_test(&s.attrs) { self.fields(&s.ident.to_string(), &s.fields); } }
    fn visit_item_enum(&mut self, e: &'ast syn::ItemEnum) { if !is_cfg_test(&e.attrs) { for v in &e.variants { self.fields(&v.ident.to_string(), &v.fields); } } }
    fn visit_signature(&mut self, s: &'ast syn::Signature) {
        if let syn::ReturnType::Type(_, t) = &s.output { if type_is_hash(t, self.hash_types) { self.d.returns_hash.insert(s.ident.to_string()); } }
    }
    fn visit_item_type(&mut self, t: &'ast syn::ItemType) { if type_is_hash(&t.ty, self.hash_types) { self.d.hash_aliases.insert(t.ident.to_string()); } }
    fn visit_impl_item_type(&mut self, t: &'ast syn::ImplItemType) { if type_is_hash(&t.ty, self.hash_types) { self.d.hash_aliases.insert(t.ident.to_string()); } }
}

#[derive(Clone, Debug, PartialEq, Eq, PartialOrd, Ord)]
struct Site { file: String, func: String, text: String, occ: usize }

struct BodyScan<'a> {
    file: &'a str, hash_types: &'a BTreeSet<String>, d: &'a Decls,
    self_ty: Option<String>, fn_stack: Vec<String>, env_stack: Vec<BTreeSet<String>>,
    iter_sites: Vec<(String, String, String)>, readdir_sites: Vec<(String, String, String)>, entropy_sites: Vec<(String, String, String)>,
    /// (self type, fn name) of fns that contain an iteration site: used to find wrapper types
    iterating_methods: BTreeSet<(String, String)>,
}
impl BodyScan<'_> {
    fn func(&self) -> String { self.fn_stack.last().cloned().unwrap_or_else(|| "<item>".into()) }
    fn env(&mut self) -> &mut BTreeSet<String> { if self.env_stack.is_empty() { self.env_stack.push(BTreeSet::new()); } self.env_stack.last_mut().unwrap() }
    fn in_env(&self, n: &str) -> bool { self.env_stack.last().map(|e| e.contains(n)).unwrap_or(false) }
    fn self_is_hash(&self) -> bool { self.self_ty.as_ref().map(|t| self.hash_types.contains(t)).unwrap_or(false) }

    fn is_hash_expr(&self, e: &syn::Expr) -> bool {
        match e {
            syn::Expr::Path(p) => { if let Some(i) = p.path.get_ident() { let n = i.to_string(); (n == "self" && self.self_is_hash()) || self.in_env(&n) } else { false } }
            syn::Expr::Field(f) => {
                let member = match &f.member { syn::Member::Named(i) => i.to_string(), syn::Member::Unnamed(i) => i.index.to_string() };
                let base_is_self = matches!(&*f.base, syn::Expr::Path(p) if p.path.is_ident("self"));
                if base_is_self { if let Some(t) = &self.self_ty { if let Some(fs) = self.d.struct_hash_fields.get(t) { return fs.contains(&member); } } }
                matches!(f.member, syn::Member::Named(_)) && self.d.any_hash_field.contains(&member)
            }
            syn::Expr::Reference(r) => self.is_hash_expr(&r.expr),
            syn::Expr::Paren(p) => self.is_hash_expr(&p.expr),
            syn::Expr::Group(g) => self.is_hash_expr(&g.expr),
            syn::Expr::Unary(u) if matches!(u.op, syn::UnOp::Deref(_)) => self.is_hash_expr(&u.expr),
            syn::Expr::MethodCall(m) => {
                let name = m.method.to_string();
                (TRANSPARENT_METHODS.contains(&name.as_str()) && self.is_hash_expr(&m.receiver)) || (m.args.is_empty() && self.d.returns_hash.contains(&name))
                    || (name == "collect" && m.turbofish.as_ref().map(|t| norm(t)).map(|t| self.hash_types.iter().any(|h| t.contains(h.as_str()))).unwrap_or(false))
            }
            syn::Expr::Call(c) => { if let syn::Expr::Path(p) = &*c.func { p.path.segments.iter().any(|s| self.hash_types.contains(&s.ident.to_string())) || p.path.segments.last().map(|s| self.d.returns_hash.contains(&s.ident.to_string())).unwrap_or(false) } else { false } }
            _ => false,
        }
    }
    /// identifiers bound by a pattern at positions whose declared type is hash-backed
    fn bind_pat(&mut self, p: &syn::Pat, hash: bool) {
        match p {
            syn::Pat::Ident(i) => { if hash { let n = i.ident.to_string(); self.env().insert(n); } }
            syn::Pat::Reference(r) => self.bind_pat(&r.pat, hash),
            syn::Pat::Paren(r) => self.bind_pat(&r.pat, hash),
            syn::Pat::Type(t) => { let h = hash || type_is_hash(&t.ty, self.hash_types); self.bind_pat(&t.pat, h); }
            syn::Pat::TupleStruct(ts) => {
                let name = ts.path.segments.last().map(|s| s.ident.to_string()).unwrap_or_default();
                let name = if name == "Self" { self.self_ty.clone().unwrap_or(name) } else { name };
                let flags = self.d.tuple_hash.get(&name).cloned().unwrap_or_default();
                for (i, e) in ts.elems.iter().enumerate() { let h = flags.get(i).copied().unwrap_or(false); self.bind_pat(e, h); }
            }
            syn::Pat::Struct(s) => for f in &s.fields {
                let h = if let syn::Member::Named(n) = &f.member { self.d.any_hash_field.contains(&n.to_string()) } else { false };
                self.bind_pat(&f.pat, h);
            },
            syn::Pat::Tuple(t) => for e in &t.elems { self.bind_pat(e, false); },
            syn::Pat::Or(o) => for c in &o.cases { self.bind_pat(c, hash); },
            _ => {}
        }
    }
    fn enter_fn(&mut self, sig: &syn::Signature, block: &syn::Block) {
        let name = match &self.self_ty { Some(t) if self.fn_stack.is_empty() => format!("{t}::{}", sig.ident), _ => match self.fn_stack.last() { Some(outer) => format!("{outer}::{}", sig.ident), None => sig.ident.to_string() } };
        self.fn_stack.push(name);
        self.env_stack.push(BTreeSet::new());
        for a in &sig.inputs { if let syn::FnArg::Typed(t) = a { let h = type_is_hash(&t.ty, self.hash_types); self.bind_pat(&t.pat, h); } }
        let before = self.iter_sites.len();
        self.visit_block(block);
        if self.iter_sites.len() > before { if let Some(t) = &self.self_ty { self.iterating_methods.insert((t.clone(), sig.ident.to_string())); } }
        self.env_stack.pop();
        self.fn_stack.pop();
    }
    fn entropy_ident(&mut self, id: &str, ctx: &str) { if ENTROPY_IDENTS.contains(&id) { let f = self.func(); self.entropy_sites.push((self.file.to_string(), f, ctx.to_string())); } }
    fn entropy_path(&mut self, p: &syn::Path) {
        let segs: Vec<String> = p.segments.iter().map(|s| s.ident.to_string()).collect();
        let text = segs.join("::");
        for s in &segs { self.entropy_ident(s, &text); }
        if segs.windows(2).any(|w| w[0] == "process" && w[1] == "id") { let f = self.func(); self.entropy_sites.push((self.file.to_string(), f, text.clone())); }
    }
    fn entropy_tokens(&mut self, ts: proc_macro2::TokenStream) {
        let mut prev2: Option<String> = None; // ident before a `::`
        let mut last_ident: Option<String> = None;
        let mut colons = 0;
        for t in ts {
            match t {
                proc_macro2::TokenTree::Group(g) => { self.entropy_tokens(g.stream()); last_ident = None; colons = 0; }
                proc_macro2::TokenTree::Ident(i) => {
                    let s = i.to_string();
                    self.entropy_ident(&s, &s);
                    if colons == 2 && prev2.as_deref() == Some("process") && s == "id" { let f = self.func(); self.entropy_sites.push((self.file.to_string(), f, "process::id".into())); }
                    last_ident = Some(s); colons = 0;
                }
                proc_macro2::TokenTree::Punct(p) if p.as_char() == ':' => { colons += 1; if colons == 2 { prev2 = last_ident.take(); } }
                _ => { last_ident = None; colons = 0; }
            }
        }
    }
}
impl<'ast> Visit<'ast> for BodyScan<'_> {
    fn visit_item_mod(&mut self, m: &'ast syn::ItemMod) { if !is_cfg_test(&m.attrs) { syn::visit::visit_item_mod(self, m); } }
    fn visit_item_impl(&mut self, i: &'ast syn::ItemImpl) {
        if is_cfg_test(&i.attrs) { return; }
        let saved = self.self_ty.take();
        // `impl X`, `impl T for X`, `impl T for &X`: the last path segment that is not a reference
        let mut ty = &*i.self_ty;
        while let syn::Type::Reference(r) = ty { ty = &*r.elem; }
        self.self_ty = if let syn::Type::Path(p) = ty { p.path.segments.last().map(|s| s.ident.to_string()) } else { None };
        syn::visit::visit_item_impl(self, i);
        self.self_ty = saved;
    }
    fn visit_item_fn(&mut self, f: &'ast syn::ItemFn) { if !is_cfg_test(&f.attrs) { self.enter_fn(&f.sig, &f.block); } }
    fn visit_impl_item_fn(&mut self, f: &'ast syn::ImplItemFn) { if !is_cfg_test(&f.attrs) { self.enter_fn(&f.sig, &f.block); } }
    fn visit_trait_item_fn(&mut self, f: &'ast syn::TraitItemFn) { if let Some(b) = &f.default { self.enter_fn(&f.sig, b); } }
    fn visit_local(&mut self, l: &'ast syn::Local) {
        let init_hash = l.init.as_ref().map(|i| self.is_hash_expr(&i.expr)).unwrap_or(false);
        if let Some(i) = &l.init { self.visit_expr(&i.expr); if let Some((_, d)) = &i.diverge { self.visit_expr(d); } }
        self.bind_pat(&l.pat, init_hash);
    }
    fn visit_expr_let(&mut self, l: &'ast syn::ExprLet) { self.visit_expr(&l.expr); self.bind_pat(&l.pat, false); }
    fn visit_arm(&mut self, a: &'ast syn::Arm) { self.bind_pat(&a.pat, false); syn::visit::visit_arm(self, a); }
    fn visit_expr_closure(&mut self, c: &'ast syn::ExprClosure) { for p in &c.inputs { self.bind_pat(p, false); } self.visit_expr(&c.body); }
    fn visit_expr_for_loop(&mut self, f: &'ast syn::ExprForLoop) {
        if self.is_hash_expr(&f.expr) { let t = format!("for {} in {}", norm(&f.pat), norm(&f.expr)); let func = self.func(); self.iter_sites.push((self.file.to_string(), func, t)); }
        self.visit_expr(&f.expr);
        self.bind_pat(&f.pat, false);
        self.visit_block(&f.body);
    }
    fn visit_expr_method_call(&mut self, m: &'ast syn::ExprMethodCall) {
        let name = m.method.to_string();
        if ITER_METHODS.contains(&name.as_str()) && self.is_hash_expr(&m.receiver) { let t = format!("{}.{}()", norm(&m.receiver), name); let func = self.func(); self.iter_sites.push((self.file.to_string(), func, t)); }
        if name == "read_dir" { let t = format!("{}.read_dir()", norm(&m.receiver)); let func = self.func(); self.readdir_sites.push((self.file.to_string(), func, t)); }
        syn::visit::visit_expr_method_call(self, m);
    }
    fn visit_expr_call(&mut self, c: &'ast syn::ExprCall) {
        if let syn::Expr::Path(p) = &*c.func { if p.path.segments.last().map(|s| s.ident == "read_dir").unwrap_or(false) { let t = format!("{}({})", norm(&p.path), c.args.iter().map(norm).collect::<Vec<_>>().join(",")); let func = self.func(); self.readdir_sites.push((self.file.to_string(), func, t)); } }
        syn::visit::visit_expr_call(self, c);
    }
    fn visit_path(&mut self, p: &'ast syn::Path) { self.entropy_path(p); syn::visit::visit_path(self, p); }
    fn visit_use_tree(&mut self, u: &'ast syn::UseTree) {
        fn flat(u: &syn::UseTree, pre: &mut Vec<String>, out: &mut Vec<Vec<String>>) {
            match u {
                syn::UseTree::Path(p) => { pre.push(p.ident.to_string()); flat(&p.tree, pre, out); pre.pop(); }
                syn::UseTree::Name(n) => { let mut v = pre.clone(); v.push(n.ident.to_string()); out.push(v); }
                syn::UseTree::Rename(r) => { let mut v = pre.clone(); v.push(r.ident.to_string()); out.push(v); }
                syn::UseTree::Glob(_) => out.push(pre.clone()),
                syn::UseTree::Group(g) => for i in &g.items { flat(i, pre, out); },
            }
        }
        let mut out = vec![]; flat(u, &mut vec![], &mut out);
        for segs in out {
            let text = format!("use {}", segs.join("::"));
            for s in &segs { self.entropy_ident(s, &text); }
            if segs.windows(2).any(|w| w[0] == "process" && w[1] == "id") { let f = self.func(); self.entropy_sites.push((self.file.to_string(), f, text.clone())); }
        }
    }
    fn visit_macro(&mut self, m: &'ast syn::Macro) {
        // macro arguments are not parsed by syn: try them as a comma-separated expression list (format!, vec!, write! …)
        use syn::parse::Parser;
        let parser = syn::punctuated::Punctuated::<syn::Expr, syn::Token![,]>::parse_terminated;
        match parser.parse2(m.tokens.clone()) { Ok(exprs) => for e in exprs.iter() { self.visit_expr(e); }, Err(_) => self.entropy_tokens(m.tokens.clone()) }
    }
}

fn expand(ctx: &mut Ctx, pats: &[&str]) -> Vec<String> {
    let mut out = vec![];
    for p in pats {
        if let Some(dir) = p.strip_suffix("/*") {
            match std::fs::read_dir(ctx.repo.join(dir)) {
                Ok(rd) => { let mut names: Vec<String> = rd.filter_map(Result::ok).map(|e| e.file_name().to_string_lossy().to_string()).filter(|n| n.ends_with(".rs") && n != "tests.rs").collect(); names.sort(); for n in names { out.push(format!("{dir}/{n}")); } }
                Err(e) => ctx.broken.push(format!("hashSites: cannot list {dir}: {e}")),
            }
        } else { out.push(p.to_string()); }
    }
    out
}

fn number(sites: Vec<(String, String, String)>) -> Vec<Site> {
    // occurrence number of the same (file, fn, text) in source order, then sorted: moving code around inside a fn changes nothing
    let mut seen: BTreeMap<(String, String, String), usize> = BTreeMap::new();
    let mut out: Vec<Site> = sites.into_iter().map(|(file, func, text)| { let k = seen.entry((file.clone(), func.clone(), text.clone())).or_insert(0); let occ = *k; *k += 1; Site { file, func, text, occ } }).collect();
    out.sort();
    out
}

fn emit_sites(o: &mut String, name: &str, doc: &str, sites: &[Site]) {
    writeln!(o, "/-- {doc} -/\ndef {name} : List (String × String × String × Nat) := [").unwrap();
    for (i, s) in sites.iter().enumerate() { writeln!(o, "  ({}, {}, {}, {}){}", lean_str(&s.file), lean_str(&s.func), lean_str(&s.text), s.occ, if i + 1 < sites.len() { "," } else { "" }).unwrap(); }
    writeln!(o, "]\n").unwrap();
}

/// does a dependency table entry for `toml` switch `preserve_order` on?
fn dep_has_preserve_order(v: &toml::Value) -> bool {
    v.get("features").and_then(toml::Value::as_array).map(|a| a.iter().any(|f| f.as_str() == Some("preserve_order"))).unwrap_or(false)
}

pub fn hashsites(ctx: &mut Ctx) -> Option<String> {
    let before = ctx.broken.len();
    let code_files = expand(ctx, CODE_FILES);
    let data_files: Vec<String> = DATA_FILES.iter().map(|s| s.to_string()).collect();
    let mut parsed: Vec<(String, syn::File)> = vec![];
    for f in code_files.iter().chain(data_files.iter()) { if let Some(p) = parse_file(ctx, f) { parsed.push((f.clone(), p)); } }
    if ctx.broken.len() > before { return None; }

    // ---- (a) iteration sites, to a fixpoint over wrapper types
    let mut hash_types: BTreeSet<String> = ["HashMap", "HashSet"].iter().map(|s| s.to_string()).collect();
    let mut result = None;
    for _round in 0..6 {
        let mut d = Decls::default();
        for (_, f) in &parsed { DeclScan { hash_types: &hash_types, d: &mut d }.visit_file(f); }
        let (mut it, mut rd, mut en, mut methods) = (vec![], vec![], vec![], BTreeSet::new());
        for (name, f) in &parsed {
            let mut b = BodyScan { file: name, hash_types: &hash_types, d: &d, self_ty: None, fn_stack: vec![], env_stack: vec![], iter_sites: vec![], readdir_sites: vec![], entropy_sites: vec![], iterating_methods: BTreeSet::new() };
            b.visit_file(f);
            it.append(&mut b.iter_sites); rd.append(&mut b.readdir_sites); en.append(&mut b.entropy_sites); methods.append(&mut b.iterating_methods);
        }
        let wrappers: BTreeSet<String> = methods.iter().filter(|(t, m)| d.struct_hash_fields.contains_key(t) && ITER_METHODS.contains(&m.as_str())).map(|(t, _)| t.clone()).collect();
        let grown: BTreeSet<String> = hash_types.union(&wrappers).cloned().collect::<BTreeSet<String>>().union(&d.hash_aliases).cloned().collect();
        let stable = grown == hash_types;
        hash_types = grown;
        result = Some((it, rd, en));
        if stable { break; }
    }
    let (it, rd, en) = result.unwrap();
    let (it, rd, en) = (number(it), number(rd), number(en));
    // the shapes the model relies on must still be there: otherwise the scan is blind, not the code clean
    for (file, func) in [("libcnb/src/layer_env.rs", "LayerEnv::write_to_layer_dir"), ("libcnb/src/layer/shared.rs", "replace_layer_exec_d_programs")] {
        if !it.iter().any(|s| s.file == file && s.func == func) { ctx.broken.push(format!("hashSites: no hash iteration found in {file} {func} (the loop the C20 model covers): source reshaped or the scan is blind")); }
    }

    // ---- (b) serialised types
    let mut ser_fields: Vec<(String, String, String, String, bool)> = vec![];
    let mut defined: BTreeSet<String> = BTreeSet::new();
    let mut referenced: Vec<(String, String)> = vec![];
    let base: BTreeSet<String> = ["HashMap", "HashSet"].iter().map(|s| s.to_string()).collect();
    struct SerScan<'a> { file: &'a str, base: &'a BTreeSet<String>, out: &'a mut Vec<(String, String, String, String, bool)>, defined: &'a mut BTreeSet<String>, referenced: &'a mut Vec<(String, String)> }
    impl SerScan<'_> {
        fn fields(&mut self, ty: &str, generics: &BTreeSet<String>, fields: &syn::Fields) {
            for (i, f) in fields.iter().enumerate() {
                let name = f.ident.as_ref().map(|x| x.to_string()).unwrap_or_else(|| i.to_string());
                self.out.push((self.file.to_string(), ty.to_string(), name, norm(&f.ty), type_is_hash(&f.ty, self.base)));
                for id in type_idents(&f.ty) { if !generics.contains(&id) && !LEAVES.contains(&id.as_str()) && !self.base.contains(&id) { self.referenced.push((self.file.to_string(), id)); } }
            }
        }
    }
    impl<'ast> Visit<'ast> for SerScan<'_> {
        fn visit_item_mod(&mut self, m: &'ast syn::ItemMod) { if !is_cfg_test(&m.attrs) { syn::visit::visit_item_mod(self, m); } }
        fn visit_item_struct(&mut self, s: &'ast syn::ItemStruct) {
            if is_cfg_test(&s.attrs) { return; }
            self.defined.insert(s.ident.to_string());
            if derives_serialize(&s.attrs) { let g: BTreeSet<String> = s.generics.type_params().map(|p| p.ident.to_string()).collect(); self.fields(&s.ident.to_string(), &g, &s.fields); }
        }
        fn visit_item_enum(&mut self, e: &'ast syn::ItemEnum) {
            if is_cfg_test(&e.attrs) { return; }
            self.defined.insert(e.ident.to_string());
            if derives_serialize(&e.attrs) { let g: BTreeSet<String> = e.generics.type_params().map(|p| p.ident.to_string()).collect(); for v in &e.variants { self.fields(&format!("{}::{}", e.ident, v.ident), &g, &v.fields); } }
        }
        fn visit_item_impl(&mut self, i: &'ast syn::ItemImpl) {
            // a hand-written `impl Serialize for T`: its body is covered by the iteration-site scan of the same file
            if is_cfg_test(&i.attrs) { return; }
            if let Some((_, tr, _)) = &i.trait_ { if tr.segments.last().map(|s| s.ident == "Serialize").unwrap_or(false) { self.out.push((self.file.to_string(), norm(&i.self_ty), "<impl Serialize>".into(), "-".into(), false)); } }
        }
        fn visit_item_type(&mut self, t: &'ast syn::ItemType) { self.defined.insert(t.ident.to_string()); self.out.push((self.file.to_string(), t.ident.to_string(), "=".into(), norm(&t.ty), type_is_hash(&t.ty, self.base))); }
        // functions may define local Serialize types (build_plan.rs has one in a test only): visit them too
    }
    for (name, f) in parsed.iter().filter(|(n, _)| data_files.contains(n)) {
        SerScan { file: name, base: &base, out: &mut ser_fields, defined: &mut defined, referenced: &mut referenced }.visit_file(f);
    }
    ser_fields.sort();
    let mut unresolved: Vec<(String, String)> = referenced.into_iter().filter(|(_, id)| !defined.contains(id)).collect();
    unresolved.sort(); unresolved.dedup();
    if !ser_fields.iter().any(|f| f.1 == "Launch") || !ser_fields.iter().any(|f| f.1 == "LayerContentMetadata") || !ser_fields.iter().any(|f| f.1 == "Store") || !ser_fields.iter().any(|f| f.1 == "BuildPlan") {
        ctx.broken.push("hashSites: Launch / LayerContentMetadata / Store / BuildPlan are no longer `#[derive(Serialize)]` types of libcnb-data".into());
    }

    // ---- toml's map type: `preserve_order` (IndexMap, insertion order) must be off for `toml::Table` to be a BTreeMap
    let mut declared = false; let mut lock_indexmap = false; let mut manifests = 0;
    for rel in ["Cargo.toml", "libcnb/Cargo.toml", "libcnb-data/Cargo.toml", "libcnb-common/Cargo.toml"] {
        match std::fs::read_to_string(ctx.repo.join(rel)).ok().and_then(|s| s.parse::<toml::Table>().ok()) {
            None => ctx.broken.push(format!("hashSites: cannot read {rel}")),
            Some(t) => {
                manifests += 1;
                let mut tabs: Vec<&toml::Value> = vec![];
                for k in ["dependencies", "dev-dependencies", "build-dependencies"] { if let Some(v) = t.get(k) { tabs.push(v); } }
                if let Some(w) = t.get("workspace") { if let Some(v) = w.get("dependencies") { tabs.push(v); } }
                for tab in tabs { if let Some(dep) = tab.get("toml") { if dep_has_preserve_order(dep) { declared = true; } } }
            }
        }
    }
    let mut locks = 0;
    for lock in [ctx.repo.join("Cargo.lock"), PathBuf::from(env!("CARGO_MANIFEST_DIR")).join("Cargo.lock")] {
        if let Some(t) = std::fs::read_to_string(&lock).ok().and_then(|s| s.parse::<toml::Table>().ok()) {
            locks += 1;
            for p in t.get("package").and_then(toml::Value::as_array).map(|a| a.as_slice()).unwrap_or(&[]) {
                if p.get("name").and_then(toml::Value::as_str) == Some("toml") {
                    if p.get("dependencies").and_then(toml::Value::as_array).map(|d| d.iter().any(|x| x.as_str().map(|s| s.split(' ').next() == Some("indexmap")).unwrap_or(false))).unwrap_or(false) { lock_indexmap = true; }
                }
            }
        }
    }
    if locks == 0 { ctx.broken.push("hashSites: no Cargo.lock readable (toml feature resolution unknown)".into()); }

    if ctx.broken.len() > before { return None; }
    let mut o = String::new();
    writeln!(o, "-- GENERATED by /verif/harness/src/bin/translator (hashsites.rs) from /repo sources. Do not edit.").unwrap();
    writeln!(o, "namespace CnbVerif.Gen.HashSites\n").unwrap();
    writeln!(o, "/-- files scanned for (a) and (c) -/\ndef scannedFiles : List String := [{}]\n", code_files.iter().chain(data_files.iter()).map(|f| lean_str(f)).collect::<Vec<_>>().join(", ")).unwrap();
    writeln!(o, "/-- types counted as hash-backed: std's, and structs of the scanned files that wrap one and hand out its iterator -/\ndef hashBackedTypes : List String := [{}]\n", hash_types.iter().map(|f| lean_str(f)).collect::<Vec<_>>().join(", ")).unwrap();
    emit_sites(&mut o, "iterSites", "(file, enclosing fn, expression, occurrence number): every iteration over a hash-backed container", &it);
    emit_sites(&mut o, "readDirSites", "(file, enclosing fn, expression, occurrence number): every `read_dir` call", &rd);
    emit_sites(&mut o, "entropySites", "(file, enclosing fn, path, occurrence number): mentions of clocks, randomness, process/thread ids, temp names", &en);
    writeln!(o, "/-- (file, type or enum variant, field, declared type, hash-backed): every field of every `#[derive(Serialize)]` type and every type alias -/\ndef serFields : List (String × String × String × String × Bool) := [").unwrap();
    for (i, (f, t, n, ty, h)) in ser_fields.iter().enumerate() { writeln!(o, "  ({}, {}, {}, {}, {}){}", lean_str(f), lean_str(t), lean_str(n), lean_str(ty), h, if i + 1 < ser_fields.len() { "," } else { "" }).unwrap(); }
    writeln!(o, "]\n").unwrap();
    writeln!(o, "/-- (file, type name) used by a serialised field, not defined in the scanned libcnb-data files and not a std/toml leaf -/\ndef serUnresolved : List (String × String) := [{}]\n", unresolved.iter().map(|(f, t)| format!("({}, {})", lean_str(f), lean_str(t))).collect::<Vec<_>>().join(", ")).unwrap();
    writeln!(o, "/-- some Cargo.toml of /repo ({manifests} read) enables `preserve_order` on the `toml` dependency -/\ndef tomlPreserveOrderDeclared : Bool := {declared}\n").unwrap();
    writeln!(o, "/-- in a Cargo.lock ({locks} read: /repo and the harness) the `toml` package links `indexmap`, i.e. `preserve_order` is on after feature resolution -/\ndef tomlLinksIndexmap : Bool := {lock_indexmap}\n").unwrap();
    writeln!(o, "end CnbVerif.Gen.HashSites").unwrap();
    ctx.items.push(format!("HashSites.iterSites ({} sites), readDirSites ({}), entropySites ({}) <- {} files of libcnb/libcnb-common/libcnb-data", it.len(), rd.len(), en.len(), parsed.len()));
    ctx.items.push(format!("HashSites.serFields ({} fields, {} hash-backed), serUnresolved ({}), tomlPreserveOrderDeclared={declared}, tomlLinksIndexmap={lock_indexmap} <- libcnb-data/src/*.rs, Cargo.toml, Cargo.lock", ser_fields.len(), ser_fields.iter().filter(|f| f.4).count(), unresolved.len()));
    Some(o)
}
