//! Gen/Runtime.lean (C05): constants and the environment reads of the runtime entry point.
//!  * `supportedApi`        <- `LIBCNB_SUPPORTED_BUILDPACK_API` of libcnb/src/lib.rs
//!  * `contextTargetReads`  <- `fn context_target` of libcnb/src/runtime.rs: every `env::var("NAME")` read in source order
//!                             together with what is done with its result
//!  * `buildpackDirRead`    <- `fn read_buildpack_dir`
//! A read has one of three *unconditional* shapes (normal forms; `std::env::var` = `env::var`, `Error::X` = `|e| Error::X(e)`,
//! parentheses and type ascriptions on the `let` do not matter):
//!     env::var(NAME).map_err(Error::X)?            -> .required X     (unset or not Unicode => the phase fails with X)
//!     env::var(NAME).ok()                          -> .optionalOk
//!     env::var(NAME).unwrap_or_default() | .unwrap_or(<text literal>) | .unwrap_or_else(|_| <text literal>) -> .defaulted <text>
//! Everything else — a requirement that depends on the value of another variable (`or_else(.. cond.then(..) ..)`, `if`, `match`),
//! a statement in `context_target` that is not such a `let`, an `env::var` / `var_os` / `vars` read anywhere in runtime.rs that
//! is not one of the recognised ones, a call of `context_target()` / `read_buildpack_dir()` whose error is not propagated
//! (`?`, possibly after `.inspect_err(..)`; `.and_then(..)`) — is reported as TIE-BROKEN: the model's `contextTarget`
//! interprets the generated list and has no term for a conditional requirement.
use crate::*;
use std::fmt::Write as _;
use syn::visit::Visit;

enum Use { Required(String), OptionalOk, Defaulted(String) }

fn peel(e: &syn::Expr) -> &syn::Expr {
    match e { syn::Expr::Paren(p) => peel(&p.expr), syn::Expr::Group(g) => peel(&g.expr), _ => e }
}
fn path_segs(e: &syn::Expr) -> Option<Vec<String>> {
    if let syn::Expr::Path(p) = peel(e) { if p.qself.is_none() { return Some(p.path.segments.iter().map(|s| s.ident.to_string()).collect()); } }
    None
}
/// `env::<what>` / `std::env::<what>`
fn is_env_fn(segs: &[String], what: &[&str]) -> bool {
    let n = segs.len();
    n >= 2 && segs[n - 2] == "env" && what.contains(&segs[n - 1].as_str()) && (n == 2 || (n == 3 && segs[0] == "std"))
}
/// `env::var("NAME")` -> NAME
fn env_var_call(e: &syn::Expr) -> Option<String> {
    if let syn::Expr::Call(c) = peel(e) {
        if is_env_fn(&path_segs(&c.func)?, &["var"]) && c.args.len() == 1 { return lit_str(peel(&c.args[0])); }
    }
    None
}
/// `Error::X` or `|e| Error::X(e)` -> X
fn error_ctor(e: &syn::Expr) -> Option<String> {
    let variant = |segs: Vec<String>| { let n = segs.len(); (n >= 2 && segs[n - 2] == "Error").then(|| segs[n - 1].clone()) };
    match peel(e) {
        syn::Expr::Path(_) => variant(path_segs(e)?),
        syn::Expr::Closure(c) if c.inputs.len() == 1 => {
            let arg = if let syn::Pat::Ident(i) = &c.inputs[0] { i.ident.to_string() } else { return None };
            if let syn::Expr::Call(call) = peel(&c.body) {
                if call.args.len() == 1 && path_segs(&call.args[0]) == Some(vec![arg]) { return variant(path_segs(&call.func)?); }
            }
            None
        }
        _ => None,
    }
}
/// a text literal handed out as a `String`: `String::new()`, `"lit".to_string()` / `.to_owned()` / `.into()`, `String::from("lit")`
fn text_literal(e: &syn::Expr) -> Option<String> {
    match peel(e) {
        syn::Expr::Call(c) => {
            let segs = path_segs(&c.func)?;
            if segs == ["String", "new"] && c.args.is_empty() { return Some(String::new()); }
            if segs == ["String", "from"] && c.args.len() == 1 { return lit_str(peel(&c.args[0])); }
            None
        }
        syn::Expr::MethodCall(m) if m.args.is_empty() && ["to_string", "to_owned", "into"].contains(&m.method.to_string().as_str()) => lit_str(peel(&m.receiver)),
        _ => None,
    }
}
/// the normal form of an expression consuming one `env::var("NAME")`; Err = why the shape is not one of the unconditional ones
fn env_read(e: &syn::Expr) -> Result<(String, Use), String> {
    let shape = || format!("`{}`", norm(e));
    match peel(e) {
        syn::Expr::Try(t) => match peel(&t.expr) {
            syn::Expr::MethodCall(m) if m.method == "map_err" && m.args.len() == 1 => {
                let name = env_var_call(&m.receiver).ok_or_else(|| format!("{} is not `env::var(NAME).map_err(Error::X)?`: something stands between the read and `map_err`", shape()))?;
                let x = error_ctor(&m.args[0]).ok_or_else(|| format!("{}: the argument of map_err is not an `Error::X` constructor", shape()))?;
                Ok((name, Use::Required(x)))
            }
            _ => Err(format!("{} is not `env::var(NAME).map_err(Error::X)?`", shape())),
        },
        syn::Expr::MethodCall(m) => {
            let name = env_var_call(&m.receiver).ok_or_else(|| format!("{}: not a single method applied to `env::var(NAME)`", shape()))?;
            match (m.method.to_string().as_str(), m.args.len()) {
                ("ok", 0) => Ok((name, Use::OptionalOk)),
                ("unwrap_or_default", 0) => Ok((name, Use::Defaulted(String::new()))),
                ("unwrap_or", 1) => text_literal(&m.args[0]).map(|d| (name, Use::Defaulted(d))).ok_or_else(|| format!("{}: the default is not a text literal", shape())),
                ("unwrap_or_else", 1) => match peel(&m.args[0]) {
                    syn::Expr::Closure(c) => text_literal(&c.body).map(|d| (name, Use::Defaulted(d))).ok_or_else(|| format!("{}: the default is not a text literal", shape())),
                    _ => Err(format!("{}: the default is not a closure returning a text literal", shape())),
                },
                _ => Err(format!("{}: `.{}` is not one of map_err(..)? / ok() / unwrap_or..", shape(), m.method)),
            }
        }
        _ => Err(format!("{} is not a read of an environment variable in one of the unconditional shapes", shape())),
    }
}

/// every mention of an environment-reading function (or macro) in a piece of syntax
struct EnvCensus { reads: Vec<String>, imports: Vec<String> }
impl<'ast> Visit<'ast> for EnvCensus {
    fn visit_expr_path(&mut self, p: &'ast syn::ExprPath) {
        let segs: Vec<String> = p.path.segments.iter().map(|s| s.ident.to_string()).collect();
        if is_env_fn(&segs, &["var", "var_os", "vars", "vars_os", "set_var", "remove_var"]) { self.reads.push(segs.join("::")); }
        syn::visit::visit_expr_path(self, p);
    }
    fn visit_macro(&mut self, m: &'ast syn::Macro) {
        let n = m.path.segments.last().map(|s| s.ident.to_string()).unwrap_or_default();
        if n == "env" || n == "option_env" { self.reads.push(format!("{n}!")); }
        syn::visit::visit_macro(self, m);
    }
    fn visit_item_use(&mut self, u: &'ast syn::ItemUse) {
        // `use std::env::var;` would make a bare `var(..)` a read that the path census cannot see
        fn walk(t: &syn::UseTree, under_env: bool, out: &mut Vec<String>) {
            match t {
                syn::UseTree::Path(p) => walk(&p.tree, under_env || p.ident == "env", out),
                syn::UseTree::Group(g) => for x in &g.items { walk(x, under_env, out); },
                syn::UseTree::Name(n) => if under_env { out.push(n.ident.to_string()); },
                syn::UseTree::Rename(r) => if under_env { out.push(r.ident.to_string()); },
                syn::UseTree::Glob(_) => if under_env { out.push("*".into()); },
            }
        }
        walk(&u.tree, false, &mut self.imports);
    }
}

/// calls of `name()` and how many of them hand their error on (`?`, `.inspect_err(..)?`, `.and_then(..)`)
struct CallSites<'a> { name: &'a str, calls: usize, propagated: usize }
impl CallSites<'_> {
    fn is_call(&self, e: &syn::Expr) -> bool {
        if let syn::Expr::Call(c) = peel(e) { if let Some(s) = path_segs(&c.func) { return s.last().map(String::as_str) == Some(self.name); } }
        false
    }
}
impl<'ast> Visit<'ast> for CallSites<'_> {
    fn visit_expr_call(&mut self, c: &'ast syn::ExprCall) {
        if path_segs(&c.func).and_then(|s| s.last().cloned()).as_deref() == Some(self.name) { self.calls += 1; }
        syn::visit::visit_expr_call(self, c);
    }
    fn visit_expr_try(&mut self, t: &'ast syn::ExprTry) {
        let mut inner = peel(&t.expr);
        while let syn::Expr::MethodCall(m) = inner { if m.method == "inspect_err" { inner = peel(&m.receiver); } else { break; } }
        if self.is_call(inner) { self.propagated += 1; }
        syn::visit::visit_expr_try(self, t);
    }
    fn visit_expr_method_call(&mut self, m: &'ast syn::ExprMethodCall) {
        if m.method == "and_then" && self.is_call(&m.receiver) { self.propagated += 1; }
        syn::visit::visit_expr_method_call(self, m);
    }
}

fn lean_var(name: &str) -> Option<&'static str> {
    Some(match name { "CNB_BUILDPACK_DIR" => "bpDir", "CNB_TARGET_OS" => "os", "CNB_TARGET_ARCH" => "arch", "CNB_TARGET_ARCH_VARIANT" => "variant", "CNB_TARGET_DISTRO_NAME" => "dname", "CNB_TARGET_DISTRO_VERSION" => "dver", _ => return None })
}
fn lean_err(variant: &str) -> Option<&'static str> {
    Some(match variant { "CannotDetermineBuildpackDirectory" => "bpDir", "CannotDetermineTargetOs" => "targetOs", "CannotDetermineTargetArch" => "targetArch", "CannotDetermineTargetDistroName" => "distroName", "CannotDetermineTargetDistroVersion" => "distroVersion", _ => return None })
}
fn lean_str(s: &str) -> String { let mut o = String::from("\""); for c in s.chars() { match c { '"' => o.push_str("\\\""), '\\' => o.push_str("\\\\"), '\n' => o.push_str("\\n"), '\t' => o.push_str("\\t"), c => o.push(c) } } o.push('"'); o }
fn lean_read(item: &str, name: &str, u: &Use, broken: &mut Vec<String>) -> Option<String> {
    let Some(v) = lean_var(name) else { broken.push(format!("{item}: reads the variable {name}, which the model does not know")); return None; };
    let u = match u {
        Use::Required(x) => match lean_err(x) { Some(k) => format!(".required .{k}"), None => { broken.push(format!("{item}: {name} fails with Error::{x}, which the model does not know")); return None; } },
        Use::OptionalOk => ".optionalOk".to_string(),
        Use::Defaulted(d) => format!(".defaulted {}", lean_str(d)),
    };
    Some(format!("(.{v}, {u})"))
}

fn env_reads(ctx: &mut Ctx, o: &mut String) {
    let Some(f) = parse_file(ctx, "libcnb/src/runtime.rs") else { return; };
    let mut recognised = 0usize;
    // ---- context_target
    let item = "contextTargetReads";
    let fns = find_fns(&f, "context_target");
    if fns.len() != 1 { ctx.broken.push(format!("{item}: expected exactly one fn context_target in libcnb/src/runtime.rs, found {}", fns.len())); }
    else {
        let body = &fns[0];
        let mut reads: Vec<String> = vec![];
        let mut ok = true;
        let n = body.stmts.len();
        for (k, st) in body.stmts.iter().enumerate() {
            match st {
                syn::Stmt::Local(l) => {
                    let plain_pat = matches!(&l.pat, syn::Pat::Ident(_)) || matches!(&l.pat, syn::Pat::Type(t) if matches!(&*t.pat, syn::Pat::Ident(_)));
                    match &l.init {
                        Some(init) if plain_pat && init.diverge.is_none() => match env_read(&init.expr) {
                            Ok((name, u)) => { recognised += 1; match lean_read(item, &name, &u, &mut ctx.broken) { Some(t) => reads.push(t), None => ok = false } }
                            Err(why) => { ok = false; ctx.broken.push(format!("{item}: context_target statement {}: {why}", k + 1)); }
                        },
                        _ => { ok = false; ctx.broken.push(format!("{item}: context_target statement {} `{}` is not `let <name> = <read>;`", k + 1, norm(st))); }
                    }
                }
                syn::Stmt::Expr(e, None) if k + 1 == n => {
                    // the tail: `Ok(Target { .. })`, nothing conditional
                    let good = if let syn::Expr::Call(c) = peel(e) { path_segs(&c.func).map(|s| s == ["Ok"]).unwrap_or(false) && c.args.len() == 1 && matches!(peel(&c.args[0]), syn::Expr::Struct(s) if s.path.segments.last().map(|x| x.ident == "Target").unwrap_or(false) && s.rest.is_none()) } else { false };
                    if !good { ok = false; ctx.broken.push(format!("{item}: context_target does not end in `Ok(Target {{ .. }})` but in `{}`", norm(e))); }
                }
                other => { ok = false; ctx.broken.push(format!("{item}: context_target statement {} `{}` is neither a read nor the final `Ok(Target {{ .. }})`", k + 1, norm(other))); }
            }
        }
        if ok {
            writeln!(o, "/-- libcnb/src/runtime.rs `context_target`: every `env::var` read in source order and what is done with its result -/\ndef contextTargetReads : List (VarName × EnvUse) :=\n  [{}]\n", reads.join(", ")).unwrap();
            ctx.items.push("contextTargetReads <- libcnb/src/runtime.rs context_target".into());
        }
    }
    // ---- read_buildpack_dir: `env::var("CNB_BUILDPACK_DIR").map_err(Error::X).map(PathBuf::from)` as the returned Result
    let item = "buildpackDirRead";
    let fns = find_fns(&f, "read_buildpack_dir");
    let mut done = false;
    if fns.len() == 1 && fns[0].stmts.len() == 1 {
        if let syn::Stmt::Expr(e, None) = &fns[0].stmts[0] {
            let mut inner = peel(e);
            if let syn::Expr::MethodCall(m) = inner { if m.method == "map" && m.args.len() == 1 && path_segs(&m.args[0]).map(|s| s == ["PathBuf", "from"]).unwrap_or(false) { inner = peel(&m.receiver); } }
            if let syn::Expr::MethodCall(m) = inner {
                if m.method == "map_err" && m.args.len() == 1 {
                    if let (Some(name), Some(x)) = (env_var_call(&m.receiver), error_ctor(&m.args[0])) {
                        recognised += 1;
                        if let Some(t) = lean_read(item, &name, &Use::Required(x), &mut ctx.broken) {
                            writeln!(o, "/-- libcnb/src/runtime.rs `read_buildpack_dir` (its callers hand the error on) -/\ndef buildpackDirRead : VarName × EnvUse := {t}\n").unwrap();
                            ctx.items.push("buildpackDirRead <- libcnb/src/runtime.rs read_buildpack_dir".into());
                        }
                        done = true;
                    }
                }
            }
        }
    }
    if !done { ctx.broken.push(format!("{item}: fn read_buildpack_dir is not `env::var(NAME).map_err(Error::X).map(PathBuf::from)`")); }
    // ---- no other environment read anywhere in runtime.rs
    let mut census = EnvCensus { reads: vec![], imports: vec![] };
    census.visit_file(&f);
    if !census.imports.is_empty() { ctx.broken.push(format!("envReads: libcnb/src/runtime.rs imports {:?} from `env`: bare calls cannot be told from other functions", census.imports)); }
    if census.reads.len() != recognised {
        ctx.broken.push(format!("envReads: libcnb/src/runtime.rs mentions {} environment accesses ({}) but only {} are reads in a modelled place and shape", census.reads.len(), census.reads.join(", "), recognised));
    }
    // ---- the callers hand the error on
    for name in ["context_target", "read_buildpack_dir"] {
        let mut cs = CallSites { name, calls: 0, propagated: 0 };
        cs.visit_file(&f);
        if cs.calls == 0 || cs.calls != cs.propagated {
            ctx.broken.push(format!("envReads: {} of the {} calls of {name}() do not hand their error on with `?` / `.inspect_err(..)?` / `.and_then(..)`", cs.calls - cs.propagated.min(cs.calls), cs.calls));
        }
    }
}

pub fn runtime(ctx: &mut Ctx) -> Option<String> {
    let mut o = String::new();
    writeln!(o, "-- GENERATED by /verif/harness/src/bin/translator/runtime.rs from /repo sources. Do not edit.").unwrap();
    writeln!(o, "import CnbVerif.Model.RuntimeTypes\nnamespace CnbVerif.Gen\nopen CnbVerif.Runtime\n").unwrap();
    let before = ctx.broken.len();
    if let Some(f) = parse_file(ctx, "libcnb/src/lib.rs") {
        let mut found = None;
        for it in &f.items {
            if let syn::Item::Const(c) = it {
                if c.ident == "LIBCNB_SUPPORTED_BUILDPACK_API" {
                    if let syn::Expr::Struct(s) = &*c.expr {
                        let get = |name: &str| s.fields.iter().find(|fv| norm(&fv.member) == name).and_then(|fv| lit_int(&fv.expr));
                        if let (Some(ma), Some(mi), true, true) = (get("major"), get("minor"), s.fields.len() == 2, s.rest.is_none()) { if ma >= 0 && mi >= 0 { found = Some((ma, mi)); } }
                    }
                }
            }
        }
        match found {
            Some((ma, mi)) => {
                writeln!(o, "/-- libcnb/src/lib.rs `LIBCNB_SUPPORTED_BUILDPACK_API` (major, minor) -/\ndef supportedApi : Nat × Nat := ({ma}, {mi})\n").unwrap();
                ctx.items.push("supportedApi <- libcnb/src/lib.rs LIBCNB_SUPPORTED_BUILDPACK_API".into());
            }
            None => ctx.broken.push("supportedApi: const LIBCNB_SUPPORTED_BUILDPACK_API is not a `BuildpackApi { major: <int>, minor: <int> }` literal".into()),
        }
    }
    env_reads(ctx, &mut o);
    writeln!(o, "end CnbVerif.Gen").unwrap();
    if ctx.broken.len() > before { None } else { Some(o) }
}
