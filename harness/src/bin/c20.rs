//! C20 correspondence: every scenario is executed in 4 fresh processes (own temp root each; std's `RandomState` is seeded
//! per process, so every `HashMap` iterates in a different order; different pids and start times) and runs 2–4 are
//! compared with run 1 **byte for byte**: exit status, step results and a raw snapshot (path, mode, hex of all bytes) of
//! the layers directory and of the plan file, after replacing the temp root by `$ROOT`. Observation: `equal` or
//! `differ:<key of the first differing line>`.
//!
//! Scenario kinds (3 fields: kind, a, b):
//!   layers  a = layer names (hex, `,`)   b = history of struct- and trait-API layer operations and hand-written layer files (`;`), replayed by
//!           `c20 child-layers a b` (real `cached_layer` / `uncached_layer` / `LayerRef::write_*` / `handle_layer`)
//!   bp      a = detect | build            b = items (`;`) steering this binary run as a buildpack through the real
//!           `libcnb_runtime` (it is a `detect`/`build` executable when invoked under those names)
//!   tbp     a = detect | build            b = `<TBP_DETECT>;<TBP_BUILD>;<pre-existing outputs>`: the C05 test buildpack
//!   probe   a = toml-order                b = `-`: `toml::Table` iterates in key order (BTreeMap, `preserve_order` off)
//!   execd   a = `<api>,<entries…>`        b = wanted exec.d programs: a cached layer whose exec.d is prepared by hand (plain files, symlinks,
//!           hard links), restored, and written again through the struct API (KeepLayer + `write_exec_d_programs`) or the trait API (`Update`);
//!           see `execd_history`. 6 processes (18 on replay). Observation: `differ:…` or `equal|<result>|<exec.d listing>` (`execd_listing`).
//!   sbom    a = route                    b = SBOM registrations in order (`;`), formats repeated. Routes `bp` (items `b.<fmt>.<hex>` / `h.<fmt>.<hex>` of the
//!           data-driven buildpack, other lower-case items allowed) and `tbp` (items of `TBP_BUILD`): the real build phase (`libcnb_runtime_build`) whose
//!           `BuildResult` carries 0-8 build and 0-8 launch SBOMs; routes `ls` (struct API `LayerRef::write_sboms`) and `lt` (trait API `update` ->
//!           `Sboms::Replace`): items `<fmt>=<hex>`, written to a cached layer that already has an SBOM of every format (`sbom_history`).
//!           6 processes (18 on replay). Observation: `differ:…` or `equal|<result>|<SBOM files: name hex=bytes hex, sorted>` (`sbom_observation`).
//! History ops added for restored layers: `K` symlink, `H` hard link (both placed by hand like `W`), `Q` listing of exec.d (bytes behind every
//! name, link count). The raw snapshot carries link-ness as well (`raw_snapshot`).
#![allow(deprecated)]
use cnbv::ctx::TbError;
use cnbv::*;
use libcnb::build::{BuildContext, BuildResult, BuildResultBuilder};
use libcnb::data::build_plan::{BuildPlanBuilder, Require};
use libcnb::data::launch::{Label, LaunchBuilder, ProcessBuilder, ProcessType, Slice, WorkingDirectory};
use libcnb::data::layer::LayerName;
use libcnb::data::layer_content_metadata::{LayerContentMetadata, LayerTypes};
use libcnb::data::sbom::SbomFormat;
use libcnb::data::store::Store;
use libcnb::detect::{DetectContext, DetectResult, DetectResultBuilder};
use libcnb::generic::{GenericMetadata, GenericPlatform};
use libcnb::layer::{CachedLayerDefinition, EmptyLayerCause, ExistingLayerStrategy, InvalidMetadataAction, Layer, LayerData, LayerError, LayerRef, LayerResult, LayerResultBuilder, LayerState, MetadataMigration, RestoredLayerAction, UncachedLayerDefinition};
use libcnb::layer_env::{LayerEnv, ModificationBehavior, Scope};
use libcnb::sbom::Sbom;
use libcnb::{Buildpack, Env, Target};
use serde::{Deserialize, Serialize};
use std::cell::RefCell;
use std::collections::HashMap;
use std::ffi::OsString;
use std::os::unix::ffi::{OsStrExt, OsStringExt};
use std::os::unix::fs::{MetadataExt, PermissionsExt};
use std::path::{Path, PathBuf};
use std::process::{Command, Stdio};

/// processes per scenario when generating; replaying single cases (`run` mode: corpus, shrinking, --replay) uses more,
/// so that a shrunk case with only two hash-ordered keys still shows its difference
const RUNS: usize = 4;
const RUNS_REPLAY: usize = 10;
fn runs() -> usize { if std::env::args().nth(1).as_deref() == Some("run") { RUNS_REPLAY } else { RUNS } }

// ------------------------------------------------------------------------------------------------ small parsers
#[derive(Serialize, Deserialize, Clone, Debug)]
struct V { v: i64 }

fn os(b: &[u8]) -> OsString { OsString::from_vec(b.to_vec()) }
fn unhex_s(s: &str) -> String { String::from_utf8(unhex(s).expect("hex")).expect("utf8") }

/// `~` = empty table; `k=v_k=v`, nested one level as `t+k=v`; v = int | `s<hex>` | `t` | `f` | `a<int>:<int>…`
fn parse_meta(s: &str) -> toml::Table {
    let mut t = toml::Table::new();
    if s == "~" || s == "-" || s.is_empty() { return t; }
    for kv in s.split('_') {
        let (k, v) = kv.split_once('=').expect("meta k=v");
        let val: toml::Value = if let Some(h) = v.strip_prefix('s') { toml::Value::String(unhex_s(h)) }
            else if v == "t" { true.into() } else if v == "f" { false.into() }
            else if let Some(a) = v.strip_prefix('a') { toml::Value::Array(a.split(':').filter(|x| !x.is_empty()).map(|x| toml::Value::Integer(x.parse().unwrap())).collect()) }
            else { toml::Value::Integer(v.parse().expect("meta int")) };
        match k.split_once('+') {
            Some((outer, inner)) => { let e = t.entry(outer.to_string()).or_insert_with(|| toml::Value::Table(toml::Table::new())); if let toml::Value::Table(tt) = e { tt.insert(inner.to_string(), val); } }
            None => { t.insert(k.to_string(), val); }
        }
    }
    t
}
fn show_meta(t: &Option<toml::Table>) -> String { match t { None => "~".into(), Some(t) => hex(toml::to_string(t).unwrap_or_default().as_bytes()) } }

fn parse_scope(s: &str) -> Scope { match s { "A" => Scope::All, "B" => Scope::Build, "L" => Scope::Launch, _ => Scope::Process(unhex_s(s.strip_prefix("P:").expect("scope"))) } }
fn parse_beh(s: &str) -> ModificationBehavior { match s { "a" => ModificationBehavior::Append, "d" => ModificationBehavior::Default, "m" => ModificationBehavior::Delimiter, "o" => ModificationBehavior::Override, "p" => ModificationBehavior::Prepend, _ => panic!("beh") } }
fn parse_env(s: &str) -> LayerEnv {
    let mut le = LayerEnv::new();
    for i in split_list(s, ",") { let q: Vec<&str> = i.split('/').collect(); le.insert(parse_scope(q[0]), parse_beh(q[1]), os(&unhex(q[2]).unwrap()), os(&unhex(q[3]).unwrap())); }
    le
}
const FMTS: [SbomFormat; 3] = [SbomFormat::CycloneDxJson, SbomFormat::SpdxJson, SbomFormat::SyftJson];
fn parse_sboms(s: &str) -> Vec<Sbom> { split_list(s, "+").iter().map(|x| { let (i, h) = x.split_once('=').unwrap(); Sbom::from_bytes(FMTS[i.parse::<usize>().unwrap()].clone(), unhex(h).unwrap()) }).collect() }
/// `<namehex>=<contenthex|~>` joined by `+`; the source files are created under `srcs` (`~` = no source file)
fn parse_progs(s: &str, srcs: &Path, tag: &str) -> Vec<(String, PathBuf)> {
    split_list(s, "+").iter().enumerate().map(|(j, x)| { let (n, h) = x.split_once('=').unwrap(); let src = srcs.join(format!("s{tag}_{j}")); if h != "~" { std::fs::write(&src, unhex(h).unwrap()).unwrap(); } (unhex_s(n), src) }).collect()
}

// ------------------------------------------------------------------------------------------------ the buildpack type
struct Dbp;
impl Buildpack for Dbp {
    type Platform = GenericPlatform;
    type Metadata = GenericMetadata;
    type Error = TbError;
    fn detect(&self, _c: DetectContext<Self>) -> libcnb::Result<DetectResult, Self::Error> { bp_detect() }
    fn build(&self, c: BuildContext<Self>) -> libcnb::Result<BuildResult, Self::Error> { bp_build(c) }
    fn on_error(&self, error: libcnb::Error<Self::Error>) { let d = format!("{error:?}"); println!("on_error {}", d.chars().take_while(|c| c.is_ascii_alphanumeric()).collect::<String>()); }
}
type R<T> = libcnb::Result<T, TbError>;

fn manual_context(layers_dir: &Path, scratch: &Path) -> BuildContext<Dbp> {
    BuildContext {
        layers_dir: layers_dir.to_path_buf(), app_dir: scratch.join("app"), buildpack_dir: scratch.join("buildpack"),
        target: Target { os: "linux".into(), arch: "amd64".into(), arch_variant: None, distro_name: "ubuntu".into(), distro_version: "24.04".into() },
        platform: GenericPlatform::new(Env::new()),
        buildpack_plan: libcnb::data::buildpack_plan::BuildpackPlan { entries: vec![] },
        buildpack_descriptor: toml::from_str("api = \"0.10\"\n[buildpack]\nid = \"verif/c20\"\nversion = \"0.0.1\"\n").unwrap(),
        store: None,
    }
}

fn err_kind(e: &libcnb::Error<TbError>) -> &'static str {
    let d = format!("{e:?}");
    match e {
        libcnb::Error::BuildpackError(_) => "buildpack",
        libcnb::Error::LayerError(LayerError::CouldNotReadGenericLayerMetadata(_)) => "genericMeta",
        libcnb::Error::LayerError(_) => { if d.contains("MissingLayer(") { "missingLayer" } else if d.contains("MissingExecDFile(") { "missingExecd" } else if d.contains("WriteLayerMetadataError(") { "metaFile" } else { "io" } }
        _ => "io",
    }
}

// ------------------------------------------------------------------------------------------------ raw snapshot
fn show_path(b: &[u8]) -> String { b.iter().map(|&c| if c.is_ascii_graphic() && c != b'\\' { (c as char).to_string() } else { format!("\\x{c:02x}") }).collect() }
fn replace_bytes(hay: &[u8], needle: &[u8], with: &[u8]) -> Vec<u8> {
    if needle.is_empty() || hay.len() < needle.len() { return hay.to_vec(); }
    let mut out = Vec::with_capacity(hay.len()); let mut i = 0;
    while i < hay.len() { if hay[i..].starts_with(needle) { out.extend_from_slice(with); i += needle.len(); } else { out.push(hay[i]); i += 1; } }
    out
}
/// what is behind a symlink (followed): `F<hex of the bytes>` / `D` / `-` (dangling or unreadable)
fn behind_link(p: &Path, tmp: &[u8]) -> String {
    match std::fs::metadata(p) { Ok(m) if m.is_dir() => "D".into(), Ok(_) => std::fs::read(p).map(|b| format!("F{}", hex(&replace_bytes(&b, tmp, b"$ROOT")))).unwrap_or_else(|_| "-".into()), Err(_) => "-".into() }
}
/// sorted lines `D path mode` / `F path mode hex[ n<nlink> =<first path of the same inode>]` / `L path target <what is behind>`;
/// the bytes of `tmp_root` inside contents are `$ROOT`. A file with more than one name says so (`n2`) and names the first path
/// (in walk order) that shares its inode, so that link-ness is part of what is compared.
fn raw_snapshot(root: &Path, tmp_root: &Path, prefix: &str, out: &mut Vec<String>) {
    type Inodes = std::collections::BTreeMap<(u64, u64), String>;
    fn walk(root: &Path, dir: &Path, tmp: &[u8], prefix: &str, inodes: &mut Inodes, out: &mut Vec<String>) {
        let mut entries: Vec<_> = match std::fs::read_dir(dir) { Ok(rd) => rd.filter_map(Result::ok).collect(), Err(_) => { out.push(format!("{prefix} E {}", show_path(dir.strip_prefix(root).unwrap().as_os_str().as_bytes()))); return; } };
        entries.sort_by_key(|e| e.file_name());
        for e in entries {
            let p = e.path();
            let rel = show_path(p.strip_prefix(root).unwrap().as_os_str().as_bytes());
            let md = std::fs::symlink_metadata(&p).unwrap();
            let mode = md.permissions().mode() & 0o7777;
            if md.file_type().is_symlink() { out.push(format!("{prefix} L {rel} {} {}", hex(&replace_bytes(std::fs::read_link(&p).unwrap().as_os_str().as_bytes(), tmp, b"$ROOT")), behind_link(&p, tmp))); }
            else if md.is_dir() { out.push(format!("{prefix} D {rel} {mode:o}")); walk(root, &p, tmp, prefix, inodes, out); }
            else {
                let body = std::fs::read(&p).map(|b| hex(&replace_bytes(&b, tmp, b"$ROOT"))).unwrap_or_else(|_| "?".into());
                let shared = if md.nlink() > 1 { let first = inodes.entry((md.dev(), md.ino())).or_insert_with(|| rel.clone()).clone(); format!(" n{} ={first}", md.nlink()) } else { String::new() };
                out.push(format!("{prefix} F {rel} {mode:o} {body}{shared}"));
            }
        }
    }
    if !root.exists() { out.push(format!("{prefix} ABSENT")); return; }
    if root.is_file() { let body = std::fs::read(root).map(|b| hex(&replace_bytes(&b, tmp_root.as_os_str().as_bytes(), b"$ROOT"))).unwrap_or_else(|_| "?".into()); out.push(format!("{prefix} F . {body}")); return; }
    walk(root, root, tmp_root.as_os_str().as_bytes(), prefix, &mut Inodes::new(), out);
}

/// canonical listing of `<layer>/exec.d` (op `Q`): `absent` | `notdir` | `empty` | entries sorted by name, joined by `,`:
/// `<namehex>:F:<hex of the bytes>:<nlink>` | `<namehex>:L:<target hex>:<what is behind>` | `<namehex>:D` | `<namehex>:O`;
/// prefixed by `linkdir>` when `exec.d` itself is a symlink to a directory
fn execd_listing(layer_dir: &Path, tmp: &[u8]) -> String {
    let dir = layer_dir.join("exec.d");
    let Ok(md) = std::fs::symlink_metadata(&dir) else { return "absent".into() };
    let pre = if md.file_type().is_symlink() { "linkdir>" } else { "" };
    let Ok(rd) = std::fs::read_dir(&dir) else { return "notdir".into() };
    let mut entries: Vec<_> = rd.filter_map(Result::ok).collect();
    entries.sort_by_key(|e| e.file_name());
    let items: Vec<String> = entries.iter().map(|e| {
        let p = e.path(); let n = hex(e.file_name().as_bytes());
        match std::fs::symlink_metadata(&p) {
            Ok(m) if m.file_type().is_symlink() => format!("{n}:L:{}:{}", hex(&replace_bytes(std::fs::read_link(&p).unwrap().as_os_str().as_bytes(), tmp, b"$ROOT")), behind_link(&p, tmp)),
            Ok(m) if m.is_dir() => format!("{n}:D"),
            Ok(m) if m.is_file() => format!("{n}:F:{}:{}", std::fs::read(&p).map(|b| hex(&replace_bytes(&b, tmp, b"$ROOT"))).unwrap_or_else(|_| "?".into()), m.nlink()),
            _ => format!("{n}:O"),
        }
    }).collect();
    format!("{pre}{}", if items.is_empty() { "empty".to_string() } else { items.join(",") })
}

// ------------------------------------------------------------------------------------------------ replaying layer histories
enum Ref { C(LayerRef<Dbp, u32, u32>), U(LayerRef<Dbp, (), ()>) }
impl Ref {
    fn path(&self) -> PathBuf { match self { Ref::C(r) => r.path(), Ref::U(r) => r.path() } }
    fn write_metadata(&self, m: toml::Table) -> R<()> { match self { Ref::C(r) => r.write_metadata(m), Ref::U(r) => r.write_metadata(m) } }
    fn write_env(&self, e: &LayerEnv) -> R<()> { match self { Ref::C(r) => r.write_env(e), Ref::U(r) => r.write_env(e) } }
    fn write_sboms(&self, s: &[Sbom]) -> R<()> { match self { Ref::C(r) => r.write_sboms(s), Ref::U(r) => r.write_sboms(s) } }
    fn write_exec_d(&self, p: Vec<(String, PathBuf)>) -> R<()> { match self { Ref::C(r) => r.write_exec_d_programs(p), Ref::U(r) => r.write_exec_d_programs(p) } }
    fn read_env(&self) -> R<LayerEnv> { match self { Ref::C(r) => r.read_env(), Ref::U(r) => r.read_env() } }
}

fn state_str<A: std::fmt::Display, B: std::fmt::Display>(s: &LayerState<A, B>) -> String {
    match s {
        LayerState::Restored { cause } => format!("restored:{cause}"),
        LayerState::Empty { cause: EmptyLayerCause::NewlyCreated } => "empty:new".into(),
        LayerState::Empty { cause: EmptyLayerCause::InvalidMetadataAction { cause } } => format!("empty:inv:{cause}"),
        LayerState::Empty { cause: EmptyLayerCause::RestoredLayerAction { cause } } => format!("empty:res:{cause}"),
    }
}

fn cached<M: Serialize + serde::de::DeserializeOwned + 'static>(ctx: &BuildContext<Dbp>, name: &LayerName, b: bool, l: bool, ci: &str, cr: &str,
    log: &RefCell<Vec<String>>, show: &dyn Fn(&M) -> String, mk: &dyn Fn(&str) -> M) -> R<LayerRef<Dbp, u32, u32>> {
    ctx.cached_layer(name, CachedLayerDefinition {
        build: b, launch: l,
        invalid_metadata_action: &|gm: &GenericMetadata| -> Result<(InvalidMetadataAction<M>, u32), TbError> {
            log.borrow_mut().push(format!("I{}", show_meta(gm)));
            match &ci[..1] {
                "d" => Ok((InvalidMetadataAction::DeleteLayer, ci[1..].parse().unwrap())),
                "r" => { let (m, c) = ci[1..].rsplit_once('!').unwrap(); Ok((InvalidMetadataAction::ReplaceMetadata(mk(m)), c.parse().unwrap())) }
                _ => Err(TbError("inv".into())),
            }
        },
        restored_layer_action: &|m: &M, _p: &Path| -> Result<(RestoredLayerAction, u32), TbError> {
            log.borrow_mut().push(format!("R{}", show(m)));
            match &cr[..1] { "k" => Ok((RestoredLayerAction::KeepLayer, cr[1..].parse().unwrap())), "d" => Ok((RestoredLayerAction::DeleteLayer, cr[1..].parse().unwrap())), _ => Err(TbError("res".into())) }
        },
    })
}

/// the lifecycle between two builds: cached layers keep directory + metadata, launch-only layers keep metadata, the rest goes
fn restore(layers: &Path, names: &[String]) {
    const SUF: [&str; 3] = ["cdx.json", "spdx.json", "syft.json"];
    for name in names {
        let dir = layers.join(name); let tp = layers.join(format!("{name}.toml"));
        let doc = std::fs::read_to_string(&tp).ok().and_then(|s| toml::from_str::<LayerContentMetadata<GenericMetadata>>(&s).ok());
        let rm_sboms = || for s in SUF { let _ = std::fs::remove_file(layers.join(format!("{name}.sbom.{s}"))); };
        let rm_dir = || if dir.exists() { let _ = std::fs::remove_dir_all(&dir); };
        match doc {
            Some(LayerContentMetadata { types: Some(t), metadata }) if t.cache => { std::fs::write(&tp, toml::to_string(&LayerContentMetadata { types: None, metadata }).unwrap()).unwrap(); }
            Some(LayerContentMetadata { types: Some(t), metadata }) if t.launch => { rm_dir(); rm_sboms(); std::fs::write(&tp, toml::to_string(&LayerContentMetadata { types: None, metadata }).unwrap()).unwrap(); }
            _ => { rm_dir(); rm_sboms(); let _ = std::fs::remove_file(&tp); }
        }
    }
}

/// trait-API layer whose answers are data
struct DataLayer { types: LayerTypes, strategy: String, meta: String, env: String, progs: String, sboms: String, srcs: PathBuf, tag: String, log: std::rc::Rc<RefCell<Vec<String>>> }
impl DataLayer {
    fn result(&self, which: &str, layer_path: &Path) -> Result<LayerResult<GenericMetadata>, TbError> {
        self.log.borrow_mut().push(which.to_string());
        if self.meta == "f" { return Err(TbError(which.into())); }
        std::fs::write(layer_path.join(format!("made-by-{which}")), which.as_bytes()).map_err(|e| TbError(e.to_string()))?;
        let mut b = LayerResultBuilder::new(Some(parse_meta(&self.meta))).env(parse_env(&self.env));
        for (n, p) in parse_progs(&self.progs, &self.srcs, &format!("{}{which}", self.tag)) { b = b.exec_d_program(n, p); }
        for s in parse_sboms(&self.sboms) { b = b.sbom(s); }
        b.build()
    }
}
impl Layer for DataLayer {
    type Buildpack = Dbp;
    type Metadata = GenericMetadata;
    fn types(&self) -> LayerTypes { self.types }
    fn create(&mut self, _c: &BuildContext<Dbp>, p: &Path) -> Result<LayerResult<GenericMetadata>, TbError> { self.result("create", p) }
    fn existing_layer_strategy(&mut self, _c: &BuildContext<Dbp>, d: &LayerData<GenericMetadata>) -> Result<ExistingLayerStrategy, TbError> {
        self.log.borrow_mut().push(format!("strategy:{}", show_meta(&d.content_metadata.metadata)));
        match self.strategy.as_str() { "k" => Ok(ExistingLayerStrategy::Keep), "u" => Ok(ExistingLayerStrategy::Update), "r" => Ok(ExistingLayerStrategy::Recreate), _ => Err(TbError("strategy".into())) }
    }
    fn update(&mut self, _c: &BuildContext<Dbp>, d: &LayerData<GenericMetadata>) -> Result<LayerResult<GenericMetadata>, TbError> { self.result("update", &d.path) }
    fn migrate_incompatible_metadata(&mut self, _c: &BuildContext<Dbp>, _m: &GenericMetadata) -> Result<MetadataMigration<GenericMetadata>, TbError> { self.log.borrow_mut().push("migrate".into()); Ok(MetadataMigration::RecreateLayer) }
}

/// trait-API layer with typed metadata `V`: a stored table without `v` is incompatible and is migrated by
/// `MetadataMigration::ReplaceMetadata` (which rewrites the layer, env included, from what was read back)
struct VLayer { types: LayerTypes, strategy: String, log: std::rc::Rc<RefCell<Vec<String>>> }
impl Layer for VLayer {
    type Buildpack = Dbp;
    type Metadata = V;
    fn types(&self) -> LayerTypes { self.types }
    fn create(&mut self, _c: &BuildContext<Dbp>, _p: &Path) -> Result<LayerResult<V>, TbError> { self.log.borrow_mut().push("create".into()); LayerResultBuilder::new(V { v: 1 }).build() }
    fn existing_layer_strategy(&mut self, _c: &BuildContext<Dbp>, d: &LayerData<V>) -> Result<ExistingLayerStrategy, TbError> {
        self.log.borrow_mut().push(format!("strategy:v{}", d.content_metadata.metadata.v));
        match self.strategy.as_str() { "k" => Ok(ExistingLayerStrategy::Keep), "u" => Ok(ExistingLayerStrategy::Update), "r" => Ok(ExistingLayerStrategy::Recreate), _ => Err(TbError("strategy".into())) }
    }
    fn update(&mut self, _c: &BuildContext<Dbp>, _d: &LayerData<V>) -> Result<LayerResult<V>, TbError> { self.log.borrow_mut().push("update".into()); LayerResultBuilder::new(V { v: 2 }).build() }
    fn migrate_incompatible_metadata(&mut self, _c: &BuildContext<Dbp>, m: &GenericMetadata) -> Result<MetadataMigration<V>, TbError> { self.log.borrow_mut().push(format!("migrate:{}", show_meta(m))); Ok(MetadataMigration::ReplaceMetadata(V { v: 9 })) }
}

fn show_env_probe(le: &LayerEnv) -> String {
    let mut parts = vec![];
    for (tag, sc) in [("B", Scope::Build), ("L", Scope::Launch), ("Pweb", Scope::Process("web".into())), ("Pcron", Scope::Process("cron".into()))] {
        let e = le.apply_to_empty(sc);
        let mut kv: Vec<(Vec<u8>, Vec<u8>)> = e.iter().map(|(k, v)| (k.as_bytes().to_vec(), v.as_bytes().to_vec())).collect();
        kv.sort();
        parts.push(format!("{tag}[{}]", kv.iter().map(|(k, v)| format!("{}={}", hex(k), hex(v))).collect::<Vec<_>>().join(",")));
    }
    parts.join("")
}

/// replays `ops` on the real layer APIs; after every step one `S<k> R …` line (result + callback log) and the raw snapshot
fn replay(ctx: &BuildContext<Dbp>, names: &[String], ops: &[&str], srcs: &Path, tmp_root: &Path, out: &mut Vec<String>) {
    let layers = ctx.layers_dir.clone();
    let mut refs: HashMap<String, Ref> = HashMap::new();
    for (k, op) in ops.iter().enumerate() {
        let p: Vec<&str> = op.split('.').collect();
        let log = RefCell::new(Vec::<String>::new());
        let name = p.get(1).map(|n| unhex_s(n)).unwrap_or_default();
        let lname: Option<LayerName> = name.parse().ok();
        let root_bytes = tmp_root.as_os_str().as_bytes().to_vec();
        let res: String = match p[0] {
            "C" => {
                let (b, l) = (&p[2][..1] == "1", &p[2][1..2] == "1");
                let ln = lname.clone().expect("layer name");
                let r = if p[3] == "V" { cached::<V>(ctx, &ln, b, l, p[4], p[5], &log, &|m: &V| format!("v{}", m.v), &|s| V { v: parse_meta(s).get("v").and_then(toml::Value::as_integer).unwrap_or(0) }) }
                    else { cached::<GenericMetadata>(ctx, &ln, b, l, p[4], p[5], &log, &|m: &GenericMetadata| show_meta(m), &|s| Some(parse_meta(s))) };
                match r { Ok(lr) => { let s = state_str(&lr.state); refs.entry(name.clone()).or_insert(Ref::C(lr)); s } Err(e) => format!("err:{}", err_kind(&e)) }
            }
            "U" => {
                let (b, l) = (&p[2][..1] == "1", &p[2][1..2] == "1");
                match ctx.uncached_layer(lname.clone().expect("layer name"), UncachedLayerDefinition { build: b, launch: l }) {
                    Ok(lr) => { let s = match lr.state { LayerState::Restored { .. } => "restored".to_string(), LayerState::Empty { cause: EmptyLayerCause::NewlyCreated } => "empty:new".into(), LayerState::Empty { .. } => "empty:other".into() }; refs.entry(name.clone()).or_insert(Ref::U(lr)); s }
                    Err(e) => format!("err:{}", err_kind(&e)),
                }
            }
            "T" => {
                let t = p[2].as_bytes();
                let lg = std::rc::Rc::new(RefCell::new(vec![]));
                let layer = DataLayer { types: LayerTypes { launch: t[0] == b'1', build: t[1] == b'1', cache: t[2] == b'1' }, strategy: p[3].into(), meta: p[4].into(), env: p[5].into(), progs: p[6].into(), sboms: p[7].into(), srcs: srcs.to_path_buf(), tag: format!("t{k}"), log: lg.clone() };
                let r = ctx.handle_layer(lname.clone().expect("layer name"), layer);
                log.borrow_mut().extend(lg.borrow().iter().cloned());
                match r { Ok(d) => format!("ok:{}:{}:{}", show_meta(&d.content_metadata.metadata), d.content_metadata.types.map_or("~".into(), |t| format!("{}{}{}", u8::from(t.launch), u8::from(t.build), u8::from(t.cache))), show_env_probe(&d.env).replace(&hex(&root_bytes), "24524f4f54")), Err(e) => format!("err:{}", err_kind(&e)) }
            }
            "R" => { restore(&layers, names); refs.clear(); "ok".into() }
            // a file put into the layer by hand (or by a previous build's own code): `<relative path hex>=<content hex>`, parents created
            "W" => { let (n, h) = p[2].split_once('=').unwrap(); let fp = layers.join(&name).join(os(&unhex(n).unwrap()));
                match fp.parent().map(std::fs::create_dir_all).unwrap_or(Ok(())).and_then(|()| std::fs::write(&fp, unhex(h).unwrap())) { Ok(()) => "ok".into(), Err(_) => "err:io".into() } }
            "Y" => {
                let t = p[2].as_bytes();
                let lg = std::rc::Rc::new(RefCell::new(vec![]));
                let layer = VLayer { types: LayerTypes { launch: t[0] == b'1', build: t[1] == b'1', cache: t[2] == b'1' }, strategy: p[3].into(), log: lg.clone() };
                let r = ctx.handle_layer(lname.clone().expect("layer name"), layer);
                log.borrow_mut().extend(lg.borrow().iter().cloned());
                match r { Ok(d) => format!("ok:v{}:{}", d.content_metadata.metadata.v, show_env_probe(&d.env).replace(&hex(&root_bytes), "24524f4f54")), Err(e) => format!("err:{}", err_kind(&e)) }
            }
            "B" => { std::fs::write(layers.join(format!("{name}.toml")), "this is = not [toml").unwrap(); "ok".into() }
            // a symlink put into the layer by hand (a restored layer can hold any): `<relative path hex>=<target hex>`, parents created;
            // `$ROOT` inside the target stands for this run's temp root
            "K" => { let (n, h) = p[2].split_once('=').unwrap(); let fp = layers.join(&name).join(os(&unhex(n).unwrap()));
                let target = os(&replace_bytes(&unhex(h).unwrap(), b"$ROOT", &root_bytes));
                match fp.parent().map(std::fs::create_dir_all).unwrap_or(Ok(())).and_then(|()| std::os::unix::fs::symlink(&target, &fp)) { Ok(()) => "ok".into(), Err(_) => "err:io".into() } }
            // a second name for an existing file of the layer (hard link): `<relative path hex>=<relative path of the existing file, hex>`
            "H" => { let (n, h) = p[2].split_once('=').unwrap(); let dir = layers.join(&name); let fp = dir.join(os(&unhex(n).unwrap()));
                match fp.parent().map(std::fs::create_dir_all).unwrap_or(Ok(())).and_then(|()| std::fs::hard_link(dir.join(os(&unhex(h).unwrap())), &fp)) { Ok(()) => "ok".into(), Err(_) => "err:io".into() } }
            // what can be read from every name in exec.d, and its link-ness
            "Q" => execd_listing(&layers.join(&name), &root_bytes),
            w => match refs.get(&name) {
                None => "noref".into(),
                Some(r) => {
                    let res: Result<(), String> = match w {
                        "M" => r.write_metadata(parse_meta(p[2])).map_err(|e| err_kind(&e).to_string()),
                        "E" => r.write_env(&parse_env(p[2])).map_err(|e| err_kind(&e).to_string()),
                        "S" => r.write_sboms(&parse_sboms(p[2])).map_err(|e| err_kind(&e).to_string()),
                        // LayerRef::read_env followed by write_env of what was read
                        "V" => match r.read_env() { Ok(le) => { log.borrow_mut().push(show_env_probe(&le).replace(&hex(&root_bytes), "24524f4f54")); r.write_env(&le).map_err(|e| err_kind(&e).to_string()) } Err(e) => Err(err_kind(&e).to_string()) },
                        "X" => r.write_exec_d(parse_progs(p[2], srcs, &format!("x{k}"))).map_err(|e| err_kind(&e).to_string()),
                        "F" => { let (n, h) = p[2].split_once('=').unwrap(); let dir = r.path(); let fp = dir.join(os(&unhex(n).unwrap()));
                            if !dir.is_dir() { Err("missingLayer".into()) } else if fp.is_dir() { Err("io".into()) } else { std::fs::write(fp, unhex(h).unwrap()).map_err(|_| "io".to_string()) } }
                        _ => Err("badop".into()),
                    };
                    match res { Ok(()) => "ok".into(), Err(k) => format!("err:{k}") }
                }
            },
        };
        out.push(format!("S{k} R {} {}", res, join(",", &log.borrow())));
        raw_snapshot(&layers, tmp_root, &format!("S{k}"), out);
    }
}

fn child_layers(a: &str, b: &str) {
    let tmp = tempfile::Builder::new().prefix("c20l-").tempdir().unwrap();
    let layers = tmp.path().join("layers"); std::fs::create_dir(&layers).unwrap();
    let srcs = tmp.path().join("srcs"); std::fs::create_dir(&srcs).unwrap();
    let ctx = manual_context(&layers, tmp.path());
    let names: Vec<String> = split_list(a, ",").iter().map(|n| unhex_s(n)).collect();
    let ops = split_list(b, ";");
    let mut out = vec![];
    replay(&ctx, &names, &ops, &srcs, tmp.path(), &mut out);
    for l in out { println!("{l}"); }
}

// ------------------------------------------------------------------------------------------------ buildpack mode
fn spec_items() -> Vec<String> { std::env::var("C20_SPEC").unwrap_or_default().split(';').filter(|s| !s.is_empty() && *s != "-").map(str::to_string).collect() }

fn bp_detect() -> libcnb::Result<DetectResult, TbError> {
    let mut plan = BuildPlanBuilder::new();
    let mut have_plan = true;
    for it in spec_items() {
        let p: Vec<&str> = it.split('.').collect();
        match p[0] {
            "v" => plan = plan.provides(unhex_s(p[1])),
            "q" => { let mut r = Require::new(unhex_s(p[1])); r.metadata(parse_meta(p.get(2).copied().unwrap_or("~"))).map_err(|e| libcnb::Error::BuildpackError(TbError(e.to_string())))?; plan = plan.requires(r); }
            "o" => plan = plan.or(),
            "x" => match p[1] { "fail" => return DetectResultBuilder::fail().build(), "noplan" => have_plan = false, _ => return Err(libcnb::Error::BuildpackError(TbError("requested".into()))) },
            _ => return Err(libcnb::Error::BuildpackError(TbError("bad item".into()))),
        }
    }
    if have_plan { DetectResultBuilder::pass().build_plan(plan.build()).build() } else { DetectResultBuilder::pass().build() }
}

fn bp_build(c: BuildContext<Dbp>) -> libcnb::Result<BuildResult, TbError> {
    let items = spec_items();
    let tmp_root = PathBuf::from(std::env::var_os("C20_ROOT").unwrap_or_default());
    let srcs = tmp_root.join("srcs");
    // what the context holds (store and plan tables are BTreeMap-backed: printed as the toml crate renders them)
    println!("CTX store={} plan={}", c.store.as_ref().map_or("~".into(), |s| hex(toml::to_string(&s.metadata).unwrap_or_default().as_bytes())),
        c.buildpack_plan.entries.iter().map(|e| format!("{}:{}", hex(e.name.as_bytes()), hex(toml::to_string(&e.metadata).unwrap_or_default().as_bytes()))).collect::<Vec<_>>().join(","));
    let names: Vec<String> = std::env::var("C20_NAMES").unwrap_or_default().split(',').filter(|s| !s.is_empty()).map(unhex_s).collect();
    let ops: Vec<&str> = items.iter().map(String::as_str).filter(|s| s.chars().next().map(|c| c.is_ascii_uppercase()).unwrap_or(false)).collect();
    let mut out = vec![];
    replay(&c, &names, &ops, &srcs, &tmp_root, &mut out);
    for l in out.iter().filter(|l| l.split(' ').nth(1) == Some("R")) { println!("{l}"); }
    let mut r = BuildResultBuilder::new();
    let mut launch = LaunchBuilder::new();
    let mut have_launch = false;
    for it in items.iter().filter(|s| s.chars().next().map(|c| c.is_ascii_lowercase()).unwrap_or(false)) {
        let p: Vec<&str> = it.split('.').collect();
        match p[0] {
            "i" => {}
            "p" => {
                have_launch = true;
                let ty: ProcessType = unhex_s(p[1]).parse().map_err(|_| libcnb::Error::BuildpackError(TbError("process type".into())))?;
                let mut pb = ProcessBuilder::new(ty, split_list(p[3], ",").iter().map(|x| unhex_s(x)).collect::<Vec<_>>());
                pb.args(split_list(p[4], ",").iter().map(|x| unhex_s(x)).collect::<Vec<_>>()).default(p[2] == "1");
                if p[5] != "-" { pb.working_directory(WorkingDirectory::Directory(PathBuf::from(unhex_s(p[5])))); }
                launch.process(pb.build());
            }
            "l" => { have_launch = true; launch.label(Label { key: unhex_s(p[1]), value: unhex_s(p[2]) }); }
            "s" => { have_launch = true; launch.slice(Slice { path_globs: split_list(p[1], ",").iter().map(|x| unhex_s(x)).collect() }); }
            "m" => {
                let mut t = parse_meta(p[1]);
                if p.get(2) == Some(&"c") { if let Some(old) = &c.store { for (k, v) in &old.metadata { t.entry(k.clone()).or_insert(v.clone()); } } }
                r = r.store(Store { metadata: t });
            }
            "b" => r = r.build_sbom(Sbom::from_bytes(FMTS[p[1].parse::<usize>().unwrap()].clone(), unhex(p[2]).unwrap())),
            "h" => r = r.launch_sbom(Sbom::from_bytes(FMTS[p[1].parse::<usize>().unwrap()].clone(), unhex(p[2]).unwrap())),
            "x" => return Err(libcnb::Error::BuildpackError(TbError("requested".into()))),
            _ => return Err(libcnb::Error::BuildpackError(TbError("bad item".into()))),
        }
    }
    if have_launch { r = r.launch(launch.build()); }
    r.build()
}

// ------------------------------------------------------------------------------------------------ the parent side
/// the path this binary was started under (an absolute path when started by ./check); `current_exe` reads /proc/self/exe,
/// which names a deleted file once a concurrent `cargo build` has replaced the binary
fn self_exe() -> PathBuf {
    let a0 = PathBuf::from(std::env::args().next().unwrap_or_default());
    if a0.is_absolute() && a0.is_file() { a0 } else { std::env::current_exe().unwrap() }
}
fn tbp_path() -> PathBuf { self_exe().parent().unwrap().join("tbp") }

fn spawn_retry(cmd: &mut Command) -> Result<std::process::Output, String> {
    let mut n = 0;
    loop { match cmd.output() { Ok(o) => return Ok(o), Err(e) if (e.raw_os_error() == Some(26) || e.kind() == std::io::ErrorKind::WouldBlock) && n < 200 => { n += 1; std::thread::sleep(std::time::Duration::from_millis(5)); } Err(e) => return Err(format!("spawn:{:?}", e.kind())) } }
}

fn run_layers(a: &str, b: &str) -> Result<Vec<String>, String> {
    let mut cmd = Command::new(self_exe());
    cmd.arg("child-layers").arg(a).arg(b).env_clear().stdin(Stdio::null()).stderr(Stdio::null());
    if let Some(t) = std::env::var_os("TMPDIR") { cmd.env("TMPDIR", t); }
    let o = spawn_retry(&mut cmd)?;
    if !o.status.success() { return Err(format!("child-failed:{}", o.status.code().map_or("sig".into(), |c| c.to_string()))); }
    Ok(String::from_utf8_lossy(&o.stdout).lines().map(str::to_string).collect())
}

// ------------------------------------------------------------------------------------------------ kind `execd`
/// path of a hand-prepared entry, relative to the layer directory: `exec.d/<name>[/<inner>]`, or outside `exec.d` — inside the layer
/// (no `..`) or below the run's temp root (`../../<…>`); no empty / `.` component, not absolute
fn execd_path_ok(path: &[u8]) -> bool {
    if path.is_empty() || path.contains(&0) || path[0] == b'/' { return false; }
    let rest: &[u8] = path.strip_prefix(b"../../".as_slice()).unwrap_or(path);
    let outside = rest.len() != path.len();
    let comps: Vec<&[u8]> = rest.split(|&c| c == b'/').collect();
    if comps.iter().any(|c| c.is_empty() || *c == b"." || *c == b"..") { return false; }
    if outside { return comps[0] != b"layers" && comps[0] != b"srcs"; }
    if comps[0] == b"exec.d" { comps.len() == 2 || comps.len() == 3 } else { true }
}
fn prog_name_ok(n: &[u8]) -> bool { !n.is_empty() && !n.contains(&0) && !n.contains(&b'/') && n != b"." && n != b".." && std::str::from_utf8(n).is_ok() }

/// The layer history behind a scenario of kind `execd` (replayed by `child-layers` like every other history).
///   a = `<api>,<entry>,…`   api = `s`: struct API, `cached_layer` → `RestoredLayerAction::KeepLayer` → `LayerRef::write_exec_d_programs`
///                           api = `t`: trait API, `ExistingLayerStrategy::Update` whose `update` returns the programs
///       entry = `f<path hex>=<content hex>` plain file | `l<path hex>=<target hex>` symlink (`$ROOT` = temp root) |
///               `h<path hex>=<path hex of an earlier f/h entry>` hard link; paths pairwise distinct (`execd_path_ok`)
///   b = the wanted programs `<name hex>=<source content hex>` joined by `+`: distinct names, every source present
/// History: create the cached layer, prepare the entries by hand, restore (the lifecycle between two builds), request the
/// layer again (kept / Update), write the programs, list exec.d (`Q`).
fn execd_history(a: &str, b: &str) -> Option<(String, String)> {
    let parts = split_list(a, ",");
    let api = *parts.first()?;
    if api != "s" && api != "t" { return None; }
    let l = hex(b"a");
    let mut seen: Vec<(char, Vec<u8>)> = vec![];
    let mut pre: Vec<String> = vec![];
    for e in &parts[1..] {
        let kind = e.chars().next()?;
        let (ph, vh) = e.get(1..)?.split_once('=')?;
        let (path, val) = (unhex(ph)?, unhex(vh)?);
        if !execd_path_ok(&path) || seen.iter().any(|(_, p)| *p == path) { return None; }
        pre.push(match kind {
            'f' => format!("W.{l}.{ph}={vh}"),
            'l' if !val.is_empty() && !val.contains(&0) => format!("K.{l}.{ph}={vh}"),
            'h' if seen.iter().any(|(k, p)| *k != 'l' && *p == val) => format!("H.{l}.{ph}={vh}"),
            _ => return None,
        });
        seen.push((kind, path));
    }
    let mut names: Vec<Vec<u8>> = vec![];
    for x in split_list(b, "+") {
        let (n, h) = x.split_once('=')?;
        let n = unhex(n)?; unhex(h)?;
        if !prog_name_ok(&n) || names.contains(&n) { return None; }
        names.push(n);
    }
    let mut ops: Vec<String> = vec![];
    if api == "s" { ops.push(format!("C.{l}.11.G.d1.k2")); ops.append(&mut pre); ops.push(format!("M.{l}.w=3_zeta=1")); ops.push("R".into()); ops.push(format!("C.{l}.11.G.d1.k2")); ops.push(format!("X.{l}.{b}")); }
    else { ops.push(format!("T.{l}.111.k.v=1.-.-.-")); ops.append(&mut pre); ops.push("R".into()); ops.push(format!("T.{l}.111.u.v=2.-.{b}.-")); }
    ops.push(format!("Q.{l}"));
    Some((l, ops.join(";")))
}

/// all runs agreed: `equal|<result of the write: ok / err:kind>|<exec.d listing>` taken from the first run
fn execd_observation(lines: &[String]) -> String {
    let rs: Vec<&String> = lines.iter().filter(|l| l.split(' ').nth(1) == Some("R")).collect();
    if rs.len() < 2 { return "infra:no-result-lines".into(); }
    let res = rs[rs.len() - 2].split(' ').nth(2).unwrap_or("?");
    let listing = rs[rs.len() - 1].split(' ').nth(2).unwrap_or("?");
    format!("equal|{}|{listing}", if res.starts_with("ok") { "ok" } else { res })
}

// ------------------------------------------------------------------------------------------------ kind `sbom`
const SBOM_OLD: [&str; 3] = ["old-cdx", "old-spdx", "old-syft"];
const TBP_ITEMS: [&str; 6] = ["launch", "elaunch", "xlaunch", "store", "estore", "xstore"];

fn sbom_items_ok(route: &str, b: &str) -> bool {
    let hexok = |h: &str| unhex(h).is_some();
    split_list(b, ";").iter().all(|it| {
        let p: Vec<&str> = it.split('.').collect();
        match route {
            "bp" => match p[0] {
                "b" | "h" => p.len() == 3 && matches!(p[1], "0" | "1" | "2") && hexok(p[2]),
                "i" | "p" | "l" | "s" | "m" => true,
                _ => false,
            },
            "tbp" => TBP_ITEMS.contains(it) || (p.len() == 2 && matches!(p[0], "b" | "be" | "bx" | "l" | "le" | "lx") && matches!(p[1], "cdx" | "spdx" | "syft")),
            _ => { let q: Vec<&str> = it.split('=').collect(); q.len() == 2 && matches!(q[0], "0" | "1" | "2") && hexok(q[1]) }
        }
    })
}

/// The layer history behind routes `ls` / `lt`: a cached layer `a` gets an SBOM of every format, then the scenario's list
/// (formats repeated) is written — struct API: `write_sboms` twice; trait API: `create` returns the old ones, the layer is
/// restored, `update` returns the list (`Sboms::Replace`).
fn sbom_history(route: &str, b: &str) -> (String, String) {
    let l = hex(b"a");
    let old = (0..3).map(|i| format!("{i}={}", hex(SBOM_OLD[i].as_bytes()))).collect::<Vec<_>>().join("+");
    let list = { let v = split_list(b, ";"); if v.is_empty() { "-".to_string() } else { v.join("+") } };
    let ops = if route == "ls" { vec![format!("C.{l}.11.G.d1.k2"), format!("S.{l}.{old}"), format!("S.{l}.{list}")] }
        else { vec![format!("T.{l}.111.k.v=1.-.-.{old}"), "R".into(), format!("T.{l}.111.u.v=2.-.-.{list}")] };
    (l, ops.join(";"))
}

/// all runs agreed: `equal|<ok / err:kind>|<SBOM files at the top of the layers directory: <name hex>=<bytes hex>, in name order>` from the first run
fn sbom_observation(route: &str, lines: &[String]) -> String {
    let (res, prefix): (String, String) = if route == "bp" || route == "tbp" {
        match lines.first().map(String::as_str) { Some("EXIT 0") => ("ok".into(), "LAYERS".into()), Some(l) => (format!("err:exit{}", l.trim_start_matches("EXIT ")), "LAYERS".into()), None => return "infra:no-result-lines".into() }
    } else {
        let Some(last) = lines.iter().filter(|l| l.split(' ').nth(1) == Some("R")).last() else { return "infra:no-result-lines".into() };
        let r = last.split(' ').nth(2).unwrap_or("?");
        (if r.starts_with("ok") { "ok".into() } else { r.to_string() }, last.split(' ').next().unwrap_or("?").to_string())
    };
    let files: Vec<String> = lines.iter().filter_map(|l| {
        let p: Vec<&str> = l.split(' ').collect();
        if p.len() >= 4 && p[0] == prefix && p[1] == "F" && !p[2].contains('/') && p[2].contains(".sbom.") && p[2].ends_with(".json") { Some(format!("{}={}", hex(p[2].as_bytes()), p.get(4).copied().unwrap_or(""))) } else { None }
    }).collect();
    format!("equal|{res}|{}", if files.is_empty() { "-".to_string() } else { files.join(",") })
}

const OLD: &[u8] = b"OLD-CONTENT\n";
const PRE_STORE: &str = "[metadata]\nzeta = 1\nalpha = \"x\"\n\n[metadata.nested]\nk2 = true\nk1 = 2\n";

/// one run of a buildpack executable (`which` = this binary or tbp) as `detect` / `build` in a fresh temp root
fn run_bp(which: &Path, phase: &str, envs: &[(&str, String)], pre: Option<&str>, pre_store: bool) -> Result<Vec<String>, String> {
    let tmp = tempfile::Builder::new().prefix("c20b-").tempdir().map_err(|e| format!("tempdir:{:?}", e.kind()))?;
    let t = tmp.path();
    let (bp, app, layers, plat, work, srcs, outd) = (t.join("bp"), t.join("app"), t.join("layers"), t.join("plat"), t.join("work"), t.join("srcs"), t.join("out"));
    for d in [&bp, &app, &layers, &plat, &work, &srcs, &outd] { std::fs::create_dir(d).unwrap(); }
    std::fs::create_dir(bp.join("bin")).unwrap();
    std::fs::create_dir(plat.join("env")).unwrap();
    for (k, v) in [("SOME_VAR", "value"), ("ANOTHER", "x y"), ("PATH", "/usr/bin"), ("ZED", "")] { std::fs::write(plat.join("env").join(k), v).unwrap(); }
    let exe_path = bp.join("bin").join(phase);
    std::os::unix::fs::symlink(which, &exe_path).unwrap();
    std::fs::write(bp.join("buildpack.toml"), "api = \"0.10\"\n\n[buildpack]\nid = \"verif/c20\"\nversion = \"0.0.1\"\n\n[metadata]\nzz = 1\naa = [3, 1, 2]\n").unwrap();
    let bpplan = work.join("bpplan.toml");
    std::fs::write(&bpplan, "[[entries]]\nname = \"x\"\n\n[entries.metadata]\nzulu = 1\nalpha = \"a\"\nmike = [2, 1]\n\n[[entries]]\nname = \"a\"\n").unwrap();
    let plan_path = work.join("plan.toml");
    if let Some(pre) = pre {
        let p: Vec<&str> = pre.split('/').collect();
        if p.len() != 5 { return Err("bad-pre".into()); }
        let put = |path: &Path, st: char| match st { 'f' => std::fs::write(path, OLD).unwrap(), 'd' => std::fs::create_dir(path).unwrap(), _ => {} };
        put(&plan_path, p[0].chars().next().unwrap());
        put(&layers.join("launch.toml"), p[1].chars().next().unwrap());
        match p[2] { "v" => std::fs::write(layers.join("store.toml"), "[metadata]\nold = true\n").unwrap(), "m" => std::fs::write(layers.join("store.toml"), "metadata = 3\n").unwrap(), "d" => std::fs::create_dir(layers.join("store.toml")).unwrap(), _ => {} }
        for (k, fm) in ["cdx", "spdx", "syft"].iter().enumerate() { put(&layers.join(format!("build.sbom.{fm}.json")), p[3].as_bytes()[k] as char); put(&layers.join(format!("launch.sbom.{fm}.json")), p[4].as_bytes()[k] as char); }
    }
    if pre_store { std::fs::write(layers.join("store.toml"), PRE_STORE).unwrap(); }
    let s = |p: &Path| p.to_str().unwrap().to_string();
    let args: Vec<String> = if phase == "build" { vec![s(&layers), s(&plat), s(&bpplan)] } else { vec![s(&plat), s(&plan_path)] };
    let mut cmd = Command::new(&exe_path);
    cmd.args(&args).env_clear().current_dir(&app).stdin(Stdio::null()).stderr(Stdio::null());
    for (k, v) in [("CNB_BUILDPACK_DIR", s(&bp)), ("CNB_TARGET_OS", "linux".into()), ("CNB_TARGET_ARCH", "amd64".into()), ("CNB_TARGET_DISTRO_NAME", "ubuntu".into()), ("CNB_TARGET_DISTRO_VERSION", "24.04".into())] { cmd.env(k, v); }
    cmd.env("C20_ROOT", t).env("TBP_OUT", &outd);
    for (k, v) in envs { cmd.env(k, v); }
    let o = spawn_retry(&mut cmd)?;
    let mut out = vec![format!("EXIT {}", o.status.code().map_or("sig".into(), |c| c.to_string()))];
    let root_hex = hex(t.as_os_str().as_bytes());
    for l in String::from_utf8_lossy(&o.stdout).lines() { out.push(format!("OUT {}", l.replace(t.to_str().unwrap(), "$ROOT").replace(&root_hex, "24524f4f54"))); }
    raw_snapshot(&layers, t, "LAYERS", &mut out);
    raw_snapshot(&plan_path, t, "PLAN", &mut out);
    for f in ["detect.ran", "build.ran", "on_error.count"] { if let Ok(b) = std::fs::read(outd.join(f)) { out.push(format!("TBP {f} {}", hex(&b))); } }
    Ok(out)
}

fn line_key(l: &str) -> String { l.split(' ').take(3).collect::<Vec<_>>().join("_").chars().filter(|c| !c.is_whitespace()).take(120).collect() }

fn compare(reference: &[String], other: &[String], run: usize) -> Option<String> {
    for (i, (x, y)) in reference.iter().zip(other.iter()).enumerate() { if x != y {
        let k = if line_key(x) == line_key(y) { line_key(x) } else { format!("{}|{}", line_key(x), line_key(y)) };
        // a differing result line (it carries the env that was read back): name the first differing file as well
        let is_entry = |l: &str| matches!(l.split(' ').nth(1), Some("F" | "D" | "L"));
        let file = if is_entry(x) { None } else { reference.iter().zip(other.iter()).skip(i + 1).find(|(a, b)| a != b && (is_entry(a) || is_entry(b))).map(|(a, b)| if is_entry(a) { line_key(a) } else { line_key(b) }) };
        return Some(match file { Some(f) => format!("differ:run{run}:{k}+{f}"), None => format!("differ:run{run}:{k}") });
    } }
    if reference.len() != other.len() { let extra = if reference.len() > other.len() { &reference[other.len()] } else { &other[reference.len()] }; return Some(format!("differ:run{run}:missing-line:{}", line_key(extra))); }
    None
}

fn fnv(fields: &[String]) -> u64 { let mut h = 0xcbf29ce484222325u64; for f in fields { for b in f.bytes().chain(std::iter::once(9u8)) { h ^= b as u64; h = h.wrapping_mul(0x100000001b3); } } h }

/// one execution of a scenario in a fresh process: the lines that are compared
fn one_run(kind: &str, a: &str, b: &str) -> Result<Vec<String>, String> {
    match kind {
        "layers" => run_layers(a, b),
        "execd" => { let (names, ops) = execd_history(a, b).ok_or_else(|| "bad-fields".to_string())?; run_layers(&names, &ops) }
        "bp" => {
            if a != "detect" && a != "build" { return Err("bad-fields".into()); }
            let names = ["a", "bee", "c-3"].iter().map(|n| hex(n.as_bytes())).collect::<Vec<_>>().join(",");
            run_bp(&self_exe(), a, &[("C20_SPEC", b.to_string()), ("C20_NAMES", names)], None, b.split(';').any(|i| i == "i.store"))
        }
        "tbp" => {
            let p: Vec<&str> = b.split(';').collect();
            if p.len() != 3 || (a != "detect" && a != "build") { return Err("bad-fields".into()); }
            run_bp(&tbp_path(), a, &[("TBP_DETECT", p[0].to_string()), ("TBP_BUILD", p[1].to_string())], Some(p[2]), false)
        }
        "sbom" => {
            if !sbom_items_ok(a, b) { return Err("bad-fields".into()); }
            match a {
                "bp" => { let names = hex(b"a"); run_bp(&self_exe(), "build", &[("C20_SPEC", b.to_string()), ("C20_NAMES", names)], None, b.split(';').any(|i| i == "i.store")) }
                "tbp" => run_bp(&tbp_path(), "build", &[("TBP_DETECT", "pass".to_string()), ("TBP_BUILD", format!("ok:{}", split_list(b, ";").join(",")))], Some("a/a/a/aaa/aaa"), false),
                "ls" | "lt" => { let (names, ops) = sbom_history(a, b); run_layers(&names, &ops) }
                _ => Err("bad-fields".into()),
            }
        }
        _ => Err("bad-fields".into()),
    }
}

fn run_case(f: &[String]) -> String {
    if f.len() != 3 { return "bad-fields".into(); }
    let (kind, a, b) = (f[0].as_str(), f[1].as_str(), f[2].as_str());
    if kind == "probe" {
        let mut t = toml::Table::new();
        for k in ["m", "b", "z", "a", "q"] { t.insert(k.into(), 1.into()); }
        let keys: Vec<&String> = t.keys().collect();
        let sorted = keys.windows(2).all(|w| w[0] < w[1]);
        let text = toml::to_string(&t).unwrap_or_default();
        return if sorted && text == "a = 1\nb = 1\nm = 1\nq = 1\nz = 1\n" { "equal".into() } else { "differ:run0:toml-table-is-not-sorted".into() };
    }
    let slow = fnv(f) % 16 == 0;
    let one = |_i: usize| one_run(kind, a, b);
    let reference = match one(0) { Ok(r) => r, Err(e) if e == "bad-fields" || e == "bad-pre" => return "bad-fields".into(), Err(e) => return format!("infra:{e}") };
    // kind execd: two aliased names show a leak in one pair with probability 1/2 only, and a process is cheap: 6 / 18 runs
    // kind sbom: two SBOMs of one format handed on in a per-process order agree in one pair with probability 1/2 as well
    let n_runs = if kind == "execd" || kind == "sbom" { 2 * runs() - 2 } else { runs() };
    for i in 1..n_runs {
        if slow && i == n_runs - 1 { std::thread::sleep(std::time::Duration::from_millis(1100)); }
        match one(i) { Ok(r) => { if let Some(d) = compare(&reference, &r, i) { return d; } } Err(e) => return format!("infra:{e}") }
    }
    if kind == "execd" { return execd_observation(&reference); }
    if kind == "sbom" { return sbom_observation(a, &reference); }
    "equal".into()
}

// ------------------------------------------------------------------------------------------------ generation
const PROCS: [&str; 6] = ["web", "worker", "cron", "release", "console", "job7"];
const VARS: [&str; 5] = ["PATH", "FOO", "BAR_BAZ", "Q.x", "LD_LIBRARY_PATH"];
const VALS: [&str; 4] = ["", "v", "/x:/y", "a b"];
const PROGS: [&str; 6] = ["p0", "p1", "alpha", "beta", "zeta", "init.sh"];
const KEYS: [&str; 7] = ["v", "w", "zeta", "alpha", "k9", "t+x", "t+a"];

fn env_entries(r: &mut Rng, nproc: usize, extra: usize) -> String {
    let mut e = vec![];
    let mut procs: Vec<&str> = PROCS.to_vec(); r.shuffle(&mut procs);
    for p in procs.iter().take(nproc) { for _ in 0..(1 + r.below(2)) { e.push(format!("P:{}/{}/{}/{}", hex(p.as_bytes()), r.pick(&["a", "d", "m", "o", "p"]), hex(r.pick(&VARS).as_bytes()), hex(r.pick(&VALS).as_bytes()))); } }
    for _ in 0..extra { e.push(format!("{}/{}/{}/{}", r.pick(&["A", "B", "L"]), r.pick(&["a", "d", "m", "o", "p"]), hex(r.pick(&VARS).as_bytes()), hex(r.pick(&VALS).as_bytes()))); }
    r.shuffle(&mut e);
    join(",", &e)
}
fn progs(r: &mut Rng, n: usize, missing: bool) -> String {
    let mut names: Vec<&str> = PROGS.to_vec(); r.shuffle(&mut names);
    let mut v: Vec<String> = names.iter().take(n).map(|p| format!("{}={}", hex(p.as_bytes()), hex(format!("#!{}", r.below(90)).as_bytes()))).collect();
    if missing && !v.is_empty() { let i = r.below(v.len() as u64) as usize; let n = v[i].split('=').next().unwrap().to_string(); v[i] = format!("{n}=~"); }
    join("+", &v)
}
fn sboms(r: &mut Rng) -> String { let mut sb = vec![]; for i in 0..3 { if r.chance(1, 2) { sb.push(format!("{i}={}", hex(format!("{{\"s\":{}}}", r.below(50)).as_bytes()))); } } join("+", &sb) }
fn meta(r: &mut Rng, nkeys: usize) -> String {
    let mut ks: Vec<&str> = KEYS.to_vec(); r.shuffle(&mut ks);
    let v: Vec<String> = ks.iter().take(nkeys).map(|k| format!("{k}={}", match r.below(5) { 0 => format!("s{}", hex(r.pick(&["x", "a b", "é"]).as_bytes())), 1 => "t".into(), 2 => format!("a{}:{}", r.below(9), r.below(9)), _ => r.below(50).to_string() })).collect();
    if v.is_empty() { "~".into() } else { v.join("_") }
}

/// how many hash-ordered keys the largest single write of the history involves
fn max_hash_keys(ops: &[String]) -> usize {
    let mut m = 0;
    for o in ops {
        let p: Vec<&str> = o.split('.').collect();
        let (env, pr) = match p[0] { "E" => (p.get(2).copied(), None), "X" => (None, p.get(2).copied()), "T" => (p.get(5).copied(), p.get(6).copied()), _ => (None, None) };
        if let Some(e) = env { let mut ps: Vec<&str> = split_list(e, ",").iter().filter_map(|x| x.split('/').next()).filter(|s| s.starts_with("P:")).collect(); ps.sort(); ps.dedup(); m = m.max(ps.len()); }
        if let Some(x) = pr { m = m.max(split_list(x, "+").len()); }
    }
    m
}

fn generate(tier: &str, seed: u64, emit: &mut dyn FnMut(Case)) {
    let thorough = tier == "thorough";
    let search = std::env::var("VERIF_SEARCH").is_ok();
    let mk = |kind: &str, a: String, b: String, sub: &str, keys: usize, nt: bool| Case {
        fields: vec![kind.to_string(), a, b],
        tags: vec![("kind".into(), format!("{kind}-{sub}")), ("hashkeys".into(), keys.min(6).to_string())], nontrivial: nt };
    let (a, bee, c3) = (hex(b"a"), hex(b"bee"), hex(b"c-3"));
    let names3 = format!("{a},{bee},{c3}");
    let layer_case = |ops: Vec<String>, sub: &str| { let k = max_hash_keys(&ops); mk("layers", names3.clone(), join(";", &ops), sub, k, k >= 3) };

    // 0. fixed part
    emit(mk("probe", "toml-order".into(), "-".into(), "toml", 0, true));
    for d in ["pass", "passplan", "fail", "err"] { emit(mk("tbp", "detect".into(), format!("{d};err;a/a/a/aaa/aaa"), "detect", 0, d == "passplan")); }
    let mut bbehs: Vec<String> = (0..16).map(|m| { let mut it: Vec<&str> = vec![]; if m & 1 != 0 { it.push("launch"); } if m & 2 != 0 { it.push("store"); } if m & 4 != 0 { it.push("b.cdx"); it.push("b.spdx"); } if m & 8 != 0 { it.push("l.spdx"); it.push("l.syft"); } format!("ok:{}", it.join(",")) }).collect();
    bbehs.push("err".into()); bbehs.push("layererr".into());
    for bb in &bbehs { for pre in ["a/a/a/aaa/aaa", "f/f/v/fff/fff"] { emit(mk("tbp", "build".into(), format!("pass;{bb};{pre}"), "build", 0, bb.contains("launch") || bb.contains("store"))); } }

    // 1. directed layer histories: struct API
    let mut r = Rng::for_case(seed ^ 0xC20, 0);
    for (np, nx) in [(3usize, 3usize), (4, 4), (6, 6), (3, 5), (5, 3)] {
        for second in ["C.{n}.11.G.d1.k2", "C.{n}.11.G.d1.d3", "C.{n}.11.G.d1.f", "C.{n}.11.V.d1.k2", "C.{n}.11.V.rv=5_w=6!4.k2", "U.{n}.11"] {
            let second = second.replace("{n}", &a);
            let ops = vec![format!("C.{a}.11.G.d1.k2"), format!("M.{a}.{}", meta(&mut r, 5)), format!("E.{a}.{}", env_entries(&mut r, np, 4)), format!("X.{a}.{}", progs(&mut r, nx, false)),
                format!("S.{a}.0=63+1=6e+2=73"), format!("F.{a}.{}=64", hex(b"data")), "R".into(), second, format!("E.{a}.{}", env_entries(&mut r, np, 2)), format!("X.{a}.{}", progs(&mut r, nx, false)), format!("M.{a}.{}", meta(&mut r, 4)), "R".into(), format!("U.{a}.11")];
            emit(layer_case(ops, "directed"));
        }
    }
    // 2. directed: trait API, every existing-layer strategy, every combination of types
    for (np, nx) in [(3usize, 3usize), (5, 4), (6, 6)] { for strat in ["k", "u", "r", "f"] { for types in ["111", "101", "011", "100"] {
        let t1 = format!("T.{a}.{types}.k.{}.{}.{}.{}", meta(&mut r, 4), env_entries(&mut r, np, 3), progs(&mut r, nx, false), sboms(&mut r));
        let t2 = format!("T.{a}.{types}.{strat}.{}.{}.{}.{}", meta(&mut r, 3), env_entries(&mut r, np, 2), progs(&mut r, nx, false), sboms(&mut r));
        emit(layer_case(vec![t1, "R".into(), t2.clone(), "R".into(), t2], "trait"));
    } } }

    // 2b. read-back of an env directory in which two files designate the same (behaviour, variable): `VAR` (suffix-less =
    //     override) and `VAR.override` with different contents, in env / env.build / env.launch / env.launch/<process>; the
    //     layer env is then read and written again (LayerRef::read_env + write_env, trait-API Keep, MetadataMigration::
    //     ReplaceMetadata followed by Keep). Which content wins follows the order in which the reader visits the directory.
    let n_dup = if thorough { 160 } else if search { 60 } else { 24 };
    for idx in 0..n_dup {
        let mut r = Rng::for_case(seed ^ 0xD0B, idx);
        let mut ops = vec![format!("C.{a}.11.G.d1.k2")];
        let mut dirs: Vec<String> = vec!["env".into(), "env.build".into(), "env.launch".into(), "env.launch/web".into(), "env.launch/cron".into()];
        r.shuffle(&mut dirs);
        let ndirs = 1 + (idx as usize % 3) + r.below(2) as usize;
        for d in dirs.iter().take(ndirs) {
            let mut vars: Vec<&str> = vec!["PATH", "FOO", "BAR_BAZ", "Q.x", "LD_LIBRARY_PATH", "ZED"]; r.shuffle(&mut vars);
            let nv = 2 + r.below(3) as usize;
            let mut files: Vec<String> = vec![];
            for v in vars.iter().take(nv) {
                files.push(format!("W.{a}.{}={}", hex(format!("{d}/{v}").as_bytes()), hex(format!("plain-{v}").as_bytes())));
                files.push(format!("W.{a}.{}={}", hex(format!("{d}/{v}.override").as_bytes()), hex(format!("suffixed-{v}").as_bytes())));
                if r.chance(1, 3) { files.push(format!("W.{a}.{}={}", hex(format!("{d}/{v}.append").as_bytes()), hex(b"x"))); }
            }
            r.shuffle(&mut files);
            ops.append(&mut files);
        }
        ops.push(format!("M.{a}.w=3_zeta=1"));
        if r.chance(1, 2) { ops.push("R".into()); ops.push(format!("C.{a}.11.G.d1.k2")); }
        match idx % 3 {
            0 => ops.push(format!("V.{a}")),
            1 => ops.push(format!("T.{a}.111.k.~.-.-.-")),
            _ => ops.push(format!("Y.{a}.111.k")),
        }
        let k = 3; // several variables whose winner depends on the visiting order
        emit(mk("layers", names3.clone(), join(";", &ops), "dupenv", k, true));
    }

    // 2c. a restored layer whose exec.d was prepared by hand — plain files, symlinks to siblings / elsewhere in the layer / outside the
    //     layers directory / dangling, hard-linked pairs (two names of one inode, also with a file outside exec.d), stale names aliasing
    //     wanted ones, sub-directories — and is then written again with 2-4 wanted programs from distinct sources through both
    //     APIs (kind `execd`: struct KeepLayer + write_exec_d_programs, trait Update). Every pattern x n in 2..=4 x both APIs.
    let ef = |path: &str, content: &str| format!("f{}={}", hex(path.as_bytes()), hex(content.as_bytes()));
    let el = |path: &str, target: &str| format!("l{}={}", hex(path.as_bytes()), hex(target.as_bytes()));
    let eh = |path: &str, of: &str| format!("h{}={}", hex(path.as_bytes()), hex(of.as_bytes()));
    let execd_case = |api: &str, entries: &[String], wanted: &[String], sub: &str, shared: usize| {
        let progs: Vec<String> = wanted.iter().enumerate().map(|(i, w)| format!("{}={}", hex(w.as_bytes()), hex(format!("#!/bin/sh\n# source {i} of {w}\n").as_bytes()))).collect();
        let mut a = vec![api.to_string()]; a.extend(entries.iter().cloned());
        Case { fields: vec!["execd".into(), a.join(","), join("+", &progs)],
            tags: vec![("kind".into(), format!("execd-{sub}")), ("hashkeys".into(), wanted.len().to_string()), ("shared".into(), shared.min(4).to_string())],
            nontrivial: shared >= 2 || wanted.len() >= 3 }
    };
    const WN: [&str; 4] = ["10-env", "20-path", "a.sh", "zz"];
    for n in 2..=4usize { for api in ["s", "t"] {
        let w: Vec<String> = WN[..n].iter().map(|x| x.to_string()).collect();
        let x = |i: usize| format!("exec.d/{}", w[i]);
        let plain_from = |k: usize| -> Vec<String> { (k..n).map(|i| ef(&x(i), &format!("old {}\n", w[i]))).collect() };
        let mut pats: Vec<(&str, Vec<String>, usize)> = vec![];
        pats.push(("absent", vec![ef("bin/tool", "tool\n")], 0));
        pats.push(("plain", { let mut v = plain_from(0); v.push(ef("exec.d/stale", "stale\n")); v.push(ef("exec.d/sub/inner", "inner\n")); v }, 0));
        pats.push(("symsib", { let mut v = vec![ef(&x(1), "old\n"), el(&x(0), &w[1])]; v.extend(plain_from(2)); v }, 2));
        pats.push(("symsib-rev", { let mut v = vec![ef(&x(0), "old\n"), el(&x(n - 1), &w[0])]; v.extend((1..n - 1).map(|i| ef(&x(i), "old\n"))); v }, 2));
        pats.push(("hard", { let mut v = vec![ef(&x(0), "old\n"), eh(&x(1), &x(0))]; v.extend(plain_from(2)); v }, 2));
        pats.push(("hard-all", { let mut v = vec![ef(&x(0), "old\n")]; v.extend((1..n).map(|i| eh(&x(i), &x(0)))); v }, n));
        pats.push(("symelse", { let mut v = vec![ef("bin/tool", "tool\n"), el(&x(0), "../bin/tool"), el(&x(1), "../bin/tool")]; v.extend(plain_from(2)); v }, 2));
        pats.push(("symout", { let mut v = vec![ef("../../ext/shared", "ext\n"), el(&x(0), "$ROOT/ext/shared"), el(&x(1), "$ROOT/ext/shared")]; v.extend(plain_from(2)); v }, 2));
        pats.push(("dangling", { let mut v = vec![el(&x(0), "nowhere"), el(&x(1), "nowhere")]; v.extend(plain_from(2)); v }, 2));
        pats.push(("chain", { let mut v = vec![ef(&x(1), "old\n"), el(&x(0), &w[1])]; if n >= 3 { v.push(eh(&x(2), &x(1))); } v.extend(plain_from(3)); v }, n.min(3)));
        pats.push(("stale-alias", { let mut v = plain_from(0); v.push(eh("exec.d/old-copy", &x(0))); v.push(el("exec.d/zlink", &w[1])); v }, 0));
        pats.push(("hard-out", { let mut v = vec![ef("bin/tool", "tool\n"), eh(&x(0), "bin/tool"), eh(&x(1), "bin/tool")]; v.extend(plain_from(2)); v }, 2));
        pats.push(("partial", vec![ef(&x(0), "old\n"), eh("exec.d/stale", &x(0)), el("exec.d/zz-link", "stale")], 0));
        pats.push(("selfloop", { let mut v = vec![el(&x(0), &w[0])]; v.extend(plain_from(1)); v }, 0));
        for (sub, entries, shared) in pats { emit(execd_case(api, &entries, &w, sub, shared)); }
    } }
    // 2d. the same kind, sampled: 2-4 wanted names out of 6, each pre-existing as plain file / symlink / hard link / not at all, stale names likewise
    let n_exd = if thorough { 600 } else if search { 160 } else { 48 };
    for idx in 0..n_exd {
        let mut r = Rng::for_case(seed ^ 0xE7EC, idx);
        let mut pool: Vec<&str> = PROGS.to_vec(); r.shuffle(&mut pool);
        let nw = 2 + r.below(3) as usize;
        let wanted: Vec<String> = pool[..nw].iter().map(|x| x.to_string()).collect();
        let nstale = r.below(3) as usize;
        let mut entries: Vec<String> = vec![];
        let mut files: Vec<String> = vec![];   // paths that can be hard-linked (f / h entries)
        let mut groups: Vec<(String, usize)> = vec![]; // storage designated by wanted names -> how many wanted names
        if r.chance(1, 2) { entries.push(ef("bin/tool", "tool\n")); files.push("bin/tool".into()); }
        let ext = r.chance(1, 3);
        if ext { entries.push(ef("../../ext/shared", "ext\n")); }
        let mut order: Vec<usize> = (0..nw + nstale).collect(); r.shuffle(&mut order);
        for i in order {
            let name = pool[i]; let path = format!("exec.d/{name}"); let is_wanted = i < nw;
            let storage: Option<String> = match r.below(8) {
                0 => None,
                1 | 2 => { entries.push(ef(&path, &format!("old {name}\n"))); files.push(path.clone()); Some(path.clone()) }
                3 | 4 => { let sib = *r.pick(&pool[..nw + nstale]);
                    let t: String = match r.below(5) { 0 | 1 | 2 => sib.to_string(), 3 => "../bin/tool".into(), _ => if ext { "$ROOT/ext/shared".into() } else { "nowhere".into() } };
                    entries.push(el(&path, &t)); Some(if t.contains('/') { t } else { format!("exec.d/{t}") }) }
                _ => { if files.is_empty() { entries.push(ef(&path, &format!("old {name}\n"))); files.push(path.clone()); Some(path.clone()) }
                    else { let of = r.pick(&files).clone(); entries.push(eh(&path, &of)); files.push(path.clone()); Some(format!("inode-of:{of}")) } }
            };
            if let (true, Some(st)) = (is_wanted, storage) { match groups.iter_mut().find(|g| g.0 == st) { Some(g) => g.1 += 1, None => groups.push((st, 1)) } }
        }
        // (an under-approximation of the sharing: chains of links are not resolved; it only feeds the tags)
        let shared = groups.iter().map(|g| g.1).max().unwrap_or(0);
        emit(execd_case(if r.chance(1, 2) { "s" } else { "t" }, &entries, &wanted, "rnd", if shared >= 2 { shared } else { 0 }));
    }
    // 2e. exec.d itself a symlink (to a directory of the layer, to a directory outside, dangling) and link entries placed by the
    //     history ops K / H, listed by Q, in ordinary `layers` histories through both APIs
    for (i, target) in ["xd", "$ROOT/ext/xd", "nowhere"].iter().enumerate() { for api in ["s", "t"] {
        let mut ops: Vec<String> = vec![if api == "s" { format!("C.{a}.11.G.d1.k2") } else { format!("T.{a}.111.k.v=1.-.-.-") }];
        ops.push(format!("W.{a}.{}={}", hex(if i == 1 { "../../ext/xd/p0" } else { "xd/p0" }.as_bytes()), hex(b"old p0\n")));
        ops.push(format!("H.{a}.{}={}", hex(b"xd/p1"), hex(b"xd/p0")));
        ops.push(format!("K.{a}.{}={}", hex(b"exec.d"), hex(target.as_bytes())));
        ops.push(format!("K.{a}.{}={}", hex(b"bin/alpha"), hex(b"../xd/p0")));
        ops.push(format!("Q.{a}"));
        ops.push("R".into());
        let pr = progs(&mut r, 3 + i, false);
        if api == "s" { ops.push(format!("C.{a}.11.G.d1.k2")); ops.push(format!("X.{a}.{pr}")); } else { ops.push(format!("T.{a}.111.u.v=2.-.{pr}.-")); }
        ops.push(format!("Q.{a}"));
        emit(layer_case(ops, "execdlink"));
    } }

    // 2f. kind `sbom`: a build result that registers 0-8 build and 0-8 launch SBOMs with repeated formats (same format again with other
    //     bytes: the last one must stay; exact duplicates; every format 2-3 times in shuffled order), through the data-driven buildpack
    //     and the C05 test buildpack; a layer's SBOMs from a list with repeats through write_sboms (ls) and the trait API's update (lt).
    let doc = |t: &str, j: usize| hex(format!("{{\"doc\":\"{t}{j}\"}}").as_bytes());
    let has_repeat = |fm: &[usize]| (0..3).any(|f| fm.iter().filter(|x| **x == f).count() >= 2);
    let sbom_case = |route: &str, items: Vec<String>, sub: &str, fb: &[usize], fl: &[usize]| Case {
        fields: vec!["sbom".into(), route.to_string(), join(";", &items)],
        tags: vec![("kind".into(), format!("sbom-{route}-{sub}")), ("hashkeys".into(), "0".into()), ("nsbom".into(), fb.len().max(fl.len()).to_string()), ("repeat".into(), u8::from(has_repeat(fb) || has_repeat(fl)).to_string())],
        nontrivial: has_repeat(fb) || has_repeat(fl) || fb.len().max(fl.len()) >= 4 };
    const FN: [&str; 3] = ["cdx", "spdx", "syft"];
    const TH: [&str; 9] = ["", "", "", "e", "x", "", "e", "x", "e"];
    for n in 0..=8usize {
        let cyc: Vec<usize> = (0..n).map(|j| j % 3).collect();
        let rev: Vec<usize> = (0..n).map(|j| 2 - j % 3).collect();
        emit(sbom_case("bp", cyc.iter().enumerate().map(|(j, f)| format!("b.{f}.{}", doc("b", j))).collect(), "cycle-build", &cyc, &[]));
        emit(sbom_case("bp", rev.iter().enumerate().map(|(j, f)| format!("h.{f}.{}", doc("l", j))).collect(), "cycle-launch", &[], &rev));
        emit(sbom_case("bp", (0..n).flat_map(|j| [format!("b.{}.{}", cyc[j], doc("b", j)), format!("h.{}.{}", rev[j], doc("l", j))]).collect(), "both", &cyc, &rev));
        if n >= 2 {
            // n documents of one format (the last one stays) beside n exact duplicates of one document
            let same = vec![0usize; n]; let dup = vec![1usize; n];
            emit(sbom_case("bp", (0..n).map(|j| format!("b.0.{}", doc("b", j))).chain((0..n).map(|_| format!("h.1.{}", doc("l", 0)))).collect(), "same-and-dups", &same, &dup));
        }
        emit(sbom_case("tbp", std::iter::once("launch".to_string()).chain((0..n).map(|j| format!("b{}.{}", TH[j], FN[cyc[j]]))).collect(), "cycle-build", &cyc, &[]));
        emit(sbom_case("tbp", (0..n).flat_map(|j| [format!("l{}.{}", TH[8 - j], FN[rev[j]]), format!("b{}.{}", TH[j], FN[cyc[j]])]).chain(std::iter::once("store".to_string())).collect(), "both", &cyc, &rev));
        for route in ["ls", "lt"] {
            emit(sbom_case(route, cyc.iter().enumerate().map(|(j, f)| format!("{f}={}", doc("a", j))).collect(), "cycle", &cyc, &[]));
            if n >= 4 && n % 2 == 0 {
                // first-pass documents, one of them handed in again unchanged, a refined one of the first format at the end
                let fm: Vec<usize> = (0..n).map(|j| if j == n - 1 { 0 } else if j == 3 { 0 } else { j % 3 }).collect();
                emit(sbom_case(route, fm.iter().enumerate().map(|(j, f)| format!("{f}={}", doc("a", if j == 3 { 0 } else { j }))).collect(), "dup-refined", &fm, &[]));
            }
        }
    }
    let sizes_items = |r: &mut Rng, sz: usize| -> Vec<String> {
        let mut it: Vec<String> = vec![];
        for i in 0..sz { it.push(format!("p.{}.{}.{}.{}.-", hex(format!("proc{i:02}").as_bytes()), u8::from(i == 0), hex(format!("cmd{i}").as_bytes()), if i % 3 == 0 { hex(b"--x=y z") } else { "-".into() })); }
        for i in 0..sz { it.push(format!("l.{}.{}", hex(format!("lab.{i:02}").as_bytes()), hex(format!("v{}", r.below(9)).as_bytes()))); }
        for i in 0..sz { it.push(format!("s.{}", hex(format!("dir{i:02}/**").as_bytes()))); }
        it.push(format!("m.{}", (0..sz).map(|i| if i % 5 == 4 { format!("n+k{i:02}={}", r.below(50)) } else { format!("k{i:02}={}", r.below(50)) }).collect::<Vec<_>>().join("_")));
        r.shuffle(&mut it);
        it
    };
    const SIZES: [usize; 8] = [3, 4, 8, 9, 16, 17, 32, 33];
    let n_sb = if thorough { 600 } else if search { 120 } else { 40 };
    for idx in 0..n_sb {
        let mut r = Rng::for_case(seed ^ 0x5B0A, idx);
        let tbp = idx % 4 == 3;
        let pick_formats = |r: &mut Rng| -> Vec<usize> {
            if r.chance(1, 3) {
                // every format 2-3 times (8 at most), shuffled
                let mut v: Vec<usize> = (0..3).flat_map(|f| vec![f; 2 + r.below(2) as usize]).collect(); r.shuffle(&mut v); v.truncate(8); v
            } else { (0..r.below(9)).map(|_| r.below(3) as usize).collect() }
        };
        let (fb, fl) = (pick_formats(&mut r), if r.chance(1, 4) { vec![] } else { pick_formats(&mut r) });
        let mut items: Vec<String> = vec![];
        if tbp {
            // the payload of the test buildpack follows the position; `e` twice for one format = exact duplicates
            for f in &fb { items.push(format!("b{}.{}", r.pick(&["", "", "e", "x"]), FN[*f])); }
            for f in &fl { items.push(format!("l{}.{}", r.pick(&["", "", "e", "x"]), FN[*f])); }
            if r.chance(1, 2) { items.push(r.pick(&["launch", "xlaunch", "elaunch"]).to_string()); }
            if r.chance(1, 2) { items.push(r.pick(&["store", "xstore", "estore"]).to_string()); }
        } else {
            // 3 documents per format and target: exact duplicates and same-format-other-bytes both arise
            for f in &fb { items.push(format!("b.{f}.{}", doc(FN[*f], r.below(3) as usize))); }
            for f in &fl { items.push(format!("h.{f}.{}", doc(FN[*f], 3 + r.below(3) as usize))); }
            if r.chance(1, 3) { let sz = *r.pick(&SIZES); items.append(&mut sizes_items(&mut r, sz)); }
            if r.chance(1, 4) { items.push("i.store".into()); }
        }
        r.shuffle(&mut items);
        emit(sbom_case(if tbp { "tbp" } else { "bp" }, items, "rnd", &fb, &fl));
    }
    let n_ls = if thorough { 200 } else if search { 40 } else { 16 };
    for idx in 0..n_ls {
        let mut r = Rng::for_case(seed ^ 0x5B1A, idx);
        let fm: Vec<usize> = if r.chance(1, 3) { let mut v: Vec<usize> = (0..3).flat_map(|f| vec![f; 2 + r.below(2) as usize]).collect(); r.shuffle(&mut v); v.truncate(8); v } else { (0..r.below(9)).map(|_| r.below(3) as usize).collect() };
        let items: Vec<String> = fm.iter().map(|f| format!("{f}={}", doc(FN[*f], r.below(3) as usize))).collect();
        emit(sbom_case(if idx % 2 == 0 { "ls" } else { "lt" }, items, "rnd", &fm, &[]));
    }
    // 2g. container sizes around 3/4, 8/9, 16/17, 32/33 (an implementation that switches containers by size): launch.toml with that many
    //     processes, labels and slices and a store with that many keys through the build phase; layer metadata, process types and exec.d
    //     programs of that many entries through the layer API, restored and written again
    for sz in SIZES {
        let mut it = sizes_items(&mut r, sz);
        it.push("i.store".into());
        for f in 0..3 { it.push(format!("b.{f}.{}", doc("b", f))); it.push(format!("h.{f}.{}", doc("l", f))); }
        emit(mk("bp", "build".into(), join(";", &it), "sizes", 0, true));
        let keys = |r: &mut Rng| (0..sz).map(|i| format!("k{i:02}={}", r.below(50))).collect::<Vec<_>>().join("_");
        let envs = |r: &mut Rng| (0..sz).map(|i| format!("P:{}/{}/{}/{}", hex(format!("proc{i:02}").as_bytes()), r.pick(&["a", "d", "o", "p"]), hex(r.pick(&VARS).as_bytes()), hex(r.pick(&VALS).as_bytes()))).collect::<Vec<_>>().join(",");
        let prs = |r: &mut Rng| (0..sz).map(|i| format!("{}={}", hex(format!("prog{i:02}").as_bytes()), hex(format!("#!{}", r.below(90)).as_bytes()))).collect::<Vec<_>>().join("+");
        let ops = vec![format!("C.{a}.11.G.d1.k2"), format!("M.{a}.{}", keys(&mut r)), format!("E.{a}.{}", envs(&mut r)), format!("X.{a}.{}", prs(&mut r)), format!("S.{a}.0=63+1=6e+2=73"), "R".into(),
            format!("C.{a}.11.G.d1.k2"), format!("E.{a}.{}", envs(&mut r)), format!("X.{a}.{}", prs(&mut r)), "R".into(), format!("T.{a}.111.u.{}.{}.{}.0=63+0=64", keys(&mut r), envs(&mut r), prs(&mut r))];
        emit(layer_case(ops, "sizes"));
    }

    let n_layers = if thorough { 6600 } else if search { 400 } else { 300 };
    let maxlen = if thorough { 30 } else { 14 };
    let names = [a.as_str(), bee.as_str(), c3.as_str()];
    for idx in 0..n_layers {
        let mut r = Rng::for_case(seed, idx);
        let len = 1 + r.below(maxlen);
        let big = search || r.chance(1, 2);
        let mut ops: Vec<String> = vec![];
        let mut live: Vec<&str> = vec![];
        for _ in 0..len {
            let n = if !live.is_empty() && r.chance(3, 4) { *r.pick(&live) } else { *r.pick(&names) };
            let roll = r.below(100);
            let nk = if big { 3 + r.below(4) as usize } else { r.below(3) as usize };
            let op = if roll < 22 {
                let mt = if r.chance(1, 2) { "G" } else { "V" };
                let ci = if mt == "G" { format!("d{}", r.below(9)) } else { match r.below(6) { 0 | 1 => format!("d{}", r.below(9)), 2 | 3 | 4 => format!("rv={}_{}!{}", r.below(50), meta(&mut r, 2).replace('~', "k9=1"), r.below(9)), _ => "f".into() } };
                let cr = match r.below(7) { 0 | 1 | 2 => format!("k{}", r.below(9)), 3 | 4 | 5 => format!("d{}", r.below(9)), _ => "f".into() };
                if !live.contains(&n) { live.push(n); }
                format!("C.{n}.{}{}.{mt}.{ci}.{cr}", r.below(2), r.below(2))
            } else if roll < 28 { if !live.contains(&n) { live.push(n); } format!("U.{n}.{}{}", r.below(2), r.below(2)) }
            else if roll < 38 { format!("M.{n}.{}", { let k = r.below(6) as usize; meta(&mut r, k) }) }
            else if roll < 52 { format!("E.{n}.{}", { let x = r.below(4) as usize; env_entries(&mut r, nk, x) }) }
            else if roll < 60 { format!("S.{n}.{}", sboms(&mut r)) }
            else if roll < 72 { format!("X.{n}.{}", progs(&mut r, nk, false)) }
            else if roll < 78 { format!("F.{n}.{}={}", hex(r.pick(&["f1", "f2", "bin", "env", "exec.d"]).as_bytes()), hex(&[b'A' + r.below(20) as u8])) }
            else if roll < 80 { format!("B.{n}") }
            else if roll < 90 { let t = r.pick(&["111", "101", "011", "110", "100", "001"]); format!("T.{n}.{t}.{}.{}.{}.{}.{}", r.pick(&["k", "u", "r", "u", "r", "f"]), if r.chance(1, 12) { "f".to_string() } else { { let k = r.below(5) as usize; meta(&mut r, k) } }, { let x = r.below(3) as usize; env_entries(&mut r, nk, x) }, progs(&mut r, nk, false), sboms(&mut r)) }
            else { live.clear(); "R".into() };
            ops.push(op);
        }
        emit(layer_case(ops, "rnd"));
    }

    // 4. the data-driven buildpack through libcnb_runtime: detect
    let n_det = if thorough { 1000 } else { 60 };
    for idx in 0..n_det {
        let mut r = Rng::for_case(seed ^ 0xD7, idx);
        let mut items: Vec<String> = vec![];
        let n = r.below(7);
        for _ in 0..n { items.push(match r.below(6) { 0 | 1 => format!("v.{}", hex(r.pick(&["rust", "node", "jvm", "z"]).as_bytes())), 2 | 3 | 4 => format!("q.{}.{}", hex(r.pick(&["rust", "node", "jvm", "a"]).as_bytes()), { let k = r.below(6) as usize; meta(&mut r, k) }), _ => "o".into() }); }
        if r.chance(1, 10) { items.push(format!("x.{}", r.pick(&["fail", "err", "noplan"]))); }
        let tables = items.iter().filter(|i| i.starts_with("q.") || i.starts_with("v.")).count();
        emit(mk("bp", "detect".into(), join(";", &items), "detect", 0, tables >= 2));
    }
    // 5. … and build: layers through both APIs, launch.toml, store.toml, SBOMs
    let n_bld = if thorough { 2300 } else if search { 200 } else { 130 };
    for idx in 0..n_bld {
        let mut r = Rng::for_case(seed ^ 0xB1D, idx);
        let mut items: Vec<String> = vec![];
        if r.chance(1, 2) { items.push("i.store".into()); }
        let big = search || r.chance(1, 2);
        let nk = if big { 3 + r.below(4) as usize } else { 1 + r.below(2) as usize };
        let n = *r.pick(&names);
        match r.below(4) {
            0 => {}
            1 => { items.push(format!("C.{n}.11.G.d1.k2")); items.push(format!("M.{n}.{}", meta(&mut r, 4))); items.push(format!("E.{n}.{}", env_entries(&mut r, nk, 3))); items.push(format!("X.{n}.{}", progs(&mut r, nk, false))); items.push(format!("S.{n}.{}", sboms(&mut r))); }
            2 => { items.push(format!("T.{n}.111.k.{}.{}.{}.{}", meta(&mut r, 3), env_entries(&mut r, nk, 2), progs(&mut r, nk, false), sboms(&mut r))); }
            _ => { items.push(format!("U.{n}.11")); items.push(format!("E.{n}.{}", env_entries(&mut r, nk, 1))); items.push(format!("T.{}.101.k.{}.{}.{}.{}", r.pick(&names), meta(&mut r, 2), env_entries(&mut r, nk, 0), progs(&mut r, nk, false), sboms(&mut r))); }
        }
        let mut pts: Vec<&str> = PROCS.to_vec(); r.shuffle(&mut pts);
        let np = r.below(5) as usize;
        for (i, p) in pts.iter().take(np).enumerate() {
            items.push(format!("p.{}.{}.{}.{}.{}", hex(p.as_bytes()), u8::from(i == 0 && r.chance(1, 2)), join(",", &(0..1 + r.below(2)).map(|j| hex(format!("cmd{j}").as_bytes())).collect::<Vec<_>>()),
                join(",", &(0..r.below(3)).map(|j| hex(format!("--a{j}=x y").as_bytes())).collect::<Vec<_>>()), if r.chance(1, 3) { hex(b"/work dir") } else { "-".into() }));
        }
        for _ in 0..r.below(4) { items.push(format!("l.{}.{}", hex(r.pick(&["org.x", "zz", "aa", "m m"]).as_bytes()), hex(r.pick(&["1", "", "v \"q\"", "é"]).as_bytes()))); }
        for _ in 0..r.below(3) { items.push(format!("s.{}", join(",", &(0..1 + r.below(3)).map(|j| hex(format!("dir{j}/**").as_bytes())).collect::<Vec<_>>()))); }
        let nm = r.below(6) as usize;
        if nm > 0 { items.push(format!("m.{}{}", meta(&mut r, nm), if r.chance(1, 2) { ".c" } else { "" })); }
        for _ in 0..r.below(3) { items.push(format!("{}.{}.{}", r.pick(&["b", "h"]), r.below(3), hex(format!("{{\"s\":{}}}", r.below(50)).as_bytes()))); }
        if r.chance(1, 15) { items.push("x.err".into()); }
        let layer_ops: Vec<String> = items.iter().filter(|i| i.chars().next().unwrap().is_ascii_uppercase()).cloned().collect();
        let k = max_hash_keys(&layer_ops);
        emit(mk("bp", "build".into(), join(";", &items), "build", k, k >= 3 || np >= 2 || nm >= 2));
    }
}

fn main() {
    let args: Vec<String> = std::env::args().collect();
    // invoked as `detect` / `build` (through a symlink in a buildpack's bin/): behave as a buildpack
    let argv0 = Path::new(&args[0]).file_name().map(|s| s.to_string_lossy().to_string()).unwrap_or_default();
    if argv0 == "detect" || argv0 == "build" { libcnb::libcnb_runtime(&Dbp); return; }
    if args.get(1).map(String::as_str) == Some("child-layers") { child_layers(&args[2], &args[3]); return; }
    // `c20 show <kind> <a> <b>`: the compared lines of one run (for looking into a reported difference)
    if args.get(1).map(String::as_str) == Some("show") { match one_run(&args[2], &args[3], &args[4]) { Ok(l) => for x in l { println!("{x}"); }, Err(e) => println!("ERR {e}") } return; }
    main_loop_jobs("c20", 16, &generate, &run_case);
}
