//! C18 correspondence: real `Inventory::{resolve, partial_resolve, to_string, parse}` and `Checksum::from_str`
//! (libherokubuildpack::inventory) with test version types: `Tv(u32)` (total order) and `Pv(u8, u8)` under the product
//! (partial) order; metadata `Option<u8>`; digests `D2` ("d2", 2 bytes), `S32` ("sha256", 32 bytes) and `()` (anything).
//! Checksum candidates (kind `KP`) and OS / architecture names (kind `N`) go through every entry path a string has: `FromStr`,
//! `Deserialize` on its own (serde's `&str` deserializer, JSON, a TOML record, a `toml::Value`) and inside an inventory document
//! (`Inventory::from_str`) in each TOML string notation — see `entry_paths`. Kind `K` (FromStr only) is kept for old replays.
use cnbv::*;
use libherokubuildpack::inventory::Inventory;
use libherokubuildpack::inventory::artifact::{Arch, Artifact, Os};
use libherokubuildpack::inventory::checksum::{Checksum, ChecksumParseError, Digest};
use libherokubuildpack::inventory::version::{ArtifactRequirement, VersionRequirement};
use serde::{Deserialize, Serialize};
use std::cmp::Ordering;

#[derive(Debug, Clone, Copy, PartialEq, Eq, PartialOrd, Ord, Serialize, Deserialize)]
#[serde(transparent)]
struct Tv(u32);

#[derive(Debug, Clone, Copy, PartialEq, Eq, Serialize, Deserialize)]
struct Pv(u8, u8);
impl PartialOrd for Pv {
    fn partial_cmp(&self, o: &Self) -> Option<Ordering> {
        if self == o { Some(Ordering::Equal) }
        else if self.0 <= o.0 && self.1 <= o.1 { Some(Ordering::Less) }
        else if o.0 <= self.0 && o.1 <= self.1 { Some(Ordering::Greater) }
        else { None }
    }
}

type Md = Option<u8>;

struct D2;
impl Digest for D2 { fn name_compatible(n: &str) -> bool { n == "d2" } fn length_compatible(l: usize) -> bool { l == 2 } }
struct S32;
impl Digest for S32 { fn name_compatible(n: &str) -> bool { n == "sha256" } fn length_compatible(l: usize) -> bool { l == 32 } }
struct S64;
impl Digest for S64 { fn name_compatible(n: &str) -> bool { n == "sha512" } fn length_compatible(l: usize) -> bool { l == 64 } }

/// requirement on the version: any, none, one of a set, at least / below a bound, within bounds (by the version type's own `PartialOrd`)
enum VReq<V> { Any, Set(Vec<V>), Ge(V), Lt(V), Within(V, V) }
/// requirement: a version requirement and a metadata condition (None = any)
struct Q<V> { versions: VReq<V>, meta: Option<Md> }
fn ge<V: PartialOrd>(a: &V, b: &V) -> bool { matches!(a.partial_cmp(b), Some(Ordering::Greater | Ordering::Equal)) }
macro_rules! req_impl { ($v:ty) => {
impl ArtifactRequirement<$v, Md> for Q<$v> {
    fn satisfies_metadata(&self, m: &Md) -> bool { self.meta.as_ref().map(|w| w == m).unwrap_or(true) }
    fn satisfies_version(&self, v: &$v) -> bool {
        match &self.versions { VReq::Any => true, VReq::Set(vs) => vs.contains(v), VReq::Ge(b) => ge(v, b), VReq::Lt(b) => matches!(v.partial_cmp(b), Some(Ordering::Less)), VReq::Within(lo, hi) => ge(v, lo) && ge(hi, v) }
    }
} } }
req_impl!(Tv);
req_impl!(Pv);

/// a requirement on the version alone: implements only `VersionRequirement`, so that resolution goes through the library's blanket
/// `impl ArtifactRequirement for VR: VersionRequirement` (metadata ignored); query metadata field `v`
struct QV<V>(Q<V>);
macro_rules! vreq_impl { ($v:ty) => { impl VersionRequirement<$v> for QV<$v> { fn satisfies(&self, v: &$v) -> bool { self.0.satisfies_version(v) } } } }
vreq_impl!(Tv);
vreq_impl!(Pv);
enum AnyReq<V> { Full(Q<V>), Ver(QV<V>) }

fn p_os(s: &str) -> Os { match s { "l" => Os::Linux, "d" => Os::Darwin, _ => panic!("os") } }
fn p_arch(s: &str) -> Arch { match s { "x" => Arch::Amd64, "a" => Arch::Arm64, _ => panic!("arch") } }
fn p_meta(s: &str) -> Md { match s { "n" => None, k => Some(k.parse::<u8>().expect("meta")) } }
fn p_tv(s: &str) -> Tv { Tv(s.parse().unwrap()) }
fn p_pv(s: &str) -> Pv { let (a, b) = s.split_once('.').unwrap(); Pv(a.parse().unwrap(), b.parse().unwrap()) }

fn artifact<V>(i: usize, a: &str, pv: fn(&str) -> V) -> Artifact<V, (), Md> {
    let p: Vec<&str> = a.split('/').collect();
    assert!(p.len() == 4);
    Artifact { version: pv(p[0]), os: p_os(p[1]), arch: p_arch(p[2]), url: i.to_string(), checksum: "any:00".parse::<Checksum<()>>().unwrap(), metadata: p_meta(p[3]) }
}

/// `[N@]os/arch/versions/meta`; `N@` = asked when only the first N artifacts have been pushed
fn query<V>(q: &str, pv: fn(&str) -> V) -> (Option<usize>, Os, Arch, AnyReq<V>) {
    let (upto, q) = match q.split_once('@') { Some((n, rest)) => (Some(n.parse::<usize>().expect("prefix")), rest), None => (None, q) };
    let p: Vec<&str> = q.split('/').collect();
    assert!(p.len() == 4);
    let versions = match p[2] {
        "*" => VReq::Any, "~" => VReq::Set(vec![]),
        vs if vs.starts_with(">=") => VReq::Ge(pv(&vs[2..])),
        vs if vs.starts_with('<') => VReq::Lt(pv(&vs[1..])),
        vs if vs.contains('_') => { let (lo, hi) = vs.split_once('_').unwrap(); VReq::Within(pv(lo), pv(hi)) }
        vs => VReq::Set(vs.split('+').map(pv).collect()),
    };
    if p[3] == "v" { return (upto, p_os(p[0]), p_arch(p[1]), AnyReq::Ver(QV(Q { versions, meta: None }))); }
    let meta = if p[3] == "*" { None } else { Some(p_meta(p[3])) };
    (upto, p_os(p[0]), p_arch(p[1]), AnyReq::Full(Q { versions, meta }))
}

/// One inventory object for the whole case. Queries are answered in the order given; a query with a prefix `N@` is asked when exactly the
/// first N artifacts have been pushed (pushes and resolutions interleave on the same object when the prefixes do not decrease; when a
/// prefix decreases the object is rebuilt); queries without a prefix see all artifacts. `total` adds `resolve` (needs `Ord`).
fn answer_all<V: Clone + PartialOrd>(arts: &str, queries: &str, pv: fn(&str) -> V, resolve: Option<&dyn Fn(&Inventory<V, (), Md>, Os, Arch, &AnyReq<V>) -> String>) -> (Vec<String>, Vec<String>, Inventory<V, (), Md>)
where Q<V>: ArtifactRequirement<V, Md>, QV<V>: VersionRequirement<V> {
    let all: Vec<Artifact<V, (), Md>> = split_list(arts, ",").iter().enumerate().map(|(i, a)| artifact(i, a, pv)).collect();
    let mut inv: Inventory<V, (), Md> = Inventory::new();
    let (mut r, mut p) = (vec![], vec![]);
    for q in split_list(queries, ",") {
        let (upto, os, arch, q) = query(q, pv);
        let want = upto.unwrap_or(all.len()).min(all.len());
        if inv.artifacts.len() > want { inv = Inventory::new(); }
        while inv.artifacts.len() < want { let a = all[inv.artifacts.len()].clone(); inv.push(a); }
        if let Some(f) = resolve { r.push(f(&inv, os, arch, &q)); }
        p.push(match &q { AnyReq::Full(q) => res(inv.partial_resolve(os, arch, q)), AnyReq::Ver(q) => res(inv.partial_resolve(os, arch, q)) });
    }
    while inv.artifacts.len() < all.len() { let a = all[inv.artifacts.len()].clone(); inv.push(a); }
    (r, p, inv)
}

fn res<V>(r: Option<&Artifact<V, (), Md>>) -> String { r.map(|a| a.url.clone()).unwrap_or_else(|| "none".into()) }

fn roundtrip<V: Serialize + serde::de::DeserializeOwned + Eq>(inv: &Inventory<V, (), Md>) -> String {
    let text = inv.to_string();
    match text.parse::<Inventory<V, (), Md>>() {
        Ok(back) => if back.artifacts == inv.artifacts && back.to_string() == text { "rt=1".into() } else { "rt=0".into() },
        Err(_) => "rt=parse-error".into(),
    }
}

/// the result of `Checksum::from_str`: name, digest bytes and the `Serialize` rendering, or the error kind
fn show_checksum<D: Digest>(r: Result<Checksum<D>, ChecksumParseError>) -> String {
    match r {
        Ok(c) => {
            let rendered = serde_json::to_value(&c).ok().and_then(|v| v.as_str().map(str::to_string)).unwrap_or_else(|| "?".into());
            format!("ok:{}:{}:{}", hex(c.name.as_bytes()), hex(&c.value), hex(rendered.as_bytes()))
        }
        Err(ChecksumParseError::MissingPrefix) => "err:missing-prefix".into(),
        Err(ChecksumParseError::IncompatiblePrefix(_)) => "err:incompatible-prefix".into(),
        Err(ChecksumParseError::InvalidValue(_)) => "err:invalid-value".into(),
        Err(ChecksumParseError::InvalidChecksumLength(_)) => "err:invalid-length".into(),
    }
}

fn run_case(f: &[String]) -> String {
    match f[0].as_str() {
        "T" => {
            let (r, p, inv) = answer_all(&f[1], &f[2], p_tv, Some(&|inv: &Inventory<Tv, (), Md>, os, arch, q: &AnyReq<Tv>| match q { AnyReq::Full(q) => res(inv.resolve(os, arch, q)), AnyReq::Ver(q) => res(inv.resolve(os, arch, q)) }));
            format!("r={};p={};{}", join(",", &r), join(",", &p), roundtrip(&inv))
        }
        "P" => {
            let (_, p, inv) = answer_all(&f[1], &f[2], p_pv, None);
            format!("r=-;p={};{}", join(",", &p), roundtrip(&inv))
        }
        "F" => {
            let mut inv: Inventory<Tv, (), Md> = Inventory::new();
            for a in split_list(&f[1], ",") {
                let p: Vec<&str> = a.split('/').collect();
                assert!(p.len() == 6);
                let url = String::from_utf8(unhex(p[4]).unwrap()).unwrap();
                let ck = String::from_utf8(unhex(p[5]).unwrap()).unwrap();
                inv.push(Artifact { version: p_tv(p[0]), os: p_os(p[1]), arch: p_arch(p[2]), url, checksum: ck.parse::<Checksum<()>>().unwrap(), metadata: p_meta(p[3]) });
            }
            let rt = roundtrip(&inv);
            // what the rendered TOML holds, read with the toml crate's generic value type
            let doc: toml::Value = inv.to_string().parse().unwrap();
            let mut enc = vec![];
            for t in doc.get("artifacts").and_then(|a| a.as_array()).cloned().unwrap_or_default() {
                let s = |k: &str| hex(t.get(k).and_then(|v| v.as_str()).unwrap_or("?MISSING").as_bytes());
                let ver = t.get("version").and_then(toml::Value::as_integer).map(|i| i.to_string()).unwrap_or_else(|| "?".into());
                let md = match t.get("metadata") { None => "n".to_string(), Some(v) => v.as_integer().map(|i| i.to_string()).unwrap_or_else(|| "?".into()) };
                enc.push(format!("{}|{}|{}|{}|{}|{}", s("os"), s("arch"), s("url"), s("checksum"), ver, md));
            }
            format!("{rt};enc={}", join(",", &enc))
        }
        "R" => run_r(&f[1], &f[2]),
        "K" => {
            assert!(f[1] == "-" && f[2] == "-");
            let s = String::from_utf8(unhex(&f[4]).unwrap()).unwrap();
            match f[3].as_str() {
                "d2" => show_checksum(s.parse::<Checksum<D2>>()),
                "s32" => show_checksum(s.parse::<Checksum<S32>>()),
                "s64" => show_checksum(s.parse::<Checksum<S64>>()),
                "any" => show_checksum(s.parse::<Checksum<()>>()),
                _ => panic!("digest"),
            }
        }
        // a checksum candidate through every entry path a string has into `Checksum<D>` (see `entry_paths`)
        "KP" => {
            assert!(f[1] == "-" && f[2] == "-" && f.len() == 6);
            let s = String::from_utf8(unhex(&f[4]).unwrap()).unwrap();
            let forms = opt_forms(&f[5]);
            match f[3].as_str() {
                "d2" => entry_paths::<D2>(&s, &forms),
                "s32" => entry_paths::<S32>(&s, &forms),
                "s64" => entry_paths::<S64>(&s, &forms),
                "any" => entry_paths::<()>(&s, &forms),
                _ => panic!("digest"),
            }
        }
        // an OS / architecture name through `FromStr` and through every deserialisation path
        "N" => {
            assert!(f[1] == "-" && f[2] == "-" && f.len() == 6);
            let s = String::from_utf8(unhex(&f[4]).unwrap()).unwrap();
            let forms = opt_forms(&f[5]);
            match f[3].as_str() {
                "os" => name_paths::<Os>(&s, "os", &forms),
                "arch" => name_paths::<Arch>(&s, "arch", &forms),
                _ => panic!("name kind"),
            }
        }
        _ => panic!("kind"),
    }
}

// ------------------------------------------------------------------------------------------------ entry paths of a string-typed field
// A checksum (an OS / architecture name) reaches the library as a `&str` handed to `FromStr`, or as a string inside some serde
// data format: on its own, as the field of a record, or as the `checksum` (`os`, `arch`) value of an artifact of an inventory TOML
// document, in any of TOML's four string notations. Every path must give the same answer for the same decoded string.

/// TOML basic string `"…"` denoting exactly `s`
fn toml_basic(s: &str) -> String {
    let mut o = String::from("\"");
    for c in s.chars() {
        match c {
            '"' => o.push_str("\\\""), '\\' => o.push_str("\\\\"),
            c if (c as u32) < 0x20 || c as u32 == 0x7f => o.push_str(&format!("\\u{:04X}", c as u32)),
            c => o.push(c),
        }
    }
    o.push('"');
    o
}

/// TOML multi-line basic string denoting exactly `s`: line feeds stand for themselves (a carriage return is escaped: the `toml` crate
/// reads a raw CR LF as LF); the line break that TOML drops after the opening delimiter is always written, so that a string beginning
/// with a line break keeps it
fn toml_ml_basic(s: &str) -> String {
    let mut o = String::from("\"\"\"\n");
    for c in s.chars() {
        match c {
            '"' => o.push_str("\\\""), '\\' => o.push_str("\\\\"),
            '\n' => o.push('\n'),
            c if (c as u32) < 0x20 || c as u32 == 0x7f => o.push_str(&format!("\\u{:04X}", c as u32)),
            c => o.push(c),
        }
    }
    o.push_str("\"\"\"");
    o
}

fn literal_char(c: char) -> bool { c == '\t' || ((c as u32) >= 0x20 && c as u32 != 0x7f && c != '\'') }

/// TOML literal string `'…'`, when the text allows one (no apostrophe, no control character but tab)
fn toml_literal(s: &str) -> Option<String> { if s.chars().all(literal_char) { Some(format!("'{s}'")) } else { None } }

/// TOML multi-line literal string, when the text allows one (no run of three apostrophes, none at the end, no control character but
/// tab and LF)
fn toml_ml_literal(s: &str) -> Option<String> {
    let ok = s.chars().all(|c| literal_char(c) || c == '\'' || c == '\n');
    if ok && !s.contains("\'\'\'") && !s.ends_with('\'') { Some(format!("\'\'\'\n{s}\'\'\'")) } else { None }
}

/// the optional notations of a case (`-`, `l`, `ml`, `l+ml`): literal and multi-line literal; basic and multi-line basic always apply
fn opt_forms(f: &str) -> Vec<&str> { let v = split_list(f, "+"); assert!(v.iter().all(|x| *x == "l" || *x == "ml")); v }

/// which optional notations can denote `s` exactly — by TOML's grammar and confirmed with the `toml` crate's generic value type
fn forms_for(s: &str) -> String {
    let mut v: Vec<String> = vec![];
    for (tag, t) in [("l", toml_literal(s)), ("ml", toml_ml_literal(s))] {
        if let Some(t) = t { if decoded(&format!("c = {t}\n"), &["c"]).as_deref() == Some(s) { v.push(tag.into()); } }
    }
    if v.is_empty() { "-".into() } else { v.join("+") }
}

/// the string a document holds at a key path, read with the `toml` crate's generic value type (not the library)
fn decoded(doc: &str, path: &[&str]) -> Option<String> {
    let mut v: toml::Value = doc.parse().ok()?;
    for k in path { v = match k.parse::<usize>() { Ok(i) => v.get(i)?.clone(), Err(_) => v.get(*k)?.clone() }; }
    v.as_str().map(str::to_string)
}

/// an inventory document of one artifact; `field` = `os`, `arch` or `checksum` is given by the TOML text `value`
fn inventory_doc(field: &str, value: &str, header: bool) -> String {
    let mut d = String::new();
    if header { d.push_str("[[artifacts]]\n"); }
    d.push_str("version = 1\n");
    for (k, v) in [("os", "\"linux\""), ("arch", "\"amd64\""), ("url", "\"u\""), ("checksum", "\"any:00\"")] {
        d.push_str(&format!("{k} = {}\n", if k == field { value } else { v }));
    }
    d
}

fn inventory_json(field: &str, s: &str) -> serde_json::Value {
    let mut a = serde_json::json!({"version": 1, "os": "linux", "arch": "amd64", "url": "u", "checksum": "any:00"});
    a[field] = serde_json::Value::String(s.to_string());
    serde_json::json!({"artifacts": [a]})
}

/// the TOML notations of `s` this case uses, each checked to decode to `s` exactly: (path name, inventory document)
fn inventory_docs(field: &str, s: &str, forms: &[&str]) -> Vec<(&'static str, String)> {
    let mut docs = vec![("ib", toml_basic(s)), ("imb", toml_ml_basic(s))];
    if forms.contains(&"l") { docs.push(("il", toml_literal(s).expect("literal notation does not apply"))); }
    if forms.contains(&"ml") { docs.push(("iml", toml_ml_literal(s).expect("multi-line literal notation does not apply"))); }
    docs.into_iter().map(|(p, t)| {
        let doc = inventory_doc(field, &t, true);
        assert!(decoded(&doc, &["artifacts", "0", field]).as_deref() == Some(s), "the document does not hold the candidate string");
        (p, doc)
    }).collect()
}

#[derive(Deserialize)]
#[serde(bound = "T: serde::de::DeserializeOwned")]
struct Wrap<T> { c: T }

fn show_short<D>(c: &Checksum<D>) -> String { format!("ok:{}:{}", hex(c.name.as_bytes()), hex(&c.value)) }
fn one_artifact<D, T>(inv: &Inventory<Tv, D, Md>, f: impl Fn(&Artifact<Tv, D, Md>) -> T) -> Result<T, String> {
    if inv.artifacts.len() == 1 { Ok(f(&inv.artifacts[0])) } else { Err(format!("ok?artifacts={}", inv.artifacts.len())) }
}

/// `fs` = `str::parse::<Checksum<D>>()` (observation as in family K); `ds` = `Deserialize` from serde's own `&str` deserializer;
/// `dj` = `serde_json::from_str` of the JSON string; `dt` = `toml::from_str` of a one-field record; `dv` = `Deserialize` from a
/// `toml::Value`; `ib`, `imb`, `il`, `iml` = `Inventory::from_str` of a one-artifact document with the checksum as basic, multi-line
/// basic, literal, multi-line literal string; `ij` = the inventory deserialised from a JSON value; `at` = one `Artifact` with
/// `toml::from_str`.
fn entry_paths<D: Digest>(s: &str, forms: &[&str]) -> String {
    use serde::de::IntoDeserializer;
    let sh = |r: Result<Checksum<D>, ()>| match r { Ok(c) => show_short(&c), Err(()) => "err".to_string() };
    let mut out = vec![format!("fs={}", show_checksum(s.parse::<Checksum<D>>()))];
    let de: serde::de::value::StrDeserializer<serde::de::value::Error> = s.into_deserializer();
    out.push(format!("ds={}", sh(Checksum::<D>::deserialize(de).map_err(|_| ()))));
    out.push(format!("dj={}", sh(serde_json::from_str::<Checksum<D>>(&serde_json::to_string(s).unwrap()).map_err(|_| ()))));
    out.push(format!("dt={}", sh(toml::from_str::<Wrap<Checksum<D>>>(&format!("c = {}\n", toml_basic(s))).map(|w| w.c).map_err(|_| ()))));
    out.push(format!("dv={}", sh(toml::Value::String(s.to_string()).try_into::<Checksum<D>>().map_err(|_| ()))));
    let inv = |r: Result<Inventory<Tv, D, Md>, ()>| match r { Ok(i) => one_artifact(&i, |a| show_short(&a.checksum)).unwrap_or_else(|e| e), Err(()) => "err".to_string() };
    let docs = inventory_docs("checksum", s, forms);
    for (p, doc) in docs.iter().filter(|(p, _)| *p == "ib" || *p == "imb") { out.push(format!("{p}={}", inv(doc.parse::<Inventory<Tv, D, Md>>().map_err(|_| ())))); }
    out.push(format!("ij={}", inv(serde_json::from_value::<Inventory<Tv, D, Md>>(inventory_json("checksum", s)).map_err(|_| ()))));
    out.push(format!("at={}", match toml::from_str::<Artifact<Tv, D, Md>>(&inventory_doc("checksum", &toml_basic(s), false)) { Ok(a) => show_short(&a.checksum), Err(_) => "err".into() }));
    for (p, doc) in docs.iter().filter(|(p, _)| *p == "il" || *p == "iml") { out.push(format!("{p}={}", inv(doc.parse::<Inventory<Tv, D, Md>>().map_err(|_| ())))); }
    out.join(";")
}

trait NameField: std::str::FromStr + serde::de::DeserializeOwned + std::fmt::Display { fn of(a: &Artifact<Tv, (), Md>) -> Self; }
impl NameField for Os { fn of(a: &Artifact<Tv, (), Md>) -> Self { a.os } }
impl NameField for Arch { fn of(a: &Artifact<Tv, (), Md>) -> Self { a.arch } }

/// the same paths for an OS / architecture name; an accepted name is shown by its `Display` rendering
fn name_paths<T: NameField>(s: &str, field: &str, forms: &[&str]) -> String {
    use serde::de::IntoDeserializer;
    let sh = |r: Result<T, ()>| match r { Ok(v) => format!("ok:{}", hex(v.to_string().as_bytes())), Err(()) => "err".to_string() };
    let mut out = vec![format!("fs={}", sh(s.parse::<T>().map_err(|_| ())))];
    let de: serde::de::value::StrDeserializer<serde::de::value::Error> = s.into_deserializer();
    out.push(format!("ds={}", sh(T::deserialize(de).map_err(|_| ()))));
    out.push(format!("dj={}", sh(serde_json::from_str::<T>(&serde_json::to_string(s).unwrap()).map_err(|_| ()))));
    out.push(format!("dt={}", sh(toml::from_str::<Wrap<T>>(&format!("c = {}\n", toml_basic(s))).map(|w| w.c).map_err(|_| ()))));
    out.push(format!("dv={}", sh(toml::Value::String(s.to_string()).try_into::<T>().map_err(|_| ()))));
    let inv = |r: Result<Inventory<Tv, (), Md>, ()>| match r { Ok(i) => one_artifact(&i, |a| sh(Ok(T::of(a)))).unwrap_or_else(|e| e), Err(()) => "err".to_string() };
    let docs = inventory_docs(field, s, forms);
    for (p, doc) in docs.iter().filter(|(p, _)| *p == "ib" || *p == "imb") { out.push(format!("{p}={}", inv(doc.parse::<Inventory<Tv, (), Md>>().map_err(|_| ())))); }
    out.push(format!("ij={}", inv(serde_json::from_value::<Inventory<Tv, (), Md>>(inventory_json(field, s)).map_err(|_| ()))));
    out.push(format!("at={}", match toml::from_str::<Artifact<Tv, (), Md>>(&inventory_doc(field, &toml_basic(s), false)) { Ok(a) => sh(Ok(T::of(&a))), Err(_) => "err".into() }));
    for (p, doc) in docs.iter().filter(|(p, _)| *p == "il" || *p == "iml") { out.push(format!("{p}={}", inv(doc.parse::<Inventory<Tv, (), Md>>().map_err(|_| ())))); }
    out.join(";")
}

// ------------------------------------------------------------------------------------------------ generators
fn resolve_case(kind: &str, arts: &[String], queries: &[String], tag: &str) -> Case {
    // several candidates for some query: two artifacts with the same os/arch
    let key = |a: &String| { let p: Vec<&str> = a.split('/').collect(); (p[1].to_string(), p[2].to_string()) };
    let ver = |a: &String| a.split('/').next().unwrap().to_string();
    let mut several = false; let mut ties = false; let mut incomparable = false;
    for (i, a) in arts.iter().enumerate() { for b in &arts[i + 1..] { if key(a) == key(b) {
        several = true;
        if ver(a) == ver(b) { ties = true; }
        if kind == "P" { let (x, y) = (p_pv(&ver(a)), p_pv(&ver(b))); if x.partial_cmp(&y).is_none() { incomparable = true; } }
    } } }
    Case { fields: vec![kind.into(), join(",", arts), join(",", queries)],
           tags: vec![("kind".into(), tag.into()), ("artifacts".into(), arts.len().to_string()), ("several".into(), u8::from(several).to_string()),
                      ("ties".into(), u8::from(ties).to_string()), ("incomparable".into(), u8::from(incomparable).to_string())],
           nontrivial: several }
}

fn sequences(kinds: &[String], max_len: usize, emit: &mut dyn FnMut(&[String])) {
    fn rec(kinds: &[String], left: usize, cur: &mut Vec<String>, emit: &mut dyn FnMut(&[String])) {
        emit(cur);
        if left == 0 { return; }
        for k in kinds { cur.push(k.clone()); rec(kinds, left - 1, cur, emit); cur.pop(); }
    }
    rec(kinds, max_len, &mut vec![], emit);
}

fn subsets(vs: &[&str]) -> Vec<String> {
    let n = vs.len();
    (0u32..(1 << n)).map(|m| { let sel: Vec<&str> = (0..n).filter(|i| m >> i & 1 == 1).map(|i| vs[i]).collect(); if sel.is_empty() { "~".into() } else if sel.len() == n { "*".into() } else { sel.join("+") } }).collect()
}

/// a checksum candidate, judged through every entry path (kind `KP`; the optional TOML notations are those the text allows)
fn k_case(dg: &str, s: &[u8], tag: &str) -> Case {
    let forms = forms_for(std::str::from_utf8(s).expect("candidate strings are UTF-8"));
    let line_end = if s.ends_with(b"\n") || s.ends_with(b"\r") { "end" } else if s.starts_with(b"\n") || s.starts_with(b"\r") { "start" } else if s.contains(&b'\n') || s.contains(&b'\r') { "inside" } else { "none" };
    Case { fields: vec!["KP".into(), "-".into(), "-".into(), dg.into(), hex(s), forms.clone()],
           tags: vec![("kind".into(), tag.into()), ("digest".into(), dg.into()), ("colons".into(), s.iter().filter(|b| **b == b':').count().min(3).to_string()), ("len".into(), s.len().min(70).to_string()),
                      ("optional-notations".into(), forms), ("line-break".into(), line_end.into())],
           nontrivial: s.contains(&b':') }
}

/// an OS / architecture name candidate through every entry path (kind `N`)
fn n_case(field: &str, s: &str, tag: &str) -> Case {
    let forms = forms_for(s);
    Case { fields: vec!["N".into(), "-".into(), "-".into(), field.into(), hex(s.as_bytes()), forms.clone()],
           tags: vec![("kind".into(), tag.into()), ("name-field".into(), field.into()), ("optional-notations".into(), forms)],
           nontrivial: !s.is_empty() }
}

fn generate(tier: &str, seed: u64, emit: &mut dyn FnMut(Case)) {
    let thorough = tier == "thorough";
    // directed families: big inventories, ties, long antichains, value pools, requirement forms, interleaved push/resolve, TOML content, decorated checksums
    generate_directed(thorough, seed, emit);
    // family R: Display / FromStr round trip with version and metadata types of every TOML shape
    generate_r(thorough, seed, emit);
    // ---- T: totally ordered versions ----
    let tq: Vec<String> = { let mut q = vec![]; for os in ["l", "d"] { for arch in ["x", "a"] { for vs in subsets(&["0", "1", "2"]) { q.push(format!("{os}/{arch}/{vs}/*")); } } } q };
    let kinds12: Vec<String> = { let mut k = vec![]; for v in ["0", "1", "2"] { for os in ["l", "d"] { for arch in ["x", "a"] { k.push(format!("{v}/{os}/{arch}/n")); } } } k };
    sequences(&kinds12, 4, &mut |arts| emit(resolve_case("T", arts, &tq, "T-exh")));
    if thorough {
        let kinds6: Vec<String> = { let mut k = vec![]; for v in ["0", "1", "2"] { for os in ["l", "d"] { k.push(format!("{v}/{os}/x/n")); } } k };
        sequences(&kinds6, 6, &mut |arts| if arts.len() >= 5 { emit(resolve_case("T", arts, &tq, "T-exh6")) });
    }
    // ---- P: pairs under the product order ----
    let pvs = ["0.0", "0.1", "1.0", "1.1"];
    let pq: Vec<String> = { let mut q = vec![]; for os in ["l", "d"] { for arch in ["x", "a"] { for vs in subsets(&pvs) { q.push(format!("{os}/{arch}/{vs}/*")); } } } q };
    let kinds8: Vec<String> = { let mut k = vec![]; for v in pvs { for os in ["l", "d"] { k.push(format!("{v}/{os}/x/n")); } } k };
    sequences(&kinds8, 4, &mut |arts| emit(resolve_case("P", arts, &pq, "P-exh")));
    if thorough {
        let kinds4: Vec<String> = pvs.iter().map(|v| format!("{v}/l/x/n")).collect();
        sequences(&kinds4, 6, &mut |arts| if arts.len() >= 5 { emit(resolve_case("P", arts, &pq, "P-exh6")) });
    }
    // ---- sampled: metadata, larger grids, longer inventories ----
    let samples = if thorough { 60_000 } else { 4_000 };
    for idx in 0..samples {
        let mut r = Rng::for_case(seed, idx);
        let partial = r.chance(1, 2);
        let n = r.below(9) as usize;
        let ver = |r: &mut Rng| if partial { format!("{}.{}", r.below(3), r.below(3)) } else { r.below(4).to_string() };
        let arts: Vec<String> = (0..n).map(|_| format!("{}/{}/{}/{}", ver(&mut r), if r.chance(3, 4) { "l" } else { "d" }, if r.chance(3, 4) { "x" } else { "a" }, r.pick(&["n", "0", "1"]))).collect();
        let nq = r.range(1, 6);
        let qs: Vec<String> = (0..nq).map(|_| {
            let vs = if r.chance(1, 3) { "*".to_string() } else { let k = r.range(1, 5); let mut v: Vec<String> = (0..k).map(|_| ver(&mut r)).collect(); v.dedup(); v.join("+") };
            format!("{}/{}/{}/{}", if r.chance(3, 4) { "l" } else { "d" }, if r.chance(3, 4) { "x" } else { "a" }, vs, r.pick(&["*", "*", "n", "0", "1"]))
        }).collect();
        emit(resolve_case(if partial { "P" } else { "T" }, &arts, &qs, if partial { "P-rnd" } else { "T-rnd" }));
    }
    // ---- F: TOML rendering and round trip ----
    let urls: [&str; 8] = ["https://example.com/a.tgz", "", "a\"b", "line1\nline2", "tab\there", "ünï©ode ✓", "back\\slash", "'single' # not a comment"];
    let cks: [&str; 8] = ["sha256:00ff", ":", "x:", "d2:0aFf", "a b:00", "ü:FFfe", "[t]:0123456789abcdef", "=:00"];
    let nf = if thorough { 20_000 } else { 1_500 };
    for idx in 0..nf {
        let mut r = Rng::for_case(seed ^ 0xF, idx);
        let n = r.below(6) as usize;
        let arts: Vec<String> = (0..n).map(|_| format!("{}/{}/{}/{}/{}/{}", *r.pick(&[0u32, 1, 7, 4294967295]), r.pick(&["l", "d"]), r.pick(&["x", "a"]), r.pick(&["n", "0", "1"]), { let u = *r.pick(&urls); if u.is_empty() { "".to_string() } else { hex(u.as_bytes()) } }, hex(r.pick(&cks).as_bytes()))).collect();
        emit(Case { fields: vec!["F".into(), join(",", &arts), "-".into()], tags: vec![("kind".into(), "F".into()), ("artifacts".into(), n.to_string())], nontrivial: n >= 1 });
    }
    // ---- K: checksum strings ----
    // exhaustive around the valid length for D2 (2 bytes = 4 digits): prefixes x bodies over {0, a, F, g} of length 0..=5 (6 thorough)
    let prefixes: [&str; 11] = ["d2:", "d2", "", "d3:", "D2:", ":", "d2::", "d2:d2:", " d2:", "d2 :", "sha256:"];
    let alpha = [b'0', b'a', b'F', b'g'];
    let maxb = if thorough { 6 } else { 5 };
    for p in prefixes {
        for n in 0..=maxb {
            for code in 0..(4usize.pow(n as u32)) {
                let mut s = p.as_bytes().to_vec();
                let mut c = code;
                for _ in 0..n { s.push(alpha[c % 4]); c /= 4; }
                emit(k_case("d2", &s, "K-exh-d2"));
            }
        }
    }
    // wider non-hex alphabet: every body over {0, a, F, g, +, -, ' ', x} of length <= 4 (5 thorough) after "d2:"
    let alpha8 = [b'0', b'a', b'F', b'g', b'+', b'-', b' ', b'x'];
    let maxw = if thorough { 5 } else { 4 };
    for n in 0..=maxw {
        for code in 0..(8usize.pow(n as u32)) {
            let mut s = b"d2:".to_vec();
            let mut c = code;
            for _ in 0..n { s.push(alpha8[c % 8]); c /= 8; }
            emit(k_case("d2", &s, "K-exh-wide"));
        }
    }
    // special characters (sign, blank, tab, underscore, x/X as in "0x", non-hex letters, NUL, 2- and 3-byte characters) at every
    // position - even and odd offsets - of bodies of 1..=5 slots, one or two specials per body, the other slots hex digits
    let specials: [&str; 15] = ["+", "-", " ", "\t", "_", "x", "X", "g", "G", "\0", "é", "✓", "０", ":", "."];
    let fill = ["0", "a", "F", "f", "1"];
    for n in 1..=5usize {
        for p1 in 0..n { for p2 in p1..n { for s1 in specials { for s2 in specials {
            if p1 == p2 && s1 != s2 { continue; }
            let body: String = (0..n).map(|i| if i == p1 { s1 } else if i == p2 { s2 } else { fill[i] }).collect();
            for dg in ["d2", "any"] {
                let name = if dg == "d2" { "d2" } else { "sha256" };
                emit(k_case(dg, format!("{name}:{body}").as_bytes(), "K-special-body"));
            }
        } } } }
    }
    // the same in the algorithm-name part (inserted at / replacing every position of the name), valid digest
    for s1 in specials {
        for pos in 0..=2usize {
            let ins: String = format!("{}{}{}", &"d2"[..pos], s1, &"d2"[pos..]);
            let rep: String = if pos < 2 { format!("{}{}{}", &"d2"[..pos], s1, &"d2"[pos + 1..]) } else { s1.to_string() };
            for name in [ins, rep] { for dg in ["d2", "any"] { emit(k_case(dg, format!("{name}:0aFf").as_bytes(), "K-special-name")); } }
        }
    }
    // 32-byte digest: a valid 64-digit string with one special at every offset (multi-byte ones replace as many digits as they
    // have bytes, so the byte length stays 64), and a sign in front of every pair
    let valid64: String = (0..64).map(|i| char::from(b"0123456789abcdefABCDEF"[(i * 7) % 22])).collect();
    for sp in specials {
        for p in 0..64usize {
            if p + sp.len() > 64 { continue; }
            let body = format!("{}{}{}", &valid64[..p], sp, &valid64[p + sp.len()..]);
            emit(k_case("s32", format!("sha256:{body}").as_bytes(), "K-special-s32"));
        }
    }
    for sign in ["+", "-"] { emit(k_case("s32", format!("sha256:{}", format!("{sign}a").repeat(32)).as_bytes(), "K-special-s32")); }
    // sampled: the 32-byte digest and the unconstrained digest, lengths around 64 digits
    let nk = if thorough { 60_000 } else { 6_000 };
    for idx in 0..nk {
        let mut r = Rng::for_case(seed ^ 0xC, idx);
        let dg = *r.pick(&["s32", "any", "d2"]);
        let name: &str = *r.pick(&["sha256", "sha256", "sha512", "", "d2", "SHA256", "sha256 ", "a:b"]);
        let target: i64 = match dg { "s32" => 64, "d2" => 4, _ => *r.pick(&[0i64, 2, 8, 64]) };
        let len = (target + *r.pick(&[0i64, 0, 0, -2, -1, 1, 2])).max(0) as usize;
        let bad = r.chance(1, 4);
        let mut s = name.as_bytes().to_vec();
        if !r.chance(1, 12) { s.push(b':'); }
        let pos_bad = r.below(len.max(1) as u64) as usize;
        let pos_bad2 = r.below(len.max(1) as u64) as usize;
        let two = r.chance(1, 3);
        for i in 0..len { s.push(if bad && (i == pos_bad || (two && i == pos_bad2)) { *r.pick(&[b'g', b' ', b':', b'x', b'-', b'+', b'\t', b'_', b'X', 0u8, b'.']) } else { *r.pick(b"0123456789abcdefABCDEF") }); }
        emit(k_case(dg, &s, "K-rnd"));
    }
}

// ------------------------------------------------------------------------------------------------ directed families

/// sizes on both sides of the thresholds at which containers / sorts / buffers change behaviour
const SIZES: &[usize] = &[16, 17, 20, 21, 32, 33, 64, 65, 128, 129, 256, 257];
const SIZES_THOROUGH: &[usize] = &[500, 1000, 2000];
/// u32 versions around every power-of-two / decimal-length boundary
const TVALS: &[u32] = &[0, 1, 2, 9, 10, 11, 99, 100, 127, 128, 255, 256, 999, 1000, 32767, 32768, 65535, 65536, 16777215, 16777216, 2147483647, 2147483648, 4294967294, 4294967295];
const MVALS: &[&str] = &["n", "0", "1", "2", "127", "128", "254", "255"];
const PVALS: &[u8] = &[0, 1, 2, 3, 127, 128, 254, 255];

fn bucket(n: usize) -> String { match n { 0..=8 => n.to_string(), 9..=16 => "9-16".into(), 17..=32 => "17-32".into(), 33..=64 => "33-64".into(), 65..=128 => "65-128".into(), 129..=256 => "129-256".into(), 257..=1024 => "257-1024".into(), _ => ">1024".into() } }

/// like `resolve_case`, for inventories of any size (the pair statistics are taken per os/arch group)
fn big_case(kind: &str, arts: &[String], queries: &[String], tag: &str, shape: &str) -> Case {
    use std::collections::BTreeMap;
    let mut groups: BTreeMap<(String, String), Vec<String>> = BTreeMap::new();
    for a in arts { let p: Vec<&str> = a.split('/').collect(); groups.entry((p[1].into(), p[2].into())).or_default().push(p[0].into()); }
    let several = groups.values().any(|g| g.len() >= 2);
    let ties = groups.values().any(|g| { let mut v = g.clone(); v.sort(); v.windows(2).any(|w| w[0] == w[1]) });
    let mut incomparable = false;
    if kind == "P" {
        // an incomparable pair exists in a group iff the group is not a chain: sort by (a, b) and look for a descent in b
        for g in groups.values() { let mut v: Vec<Pv> = g.iter().map(|x| p_pv(x)).collect(); v.sort_by_key(|x| (x.0, x.1)); if v.windows(2).any(|w| w[1].1 < w[0].1) { incomparable = true; } }
    }
    let inc = queries.iter().any(|q| q.contains('@'));
    let forms = queries.iter().any(|q| q.contains(">=") || q.contains('<') || q.contains('_'));
    Case { fields: vec![kind.into(), join(",", arts), join(",", queries)],
           tags: vec![("kind".into(), tag.into()), ("artifacts".into(), bucket(arts.len())), ("several".into(), u8::from(several).to_string()), ("ties".into(), u8::from(ties).to_string()),
                      ("incomparable".into(), u8::from(incomparable).to_string()), ("shape".into(), shape.into()), ("interleaved".into(), u8::from(inc).to_string()), ("req-forms".into(), u8::from(forms).to_string())],
           nontrivial: several }
}

/// queries for an inventory: every os/arch with any version; requirement forms built from versions that occur (a set, a lower bound, an upper
/// bound, a window), metadata conditions that occur; some asked twice; with `inc` also at growing prefixes of the inventory around the sizes
fn queries_for(r: &mut Rng, arts: &[String], inc: bool) -> Vec<String> {
    let vers: Vec<&str> = arts.iter().map(|a| a.split('/').next().unwrap()).collect();
    let metas: Vec<&str> = arts.iter().map(|a| a.rsplit('/').next().unwrap()).collect();
    let pickv = |r: &mut Rng| if vers.is_empty() { "0".to_string() } else { (*r.pick(&vers)).to_string() };
    let mut qs: Vec<String> = vec![];
    for os in ["l", "d"] { for arch in ["x", "a"] { qs.push(format!("{os}/{arch}/*/{}", if os == "l" { "*" } else { "v" })); } }
    let dotted = vers.first().is_some_and(|v| v.contains('.'));
    for _ in 0..8 {
        let os = if r.chance(3, 4) { "l" } else { "d" };
        let arch = if r.chance(3, 4) { "x" } else { "a" };
        let vs = match r.below(7) {
            0 => "~".to_string(),
            1 => { let mut v: Vec<String> = (0..r.range(1, 6)).map(|_| pickv(r)).collect(); v.sort(); v.dedup(); v.join("+") }
            2 => format!(">={}", pickv(r)),
            3 => format!("<{}", pickv(r)),
            4 => { let (a, b) = (pickv(r), pickv(r)); if dotted { format!("{a}_{b}") } else { let (x, y): (u64, u64) = (a.parse().unwrap(), b.parse().unwrap()); format!("{}_{}", x.min(y), x.max(y)) } }
            5 => pickv(r),
            _ => "*".to_string(),
        };
        let m = if r.chance(1, 3) && !metas.is_empty() { (*r.pick(&metas)).to_string() } else if r.chance(1, 3) { "v".to_string() } else { "*".to_string() };
        qs.push(format!("{os}/{arch}/{vs}/{m}"));
    }
    let again = qs[r.below(qs.len() as u64) as usize].clone();
    qs.push(again); // the same question once more, later
    let first = qs[0].clone();
    qs.push(first);
    if inc {
        // the same object while it grows: prefixes around the thresholds that exist below its size, asked in growing order (0 = still empty)
        let n = arts.len();
        let mut cuts: Vec<usize> = vec![0, 1, 2];
        cuts.extend(SIZES.iter().copied().filter(|c| *c < n));
        cuts.extend([n.saturating_sub(1), n]);
        cuts.sort(); cuts.dedup();
        let mut incq = vec![];
        for c in cuts { if c > n { continue; } let q = qs[r.below(4) as usize].clone(); incq.push(format!("{c}@{q}")); if r.chance(1, 2) { let q2 = qs[4 + r.below(8) as usize].clone(); incq.push(format!("{c}@{q2}")); } }
        // then one prefix that goes back (the harness rebuilds the object) and the full inventory again
        incq.push(format!("{}@l/x/*/*", n / 2));
        incq.push("l/x/*/*".to_string());
        qs = incq;
    }
    qs
}

fn generate_directed(thorough: bool, seed: u64, emit: &mut dyn FnMut(Case)) {
    let mut idx: u64 = 0;
    let rng = |idx: &mut u64| { *idx += 1; Rng::for_case(seed ^ 0x18D1_4EC7, *idx) };
    let sizes: Vec<usize> = if thorough { SIZES.iter().chain(SIZES_THOROUGH).copied().collect() } else { SIZES.to_vec() };

    // ---- T-big: totally ordered versions, inventories of 16..257 (thorough ..2000) artifacts
    let tshapes = ["ascending", "descending", "all-equal", "three-values", "pool", "max-first", "max-last", "max-mid", "max-at-32", "max-at-33", "max-many", "sawtooth", "sparse-match"];
    for &n in &sizes {
        for (si, shape) in tshapes.iter().enumerate() {
            let mut r = rng(&mut idx);
            let hi = *r.pick(&TVALS[8..]);
            let ver = |i: usize, r: &mut Rng| -> u32 {
                match *shape {
                    "ascending" => i as u32, "descending" => (n - i) as u32, "all-equal" => hi, "three-values" => [7u32, 8, 9][r.below(3) as usize], "pool" => *r.pick(TVALS),
                    "max-first" => if i == 0 { hi } else { hi - 1 - (i % 3) as u32 }, "max-last" => if i == n - 1 { hi } else { hi - 1 - (i % 3) as u32 }, "max-mid" => if i == n / 2 { hi } else { hi - 1 },
                    "max-at-32" => if i == 31 { hi } else { hi - 1 - (i % 2) as u32 }, "max-at-33" => if i == 32 { hi } else { hi - 1 - (i % 2) as u32 }, "max-many" => if i % 5 == 2 { hi } else { (i % 7) as u32 },
                    "sawtooth" => (i % 17) as u32 * 1000 + (i / 17) as u32, _ => r.below(50) as u32,
                }
            };
            // mostly one os/arch (so that many artifacts compete); `sparse-match`: every 7th artifact only
            let arts: Vec<String> = (0..n).map(|i| {
                let v = ver(i, &mut r);
                let (os, arch) = if *shape == "sparse-match" { if i % 7 == 3 { ("l", "x") } else { (*r.pick(&["d", "l"]), "a") } } else if r.chance(1, 10) { (*r.pick(&["l", "d"]), *r.pick(&["x", "a"])) } else { ("l", "x") };
                let m = if si % 3 == 0 { *r.pick(MVALS) } else { "n" };
                format!("{v}/{os}/{arch}/{m}")
            }).collect();
            let inc = si % 4 == 1;
            let qs = queries_for(&mut r, &arts, inc);
            emit(big_case("T", &arts, &qs, "T-big", shape));
        }
    }
    // ---- P-big: pairs under the product order: long antichains (i, 250-i), antichain + top / bottom element at different places, layers, chains, grids, duplicates
    let pshapes = ["antichain", "antichain-rev", "antichain+top-first", "antichain+top-last", "antichain+top-mid", "antichain+bottom", "two-antichains", "chain", "chain-desc", "grid", "all-equal", "antichain-dups", "random", "antichain+tops"];
    for &n in &sizes {
        for (si, shape) in pshapes.iter().enumerate() {
            let mut r = rng(&mut idx);
            let k = n.min(250);   // distinct points of an antichain inside u8 x u8
            let pt = |i: usize, r: &mut Rng| -> (u8, u8) {
                let j = i % k;
                let anti = (j as u8, (250 - j) as u8);
                match *shape {
                    "antichain" | "antichain-dups" => anti, "antichain-rev" => ((250 - j) as u8, j as u8),
                    "antichain+top-first" => if i == 0 { (255, 255) } else { anti }, "antichain+top-last" => if i == n - 1 { (255, 255) } else { anti }, "antichain+top-mid" => if i == n / 2 { (255, 255) } else { anti },
                    "antichain+bottom" => if i == n / 3 { (0, 0) } else { anti },
                    "antichain+tops" => if i % 16 == 5 { (251 + (i % 3) as u8, 253) } else { anti },
                    "two-antichains" => if i % 2 == 0 { ((j / 3) as u8, (100 - j / 3) as u8) } else { ((130 + j / 3) as u8, (255 - j / 3) as u8) },
                    "chain" => ((i % 256) as u8, (i % 256) as u8), "chain-desc" => (255 - (i % 256) as u8, 255 - (i % 256) as u8),
                    "grid" => ((i % 16) as u8, (i / 16 % 16) as u8), "all-equal" => (7, 9), _ => (*r.pick(PVALS), *r.pick(PVALS)),
                }
            };
            let arts: Vec<String> = (0..n).map(|i| {
                let (a, b) = pt(i, &mut r);
                let (os, arch) = if r.chance(1, 12) { (*r.pick(&["l", "d"]), *r.pick(&["x", "a"])) } else { ("l", "x") };
                let m = if si % 3 == 0 { *r.pick(MVALS) } else { "n" };
                format!("{a}.{b}/{os}/{arch}/{m}")
            }).collect();
            let qs = queries_for(&mut r, &arts, si % 4 == 2);
            emit(big_case("P", &arts, &qs, "P-big", shape));
        }
    }
    // ---- value pools on small inventories: u32 boundaries, neighbouring values, metadata 0..255; pairs from {0,1,2,3,127,128,254,255}^2 with swapped / shifted neighbours
    let nv = if thorough { 6_000 } else { 600 };
    for _ in 0..nv {
        let mut r = rng(&mut idx);
        let partial = r.chance(1, 2);
        let n = r.range(1, 10) as usize;
        let mut vers: Vec<String> = vec![];
        for _ in 0..n {
            let v = if partial {
                let base = if vers.is_empty() || r.chance(1, 2) { (*r.pick(PVALS), *r.pick(PVALS)) } else { let pv0: String = r.pick(&vers[..]).clone(); let p = p_pv(&pv0); match r.below(4) { 0 => (p.1, p.0), 1 => (p.0.saturating_add(1), p.1.saturating_sub(1)), 2 => (p.0, p.1.saturating_add(1)), _ => (p.0, p.1) } };
                format!("{}.{}", base.0, base.1)
            } else {
                let base = if vers.is_empty() || r.chance(1, 2) { *r.pick(TVALS) } else { let p: u32 = r.pick(&vers[..]).parse().unwrap(); match r.below(3) { 0 => p.saturating_add(1), 1 => p.saturating_sub(1), _ => p } };
                base.to_string()
            };
            vers.push(v);
        }
        let arts: Vec<String> = vers.iter().map(|v| format!("{v}/{}/{}/{}", if r.chance(4, 5) { "l" } else { "d" }, if r.chance(4, 5) { "x" } else { "a" }, r.pick(MVALS))).collect();
        let inc = r.chance(1, 3);
        let qs = queries_for(&mut r, &arts, inc);
        emit(big_case(if partial { "P" } else { "T" }, &arts, &qs, if partial { "P-values" } else { "T-values" }, "values"));
    }
    // ---- F: TOML rendering and round trip — big inventories, version / metadata value pools, awkward text in url and checksum name, long digests
    let long_url = format!("https://example.com/{}", "p/".repeat(2100));
    let urls: Vec<String> = ["\u{feff}https://example.com/bom", "https://example.com/a\u{feff}", "trailing newline\n", "crlf\r\nline", "lone\rcr", "\r\n", "\n", " ", "  leading and trailing  ", "\t", "\u{1}\u{2}\u{1f}", "\u{7f}", "\u{0}", "nul\u{0}inside", "\u{80}\u{85}\u{9f}", "\u{a0}nbsp", "\u{2028}ls\u{2029}ps",
        "'''", "\"\"\"", "'''\"\"\"'''", "''", "\"\"", "\\", "\\\\", "ends with backslash\\", "\\u0041", "\\n", "\\\"", "\"quoted\"", "'quoted'", "true", "false", "1979-05-27T07:32:00Z", "inf", "nan", "-nan", "0x10", "+1", "1_000", "1e3", "[[artifacts]]", "[artifacts]", "version = 1", "url = \"x\"", "# comment", "a = { b = 1 }", "{}", "[]",
        "\u{1F4E6}", "\u{202e}rtl", "e\u{301}", "\u{fffd}", "\u{ffff}", "\u{10ffff}", "\u{d7ff}\u{e000}", "日本語", "ÄÖÜ", "%20%25", "a+b~c", "..", ".", "-", "--", "=", "==", ",", ";"].iter().map(|s| s.to_string()).chain([long_url, "x".repeat(255), "y".repeat(256), "z".repeat(257), "w".repeat(4096), "\u{e9}".repeat(3000)]).collect();
    let names: Vec<String> = ["sha256", "sha512", "", " ", "  ", "\t", "\n", "\r\n", "trailing\n", "\u{feff}sha256", "sha256\u{feff}", "SHA256", "Sha256", "sha-256", "sha_256", "sha256 ", " sha256", "a b", "\"", "'", "'''", "\"\"\"", "\\", "\u{0}", "\u{1}", "\u{7f}", "ü", "日本", "\u{1F4E6}", "=", "#", "[", "]", "{", "}", ",", ".", "-", "+", "0", "00", "0x", "true", "inf", "/", "//", "a/b", "%3A", "%", "d2"].iter().map(|s| s.to_string()).chain(["n".repeat(255), "n".repeat(256), "n".repeat(4096)]).collect();
    let digests: Vec<String> = ["", "00", "ff", "FF", "0aFf", "00ff00ff", "0123456789abcdef"].iter().map(|s| s.to_string()).chain([32usize, 63, 64, 65, 127, 128, 129, 256, 257, 2048].iter().map(|n| "c3".repeat(*n))).collect();
    let f_case = |arts: &[String], tag: &str| Case { fields: vec!["F".into(), join(",", arts), "-".into()], tags: vec![("kind".into(), tag.into()), ("artifacts".into(), bucket(arts.len()))], nontrivial: !arts.is_empty() };
    let f_art = |r: &mut Rng, url: &str, name: &str, digest: &str| format!("{}/{}/{}/{}/{}/{}", r.pick(TVALS), r.pick(&["l", "d"]), r.pick(&["x", "a"]), r.pick(MVALS), if url.is_empty() { String::new() } else { hex(url.as_bytes()) }, hex(format!("{name}:{digest}").as_bytes()));
    // every url / name / digest of the pools once on its own (single-artifact inventory) …
    for u in &urls { let mut r = rng(&mut idx); emit(f_case(&[f_art(&mut r, u, "sha256", "00ff")], "F-text")); }
    for nme in &names { let mut r = rng(&mut idx); emit(f_case(&[f_art(&mut r, "https://example.com/a.tgz", nme, "00ff")], "F-text")); }
    for d in &digests { let mut r = rng(&mut idx); emit(f_case(&[f_art(&mut r, "https://example.com/a.tgz", "any", d)], "F-text")); }
    // … and mixed, in inventories of 0..12 and of the threshold sizes
    let nfw = if thorough { 3_000 } else { 300 };
    for i in 0..nfw {
        let mut r = rng(&mut idx);
        let n = if i % 25 == 0 { *r.pick(&sizes) } else { r.below(13) as usize };
        let uniform_meta = if r.chance(1, 4) { Some(*r.pick(MVALS)) } else { None }; // all None / all the same value: the metadata key is absent / present in every table
        let arts: Vec<String> = (0..n).map(|_| {
            let (u, nm, dg) = (r.pick(&urls).clone(), r.pick(&names).clone(), r.pick(&digests).clone());
            let a = f_art(&mut r, &u, &nm, &dg);
            match uniform_meta { Some(m) => { let mut p: Vec<&str> = a.split('/').collect(); p[3] = m; p.join("/") } None => a }
        }).collect();
        emit(f_case(&arts, if n > 12 { "F-big" } else { "F-wide" }));
    }
    for &n in &sizes {
        let mut r = rng(&mut idx);
        // plain but big: n artifacts with distinct urls and 32-byte digests; then the same artifact n times
        let arts: Vec<String> = (0..n).map(|i| f_art(&mut r, &format!("https://example.com/v{i}.tgz"), "sha256", &format!("{:064x}", i as u128 * 0x9E37_79B9_7F4A_7C15u128))).collect();
        emit(f_case(&arts, "F-big"));
        let one = f_art(&mut r, "same", "sha256", "00");
        emit(f_case(&vec![one; n], "F-big"));
    }
    // ---- K: checksum strings — decorated valid strings (line ends, blanks, BOM, quotes, 0x, NUL before / after / around the colon), long digests and names
    let valid: [(&str, String); 6] = [("d2", "d2:0aFf".into()), ("s32", format!("sha256:{}", "3b".repeat(32))), ("s64", format!("sha512:{}", "C4".repeat(64))), ("any", "any:".into()), ("any", "sha256:00ff".into()), ("any", ":".into())];
    let decor: [&str; 22] = ["\n", "\r\n", "\r", " ", "\t", "\u{feff}", "\0", "\u{a0}", "\u{2028}", "\u{85}", "0x", "0X", "#", "\"", "'", ":", ";", ",", "=", "\\n", "%0A", "\u{200b}"];
    for (dg, v) in &valid {
        let (name, body) = v.split_once(':').unwrap();
        for dec in decor {
            for s in [format!("{v}{dec}"), format!("{dec}{v}"), format!("{name}:{dec}{body}"), format!("{name}{dec}:{body}"), format!("{dec}{v}{dec}"), format!("{name}:{body}{dec}{dec}")] {
                emit(k_case(dg, s.as_bytes(), "K-decorated"));
            }
        }
        // case variants of the algorithm name
        for nm in [name.to_uppercase(), { let mut c = name.chars(); c.next().map(|f| f.to_uppercase().collect::<String>() + c.as_str()).unwrap_or_default() }] { emit(k_case(dg, format!("{nm}:{body}").as_bytes(), "K-decorated")); }
    }
    // lengths around the 64-byte digest and around 64/128/256/2048 bytes for the unconstrained one; odd lengths; one bad digit at the very end / beyond position 64, 128, 256
    for (dg, name, bytes) in [("s64", "sha512", 64usize), ("any", "sha512", 64), ("any", "x", 128), ("any", "x", 256), ("any", "", 2048), ("s32", "sha256", 32), ("s64", "sha256", 64), ("s32", "sha512", 32)] {
        // (the spec oracle tries every cut of the string, quadratic in its length: only a few strings of 4096 digits)
        let deltas: &[i64] = if bytes >= 2048 { &[0, 1] } else { &[-2, -1, 0, 1, 2] };
        for &delta in deltas {
            let digits = (2 * bytes as i64 + delta) as usize;
            let body: String = (0..digits).map(|i| char::from(b"0123456789abcdefABCDEF"[(i * 5) % 22])).collect();
            emit(k_case(dg, format!("{name}:{body}").as_bytes(), "K-long"));
            for bad_at in [digits.saturating_sub(1), digits.saturating_sub(2), 64.min(digits.saturating_sub(1)), 129.min(digits.saturating_sub(1)), digits / 2] {
                if bytes >= 2048 && bad_at != digits - 1 { continue; }
                for bad in ["g", "+", " ", "\n"] { let mut b = body.clone(); if bad_at < b.len() { b.replace_range(bad_at..bad_at + 1, bad); emit(k_case(dg, format!("{name}:{b}").as_bytes(), "K-long")); } }
            }
        }
    }
    // ---- N: OS / architecture names through FromStr and every deserialisation path: the names, the FromStr aliases, case variants,
    // near misses, each decorated like the checksums; every string is tried as an OS and as an architecture name.
    // The bare aliases (osx, x86_64, aarch64) are accepted by FromStr only — the paths disagree on the unchanged library; they are
    // generated only with VERIF_C18_ALIASES=1 until that is decided.
    let aliases = ["osx", "x86_64", "aarch64"];
    let with_aliases = std::env::var("VERIF_C18_ALIASES").is_ok_and(|v| v == "1");
    let names = ["linux", "darwin", "amd64", "arm64", "osx", "x86_64", "aarch64"];
    let mut cands: Vec<String> = names.iter().map(|s| s.to_string()).collect();
    cands.extend(["", " ", "Linux", "LINUX", "Darwin", "DARWIN", "OSX", "Osx", "macos", "windows", "freebsd", "linu", "linuxx", "linux-gnu", "Amd64", "AMD64", "Arm64", "ARM64", "amd", "amd_64", "amd-64", "amd 64", "arm", "arm64e", "armv8", "x86-64", "x86_32", "X86_64", "x64", "i386", "Aarch64", "AARCH64", "aarch32", "0", "1", "true", "linux,darwin", "linux:amd64", "linux/amd64", "ｌinux", "lınux", "ﬂinux"].iter().map(|s| s.to_string()));
    for nm in names {
        for dec in decor { for s in [format!("{nm}{dec}"), format!("{dec}{nm}"), format!("{dec}{nm}{dec}"), format!("{nm}{dec}{dec}"), { let h = nm.len() / 2; format!("{}{dec}{}", &nm[..h], &nm[h..]) }] { cands.push(s); } }
        cands.push(format!("{nm}{nm}"));
    }
    for c in &cands {
        if aliases.contains(&c.as_str()) && !with_aliases { continue; }
        for field in ["os", "arch"] { emit(n_case(field, c, if aliases.contains(&c.as_str()) { "N-alias" } else { "N" })); }
    }
    for len in [255usize, 256, 257, 1000, 4096] {
        emit(k_case("any", format!("{}:00ff", "n".repeat(len)).as_bytes(), "K-long"));
        emit(k_case("any", format!("{}00ff", "n".repeat(len)).as_bytes(), "K-long"));           // no colon at all
        emit(k_case("any", format!("{}:00ff", ":".repeat(len)).as_bytes(), "K-long"));           // colons only
        emit(k_case("d2", format!("d2:{}", "0".repeat(len)).as_bytes(), "K-long"));
    }
}

// ------------------------------------------------------------------------------------------------ family R: TOML round trip through Display / FromStr
// with version and metadata types of every TOML shape (plain values, arrays, tables, arrays of tables, nested tables, optional ones)

#[derive(Debug, Clone, PartialEq, Serialize, Deserialize)]
struct Meta { channel: String, lts: bool }
#[derive(Debug, Clone, PartialEq, Serialize, Deserialize)]
struct Nested { name: String, inner: Meta, tags: Vec<String>, opt: Option<Meta>, more: std::collections::BTreeMap<String, Meta> }
#[derive(Debug, Clone, PartialEq, Serialize, Deserialize)]
struct OptFields { a: Option<String>, b: Option<u8>, c: Option<Meta> }
#[derive(Debug, Clone, PartialEq, Serialize, Deserialize)]
enum Chan { Stable, Beta, Nightly }
#[derive(Debug, Clone, PartialEq, Serialize, Deserialize)]
struct Newtype(String);
/// a version that renders as a TOML table
#[derive(Debug, Clone, PartialEq, Serialize, Deserialize)]
struct SV { major: u32, minor: u32, pre: Option<String> }

type SMap = std::collections::BTreeMap<String, String>;
type MMap = std::collections::BTreeMap<String, Meta>;

fn pieces(t: &str) -> Vec<&str> { if t.is_empty() { vec![] } else { t.split(';').collect() } }
fn m_meta(t: &str) -> Meta { Meta { channel: t.to_string(), lts: t.len() % 2 == 1 } }
fn m_int(t: &str) -> i64 { t.parse::<i64>().unwrap_or(t.len() as i64 * 7 - 3) }
fn m_float(t: &str) -> f64 { t.parse::<f64>().ok().filter(|f| f.is_finite()).unwrap_or(t.len() as f64 + 0.5) }
fn m_bool(t: &str) -> bool { t.len() % 2 == 1 }
fn m_string(t: &str) -> String { t.to_string() }
fn m_enum(t: &str) -> Chan { match t.len() % 3 { 0 => Chan::Stable, 1 => Chan::Beta, _ => Chan::Nightly } }
fn m_array(t: &str) -> Vec<u32> { t.bytes().take(40).map(u32::from).collect() }
fn m_sarray(t: &str) -> Vec<String> { pieces(t).iter().map(|p| p.to_string()).collect() }
fn m_tuple(t: &str) -> (u8, String, bool) { (t.len() as u8, t.to_string(), t.len() % 2 == 1) }
fn m_map(t: &str) -> SMap { pieces(t).iter().map(|p| match p.split_once('=') { Some((k, v)) => (k.to_string(), v.to_string()), None => (p.to_string(), p.chars().rev().collect()) }).collect() }
fn m_opt_struct(t: &str) -> Option<Meta> { if t.is_empty() { None } else { Some(m_meta(t)) } }
fn m_opt_map(t: &str) -> Option<SMap> { if t.len() % 3 == 0 { None } else { Some(m_map(t)) } }
fn m_opt_fields(t: &str) -> OptFields { OptFields { a: if t.len() % 2 == 0 { None } else { Some(t.to_string()) }, b: if t.len() % 3 == 0 { None } else { Some(t.len() as u8) }, c: if t.len() % 5 < 2 { None } else { Some(m_meta(t)) } } }
fn m_vec_struct(t: &str) -> Vec<Meta> { pieces(t).iter().map(|p| m_meta(p)).collect() }
fn m_map_struct(t: &str) -> MMap { pieces(t).iter().map(|p| (p.to_string(), m_meta(p))).collect() }
fn m_nested(t: &str) -> Nested { Nested { name: t.to_string(), inner: m_meta(t), tags: m_sarray(t), opt: if t.len() % 2 == 0 { None } else { Some(m_meta("opt")) }, more: m_map_struct(t) } }
fn m_newtype(t: &str) -> Newtype { Newtype(t.to_string()) }
fn m_none_unit(_: &str) -> Option<()> { None }
fn m_opt_int(t: &str) -> Option<u8> { if t.is_empty() { None } else { Some(t.len() as u8) } }

fn v_int(t: &str) -> Tv { Tv(t.parse::<u32>().unwrap_or(t.len() as u32)) }
fn v_str(t: &str) -> String { t.to_string() }
fn v_pair(t: &str) -> Pv { Pv(t.len() as u8, (t.len() * 3 % 256) as u8) }
fn v_tbl(t: &str) -> SV { SV { major: t.len() as u32, minor: t.bytes().map(u32::from).sum::<u32>() % 100, pre: if t.len() % 2 == 0 { None } else { Some(t.to_string()) } } }

const V_SHAPES: &[&str] = &["int", "str", "pair", "tbl"];
const M_SHAPES: &[&str] = &["none-unit", "opt-int", "int", "float", "bool", "string", "enum", "array", "string-array", "tuple", "newtype", "struct", "map", "opt-struct", "opt-map", "opt-fields", "array-of-structs", "map-of-structs", "nested"];

/// `Inventory::to_string()` (Display) then `str::parse::<Inventory>()` (FromStr): artifacts equal, field by field, and rendering again gives the same text
fn rt<V, M>(arts: &str, pv: fn(&str) -> V, pm: fn(&str) -> M) -> String
where V: Serialize + serde::de::DeserializeOwned + PartialEq, M: Serialize + serde::de::DeserializeOwned + PartialEq {
    let text_of = |h: &str| String::from_utf8(unhex(h).expect("hex")).expect("utf8");
    let mut inv: Inventory<V, (), M> = Inventory::new();
    for (i, a) in split_list(arts, ",").iter().enumerate() {
        let p: Vec<&str> = a.split('/').collect();
        assert!(p.len() == 4);
        inv.push(Artifact { version: pv(&text_of(p[0])), os: p_os(p[1]), arch: p_arch(p[2]), url: format!("https://example.com/{i}.tgz"), checksum: "sha256:cafebabe".parse::<Checksum<()>>().unwrap(), metadata: pm(&text_of(p[3])) });
    }
    let text = inv.to_string();
    let back = match text.parse::<Inventory<V, (), M>>() { Ok(b) => b, Err(_) => return "rt=parse-error".into() };
    if back.artifacts.len() != inv.artifacts.len() { return format!("rt=0:count:{}", back.artifacts.len()); }
    for (i, (a, b)) in inv.artifacts.iter().zip(back.artifacts.iter()).enumerate() {
        if a.version != b.version { return format!("rt=0:version:{i}"); }
        if a.os != b.os || a.arch != b.arch || a.url != b.url || a.checksum != b.checksum { return format!("rt=0:plain-field:{i}"); }
        if a.metadata != b.metadata { return format!("rt=0:metadata:{i}"); }
    }
    if back.to_string() != text { return "rt=0:second-rendering-differs".into(); }
    "rt=1".into()
}

fn run_r(arts: &str, shape: &str) -> String {
    let (vs, ms) = shape.split_once(':').expect("shape");
    macro_rules! with_m { ($v:ty, $pv:expr) => { match ms {
        "none-unit" => rt::<$v, Option<()>>(arts, $pv, m_none_unit), "opt-int" => rt::<$v, Option<u8>>(arts, $pv, m_opt_int), "int" => rt::<$v, i64>(arts, $pv, m_int), "float" => rt::<$v, f64>(arts, $pv, m_float),
        "bool" => rt::<$v, bool>(arts, $pv, m_bool), "string" => rt::<$v, String>(arts, $pv, m_string), "enum" => rt::<$v, Chan>(arts, $pv, m_enum), "array" => rt::<$v, Vec<u32>>(arts, $pv, m_array),
        "string-array" => rt::<$v, Vec<String>>(arts, $pv, m_sarray), "tuple" => rt::<$v, (u8, String, bool)>(arts, $pv, m_tuple), "newtype" => rt::<$v, Newtype>(arts, $pv, m_newtype),
        "struct" => rt::<$v, Meta>(arts, $pv, m_meta), "map" => rt::<$v, SMap>(arts, $pv, m_map), "opt-struct" => rt::<$v, Option<Meta>>(arts, $pv, m_opt_struct), "opt-map" => rt::<$v, Option<SMap>>(arts, $pv, m_opt_map),
        "opt-fields" => rt::<$v, OptFields>(arts, $pv, m_opt_fields), "array-of-structs" => rt::<$v, Vec<Meta>>(arts, $pv, m_vec_struct), "map-of-structs" => rt::<$v, MMap>(arts, $pv, m_map_struct),
        "nested" => rt::<$v, Nested>(arts, $pv, m_nested),
        _ => panic!("metadata shape"),
    } } }
    match vs { "int" => with_m!(Tv, v_int), "str" => with_m!(String, v_str), "pair" => with_m!(Pv, v_pair), "tbl" => with_m!(SV, v_tbl), _ => panic!("version shape") }
}

fn generate_r(thorough: bool, seed: u64, emit: &mut dyn FnMut(Case)) {
    // texts the typed values are derived from (a text is the string itself / the key and value of map entries split at ';' and '=' / its length and parity for numbers, booleans, options)
    let texts: Vec<String> = ["", "stable", "lts", "a", "ab", "abc", "1.2.3", "42", "-1", "3.5", "true", "k=v", "k=v;k2=v2;k3", "a;b;c;d;e", "x;x", "multi\nline", "crlf\r\n", "quote\"s", "single'q", "'''", "\"\"\"", "back\\slash", "tab\there", "ünï©ode ✓", "\u{1F4E6}", "\u{feff}bom",
        "with space", " lead", "trail ", "dotted.key=1", "quoted key=\"v\"", "#=#", "[t]=[[a]]", "metadata", "artifacts", "version=1;os=linux", "1979-05-27", "inf", "nan", "=", ";", "=;=", "\u{0}", "\u{7f}"].iter().map(|s| s.to_string()).chain(["n".repeat(255), "k".repeat(300) + "=" + &"v".repeat(300)]).collect();
    let sizes: &[usize] = if thorough { &[0, 1, 2, 3, 17, 33, 65, 257] } else { &[0, 1, 2, 3, 17, 33] };
    let mut idx = 0u64;
    let mut one = |vs: &str, ms: &str, n: usize, emit: &mut dyn FnMut(Case)| {
        idx += 1;
        let mut r = Rng::for_case(seed ^ 0x18_52_52, idx);
        // either every artifact with its own text, or one text throughout (every artifact then has / lacks the optional parts alike)
        let same = if r.chance(1, 4) { Some(r.pick(&texts).clone()) } else { None };
        let arts: Vec<String> = (0..n).map(|_| { let tv = r.pick(&texts).clone(); let tm = same.clone().unwrap_or_else(|| r.pick(&texts).clone()); format!("{}/{}/{}/{}", hex(tv.as_bytes()), r.pick(&["l", "d"]), r.pick(&["x", "a"]), hex(tm.as_bytes())) }).collect();
        let table_meta = ["struct", "map", "opt-struct", "opt-map", "opt-fields", "array-of-structs", "map-of-structs", "nested"].contains(&ms);
        emit(Case { fields: vec!["R".into(), join(",", &arts), format!("{vs}:{ms}")],
                    tags: vec![("kind".into(), "R".into()), ("artifacts".into(), bucket(n)), ("version-shape".into(), vs.into()), ("metadata-shape".into(), ms.into()), ("table-metadata".into(), u8::from(table_meta).to_string())],
                    nontrivial: n >= 1 });
    };
    for vs in V_SHAPES { for ms in M_SHAPES { for &n in sizes { one(vs, ms, n, emit); } } }
    // more draws at the small sizes (several artifacts with table metadata, with and without the optional parts)
    let extra = if thorough { 40 } else { 4 };
    for _ in 0..extra { for vs in V_SHAPES { for ms in M_SHAPES { for n in [1usize, 2, 3, 5] { one(vs, ms, n, emit); } } } }
}

fn main() { main_loop_jobs("c18", 4, &generate, &run_case); }
