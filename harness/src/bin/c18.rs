//! C18 correspondence: real `Inventory::{resolve, partial_resolve, to_string, parse}` and `Checksum::from_str`
//! (libherokubuildpack::inventory) with test version types: `Tv(u32)` (total order) and `Pv(u8, u8)` under the product
//! (partial) order; metadata `Option<u8>`; digests `D2` ("d2", 2 bytes), `S32` ("sha256", 32 bytes) and `()` (anything).
use cnbv::*;
use libherokubuildpack::inventory::Inventory;
use libherokubuildpack::inventory::artifact::{Arch, Artifact, Os};
use libherokubuildpack::inventory::checksum::{Checksum, ChecksumParseError, Digest};
use libherokubuildpack::inventory::version::ArtifactRequirement;
use serde::{Deserialize, Serialize};
use std::cmp::Ordering;

#[derive(Debug, Clone, Copy, PartialEq, Eq, PartialOrd, Ord, Serialize, Deserialize)]
#[serde(transparent)]
struct Tv(u32);

#[derive(Debug, Clone, Copy, PartialEq, Eq, Serialize, Deserialize)]
struct Pv(u8, u8);
impl PartialOrd for Pv {
    fn partial_cmp(&self, o: &Self) -> Option<Ordering> {
        if self == o { Some(Ordering::Equal) }
        else if self.0 <= o.0 && self.1 <= o.1 { Some(Ordering::Less) }
        else if o.0 <= self.0 && o.1 <= self.1 { Some(Ordering::Greater) }
        else { None }
    }
}

type Md = Option<u8>;

struct D2;
impl Digest for D2 { fn name_compatible(n: &str) -> bool { n == "d2" } fn length_compatible(l: usize) -> bool { l == 2 } }
struct S32;
impl Digest for S32 { fn name_compatible(n: &str) -> bool { n == "sha256" } fn length_compatible(l: usize) -> bool { l == 32 } }

/// requirement: a set of accepted versions (None = any) and a metadata condition (None = any)
struct Q<V> { versions: Option<Vec<V>>, meta: Option<Md> }
macro_rules! req_impl { ($v:ty) => {
impl ArtifactRequirement<$v, Md> for Q<$v> {
    fn satisfies_metadata(&self, m: &Md) -> bool { self.meta.as_ref().map(|w| w == m).unwrap_or(true) }
    fn satisfies_version(&self, v: &$v) -> bool { self.versions.as_ref().map(|vs| vs.contains(v)).unwrap_or(true) }
} } }
req_impl!(Tv);
req_impl!(Pv);

fn p_os(s: &str) -> Os { match s { "l" => Os::Linux, "d" => Os::Darwin, _ => panic!("os") } }
fn p_arch(s: &str) -> Arch { match s { "x" => Arch::Amd64, "a" => Arch::Arm64, _ => panic!("arch") } }
fn p_meta(s: &str) -> Md { match s { "n" => None, "0" => Some(0), "1" => Some(1), _ => panic!("meta") } }
fn p_tv(s: &str) -> Tv { Tv(s.parse().unwrap()) }
fn p_pv(s: &str) -> Pv { let (a, b) = s.split_once('.').unwrap(); Pv(a.parse().unwrap(), b.parse().unwrap()) }

fn inventory<V>(arts: &str, pv: fn(&str) -> V) -> Inventory<V, (), Md> {
    let mut inv = Inventory::new();
    for (i, a) in split_list(arts, ",").iter().enumerate() {
        let p: Vec<&str> = a.split('/').collect();
        assert!(p.len() == 4);
        inv.push(Artifact { version: pv(p[0]), os: p_os(p[1]), arch: p_arch(p[2]), url: i.to_string(), checksum: "any:00".parse::<Checksum<()>>().unwrap(), metadata: p_meta(p[3]) });
    }
    inv
}

fn query<V>(q: &str, pv: fn(&str) -> V) -> (Os, Arch, Q<V>) {
    let p: Vec<&str> = q.split('/').collect();
    assert!(p.len() == 4);
    let versions = match p[2] { "*" => None, "~" => Some(vec![]), vs => Some(vs.split('+').map(pv).collect()) };
    let meta = if p[3] == "*" { None } else { Some(p_meta(p[3])) };
    (p_os(p[0]), p_arch(p[1]), Q { versions, meta })
}

fn res<V>(r: Option<&Artifact<V, (), Md>>) -> String { r.map(|a| a.url.clone()).unwrap_or_else(|| "none".into()) }

fn roundtrip<V: Serialize + serde::de::DeserializeOwned + Eq>(inv: &Inventory<V, (), Md>) -> String {
    let text = inv.to_string();
    match text.parse::<Inventory<V, (), Md>>() {
        Ok(back) => if back.artifacts == inv.artifacts && back.to_string() == text { "rt=1".into() } else { "rt=0".into() },
        Err(_) => "rt=parse-error".into(),
    }
}

fn run_case(f: &[String]) -> String {
    match f[0].as_str() {
        "T" => {
            let inv = inventory(&f[1], p_tv);
            let qs: Vec<_> = split_list(&f[2], ",").iter().map(|q| query(q, p_tv)).collect();
            let r: Vec<String> = qs.iter().map(|(os, arch, q)| res(inv.resolve(*os, *arch, q))).collect();
            let p: Vec<String> = qs.iter().map(|(os, arch, q)| res(inv.partial_resolve(*os, *arch, q))).collect();
            format!("r={};p={};{}", join(",", &r), join(",", &p), roundtrip(&inv))
        }
        "P" => {
            let inv = inventory(&f[1], p_pv);
            let qs: Vec<_> = split_list(&f[2], ",").iter().map(|q| query(q, p_pv)).collect();
            let p: Vec<String> = qs.iter().map(|(os, arch, q)| res(inv.partial_resolve(*os, *arch, q))).collect();
            format!("r=-;p={};{}", join(",", &p), roundtrip(&inv))
        }
        "F" => {
            let mut inv: Inventory<Tv, (), Md> = Inventory::new();
            for a in split_list(&f[1], ",") {
                let p: Vec<&str> = a.split('/').collect();
                assert!(p.len() == 6);
                let url = String::from_utf8(unhex(p[4]).unwrap()).unwrap();
                let ck = String::from_utf8(unhex(p[5]).unwrap()).unwrap();
                inv.push(Artifact { version: p_tv(p[0]), os: p_os(p[1]), arch: p_arch(p[2]), url, checksum: ck.parse::<Checksum<()>>().unwrap(), metadata: p_meta(p[3]) });
            }
            let rt = roundtrip(&inv);
            // what the rendered TOML holds, read with the toml crate's generic value type
            let doc: toml::Value = inv.to_string().parse().unwrap();
            let mut enc = vec![];
            for t in doc.get("artifacts").and_then(|a| a.as_array()).cloned().unwrap_or_default() {
                let s = |k: &str| hex(t.get(k).and_then(|v| v.as_str()).unwrap_or("?MISSING").as_bytes());
                let ver = t.get("version").and_then(toml::Value::as_integer).map(|i| i.to_string()).unwrap_or_else(|| "?".into());
                let md = match t.get("metadata") { None => "n".to_string(), Some(v) => v.as_integer().map(|i| i.to_string()).unwrap_or_else(|| "?".into()) };
                enc.push(format!("{}|{}|{}|{}|{}|{}", s("os"), s("arch"), s("url"), s("checksum"), ver, md));
            }
            format!("{rt};enc={}", join(",", &enc))
        }
        "K" => {
            assert!(f[1] == "-" && f[2] == "-");
            let s = String::from_utf8(unhex(&f[4]).unwrap()).unwrap();
            fn show<D: Digest>(r: Result<Checksum<D>, ChecksumParseError>) -> String {
                match r {
                    Ok(c) => {
                        let rendered = serde_json::to_value(&c).ok().and_then(|v| v.as_str().map(str::to_string)).unwrap_or_else(|| "?".into());
                        format!("ok:{}:{}:{}", hex(c.name.as_bytes()), hex(&c.value), hex(rendered.as_bytes()))
                    }
                    Err(ChecksumParseError::MissingPrefix) => "err:missing-prefix".into(),
                    Err(ChecksumParseError::IncompatiblePrefix(_)) => "err:incompatible-prefix".into(),
                    Err(ChecksumParseError::InvalidValue(_)) => "err:invalid-value".into(),
                    Err(ChecksumParseError::InvalidChecksumLength(_)) => "err:invalid-length".into(),
                }
            }
            match f[3].as_str() {
                "d2" => show(s.parse::<Checksum<D2>>()),
                "s32" => show(s.parse::<Checksum<S32>>()),
                "any" => show(s.parse::<Checksum<()>>()),
                _ => panic!("digest"),
            }
        }
        _ => panic!("kind"),
    }
}

// ------------------------------------------------------------------------------------------------ generators
fn resolve_case(kind: &str, arts: &[String], queries: &[String], tag: &str) -> Case {
    // several candidates for some query: two artifacts with the same os/arch
    let key = |a: &String| { let p: Vec<&str> = a.split('/').collect(); (p[1].to_string(), p[2].to_string()) };
    let ver = |a: &String| a.split('/').next().unwrap().to_string();
    let mut several = false; let mut ties = false; let mut incomparable = false;
    for (i, a) in arts.iter().enumerate() { for b in &arts[i + 1..] { if key(a) == key(b) {
        several = true;
        if ver(a) == ver(b) { ties = true; }
        if kind == "P" { let (x, y) = (p_pv(&ver(a)), p_pv(&ver(b))); if x.partial_cmp(&y).is_none() { incomparable = true; } }
    } } }
    Case { fields: vec![kind.into(), join(",", arts), join(",", queries)],
           tags: vec![("kind".into(), tag.into()), ("artifacts".into(), arts.len().to_string()), ("several".into(), u8::from(several).to_string()),
                      ("ties".into(), u8::from(ties).to_string()), ("incomparable".into(), u8::from(incomparable).to_string())],
           nontrivial: several }
}

fn sequences(kinds: &[String], max_len: usize, emit: &mut dyn FnMut(&[String])) {
    fn rec(kinds: &[String], left: usize, cur: &mut Vec<String>, emit: &mut dyn FnMut(&[String])) {
        emit(cur);
        if left == 0 { return; }
        for k in kinds { cur.push(k.clone()); rec(kinds, left - 1, cur, emit); cur.pop(); }
    }
    rec(kinds, max_len, &mut vec![], emit);
}

fn subsets(vs: &[&str]) -> Vec<String> {
    let n = vs.len();
    (0u32..(1 << n)).map(|m| { let sel: Vec<&str> = (0..n).filter(|i| m >> i & 1 == 1).map(|i| vs[i]).collect(); if sel.is_empty() { "~".into() } else if sel.len() == n { "*".into() } else { sel.join("+") } }).collect()
}

fn k_case(dg: &str, s: &[u8], tag: &str) -> Case {
    Case { fields: vec!["K".into(), "-".into(), "-".into(), dg.into(), hex(s)],
           tags: vec![("kind".into(), tag.into()), ("digest".into(), dg.into()), ("colons".into(), s.iter().filter(|b| **b == b':').count().min(3).to_string()), ("len".into(), s.len().min(70).to_string())],
           nontrivial: s.contains(&b':') }
}

fn generate(tier: &str, seed: u64, emit: &mut dyn FnMut(Case)) {
    let thorough = tier == "thorough";
    // ---- T: totally ordered versions ----
    let tq: Vec<String> = { let mut q = vec![]; for os in ["l", "d"] { for arch in ["x", "a"] { for vs in subsets(&["0", "1", "2"]) { q.push(format!("{os}/{arch}/{vs}/*")); } } } q };
    let kinds12: Vec<String> = { let mut k = vec![]; for v in ["0", "1", "2"] { for os in ["l", "d"] { for arch in ["x", "a"] { k.push(format!("{v}/{os}/{arch}/n")); } } } k };
    sequences(&kinds12, 4, &mut |arts| emit(resolve_case("T", arts, &tq, "T-exh")));
    if thorough {
        let kinds6: Vec<String> = { let mut k = vec![]; for v in ["0", "1", "2"] { for os in ["l", "d"] { k.push(format!("{v}/{os}/x/n")); } } k };
        sequences(&kinds6, 6, &mut |arts| if arts.len() >= 5 { emit(resolve_case("T", arts, &tq, "T-exh6")) });
    }
    // ---- P: pairs under the product order ----
    let pvs = ["0.0", "0.1", "1.0", "1.1"];
    let pq: Vec<String> = { let mut q = vec![]; for os in ["l", "d"] { for arch in ["x", "a"] { for vs in subsets(&pvs) { q.push(format!("{os}/{arch}/{vs}/*")); } } } q };
    let kinds8: Vec<String> = { let mut k = vec![]; for v in pvs { for os in ["l", "d"] { k.push(format!("{v}/{os}/x/n")); } } k };
    sequences(&kinds8, 4, &mut |arts| emit(resolve_case("P", arts, &pq, "P-exh")));
    if thorough {
        let kinds4: Vec<String> = pvs.iter().map(|v| format!("{v}/l/x/n")).collect();
        sequences(&kinds4, 6, &mut |arts| if arts.len() >= 5 { emit(resolve_case("P", arts, &pq, "P-exh6")) });
    }
    // ---- sampled: metadata, larger grids, longer inventories ----
    let samples = if thorough { 60_000 } else { 4_000 };
    for idx in 0..samples {
        let mut r = Rng::for_case(seed, idx);
        let partial = r.chance(1, 2);
        let n = r.below(9) as usize;
        let ver = |r: &mut Rng| if partial { format!("{}.{}", r.below(3), r.below(3)) } else { r.below(4).to_string() };
        let arts: Vec<String> = (0..n).map(|_| format!("{}/{}/{}/{}", ver(&mut r), if r.chance(3, 4) { "l" } else { "d" }, if r.chance(3, 4) { "x" } else { "a" }, r.pick(&["n", "0", "1"]))).collect();
        let nq = r.range(1, 6);
        let qs: Vec<String> = (0..nq).map(|_| {
            let vs = if r.chance(1, 3) { "*".to_string() } else { let k = r.range(1, 5); let mut v: Vec<String> = (0..k).map(|_| ver(&mut r)).collect(); v.dedup(); v.join("+") };
            format!("{}/{}/{}/{}", if r.chance(3, 4) { "l" } else { "d" }, if r.chance(3, 4) { "x" } else { "a" }, vs, r.pick(&["*", "*", "n", "0", "1"]))
        }).collect();
        emit(resolve_case(if partial { "P" } else { "T" }, &arts, &qs, if partial { "P-rnd" } else { "T-rnd" }));
    }
    // ---- F: TOML rendering and round trip ----
    let urls: [&str; 8] = ["https://example.com/a.tgz", "", "a\"b", "line1\nline2", "tab\there", "ünï©ode ✓", "back\\slash", "'single' # not a comment"];
    let cks: [&str; 8] = ["sha256:00ff", ":", "x:", "d2:0aFf", "a b:00", "ü:FFfe", "[t]:0123456789abcdef", "=:00"];
    let nf = if thorough { 20_000 } else { 1_500 };
    for idx in 0..nf {
        let mut r = Rng::for_case(seed ^ 0xF, idx);
        let n = r.below(6) as usize;
        let arts: Vec<String> = (0..n).map(|_| format!("{}/{}/{}/{}/{}/{}", *r.pick(&[0u32, 1, 7, 4294967295]), r.pick(&["l", "d"]), r.pick(&["x", "a"]), r.pick(&["n", "0", "1"]), { let u = *r.pick(&urls); if u.is_empty() { "".to_string() } else { hex(u.as_bytes()) } }, hex(r.pick(&cks).as_bytes()))).collect();
        emit(Case { fields: vec!["F".into(), join(",", &arts), "-".into()], tags: vec![("kind".into(), "F".into()), ("artifacts".into(), n.to_string())], nontrivial: n >= 1 });
    }
    // ---- K: checksum strings ----
    // exhaustive around the valid length for D2 (2 bytes = 4 digits): prefixes x bodies over {0, a, F, g} of length 0..=5 (6 thorough)
    let prefixes: [&str; 11] = ["d2:", "d2", "", "d3:", "D2:", ":", "d2::", "d2:d2:", " d2:", "d2 :", "sha256:"];
    let alpha = [b'0', b'a', b'F', b'g'];
    let maxb = if thorough { 6 } else { 5 };
    for p in prefixes {
        for n in 0..=maxb {
            for code in 0..(4usize.pow(n as u32)) {
                let mut s = p.as_bytes().to_vec();
                let mut c = code;
                for _ in 0..n { s.push(alpha[c % 4]); c /= 4; }
                emit(k_case("d2", &s, "K-exh-d2"));
            }
        }
    }
    // wider non-hex alphabet: every body over {0, a, F, g, +, -, ' ', x} of length <= 4 (5 thorough) after "d2:"
    let alpha8 = [b'0', b'a', b'F', b'g', b'+', b'-', b' ', b'x'];
    let maxw = if thorough { 5 } else { 4 };
    for n in 0..=maxw {
        for code in 0..(8usize.pow(n as u32)) {
            let mut s = b"d2:".to_vec();
            let mut c = code;
            for _ in 0..n { s.push(alpha8[c % 8]); c /= 8; }
            emit(k_case("d2", &s, "K-exh-wide"));
        }
    }
    // special characters (sign, blank, tab, underscore, x/X as in "0x", non-hex letters, NUL, 2- and 3-byte characters) at every
    // position - even and odd offsets - of bodies of 1..=5 slots, one or two specials per body, the other slots hex digits
    let specials: [&str; 15] = ["+", "-", " ", "\t", "_", "x", "X", "g", "G", "\0", "é", "✓", "０", ":", "."];
    let fill = ["0", "a", "F", "f", "1"];
    for n in 1..=5usize {
        for p1 in 0..n { for p2 in p1..n { for s1 in specials { for s2 in specials {
            if p1 == p2 && s1 != s2 { continue; }
            let body: String = (0..n).map(|i| if i == p1 { s1 } else if i == p2 { s2 } else { fill[i] }).collect();
            for dg in ["d2", "any"] {
                let name = if dg == "d2" { "d2" } else { "sha256" };
                emit(k_case(dg, format!("{name}:{body}").as_bytes(), "K-special-body"));
            }
        } } } }
    }
    // the same in the algorithm-name part (inserted at / replacing every position of the name), valid digest
    for s1 in specials {
        for pos in 0..=2usize {
            let ins: String = format!("{}{}{}", &"d2"[..pos], s1, &"d2"[pos..]);
            let rep: String = if pos < 2 { format!("{}{}{}", &"d2"[..pos], s1, &"d2"[pos + 1..]) } else { s1.to_string() };
            for name in [ins, rep] { for dg in ["d2", "any"] { emit(k_case(dg, format!("{name}:0aFf").as_bytes(), "K-special-name")); } }
        }
    }
    // 32-byte digest: a valid 64-digit string with one special at every offset (multi-byte ones replace as many digits as they
    // have bytes, so the byte length stays 64), and a sign in front of every pair
    let valid64: String = (0..64).map(|i| char::from(b"0123456789abcdefABCDEF"[(i * 7) % 22])).collect();
    for sp in specials {
        for p in 0..64usize {
            if p + sp.len() > 64 { continue; }
            let body = format!("{}{}{}", &valid64[..p], sp, &valid64[p + sp.len()..]);
            emit(k_case("s32", format!("sha256:{body}").as_bytes(), "K-special-s32"));
        }
    }
    for sign in ["+", "-"] { emit(k_case("s32", format!("sha256:{}", format!("{sign}a").repeat(32)).as_bytes(), "K-special-s32")); }
    // sampled: the 32-byte digest and the unconstrained digest, lengths around 64 digits
    let nk = if thorough { 60_000 } else { 6_000 };
    for idx in 0..nk {
        let mut r = Rng::for_case(seed ^ 0xC, idx);
        let dg = *r.pick(&["s32", "any", "d2"]);
        let name: &str = *r.pick(&["sha256", "sha256", "sha512", "", "d2", "SHA256", "sha256 ", "a:b"]);
        let target: i64 = match dg { "s32" => 64, "d2" => 4, _ => *r.pick(&[0i64, 2, 8, 64]) };
        let len = (target + *r.pick(&[0i64, 0, 0, -2, -1, 1, 2])).max(0) as usize;
        let bad = r.chance(1, 4);
        let mut s = name.as_bytes().to_vec();
        if !r.chance(1, 12) { s.push(b':'); }
        let pos_bad = r.below(len.max(1) as u64) as usize;
        let pos_bad2 = r.below(len.max(1) as u64) as usize;
        let two = r.chance(1, 3);
        for i in 0..len { s.push(if bad && (i == pos_bad || (two && i == pos_bad2)) { *r.pick(&[b'g', b' ', b':', b'x', b'-', b'+', b'\t', b'_', b'X', 0u8, b'.']) } else { *r.pick(b"0123456789abcdefABCDEF") }); }
        emit(k_case(dg, &s, "K-rnd"));
    }
}

fn main() { main_loop_jobs("c18", 4, &generate, &run_case); }
