//! C19 correspondence.
//! A: real `mapped` / `line_mapped` / `tee` (libherokubuildpack::write) fed every chunking of every small input.
//! B: real `CommandExt::output_and_write_streams` (libherokubuildpack::command) on the scripted `child` binary,
//!    under a watchdog.
use cnbv::*;
use libherokubuildpack::command::CommandExt;
use libherokubuildpack::write::mappers::add_prefix;
use libherokubuildpack::write::{line_mapped, mapped, tee};
use std::io::Write;
use std::sync::atomic::{AtomicBool, Ordering};
use std::time::Duration;

// ------------------------------------------------------------------------------------------------ A
fn parse_chunks(s: &str) -> Vec<Vec<u8>> { split_list(s, ",").iter().map(|c| if *c == "_" { vec![] } else { unhex(c).unwrap() }).collect() }

/// A target with scripted short writes: `f` accepts everything, `s<k>` at most k bytes per call, `a<k>` everything on odd calls
/// and at most k on even calls; `i<n>`: every n-th call fails with `Interrupted`. Never `Ok(0)` for a non-empty buffer.
/// Calls are counted only for non-empty buffers.
struct Scripted { data: Vec<u8>, mode: u8, k: usize, intr: usize, calls: usize }
impl Scripted {
    fn parse(spec: &str) -> Scripted {
        let mode = spec.as_bytes()[0];
        assert!(matches!(mode, b'f' | b's' | b'a'));
        let rest = &spec[1..];
        let (ks, ns) = match rest.split_once('i') { Some((a, b)) => (a, Some(b)), None => (rest, None) };
        let k = if mode == b'f' { assert!(ks.is_empty()); 0 } else { let k: usize = ks.parse().unwrap(); assert!(k >= 1); k };
        let intr = ns.map(|n| { let n: usize = n.parse().unwrap(); assert!(n >= 2); n }).unwrap_or(0);
        Scripted { data: vec![], mode, k, intr, calls: 0 }
    }
}
impl Write for Scripted {
    fn write(&mut self, buf: &[u8]) -> std::io::Result<usize> {
        if buf.is_empty() { return Ok(0); }
        self.calls += 1;
        if self.intr > 0 && self.calls % self.intr == 0 { return Err(std::io::Error::from(std::io::ErrorKind::Interrupted)); }
        let n = match self.mode { b'f' => buf.len(), b's' => self.k.min(buf.len()), _ => if self.calls % 2 == 1 { buf.len() } else { self.k.min(buf.len()) } };
        self.data.extend_from_slice(&buf[..n]);
        Ok(n)
    }
    fn flush(&mut self) -> std::io::Result<()> { Ok(()) }
}
fn writers(spec: &str, n: usize) -> Vec<Scripted> {
    if spec == "-" { (0..n).map(|_| Scripted::parse("f")).collect() } else { let v: Vec<Scripted> = spec.split('/').map(Scripted::parse).collect(); assert!(v.len() == n); v }
}

/// feed the chunks as `write_all` / `io::copy` do: repeat `write` until the chunk is taken, retry on `Interrupted`.
/// `ret_ok` records whether every call took its whole buffer at once.
fn feed<W: Write>(w: &mut W, chunks: &[Vec<u8>], ret_ok: &mut bool) {
    for c in chunks {
        if c.is_empty() { if !matches!(w.write(c), Ok(0)) { *ret_ok = false; } continue; }
        let mut rest: &[u8] = c;
        let mut guard = 0;
        while !rest.is_empty() {
            guard += 1;
            if guard > 100_000 { panic!("write makes no progress"); }
            match w.write(rest) {
                Ok(0) => panic!("write returned Ok(0)"),
                Ok(n) => { if n < rest.len() { *ret_ok = false; } rest = &rest[n..]; }
                Err(e) if e.kind() == std::io::ErrorKind::Interrupted => { *ret_ok = false; }
                Err(_) => panic!("write failed"),
            }
        }
    }
}

fn run_a(f: &[String]) -> String {
    let marker = unhex(&f[1]).unwrap();
    assert!(marker.len() == 1);
    let marker = marker[0];
    let prefix = if f[2] == "-" { vec![] } else { unhex(&f[2]).unwrap() };
    let chunks = parse_chunks(&f[3]);
    let wspec = f.get(4).map(String::as_str).unwrap_or("-");
    assert!(f.len() <= 5);
    let inner = |i: usize| writers(wspec, 3).swap_remove(i);
    let mut ret_ok = true;
    // dropped
    let mut dropped = inner(2);
    { let mut w = mapped(&mut dropped, marker, add_prefix(prefix.clone())); feed(&mut w, &chunks, &mut ret_ok); }
    // unwrapped
    let mut w = mapped(inner(2), marker, add_prefix(prefix.clone()));
    feed(&mut w, &chunks, &mut ret_ok);
    let unwrapped = w.unwrap();
    // line_mapped, dropped
    let mut line = inner(2);
    { let mut w = line_mapped(&mut line, add_prefix(prefix.clone())); feed(&mut w, &chunks, &mut ret_ok); }
    // tee
    let (mut a, mut b) = (inner(0), inner(1));
    { let mut t = tee(&mut a, &mut b); feed(&mut t, &chunks, &mut ret_ok); let _ = t.flush(); }
    format!("drop={};unwrap={};line={};teea={};teeb={};ret={}", hex(&dropped.data), hex(&unwrapped.data), hex(&line.data), hex(&a.data), hex(&b.data), u8::from(ret_ok))
}

// ------------------------------------------------------------------------------------------------ B
fn fnv(b: &[u8]) -> u64 { let mut h: u64 = 0xcbf29ce484222325; for x in b { h ^= u64::from(*x); h = h.wrapping_mul(0x100000001b3); } h }
fn digest(b: &[u8]) -> String { format!("{}:{}", b.len(), fnv(b)) }

/// set after a timeout was confirmed (two attempts of 60 s) in this process: later cases get 2 s and no retry,
/// so that a deadlocking implementation does not cost two minutes per case
static CONFIRMED_TIMEOUT: AtomicBool = AtomicBool::new(false);
const LIMIT: Duration = Duration::from_secs(60);
const LIMIT_AFTER_CONFIRMED: Duration = Duration::from_secs(2);

fn attempt(mode: &str, wspec: &str, items: &str, limit: Duration) -> String {
    let child = std::env::current_exe().unwrap().parent().unwrap().join("child");
    let dir = tempfile::tempdir().unwrap();
    let pidfile = dir.path().join("pid");
    let (tx, rx) = std::sync::mpsc::channel();
    let (mode2, items2, pidfile2, wspec2) = (mode.to_string(), items.to_string(), pidfile.clone(), wspec.to_string());
    let th = std::thread::spawn(move || {
        let mut ws = writers(&wspec2, 2);
        let mut we = ws.pop().unwrap();
        let mut wo = ws.pop().unwrap();
        let r = std::process::Command::new(child).arg(mode2).arg(items2).env("CNBV_PIDFILE", pidfile2).stdin(std::process::Stdio::null())
            .output_and_write_streams(&mut wo, &mut we);
        let _ = tx.send((r, wo.data, we.data));
    });
    let res = match rx.recv_timeout(limit) {
        Ok((Ok(out), wo, we)) => format!("o={}/{};e={}/{};status={}", digest(&out.stdout), digest(&wo), digest(&out.stderr), digest(&we), out.status.code().map(|c| c.to_string()).unwrap_or_else(|| "signal".into())),
        Ok((Err(_), _, _)) => "err:io".to_string(),
        Err(_) => {
            // watchdog: kill the child so that the pipes close and the blocked call returns
            if let Ok(p) = std::fs::read_to_string(&pidfile) { let _ = std::process::Command::new("kill").arg("-9").arg(p.trim()).status(); }
            "timeout".to_string()
        }
    };
    let _ = th.join();
    res
}

fn run_b(f: &[String]) -> String {
    let (mode, wspec, items) = (f[1].as_str(), f[2].as_str(), f[3].as_str());
    assert!(mode == "seq" || mode == "par");
    assert!(f.len() == 4);
    let _ = writers(wspec, 2);
    if CONFIRMED_TIMEOUT.load(Ordering::SeqCst) { return attempt(mode, wspec, items, LIMIT_AFTER_CONFIRMED); }
    let r = attempt(mode, wspec, items, LIMIT);
    if r != "timeout" { return r; }
    // retried once, alone (cases run one at a time in this binary)
    let r = attempt(mode, wspec, items, LIMIT);
    if r == "timeout" { CONFIRMED_TIMEOUT.store(true, Ordering::SeqCst); }
    r
}

fn run_case(f: &[String]) -> String {
    match f[0].as_str() { "A" => run_a(f), "B" => run_b(f), _ => panic!("kind") }
}

// ------------------------------------------------------------------------------------------------ generators
fn chunks_field(chunks: &[Vec<u8>]) -> String { join(",", &chunks.iter().map(|c| if c.is_empty() { "_".to_string() } else { hex(c) }).collect::<Vec<_>>()) }

fn case_a(marker: u8, prefix: &[u8], chunks: &[Vec<u8>], wspec: &str, kind: &str) -> Case {
    let input: Vec<u8> = chunks.concat();
    let markers = input.iter().filter(|b| **b == marker).count();
    let rem_empty = input.last().map(|b| *b == marker).unwrap_or(true);
    // a chunk boundary strictly inside a segment (between two bytes the first of which is not a marker)
    let mut pos = 0;
    let mut inside = false;
    for c in &chunks[..chunks.len().saturating_sub(1)] { pos += c.len(); if pos > 0 && pos < input.len() && input[pos - 1] != marker { inside = true; } }
    Case {
        fields: vec!["A".into(), hex(&[marker]), if prefix.is_empty() { "-".into() } else { hex(prefix) }, chunks_field(chunks), wspec.into()],
        tags: vec![("kind".into(), kind.into()), ("len".into(), input.len().min(20).to_string()), ("chunks".into(), chunks.len().min(12).to_string()),
                   ("markers".into(), markers.min(5).to_string()), ("rem_empty".into(), u8::from(rem_empty).to_string()), ("split_in_seg".into(), u8::from(inside).to_string()), ("writers".into(), if wspec == "-" { "plain".into() } else { "short".to_string() })],
        nontrivial: markers >= 1 && chunks.len() >= 2 && inside,
    }
}

fn case_b(mode: &str, items: &[(bool, usize, usize, u64)], kind: &str) -> Case { case_bw(mode, "-", items, kind) }
fn case_bw(mode: &str, wspec: &str, items: &[(bool, usize, usize, u64)], kind: &str) -> Case {
    let so: usize = items.iter().filter(|i| !i.0).map(|i| i.1).sum();
    let se: usize = items.iter().filter(|i| i.0).map(|i| i.1).sum();
    let bucket = |n: usize| if n == 0 { "0" } else if n <= 65536 { "le1buf" } else if n <= 131072 { "le2buf" } else { "gt2buf" };
    Case {
        fields: vec!["B".into(), mode.into(), wspec.into(), join(";", &items.iter().map(|(st, l, s, d)| format!("{}.{l}.{s}.{d}", if *st { "e" } else { "o" })).collect::<Vec<_>>())],
        tags: vec![("kind".into(), kind.into()), ("stdout".into(), bucket(so).into()), ("stderr".into(), bucket(se).into()), ("items".into(), items.len().min(9).to_string()),
                   ("delays".into(), u8::from(items.iter().any(|i| i.3 > 0)).to_string()), ("writers".into(), if wspec == "-" { "plain".into() } else { "short".to_string() })],
        nontrivial: (so > 0 && se > 0) || so > 65536 || se > 65536,
    }
}

/// all compositions of `s` into non-empty chunks
fn chunkings(s: &[u8], emit: &mut dyn FnMut(Vec<Vec<u8>>)) {
    if s.is_empty() { emit(vec![]); return; }
    let n = s.len();
    for mask in 0u32..(1 << (n - 1)) {
        let mut chunks = vec![];
        let mut cur = vec![s[0]];
        for i in 1..n { if mask >> (i - 1) & 1 == 1 { chunks.push(std::mem::take(&mut cur)); } cur.push(s[i]); }
        chunks.push(cur);
        emit(chunks);
    }
}

fn generate(tier: &str, seed: u64, emit: &mut dyn FnMut(Case)) {
    let thorough = tier == "thorough";
    // A1. exhaustive: every string over {marker, other} up to length n1 x every chunking, marker = '\n' (so `mapped` and `line_mapped` agree)
    //     and up to length n2 with marker = 'a', other = '\n' (so they differ)
    let (n1, n2) = if thorough { (10, 8) } else { (9, 7) };
    for (marker, other, nmax, kind) in [(b'\n', b'a', n1, "A-exh-nl"), (b'a', b'\n', n2, "A-exh-a")] {
        for n in 0..=nmax {
            for bits in 0u32..(1 << n) {
                let s: Vec<u8> = (0..n).map(|i| if bits >> i & 1 == 1 { marker } else { other }).collect();
                chunkings(&s, &mut |chunks| emit(case_a(marker, b"> ", &chunks, "-", kind)));
            }
        }
    }
    // A1s. the same with short-writing / interrupted targets (first tee target / second tee target / inner writer of the mapped
    //      writers): every string of length <= 6 (7 thorough) x every chunking x these writer configurations
    const WCFG: &[&str] = &["s1/f/f", "f/s1/f", "f/f/s1", "s2/s3/s7", "s3/s2/s1", "s7/s1/a2", "a1/a3/s2", "s1i3/f/s2i2", "f/s2i3/fi2", "a7i2/s3i5/a1i3", "s3/s3/s3", "a2/a2/f"];
    let ns = if thorough { 7 } else { 6 };
    for n in 1..=ns {
        for bits in 0u32..(1 << n) {
            let s: Vec<u8> = (0..n).map(|i| if bits >> i & 1 == 1 { b'\n' } else { b'a' }).collect();
            chunkings(&s, &mut |chunks| for w in WCFG { emit(case_a(b'\n', b"> ", &chunks, w, "A-exh-short")); });
        }
    }
    // A2. sampled: longer inputs, three symbols, empty chunks, other markers and prefixes (also a prefix containing the marker)
    let samples = if thorough { 200_000 } else { 15_000 };
    for idx in 0..samples {
        let mut r = Rng::for_case(seed, idx);
        let marker = *r.pick(&[b'\n', 0u8, 0xff, b'a']);
        let others = [b'b', if marker == b'\n' { b'\r' } else { b'\n' }];
        let prefix: &[u8] = *r.pick(&[&b"> "[..], &b""[..], &b"\n"[..], &[0xffu8, 0][..], &b"[stdout] "[..]]);
        let lmax = if r.chance(1, 8) { 60 } else { 16 };
        let len = r.below(lmax) as usize;
        let pm = r.range(1, 3);
        let input: Vec<u8> = (0..len).map(|_| if r.chance(pm, 4) { marker } else { *r.pick(&others) }).collect();
        let mut chunks = vec![];
        let mut cur = vec![];
        for b in &input { cur.push(*b); if r.chance(1, 3) { chunks.push(std::mem::take(&mut cur)); while r.chance(1, 6) { chunks.push(vec![]); } } }
        if !cur.is_empty() || r.chance(1, 4) { chunks.push(cur); }
        let wspec = if r.chance(1, 2) { "-".to_string() } else {
            let one = |r: &mut Rng| { let m = *r.pick(&["f", "s", "a"]); let k = *r.pick(&[1u32, 2, 3, 7]); let i = if r.chance(1, 3) { format!("i{}", r.range(2, 5)) } else { String::new() }; if m == "f" { format!("f{i}") } else { format!("{m}{k}{i}") } };
            format!("{}/{}/{}", one(&mut r), one(&mut r), one(&mut r)) };
        emit(case_a(marker, prefix, &chunks, &wspec, "A-rnd"));
    }
    // B. scripted children. 65536 = capacity of a Linux pipe.
    const BUF: usize = 65536;
    let sizes: Vec<usize> = if thorough { vec![0, 1, 4096, BUF - 1, BUF, BUF + 1, 2 * BUF, 2 * BUF + 1, 3 * BUF + 17, 4 * BUF] } else { vec![0, 1, BUF, BUF + 1, 3 * BUF + 17, 4 * BUF] };
    // one stream first, then the other
    for &a in &sizes { for &b in &sizes {
        emit(case_b("seq", &[(false, a, 1, 0), (true, b, 2, 0)], "B-stdout-first"));
        emit(case_b("seq", &[(true, b, 3, 0), (false, a, 4, 0)], "B-stderr-first"));
    } }
    // alternating
    for &(k, sz) in &[(2usize, 1usize), (6, 1000), (3, BUF + 1), (4, 70000), (40, 3000)] {
        let mut items = vec![];
        for i in 0..k { items.push((false, sz, 10 + i, 0)); items.push((true, sz, 20 + i, 0)); }
        emit(case_b("seq", &items, "B-alternating"));
        let mut items2 = vec![];
        for i in 0..k { items2.push((true, sz + 1, 30 + i, 0)); items2.push((false, sz, 40 + i, 0)); }
        emit(case_b("seq", &items2, "B-alternating"));
    }
    // simultaneous
    for &a in &sizes { for &b in &[0usize, 1, BUF + 1, 4 * BUF] {
        emit(case_b("par", &[(false, a, 5, 0), (true, b, 6, 0)], "B-simultaneous"));
    } }
    emit(case_b("par", &[(false, 100_000, 5, 0), (true, 100_000, 6, 0), (false, 100_000, 7, 0), (true, 100_000, 8, 0)], "B-simultaneous"));
    // with small delays
    for &(d1, d2) in &[(5u64, 0u64), (0, 5), (20, 20)] {
        emit(case_b("seq", &[(false, BUF + 1, 1, d1), (true, BUF + 1, 2, d2), (false, 10, 3, d1)], "B-delays"));
        emit(case_b("seq", &[(true, 2 * BUF, 1, d1), (false, 2 * BUF, 2, d2), (true, 10, 3, d1)], "B-delays"));
        emit(case_b("par", &[(true, 2 * BUF, 1, d1), (false, 2 * BUF, 2, d2), (true, 10, 3, d1), (false, 10, 3, d2)], "B-delays"));
    }
    // short-writing / interrupted writers handed to output_and_write_streams (stdout writer / stderr writer)
    for w in ["s1/f", "f/s7", "s3/s2", "a2i5/s1i3", "s7i2/a3", "a1/a1"] {
        for &(a, b) in &[(1usize, 1usize), (10, 0), (0, 10), (5000, 3000), (BUF + 1, 17), (17, BUF + 1), (3 * BUF + 17, 2 * BUF)] {
            emit(case_bw("seq", w, &[(false, a, 1, 0), (true, b, 2, 0)], "B-short-writers"));
            emit(case_bw("par", w, &[(true, b, 3, 0), (false, a, 4, 0)], "B-short-writers"));
        }
    }
    emit(case_b("seq", &[], "B-silent"));
    // small scripts: the driver runs the step model itself on these
    let small = if thorough { 400 } else { 60 };
    for idx in 0..small {
        let mut r = Rng::for_case(seed ^ 0xB, idx);
        let k = r.below(6) as usize;
        let items: Vec<_> = (0..k).map(|_| (r.chance(1, 2), r.below(12) as usize, r.below(251) as usize, 0u64)).collect();
        emit(case_b(if r.chance(1, 3) { "par" } else { "seq" }, &items, "B-small"));
    }
    // sampled larger scripts
    let rnd = if thorough { 300 } else { 30 };
    for idx in 0..rnd {
        let mut r = Rng::for_case(seed ^ 0xBB, idx);
        let k = r.range(1, 6) as usize;
        let items: Vec<_> = (0..k).map(|_| (r.chance(1, 2), *r.pick(&[0usize, 1, 100, 5000, BUF, BUF + 1, 100_000, 200_000]), r.below(251) as usize, if r.chance(1, 5) { r.below(8) } else { 0 })).collect();
        emit(case_b(if r.chance(1, 3) { "par" } else { "seq" }, &items, "B-rnd"));
    }
}

fn main() { main_loop("c19", &generate, &run_case); }
