//! C19 correspondence.
//! A: real `mapped` / `line_mapped` / `tee` (libherokubuildpack::write) and their compositions, given every chunking of every
//!    small input with `flush()` calls in between.
//! B: real `CommandExt::output_and_write_streams` (libherokubuildpack::command) on the scripted `child` binary,
//!    under a watchdog.
//! M: the same and `spawn_and_write_streams` with `line_mapped` / `mapped` / `tee(line_mapped, Vec)` writers as the targets and
//!    children whose lines arrive in pieces or are longer than the copy buffer / the pipe.
//! L: both entry points on children whose process outlives its streams (closes stdout and stderr, together or one after the other,
//!    then stays alive): was the child still running when `spawn_and_write_streams` returned, and did the call return well before
//!    the child's exit ("returns once both streams close").
use cnbv::*;
use libherokubuildpack::command::CommandExt;
use libherokubuildpack::write::mappers::add_prefix;
use libherokubuildpack::write::{line_mapped, mapped, tee};
use std::io::Write;
use std::sync::atomic::{AtomicBool, Ordering};
use std::time::Duration;

// ------------------------------------------------------------------------------------------------ A
/// one call on the writer under test: `write` of a chunk or `flush()`
#[derive(Clone, PartialEq)]
enum Op { W(Vec<u8>), F }
fn parse_ops(s: &str) -> Vec<Op> { split_list(s, ",").iter().map(|c| if *c == "F" { Op::F } else if *c == "_" { Op::W(vec![]) } else { Op::W(unhex(c).unwrap()) }).collect() }

/// A target with scripted short writes: `f` accepts everything, `s<k>` at most k bytes per call, `a<k>` everything on odd calls
/// and at most k on even calls; `i<n>`: every n-th call fails with `Interrupted`. Never `Ok(0)` for a non-empty buffer.
/// Calls are counted only for non-empty buffers.
struct Scripted { data: Vec<u8>, mode: u8, k: usize, intr: usize, calls: usize, flushes: usize }
impl Scripted {
    fn parse(spec: &str) -> Scripted {
        let mode = spec.as_bytes()[0];
        assert!(matches!(mode, b'f' | b's' | b'a'));
        let rest = &spec[1..];
        let (ks, ns) = match rest.split_once('i') { Some((a, b)) => (a, Some(b)), None => (rest, None) };
        let k = if mode == b'f' { assert!(ks.is_empty()); 0 } else { let k: usize = ks.parse().unwrap(); assert!(k >= 1); k };
        let intr = ns.map(|n| { let n: usize = n.parse().unwrap(); assert!(n >= 2); n }).unwrap_or(0);
        Scripted { data: vec![], mode, k, intr, calls: 0, flushes: 0 }
    }
}
impl Write for Scripted {
    fn write(&mut self, buf: &[u8]) -> std::io::Result<usize> {
        if buf.is_empty() { return Ok(0); }
        self.calls += 1;
        if self.intr > 0 && self.calls % self.intr == 0 { return Err(std::io::Error::from(std::io::ErrorKind::Interrupted)); }
        let n = match self.mode { b'f' => buf.len(), b's' => self.k.min(buf.len()), _ => if self.calls % 2 == 1 { buf.len() } else { self.k.min(buf.len()) } };
        self.data.extend_from_slice(&buf[..n]);
        Ok(n)
    }
    fn flush(&mut self) -> std::io::Result<()> { self.flushes += 1; Ok(()) }
}
fn writers(spec: &str, n: usize) -> Vec<Scripted> {
    if spec == "-" { (0..n).map(|_| Scripted::parse("f")).collect() } else { let v: Vec<Scripted> = spec.split('/').map(Scripted::parse).collect(); assert!(v.len() == n); v }
}

/// give the ops to the writer; chunks as `write_all` / `io::copy` do: repeat `write` until the chunk is taken, retry on
/// `Interrupted`. `ret_ok` records whether every `write` call took its whole buffer at once and every `flush` returned `Ok`.
fn feed<W: Write>(w: &mut W, ops: &[Op], ret_ok: &mut bool) {
    for op in ops {
        let c = match op { Op::F => { if w.flush().is_err() { *ret_ok = false; } continue; } Op::W(c) => c };
        if c.is_empty() { if !matches!(w.write(c), Ok(0)) { *ret_ok = false; } continue; }
        let mut rest: &[u8] = c;
        let mut guard = 0;
        while !rest.is_empty() {
            guard += 1;
            if guard > 100_000 { panic!("write makes no progress"); }
            match w.write(rest) {
                Ok(0) => panic!("write returned Ok(0)"),
                Ok(n) => { if n < rest.len() { *ret_ok = false; } rest = &rest[n..]; }
                Err(e) if e.kind() == std::io::ErrorKind::Interrupted => { *ret_ok = false; }
                Err(_) => panic!("write failed"),
            }
        }
    }
}

fn run_a(f: &[String]) -> String {
    let marker = unhex(&f[1]).unwrap();
    assert!(marker.len() == 1);
    let marker = marker[0];
    let prefix = if f[2] == "-" { vec![] } else { unhex(&f[2]).unwrap() };
    let ops = parse_ops(&f[3]);
    let wspec = f.get(4).map(String::as_str).unwrap_or("-");
    assert!(f.len() <= 5);
    let inner = |i: usize| writers(wspec, 3).swap_remove(i);
    let pre = || add_prefix(prefix.clone());
    let mut ret_ok = true;
    // dropped
    let mut dropped = inner(2);
    { let mut w = mapped(&mut dropped, marker, pre()); feed(&mut w, &ops, &mut ret_ok); }
    // unwrapped
    let mut w = mapped(inner(2), marker, pre());
    feed(&mut w, &ops, &mut ret_ok);
    let unwrapped = w.unwrap();
    // line_mapped, dropped
    let mut line = inner(2);
    { let mut w = line_mapped(&mut line, pre()); feed(&mut w, &ops, &mut ret_ok); }
    // tee
    let (mut a, mut b) = (inner(0), inner(1));
    { let mut t = tee(&mut a, &mut b); feed(&mut t, &ops, &mut ret_ok); }
    // tee into mapped
    let (mut tma, mut tmb) = (inner(0), inner(2));
    { let mut t = tee(&mut tma, mapped(&mut tmb, marker, pre())); feed(&mut t, &ops, &mut ret_ok); }
    // mapped into tee
    let (mut mta, mut mtb) = (inner(0), inner(1));
    { let mut w = mapped(tee(&mut mta, &mut mtb), marker, pre()); feed(&mut w, &ops, &mut ret_ok); }
    // mapped of line_mapped
    let mut mm = inner(2);
    { let mut w = mapped(line_mapped(&mut mm, add_prefix(b"| ".to_vec())), marker, pre()); feed(&mut w, &ops, &mut ret_ok); }
    let fl: Vec<String> = [&dropped, &unwrapped, &line, &a, &b, &tma, &tmb, &mta, &mtb, &mm].iter().map(|w| w.flushes.to_string()).collect();
    format!("drop={};unwrap={};line={};teea={};teeb={};tm={}/{};mt={}/{};mm={};fl={};ret={}", hex(&dropped.data), hex(&unwrapped.data), hex(&line.data), hex(&a.data), hex(&b.data),
            hex(&tma.data), hex(&tmb.data), hex(&mta.data), hex(&mtb.data), hex(&mm.data), fl.join("."), u8::from(ret_ok))
}

// ------------------------------------------------------------------------------------------------ B
fn fnv(b: &[u8]) -> u64 { let mut h: u64 = 0xcbf29ce484222325; for x in b { h ^= u64::from(*x); h = h.wrapping_mul(0x100000001b3); } h }
fn digest(b: &[u8]) -> String { format!("{}:{}", b.len(), fnv(b)) }

/// set after a timeout was confirmed (two attempts of 60 s) in this process: later cases get 2 s and no retry,
/// so that a deadlocking implementation does not cost two minutes per case
static CONFIRMED_TIMEOUT: AtomicBool = AtomicBool::new(false);
const LIMIT: Duration = Duration::from_secs(60);
const LIMIT_AFTER_CONFIRMED: Duration = Duration::from_secs(2);

fn attempt(mode: &str, wspec: &str, items: &str, limit: Duration) -> String {
    let child = std::env::current_exe().unwrap().parent().unwrap().join("child");
    let dir = tempfile::tempdir().unwrap();
    let pidfile = dir.path().join("pid");
    let (tx, rx) = std::sync::mpsc::channel();
    let (mode2, items2, pidfile2, wspec2) = (mode.to_string(), items.to_string(), pidfile.clone(), wspec.to_string());
    let th = std::thread::spawn(move || {
        let mut ws = writers(&wspec2, 2);
        let mut we = ws.pop().unwrap();
        let mut wo = ws.pop().unwrap();
        let r = std::process::Command::new(child).arg(mode2).arg(items2).env("CNBV_PIDFILE", pidfile2).stdin(std::process::Stdio::null())
            .output_and_write_streams(&mut wo, &mut we);
        let _ = tx.send((r, wo.data, we.data));
    });
    let res = match rx.recv_timeout(limit) {
        Ok((Ok(out), wo, we)) => format!("o={}/{};e={}/{};status={}", digest(&out.stdout), digest(&wo), digest(&out.stderr), digest(&we), out.status.code().map(|c| c.to_string()).unwrap_or_else(|| "signal".into())),
        Ok((Err(_), _, _)) => "err:io".to_string(),
        Err(_) => {
            // watchdog: kill the child so that the pipes close and the blocked call returns
            if let Ok(p) = std::fs::read_to_string(&pidfile) { let _ = std::process::Command::new("kill").arg("-9").arg(p.trim()).status(); }
            "timeout".to_string()
        }
    };
    let _ = th.join();
    res
}

/// a timeout is retried once, alone (cases run one at a time in this binary); once confirmed, later cases get 2 s and no retry
fn with_retry(attempt: &dyn Fn(Duration) -> String) -> String {
    if CONFIRMED_TIMEOUT.load(Ordering::SeqCst) { return attempt(LIMIT_AFTER_CONFIRMED); }
    let r = attempt(LIMIT);
    if r != "timeout" { return r; }
    let r = attempt(LIMIT);
    if r == "timeout" { CONFIRMED_TIMEOUT.store(true, Ordering::SeqCst); }
    r
}

fn run_b(f: &[String]) -> String {
    let (mode, wspec, items) = (f[1].as_str(), f[2].as_str(), f[3].as_str());
    assert!(mode == "seq" || mode == "par");
    assert!(f.len() == 4);
    let _ = writers(wspec, 2);
    with_retry(&|limit| attempt(mode, wspec, items, limit))
}

// ------------------------------------------------------------------------------------------------ M
/// the targets handed to the entry points: `v` = a `Vec`, `l` = `line_mapped(Vec, "> ")`, `m` = `mapped(Vec, b'a', "<")`,
/// `t` = `tee(line_mapped(Vec, "> "), Vec)`. `a` (and `b` for the tee) are the `Vec`s at the bottom.
fn make_target<'a>(kind: u8, a: &'a mut Vec<u8>, b: &'a mut Vec<u8>) -> Box<dyn Write + Send + 'a> {
    match kind {
        b'v' => Box::new(a),
        b'l' => Box::new(line_mapped(a, add_prefix(b"> ".to_vec()))),
        b'm' => Box::new(mapped(a, b'a', add_prefix(b"<".to_vec()))),
        b't' => Box::new(tee(line_mapped(a, add_prefix(b"> ".to_vec())), b)),
        _ => panic!("target"),
    }
}

fn attempt_m(entry: &str, mode: &str, to: u8, te: u8, items: &str, limit: Duration) -> String {
    let child = std::env::current_exe().unwrap().parent().unwrap().join("child");
    let dir = tempfile::tempdir().unwrap();
    let pidfile = dir.path().join("pid");
    let (tx, rx) = std::sync::mpsc::channel();
    let (entry2, mode2, items2, pidfile2) = (entry.to_string(), mode.to_string(), items.to_string(), pidfile.clone());
    let th = std::thread::spawn(move || {
        let (mut oa, mut ob, mut ea, mut eb) = (vec![], vec![], vec![], vec![]);
        let r = {
            // the writers are handed over by value, as in the documented use; they are dropped (remainder emitted) inside
            let wo = make_target(to, &mut oa, &mut ob);
            let we = make_target(te, &mut ea, &mut eb);
            let mut cmd = std::process::Command::new(child);
            cmd.arg(mode2).arg(items2).env("CNBV_PIDFILE", pidfile2).stdin(std::process::Stdio::null());
            if entry2 == "out" { cmd.output_and_write_streams(wo, we).map(|o| (o.status, Some((o.stdout, o.stderr)))) }
            else { cmd.spawn_and_write_streams(wo, we).and_then(|mut c| c.wait()).map(|st| (st, None)) }
        };
        let _ = tx.send((r, oa, ob, ea, eb));
    });
    let res = match rx.recv_timeout(limit) {
        Ok((Ok((status, out)), oa, ob, ea, eb)) => {
            let part = |kind: u8, a: &[u8], b: &[u8]| if kind == b't' { format!("{}+{}", digest(a), digest(b)) } else { digest(a) };
            let (od, ed) = match &out { Some((o, e)) => (digest(o), digest(e)), None => ("-".to_string(), "-".to_string()) };
            format!("o={}/{};e={}/{};status={}", od, part(to, &oa, &ob), ed, part(te, &ea, &eb), status.code().map(|c| c.to_string()).unwrap_or_else(|| "signal".into()))
        }
        Ok((Err(_), ..)) => "err:io".to_string(),
        Err(_) => {
            if let Ok(p) = std::fs::read_to_string(&pidfile) { let _ = std::process::Command::new("kill").arg("-9").arg(p.trim()).status(); }
            "timeout".to_string()
        }
    };
    let _ = th.join();
    res
}

fn run_m(f: &[String]) -> String {
    assert!(f.len() == 5);
    let (entry, mode, targets, items) = (f[1].as_str(), f[2].as_str(), f[3].as_bytes(), f[4].as_str());
    assert!(entry == "out" || entry == "spawn");
    assert!(mode == "seq" || mode == "par");
    assert!(targets.len() == 3 && targets[1] == b'/' && b"vlmt".contains(&targets[0]) && b"vlmt".contains(&targets[2]));
    with_retry(&|limit| attempt_m(entry, mode, targets[0], targets[2], items, limit))
}


// ------------------------------------------------------------------------------------------------ L
/// items of an L script: (kind, len, seed, delay, text), kind as in child.rs: `o`, `e`, `xo`, `xe`, `xb`, `z`
fn parse_l_items(items: &str) -> Vec<(String, usize, usize, u64, bool)> {
    if items == "-" { return vec![]; }
    items.split(';').map(|it| {
        let p: Vec<&str> = it.split('.').collect();
        assert!(p.len() == 4 || (p.len() == 5 && p[4] == "t"));
        assert!(["o", "e", "xo", "xe", "xb", "z"].contains(&p[0]));
        let (len, seed, delay): (usize, usize, u64) = (p[1].parse().unwrap(), p[2].parse().unwrap(), p[3].parse().unwrap());
        if p[0] != "o" && p[0] != "e" { assert!(p.len() == 4 && len == 0 && seed == 0); }
        (p[0].to_string(), len, seed, delay, p.len() == 5)
    }).collect()
}
/// (ms the script sleeps in total, ms it sleeps after it has closed both of its streams explicitly; 0 = they close at exit)
fn l_times(items: &[(String, usize, usize, u64, bool)]) -> (u64, u64) {
    let total: u64 = items.iter().map(|i| i.3).sum();
    let (mut co, mut ce, mut after, mut both) = (false, false, 0u64, false);
    for i in items {
        if both { after += i.3; }
        match i.0.as_str() { "xo" => co = true, "xe" => ce = true, "xb" => { co = true; ce = true; } _ => {} }
        if co && ce { both = true; }
    }
    (total, after)
}
/// the child must outlive its streams by this much for the `run` / `t` parts of the observation to be reported (else `na`)
const OUTLIVE_MS: u64 = 1000;
/// `t=early`: the call returned more than this before the earliest moment the child can exit
const EARLY_MARGIN_MS: u64 = 500;

fn run_l(f: &[String]) -> String {
    assert!(f.len() == 4);
    let (entry, targets, items) = (f[1].clone(), f[2].as_bytes().to_vec(), f[3].clone());
    assert!(entry == "out" || entry == "spawn");
    assert!(targets.len() == 3 && targets[1] == b'/' && b"vlmt".contains(&targets[0]) && b"vlmt".contains(&targets[2]));
    let (to, te) = (targets[0], targets[2]);
    let (total, after) = l_times(&parse_l_items(&items));
    let child = std::env::current_exe().unwrap().parent().unwrap().join("child");
    let dir = tempfile::tempdir().unwrap();
    let pidfile = dir.path().join("pid");
    let (tx, rx) = std::sync::mpsc::channel();
    let (entry2, pidfile2) = (entry.clone(), pidfile.clone());
    let th = std::thread::spawn(move || {
        let (mut oa, mut ob, mut ea, mut eb) = (vec![], vec![], vec![], vec![]);
        let r = {
            let wo = make_target(to, &mut oa, &mut ob);
            let we = make_target(te, &mut ea, &mut eb);
            let mut cmd = std::process::Command::new(child);
            cmd.arg("seq").arg(items).env("CNBV_PIDFILE", pidfile2).stdin(std::process::Stdio::null());
            let started = std::time::Instant::now();
            if entry2 == "out" { cmd.output_and_write_streams(wo, we).map(|o| (o.status, Some((o.stdout, o.stderr)), None)) }
            else {
                cmd.spawn_and_write_streams(wo, we).and_then(|mut c| {
                    // the two facts about the moment of return; then let the child finish on its own (its status is part of the observation)
                    let elapsed = started.elapsed();
                    let running = c.try_wait().map(|s| s.is_none());
                    let st = c.wait();
                    running.and_then(|r| st.map(|st| (st, None, Some((r, elapsed)))))
                })
            }
        };
        let _ = tx.send((r, oa, ob, ea, eb));
    });
    let res = match rx.recv_timeout(LIMIT) {
        Ok((Ok((status, out, at_return)), oa, ob, ea, eb)) => {
            let part = |kind: u8, a: &[u8], b: &[u8]| if kind == b't' { format!("{}+{}", digest(a), digest(b)) } else { digest(a) };
            let (od, ed) = match &out { Some((o, e)) => (digest(o), digest(e)), None => ("-".to_string(), "-".to_string()) };
            let (run, t) = match at_return {
                Some((running, elapsed)) if after >= OUTLIVE_MS =>
                    (u8::from(running).to_string(), if (elapsed.as_millis() as u64) + EARLY_MARGIN_MS < total { "early" } else { "late" }.to_string()),
                _ => ("na".to_string(), "na".to_string()),
            };
            format!("o={}/{};e={}/{};status={};run={run};t={t}", od, part(to, &oa, &ob), ed, part(te, &ea, &eb), status.code().map(|c| c.to_string()).unwrap_or_else(|| "signal".into()))
        }
        Ok((Err(_), ..)) => "err:io".to_string(),
        Err(_) => {
            if let Ok(p) = std::fs::read_to_string(&pidfile) { let _ = std::process::Command::new("kill").arg("-9").arg(p.trim()).status(); }
            "timeout".to_string()
        }
    };
    let _ = th.join();
    res
}

/// The L cases sleep (1.5 s and more each): the L cases of a generated run are executed together, each on its own thread, when the
/// first of them is asked for; `run_case` takes the result of the same `run_l(fields)` from here. A case that was not generated in
/// this process (replay, shrinking) is run directly.
static L_BATCH: std::sync::Mutex<Vec<Vec<String>>> = std::sync::Mutex::new(vec![]);
static L_RUNNING: std::sync::Mutex<Vec<(Vec<String>, std::thread::JoinHandle<String>)>> = std::sync::Mutex::new(vec![]);
fn run_l_batched(f: &[String]) -> String {
    let batch: Vec<Vec<String>> = std::mem::take(&mut *L_BATCH.lock().unwrap());
    if !batch.is_empty() {
        let mut running = L_RUNNING.lock().unwrap();
        for fields in batch { let f2 = fields.clone(); running.push((fields, std::thread::spawn(move || run_l(&f2)))); }
    }
    let handle = { let mut running = L_RUNNING.lock().unwrap(); running.iter().position(|(k, _)| k.as_slice() == f).map(|i| running.swap_remove(i).1) };
    match handle { Some(h) => h.join().unwrap_or_else(|_| "PANIC".to_string()), None => run_l(f) }
}

fn run_case(f: &[String]) -> String {
    match f[0].as_str() { "A" => run_a(f), "B" => run_b(f), "M" => run_m(f), "L" => run_l_batched(f), _ => panic!("kind") }
}

// ------------------------------------------------------------------------------------------------ generators
fn ops_field(ops: &[Op]) -> String { join(",", &ops.iter().map(|o| match o { Op::F => "F".to_string(), Op::W(c) if c.is_empty() => "_".to_string(), Op::W(c) => hex(c) }).collect::<Vec<_>>()) }
fn ws(chunks: &[Vec<u8>]) -> Vec<Op> { chunks.iter().map(|c| Op::W(c.clone())).collect() }

fn case_a(marker: u8, prefix: &[u8], ops: &[Op], wspec: &str, kind: &str) -> Case {
    let chunks: Vec<&Vec<u8>> = ops.iter().filter_map(|o| if let Op::W(c) = o { Some(c) } else { None }).collect();
    let input: Vec<u8> = chunks.iter().flat_map(|c| c.iter().copied()).collect();
    let markers = input.iter().filter(|b| **b == marker).count();
    let rem_empty = input.last().map(|b| *b == marker).unwrap_or(true);
    // a chunk boundary strictly inside a segment (between two bytes the first of which is not a marker);
    // a flush that arrives while a partial segment is pending
    let mut pos = 0;
    let mut inside = false;
    let mut flush_in_seg = false;
    let mut writes_seen = 0;
    for o in ops {
        match o {
            Op::W(c) => { pos += c.len(); writes_seen += 1; if writes_seen < chunks.len() && pos > 0 && pos < input.len() && input[pos - 1] != marker { inside = true; } }
            Op::F => { if pos > 0 && input[pos - 1] != marker { flush_in_seg = true; } }
        }
    }
    let flushes = ops.iter().filter(|o| **o == Op::F).count();
    let double = ops.windows(2).any(|w| w[0] == Op::F && w[1] == Op::F);
    Case {
        fields: vec!["A".into(), hex(&[marker]), if prefix.is_empty() { "-".into() } else { hex(prefix) }, ops_field(ops), wspec.into()],
        tags: vec![("kind".into(), kind.into()), ("len".into(), input.len().min(20).to_string()), ("chunks".into(), chunks.len().min(12).to_string()),
                   ("markers".into(), markers.min(5).to_string()), ("rem_empty".into(), u8::from(rem_empty).to_string()), ("split_in_seg".into(), u8::from(inside).to_string()),
                   ("flushes".into(), flushes.min(4).to_string()), ("flush_in_seg".into(), u8::from(flush_in_seg).to_string()), ("flush_twice".into(), u8::from(double).to_string()),
                   ("flush_first".into(), u8::from(ops.first() == Some(&Op::F)).to_string()), ("flush_last".into(), u8::from(ops.last() == Some(&Op::F)).to_string()),
                   ("writers".into(), if wspec == "-" { "plain".into() } else { "short".to_string() })],
        nontrivial: markers >= 1 && ((chunks.len() >= 2 && inside) || flush_in_seg),
    }
}

fn case_b(mode: &str, items: &[(bool, usize, usize, u64)], kind: &str) -> Case { case_bw(mode, "-", items, kind) }
fn case_bw(mode: &str, wspec: &str, items: &[(bool, usize, usize, u64)], kind: &str) -> Case {
    let so: usize = items.iter().filter(|i| !i.0).map(|i| i.1).sum();
    let se: usize = items.iter().filter(|i| i.0).map(|i| i.1).sum();
    let bucket = |n: usize| if n == 0 { "0" } else if n <= 65536 { "le1buf" } else if n <= 131072 { "le2buf" } else { "gt2buf" };
    Case {
        fields: vec!["B".into(), mode.into(), wspec.into(), join(";", &items.iter().map(|(st, l, s, d)| format!("{}.{l}.{s}.{d}", if *st { "e" } else { "o" })).collect::<Vec<_>>())],
        tags: vec![("kind".into(), kind.into()), ("stdout".into(), bucket(so).into()), ("stderr".into(), bucket(se).into()), ("items".into(), items.len().min(9).to_string()),
                   ("delays".into(), u8::from(items.iter().any(|i| i.3 > 0)).to_string()), ("writers".into(), if wspec == "-" { "plain".into() } else { "short".to_string() })],
        nontrivial: (so > 0 && se > 0) || so > 65536 || se > 65536,
    }
}

type MItem = (bool, usize, usize, u64, bool);
fn case_m(entry: &str, mode: &str, targets: &str, items: &[MItem], kind: &str) -> Case {
    let bytes = |st: bool| -> Vec<u8> { items.iter().filter(|i| i.0 == st).flat_map(|&(_, len, seed, _, text)| (0..len).map(move |i| if text { (97 + (seed + i) % 26) as u8 } else { ((seed + i) % 251) as u8 })).collect() };
    // longest line of a stream, and whether a line of it is written in several pieces (an item boundary inside a line)
    let shape = |st: bool| -> (usize, bool) {
        let b = bytes(st);
        let longest = b.split(|x| *x == b'\n').map(<[u8]>::len).max().unwrap_or(0);
        let mut pos = 0;
        let mut pieces = false;
        for i in items.iter().filter(|i| i.0 == st) { if pos > 0 && i.1 > 0 && b[pos - 1] != b'\n' { pieces = true; } pos += i.1; }
        (longest, pieces)
    };
    let ((lo, po), (le, pe)) = (shape(false), shape(true));
    let t = targets.as_bytes();
    let mapped_o = t[0] != b'v' && !bytes(false).is_empty();
    let mapped_e = t[2] != b'v' && !bytes(true).is_empty();
    let bucket = |n: usize| if n == 0 { "0" } else if n <= 8192 { "le8k" } else if n <= 65536 { "le64k" } else { "gt64k" };
    Case {
        fields: vec!["M".into(), entry.into(), mode.into(), targets.into(), join(";", &items.iter().map(|(st, l, s, d, t)| format!("{}.{l}.{s}.{d}{}", if *st { "e" } else { "o" }, if *t { ".t" } else { "" })).collect::<Vec<_>>())],
        tags: vec![("kind".into(), kind.into()), ("entry".into(), entry.into()), ("targets".into(), targets.into()), ("longest_line".into(), bucket(lo.max(le)).into()),
                   ("line_in_pieces".into(), u8::from(po || pe).to_string()), ("delays".into(), u8::from(items.iter().any(|i| i.3 > 0)).to_string()), ("items".into(), items.len().min(9).to_string())],
        // a mapped target whose stream has a line that cannot arrive in one read: written in pieces, or longer than the 8 KiB copy buffer
        nontrivial: (mapped_o && (po || lo > 8192)) || (mapped_e && (pe || le > 8192)),
    }
}

fn case_l(entry: &str, targets: &str, items: &str, kind: &str) -> Case {
    let parsed = parse_l_items(items);
    let (_, after) = l_times(&parsed);
    let closes: Vec<&str> = parsed.iter().map(|i| i.0.as_str()).filter(|k| k.starts_with('x')).collect();
    let close_shape = match closes.as_slice() { [] => "none", ["xb"] => "both-at-once", ["xo", "xe"] => "stdout-then-stderr", ["xe", "xo"] => "stderr-then-stdout", ["xo"] | ["xe"] => "one-only", _ => "other" };
    let bytes: usize = parsed.iter().map(|i| i.1).sum();
    let f: Vec<String> = vec!["L".into(), entry.into(), targets.into(), items.into()];
    L_BATCH.lock().unwrap().push(f.clone());
    Case {
        fields: f,
        tags: vec![("kind".into(), kind.into()), ("entry".into(), entry.into()), ("targets".into(), targets.into()), ("closes".into(), close_shape.into()),
                   ("outlives_ms".into(), (if after == 0 { "0" } else if after < OUTLIVE_MS { "lt1000" } else if after < 2000 { "1000-1999" } else { "ge2000" }).into()),
                   ("bytes".into(), (if bytes == 0 { "0" } else if bytes <= 65536 { "le64k" } else { "gt64k" }).into())],
        // the return clause is judged: the entry that hands the child back, and a child that outlives its streams by >= 1 s
        nontrivial: entry == "spawn" && after >= OUTLIVE_MS,
    }
}

/// all compositions of `s` into non-empty chunks
fn chunkings(s: &[u8], emit: &mut dyn FnMut(Vec<Vec<u8>>)) {
    if s.is_empty() { emit(vec![]); return; }
    let n = s.len();
    for mask in 0u32..(1 << (n - 1)) {
        let mut chunks = vec![];
        let mut cur = vec![s[0]];
        for i in 1..n { if mask >> (i - 1) & 1 == 1 { chunks.push(std::mem::take(&mut cur)); } cur.push(s[i]); }
        chunks.push(cur);
        emit(chunks);
    }
}

fn generate(tier: &str, seed: u64, emit: &mut dyn FnMut(Case)) {
    let thorough = tier == "thorough";
    // A1. exhaustive: every string over {marker, other} up to length n1 x every chunking, marker = '\n' (so `mapped` and `line_mapped` agree)
    //     and up to length n2 with marker = 'a', other = '\n' (so they differ)
    let (n1, n2) = if thorough { (10, 8) } else { (9, 7) };
    for (marker, other, nmax, kind) in [(b'\n', b'a', n1, "A-exh-nl"), (b'a', b'\n', n2, "A-exh-a")] {
        for n in 0..=nmax {
            for bits in 0u32..(1 << n) {
                let s: Vec<u8> = (0..n).map(|i| if bits >> i & 1 == 1 { marker } else { other }).collect();
                chunkings(&s, &mut |chunks| emit(case_a(marker, b"> ", &ws(&chunks), "-", kind)));
            }
        }
    }
    // A1s. the same with short-writing / interrupted targets (first tee target / second tee target / inner writer of the mapped
    //      writers): every string of length <= 6 (7 thorough) x every chunking x these writer configurations
    const WCFG: &[&str] = &["s1/f/f", "f/s1/f", "f/f/s1", "s2/s3/s7", "s3/s2/s1", "s7/s1/a2", "a1/a3/s2", "s1i3/f/s2i2", "f/s2i3/fi2", "a7i2/s3i5/a1i3", "s3/s3/s3", "a2/a2/f"];
    let ns = if thorough { 7 } else { 6 };
    for n in 1..=ns {
        for bits in 0u32..(1 << n) {
            let s: Vec<u8> = (0..n).map(|i| if bits >> i & 1 == 1 { b'\n' } else { b'a' }).collect();
            chunkings(&s, &mut |chunks| for w in WCFG { emit(case_a(b'\n', b"> ", &ws(&chunks), w, "A-exh-short")); });
        }
    }
    // A1f. `flush()` between the writes: every string over {marker, other} x every chunking into k non-empty chunks x, at each of the
    //      k + 1 gaps (before the first write, between two writes, after the last), 0, 1 or 2 flushes for length <= nf2, 0 or 1 flush
    //      for length <= nf; marker '\n' (plain targets), marker 'a' (length <= na, 0/1/2), short-writing targets (length <= na, 0/1)
    let (nf2, nf, na) = if thorough { (5, 6, 4) } else { (4, 5, 3) };
    let with_flushes = |s: &[u8], base: u32, emit_ops: &mut dyn FnMut(Vec<Op>)| {
        chunkings(s, &mut |chunks| {
            let gaps = chunks.len() as u32 + 1;
            for mut code in 0..base.pow(gaps) {
                let mut ops = vec![];
                for g in 0..gaps as usize {
                    for _ in 0..code % base { ops.push(Op::F); }
                    code /= base;
                    if g < chunks.len() { ops.push(Op::W(chunks[g].clone())); }
                }
                emit_ops(ops);
            }
        });
    };
    for n in 0..=nf {
        for bits in 0u32..(1 << n) {
            let s: Vec<u8> = (0..n).map(|i| if bits >> i & 1 == 1 { b'\n' } else { b'a' }).collect();
            with_flushes(&s, if n <= nf2 { 3 } else { 2 }, &mut |ops| emit(case_a(b'\n', b"> ", &ops, "-", "A-exh-flush-nl")));
            if n <= na {
                let s2: Vec<u8> = (0..n).map(|i| if bits >> i & 1 == 1 { b'a' } else { b'\n' }).collect();
                with_flushes(&s2, 3, &mut |ops| emit(case_a(b'a', b"> ", &ops, "-", "A-exh-flush-a")));
                with_flushes(&s, 2, &mut |ops| for w in WCFG { emit(case_a(b'\n', b"> ", &ops, w, "A-exh-flush-short")); });
            }
        }
    }
    // A2. sampled: longer inputs, three symbols, empty chunks, other markers and prefixes (also a prefix containing the marker)
    let samples = if thorough { 200_000 } else { 15_000 };
    for idx in 0..samples {
        let mut r = Rng::for_case(seed, idx);
        let marker = *r.pick(&[b'\n', 0u8, 0xff, b'a']);
        let others = [b'b', if marker == b'\n' { b'\r' } else { b'\n' }];
        let prefix: &[u8] = *r.pick(&[&b"> "[..], &b""[..], &b"\n"[..], &[0xffu8, 0][..], &b"[stdout] "[..]]);
        let lmax = if r.chance(1, 8) { 60 } else { 16 };
        let len = r.below(lmax) as usize;
        let pm = r.range(1, 3);
        let input: Vec<u8> = (0..len).map(|_| if r.chance(pm, 4) { marker } else { *r.pick(&others) }).collect();
        let mut chunks: Vec<Op> = vec![];
        let mut cur = vec![];
        // half of the samples with flushes: at the start, after a chunk (sometimes twice), at the end
        let fl = r.chance(1, 2);
        if fl && r.chance(1, 4) { chunks.push(Op::F); }
        for b in &input {
            cur.push(*b);
            if r.chance(1, 3) {
                chunks.push(Op::W(std::mem::take(&mut cur)));
                while r.chance(1, 6) { chunks.push(Op::W(vec![])); }
                if fl && r.chance(1, 3) { chunks.push(Op::F); if r.chance(1, 5) { chunks.push(Op::F); } }
            }
        }
        if !cur.is_empty() || r.chance(1, 4) { chunks.push(Op::W(cur)); }
        if fl && r.chance(1, 3) { chunks.push(Op::F); }
        let wspec = if r.chance(1, 2) { "-".to_string() } else {
            let one = |r: &mut Rng| { let m = *r.pick(&["f", "s", "a"]); let k = *r.pick(&[1u32, 2, 3, 7]); let i = if r.chance(1, 3) { format!("i{}", r.range(2, 5)) } else { String::new() }; if m == "f" { format!("f{i}") } else { format!("{m}{k}{i}") } };
            format!("{}/{}/{}", one(&mut r), one(&mut r), one(&mut r)) };
        emit(case_a(marker, prefix, &chunks, &wspec, "A-rnd"));
    }
    // B. scripted children. 65536 = capacity of a Linux pipe.
    const BUF: usize = 65536;
    let sizes: Vec<usize> = if thorough { vec![0, 1, 4096, BUF - 1, BUF, BUF + 1, 2 * BUF, 2 * BUF + 1, 3 * BUF + 17, 4 * BUF] } else { vec![0, 1, BUF, BUF + 1, 3 * BUF + 17, 4 * BUF] };
    // one stream first, then the other
    for &a in &sizes { for &b in &sizes {
        emit(case_b("seq", &[(false, a, 1, 0), (true, b, 2, 0)], "B-stdout-first"));
        emit(case_b("seq", &[(true, b, 3, 0), (false, a, 4, 0)], "B-stderr-first"));
    } }
    // alternating
    for &(k, sz) in &[(2usize, 1usize), (6, 1000), (3, BUF + 1), (4, 70000), (40, 3000)] {
        let mut items = vec![];
        for i in 0..k { items.push((false, sz, 10 + i, 0)); items.push((true, sz, 20 + i, 0)); }
        emit(case_b("seq", &items, "B-alternating"));
        let mut items2 = vec![];
        for i in 0..k { items2.push((true, sz + 1, 30 + i, 0)); items2.push((false, sz, 40 + i, 0)); }
        emit(case_b("seq", &items2, "B-alternating"));
    }
    // simultaneous
    for &a in &sizes { for &b in &[0usize, 1, BUF + 1, 4 * BUF] {
        emit(case_b("par", &[(false, a, 5, 0), (true, b, 6, 0)], "B-simultaneous"));
    } }
    emit(case_b("par", &[(false, 100_000, 5, 0), (true, 100_000, 6, 0), (false, 100_000, 7, 0), (true, 100_000, 8, 0)], "B-simultaneous"));
    // with small delays
    for &(d1, d2) in &[(5u64, 0u64), (0, 5), (20, 20)] {
        emit(case_b("seq", &[(false, BUF + 1, 1, d1), (true, BUF + 1, 2, d2), (false, 10, 3, d1)], "B-delays"));
        emit(case_b("seq", &[(true, 2 * BUF, 1, d1), (false, 2 * BUF, 2, d2), (true, 10, 3, d1)], "B-delays"));
        emit(case_b("par", &[(true, 2 * BUF, 1, d1), (false, 2 * BUF, 2, d2), (true, 10, 3, d1), (false, 10, 3, d2)], "B-delays"));
    }
    // short-writing / interrupted writers handed to output_and_write_streams (stdout writer / stderr writer)
    for w in ["s1/f", "f/s7", "s3/s2", "a2i5/s1i3", "s7i2/a3", "a1/a1"] {
        for &(a, b) in &[(1usize, 1usize), (10, 0), (0, 10), (5000, 3000), (BUF + 1, 17), (17, BUF + 1), (3 * BUF + 17, 2 * BUF)] {
            emit(case_bw("seq", w, &[(false, a, 1, 0), (true, b, 2, 0)], "B-short-writers"));
            emit(case_bw("par", w, &[(true, b, 3, 0), (false, a, 4, 0)], "B-short-writers"));
        }
    }
    emit(case_b("seq", &[], "B-silent"));
    // small scripts: the driver runs the step model itself on these
    let small = if thorough { 400 } else { 60 };
    for idx in 0..small {
        let mut r = Rng::for_case(seed ^ 0xB, idx);
        let k = r.below(6) as usize;
        let items: Vec<_> = (0..k).map(|_| (r.chance(1, 2), r.below(12) as usize, r.below(251) as usize, 0u64)).collect();
        emit(case_b(if r.chance(1, 3) { "par" } else { "seq" }, &items, "B-small"));
    }
    // sampled larger scripts
    let rnd = if thorough { 300 } else { 30 };
    for idx in 0..rnd {
        let mut r = Rng::for_case(seed ^ 0xBB, idx);
        let k = r.range(1, 6) as usize;
        let items: Vec<_> = (0..k).map(|_| (r.chance(1, 2), *r.pick(&[0usize, 1, 100, 5000, BUF, BUF + 1, 100_000, 200_000]), r.below(251) as usize, if r.chance(1, 5) { r.below(8) } else { 0 })).collect();
        emit(case_b(if r.chance(1, 3) { "par" } else { "seq" }, &items, "B-rnd"));
    }
    // M. mapped / line_mapped / tee(line_mapped, Vec) writers as the targets of both entry points; lines that arrive in pieces
    //    (text, a delay, more text, newline) or are longer than the 8 KiB copy buffer / the 64 KiB pipe. `nl` = an item that is one newline.
    let (o, e) = (false, true);
    let nl = |st: bool, d: u64| -> MItem { (st, 1, 10, d, false) };
    let tx = |st: bool, len: usize, seed: usize, d: u64| -> MItem { (st, len, seed, d, true) };
    let entries = ["out", "spawn"];
    // a line in two pieces on both streams, then an unterminated tail
    for &d in &[5u64, 15] {
        for tg in ["l/v", "v/l", "l/l", "m/m", "t/t", "m/l"] {
            for en in entries {
                let piece = |st: bool| vec![tx(st, 13, 1, 0), tx(st, 5, 3, d), nl(st, 0), tx(st, 4, 7, 0)];
                let mut items = piece(o);
                items.extend(piece(e));
                emit(case_m(en, "seq", tg, &items, "M-piecewise"));
            }
        }
    }
    // a line in three pieces whose newline comes alone, a second line, nothing after the last newline; one stream
    for (i, tg) in ["l/v", "m/v", "t/v", "v/l", "v/m", "v/t"].iter().enumerate() {
        let st = i >= 3;
        let items = vec![tx(st, 4, 1, 0), tx(st, 4, 5, 5), tx(st, 4, 9, 5), nl(st, 5), tx(st, 3, 2, 0), nl(st, 5)];
        emit(case_m(entries[i % 2], "seq", tg, &items, "M-piecewise"));
        emit(case_m(entries[(i + 1) % 2], "par", tg, &items, "M-piecewise"));
    }
    // one long line written at once (longer than the copy buffer / than the pipe), newline, short tail
    let long: &[usize] = if thorough { &[8191, 8192, 8193, 20000, BUF, BUF + 1, 140_000, 4 * BUF] } else { &[8193, 20000, BUF + 1, 140_000] };
    for (i, &n) in long.iter().enumerate() {
        for (j, tg) in ["l/v", "t/v", "m/v", "v/l"].iter().enumerate() {
            let st = *tg == "v/l";
            emit(case_m(entries[(i + j) % 2], "seq", tg, &[tx(st, n, 3, 0), nl(st, 0), tx(st, 9, 1, 0)], "M-long-line"));
        }
    }
    for tg in ["l/l", "t/m"] { for en in entries {
        emit(case_m(en, "par", tg, &[tx(o, 70_000, 3, 0), nl(o, 0), tx(e, 70_001, 4, 0), nl(e, 0), tx(o, 2, 1, 0)], "M-long-line"));
    } }
    // many short lines in one write (the raw pattern holds a newline every 251 bytes): lines straddle the read boundaries
    emit(case_m("out", "seq", "l/v", &[(o, 20_000, 0, 0, false)], "M-many-lines"));
    emit(case_m("spawn", "seq", "t/v", &[(o, 20_000, 7, 0, false)], "M-many-lines"));
    emit(case_m("out", "seq", "v/l", &[(e, 70_000, 5, 0, false)], "M-many-lines"));
    emit(case_m("spawn", "par", "m/t", &[(o, 30_000, 1, 0, false), (e, 30_000, 2, 0, false)], "M-many-lines"));
    // nothing at all / a single newline
    emit(case_m("out", "seq", "l/m", &[], "M-empty"));
    emit(case_m("spawn", "seq", "t/t", &[], "M-empty"));
    emit(case_m("out", "seq", "l/l", &[nl(o, 0), nl(e, 0)], "M-empty"));
    // sampled
    let rnd_m = if thorough { 300 } else { 30 };
    for idx in 0..rnd_m {
        let mut r = Rng::for_case(seed ^ 0x4D, idx);
        let k = r.range(1, 6) as usize;
        let items: Vec<MItem> = (0..k).map(|_| {
            let st = r.chance(1, 2);
            let d = if r.chance(1, 3) { 3 } else { 0 };
            if r.chance(1, 4) { nl(st, d) } else if r.chance(1, 8) { (st, r.below(3000) as usize, r.below(251) as usize, d, false) }
            else { tx(st, *r.pick(&[0usize, 1, 5, 100, 8191, 8192, 8193, 30_000]), r.below(26) as usize, d) }
        }).collect();
        let tg = format!("{}/{}", *r.pick(&["v", "l", "m", "t"]), *r.pick(&["v", "l", "m", "t"]));
        emit(case_m(*r.pick(&entries), if r.chance(1, 3) { "par" } else { "seq" }, &tg, &items, "M-rnd"));
    }
    // L. children that outlive their streams: the child closes stdout and stderr (together, or one and later the other, with writes to
    //    the stream that is still open in between) and then stays alive for D ms. D >= 1500: whether the child was still running when
    //    spawn_and_write_streams returned is judged (`run`), and the coarse timing class `t`; D = 300: only the bytes and the status.
    let banner = "o.16.1.0;e.16.2.0";
    let mut l_cases: Vec<(&str, &str, String, &str)> = vec![];
    let lingers: &[u64] = if thorough { &[300, 1500, 3000] } else { &[300, 1500] };
    for &d in lingers {
        // a banner on both streams, both closed at once, then alive (a daemon detaching from its stdio)
        l_cases.push(("spawn", "v/v", format!("{banner};xb.0.0.0;z.0.0.{d}"), "L-close-both"));
        // stdout closed first, stderr still written to (after 100 ms) and closed later; and the other way round
        l_cases.push(("spawn", "v/l", format!("o.5.1.0;xo.0.0.0;e.7.2.100.t;e.1.10.0;xe.0.0.20;z.0.0.{d}"), "L-close-one-then-other"));
        l_cases.push(("spawn", "t/v", format!("e.5.1.0;xe.0.0.0;o.7.2.100.t;o.1.10.0;xo.0.0.20;z.0.0.{d}"), "L-close-one-then-other"));
    }
    // the documented contrast: output_and_write_streams returns the exit status, i.e. after the exit (not judged)
    l_cases.push(("out", "v/v", format!("{banner};xb.0.0.0;z.0.0.1500"), "L-close-both"));
    l_cases.push(("out", "l/m", "o.5.1.0;xo.0.0.0;e.7.2.100;xe.0.0.0;z.0.0.300".to_string(), "L-close-one-then-other"));
    // several pipe buffers on both streams before the close; mapped targets
    l_cases.push(("spawn", "l/t", "o.200000.1.0;e.70000.2.0;o.100000.3.0;xb.0.0.0;z.0.0.1500".to_string(), "L-volume"));
    // nothing written at all; closes after a delay; the lifetime after the close in two pieces; a last close that is the one of both streams
    l_cases.push(("spawn", "v/v", "xb.0.0.0;z.0.0.1500".to_string(), "L-silent"));
    l_cases.push(("spawn", "m/v", "o.10.1.200.t;xb.0.0.100;z.0.0.1500".to_string(), "L-close-both"));
    l_cases.push(("spawn", "v/v", format!("{banner};xb.0.0.0;z.0.0.800;z.0.0.800"), "L-close-both"));
    l_cases.push(("spawn", "v/v", format!("{banner};xe.0.0.0;xo.0.0.50;z.0.0.1500"), "L-close-one-then-other"));
    // streams that stay open until the exit: alive without writing / only one stream closed (nothing to judge but bytes and status)
    l_cases.push(("spawn", "v/v", "o.5.1.0;z.0.0.300;e.5.2.0".to_string(), "L-open-until-exit"));
    l_cases.push(("spawn", "l/l", "o.3.1.0;xo.0.0.0;z.0.0.300;e.3.1.0".to_string(), "L-open-until-exit"));
    if thorough {
        for idx in 0..24 {
            let mut r = Rng::for_case(seed ^ 0x4C, idx);
            let mut items: Vec<String> = vec![];
            for _ in 0..r.below(4) { items.push(format!("{}.{}.{}.{}", if r.chance(1, 2) { "o" } else { "e" }, *r.pick(&[0usize, 1, 100, 8193, 70_000]), r.below(251), if r.chance(1, 3) { 5 } else { 0 })); }
            let first_o = r.chance(1, 2);
            match r.below(3) {
                0 => items.push("xb.0.0.0".into()),
                _ => {
                    items.push(format!("{}.0.0.0", if first_o { "xo" } else { "xe" }));
                    if r.chance(1, 2) { items.push(format!("{}.{}.{}.30", if first_o { "e" } else { "o" }, r.range(1, 3000), r.below(251))); }
                    items.push(format!("{}.0.0.{}", if first_o { "xe" } else { "xo" }, r.below(60)));
                }
            }
            items.push(format!("z.0.0.{}", *r.pick(&[1500u64, 2000])));
            let tg = format!("{}/{}", *r.pick(&["v", "l", "m", "t"]), *r.pick(&["v", "l", "m", "t"]));
            l_cases.push(("spawn", Box::leak(tg.into_boxed_str()), items.join(";"), "L-rnd"));
        }
    }
    // CNBV_C19_NO_LINGER=1 leaves the family out
    if std::env::var("CNBV_C19_NO_LINGER").is_err() { for (en, tg, items, kind) in &l_cases { emit(case_l(en, tg, items, kind)); } }
}

fn main() { main_loop("c19", &generate, &run_case); }
