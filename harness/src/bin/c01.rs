//! C01 correspondence: histories of struct-API layer requests, LayerRef writes and simulated lifecycle restores
//! on the real `BuildContext::{cached_layer, uncached_layer}`; full snapshot of the layers directory after every step.
use cnbv::ctx::{TbError, TestBuildpack, build_context};
use cnbv::*;
use libcnb::build::BuildContext;
use libcnb::data::layer::LayerName;
use libcnb::data::layer_content_metadata::LayerContentMetadata;
use libcnb::data::sbom::SbomFormat;
use libcnb::generic::GenericMetadata;
use libcnb::layer::{CachedLayerDefinition, EmptyLayerCause, InvalidMetadataAction, LayerError, LayerRef, LayerState, RestoredLayerAction, UncachedLayerDefinition};
use libcnb::layer_env::{LayerEnv, ModificationBehavior, Scope};
use libcnb::sbom::Sbom;
use serde::{Deserialize, Serialize};
use std::cell::RefCell;
use std::collections::HashMap;
use std::ffi::OsString;
use std::os::unix::ffi::{OsStrExt, OsStringExt};
use std::path::{Path, PathBuf};

#[derive(Serialize, Deserialize, Clone, Debug)]
struct V { v: i64 }

fn os(b: &[u8]) -> OsString { OsString::from_vec(b.to_vec()) }
fn opt_int(s: &str) -> Option<i64> { if s == "~" { None } else { Some(s.parse().unwrap()) } }
fn meta_str(v: Option<i64>, w: Option<i64>) -> String { format!("{}_{}", v.map_or("~".into(), |x| x.to_string()), w.map_or("~".into(), |x| x.to_string())) }
fn table_vw(t: &Option<toml::Table>) -> String {
    match t { None => "~".into(), Some(t) => meta_str(t.get("v").and_then(toml::Value::as_integer), t.get("w").and_then(toml::Value::as_integer)) }
}
fn mk_table(v: Option<i64>, w: Option<i64>) -> toml::Table { let mut t = toml::Table::new(); if let Some(v) = v { t.insert("v".into(), v.into()); } if let Some(w) = w { t.insert("w".into(), w.into()); } t }

enum Ref { C(LayerRef<TestBuildpack, u32, u32>), U(LayerRef<TestBuildpack, (), ()>) }
type R<T> = libcnb::Result<T, TbError>;
impl Ref {
    fn path(&self) -> PathBuf { match self { Ref::C(r) => r.path(), Ref::U(r) => r.path() } }
    fn write_metadata(&self, m: toml::Table) -> R<()> { match self { Ref::C(r) => r.write_metadata(m), Ref::U(r) => r.write_metadata(m) } }
    fn write_env(&self, e: &LayerEnv) -> R<()> { match self { Ref::C(r) => r.write_env(e), Ref::U(r) => r.write_env(e) } }
    fn write_sboms(&self, s: &[Sbom]) -> R<()> { match self { Ref::C(r) => r.write_sboms(s), Ref::U(r) => r.write_sboms(s) } }
    fn write_exec_d(&self, p: Vec<(String, PathBuf)>) -> R<()> { match self { Ref::C(r) => r.write_exec_d_programs(p), Ref::U(r) => r.write_exec_d_programs(p) } }
}

fn err_kind(e: &libcnb::Error<TbError>) -> &'static str {
    // the inner error types of WriteLayerError are not nameable from outside the crate: classify by variant name (Debug)
    let d = format!("{e:?}");
    match e {
        libcnb::Error::BuildpackError(_) => "buildpack",
        libcnb::Error::LayerError(LayerError::CouldNotReadGenericLayerMetadata(_)) => "genericMeta",
        libcnb::Error::LayerError(_) => {
            if d.contains("MissingLayer(") { "missingLayer" } else if d.contains("MissingExecDFile(") { "missingExecd" }
            else if d.contains("WriteLayerMetadataError(") { "metaFile" } else { "io" }
        }
        _ => "io",
    }
}

const FMTS: [SbomFormat; 3] = [SbomFormat::CycloneDxJson, SbomFormat::SpdxJson, SbomFormat::SyftJson];
const FMT_SUFFIX: [&str; 3] = ["cdx.json", "spdx.json", "syft.json"];

fn dir_snap(root: &Path) -> String {
    if !root.is_dir() { return "~".into(); }
    fn walk(dir: &Path, pre: &str, out: &mut Vec<String>) {
        for e in std::fs::read_dir(dir).unwrap() {
            let e = e.unwrap();
            let name = hex(e.file_name().as_bytes());
            let p = if pre.is_empty() { name } else { format!("{pre}/{name}") };
            let ft = e.file_type().unwrap();
            if ft.is_symlink() { out.push(format!("L {p}")); }
            else if ft.is_dir() { out.push(format!("D {p}")); walk(&e.path(), &p, out); }
            else { out.push(format!("F {p} {}", hex(&std::fs::read(e.path()).unwrap()))); }
        }
    }
    let mut out = vec![]; walk(root, "", &mut out); out.sort(); join(",", &out)
}

fn toml_state(p: &Path) -> String {
    match std::fs::read_to_string(p) {
        Err(_) => "~".into(),
        Ok(s) => match toml::from_str::<LayerContentMetadata<GenericMetadata>>(&s) {
            Err(_) => "B".into(),
            Ok(d) => format!("{}/{}", d.types.map_or("~".into(), |t| format!("{}{}{}", u8::from(t.launch), u8::from(t.build), u8::from(t.cache))), table_vw(&d.metadata)),
        },
    }
}

fn snapshot_layers(layers: &Path, names: &[Vec<u8>]) -> String {
    let mut parts = vec![];
    let mut ns = names.to_vec(); ns.sort();
    for n in ns {
        let name = String::from_utf8(n.clone()).unwrap();
        let d = dir_snap(&layers.join(&name));
        let t = toml_state(&layers.join(format!("{name}.toml")));
        let mut sb = vec![];
        for (i, suf) in FMT_SUFFIX.iter().enumerate() { if let Ok(b) = std::fs::read(layers.join(format!("{name}.sbom.{suf}"))) { sb.push(format!("{i}={}", hex(&b))); } }
        if d == "~" && t == "~" && sb.is_empty() { continue; }
        parts.push(format!("{}:{}:{}:{}", hex(&n), d, t, join("+", &sb)));
    }
    // anything else in the layers directory that is not accounted for
    let mut extra = vec![];
    for e in std::fs::read_dir(layers).unwrap() { let f = e.unwrap().file_name().to_string_lossy().to_string();
        let known = names.iter().any(|n| { let n = String::from_utf8_lossy(n).to_string(); f == n || f == format!("{n}.toml") || FMT_SUFFIX.iter().any(|s| f == format!("{n}.sbom.{s}")) });
        if !known { extra.push(hex(f.as_bytes())); } }
    extra.sort();
    if !extra.is_empty() { parts.push(format!("EXTRA:{}", extra.join(","))); }
    join("&", &parts)
}

fn restore(layers: &Path, names: &[Vec<u8>]) {
    for n in names {
        let name = String::from_utf8(n.clone()).unwrap();
        let dir = layers.join(&name); let tp = layers.join(format!("{name}.toml"));
        let doc = std::fs::read_to_string(&tp).ok().and_then(|s| toml::from_str::<LayerContentMetadata<GenericMetadata>>(&s).ok());
        let rm_sboms = || for s in FMT_SUFFIX { let _ = std::fs::remove_file(layers.join(format!("{name}.sbom.{s}"))); };
        let rm_dir = || if dir.exists() { let _ = std::fs::remove_dir_all(&dir); };
        match doc {
            Some(LayerContentMetadata { types: Some(t), metadata }) if t.cache => {
                std::fs::write(&tp, toml::to_string(&LayerContentMetadata { types: None, metadata }).unwrap()).unwrap();
            }
            Some(LayerContentMetadata { types: Some(t), metadata }) if t.launch => {
                rm_dir(); rm_sboms();
                std::fs::write(&tp, toml::to_string(&LayerContentMetadata { types: None, metadata }).unwrap()).unwrap();
            }
            _ => { rm_dir(); rm_sboms(); let _ = std::fs::remove_file(&tp); }
        }
    }
}

fn parse_scope(s: &str) -> Scope { match s { "A" => Scope::All, "B" => Scope::Build, "L" => Scope::Launch, _ => Scope::Process(String::from_utf8(unhex(s.strip_prefix("P:").unwrap()).unwrap()).unwrap()) } }
fn parse_beh(s: &str) -> ModificationBehavior { match s { "a" => ModificationBehavior::Append, "d" => ModificationBehavior::Default, "m" => ModificationBehavior::Delimiter, "o" => ModificationBehavior::Override, "p" => ModificationBehavior::Prepend, _ => panic!() } }

fn state_str<A: std::fmt::Display, B: std::fmt::Display>(s: &LayerState<A, B>) -> String {
    match s {
        LayerState::Restored { cause } => format!("restored:{cause}"),
        LayerState::Empty { cause: EmptyLayerCause::NewlyCreated } => "empty:new".into(),
        LayerState::Empty { cause: EmptyLayerCause::InvalidMetadataAction { cause } } => format!("empty:inv:{cause}"),
        LayerState::Empty { cause: EmptyLayerCause::RestoredLayerAction { cause } } => format!("empty:res:{cause}"),
    }
}

fn cached<M: Serialize + serde::de::DeserializeOwned + 'static>(ctx: &BuildContext<TestBuildpack>, name: &LayerName, b: bool, l: bool, ci: &str, cr: &str,
    log: &RefCell<Vec<String>>, show: &dyn Fn(&M) -> String, mk: &dyn Fn(Option<i64>, Option<i64>) -> M) -> R<LayerRef<TestBuildpack, u32, u32>> {
    ctx.cached_layer(name, CachedLayerDefinition {
        build: b, launch: l,
        invalid_metadata_action: &|gm: &GenericMetadata| -> Result<(InvalidMetadataAction<M>, u32), TbError> {
            log.borrow_mut().push(format!("I{}", table_vw(gm)));
            match &ci[..1] {
                "d" => Ok((InvalidMetadataAction::DeleteLayer, ci[1..].parse().unwrap())),
                "r" => { let p: Vec<&str> = ci[1..].split('_').collect(); Ok((InvalidMetadataAction::ReplaceMetadata(mk(opt_int(p[0]), opt_int(p[1]))), p[2].parse().unwrap())) }
                _ => Err(TbError("inv".into())),
            }
        },
        restored_layer_action: &|m: &M, _p: &Path| -> Result<(RestoredLayerAction, u32), TbError> {
            log.borrow_mut().push(format!("R{}", show(m)));
            match &cr[..1] {
                "k" => Ok((RestoredLayerAction::KeepLayer, cr[1..].parse().unwrap())),
                "d" => Ok((RestoredLayerAction::DeleteLayer, cr[1..].parse().unwrap())),
                _ => Err(TbError("res".into())),
            }
        },
    })
}

fn run_case(f: &[String]) -> String {
    let tmp = tempfile::tempdir().unwrap();
    let layers = tmp.path().join("layers");
    std::fs::create_dir(&layers).unwrap();
    let srcs = tmp.path().join("srcs"); std::fs::create_dir(&srcs).unwrap();
    let ctx = build_context(&layers, tmp.path());
    let names: Vec<Vec<u8>> = split_list(&f[0], ",").iter().map(|n| unhex(n).unwrap()).collect();
    let mut refs: HashMap<Vec<u8>, Ref> = HashMap::new();
    let mut steps = vec![];
    for (k, op) in split_list(&f[1], ";").iter().enumerate() {
        let p: Vec<&str> = op.split('.').collect();
        let log = RefCell::new(Vec::<String>::new());
        let nbytes = p.get(1).map(|n| unhex(n).unwrap()).unwrap_or_default();
        let lname: Option<LayerName> = String::from_utf8(nbytes.clone()).ok().and_then(|s| s.parse().ok());
        let out: String = match p[0] {
            "C" => {
                let (b, l) = (&p[2][..1] == "1", &p[2][1..2] == "1");
                let name = lname.clone().unwrap();
                let r = if p[3] == "V" {
                    cached::<V>(&ctx, &name, b, l, p[4], p[5], &log, &|m: &V| meta_str(Some(m.v), None), &|v, _| V { v: v.unwrap_or(0) })
                } else {
                    cached::<GenericMetadata>(&ctx, &name, b, l, p[4], p[5], &log, &|m: &GenericMetadata| table_vw(m), &|v, w| Some(mk_table(v, w)))
                };
                match r { Ok(lr) => { let s = state_str(&lr.state); refs.entry(nbytes.clone()).or_insert(Ref::C(lr)); s } Err(e) => format!("err:{}", err_kind(&e)) }
            }
            "U" => {
                let (b, l) = (&p[2][..1] == "1", &p[2][1..2] == "1");
                match ctx.uncached_layer(lname.clone().unwrap(), UncachedLayerDefinition { build: b, launch: l }) {
                    Ok(lr) => { let s = match lr.state { LayerState::Restored { .. } => "restored:0".to_string(), LayerState::Empty { cause: EmptyLayerCause::NewlyCreated } => "empty:new".into(), LayerState::Empty { cause: EmptyLayerCause::InvalidMetadataAction { .. } } => "empty:inv:0".into(), LayerState::Empty { cause: EmptyLayerCause::RestoredLayerAction { .. } } => "empty:res:0".into() };
                        refs.entry(nbytes.clone()).or_insert(Ref::U(lr)); s }
                    Err(e) => format!("err:{}", err_kind(&e)),
                }
            }
            "R" => { restore(&layers, &names); refs.clear(); "ok".into() }
            "B" => { std::fs::write(layers.join(format!("{}.toml", String::from_utf8_lossy(&nbytes))), "this is = not [toml").unwrap(); "ok".into() }
            w => match refs.get(&nbytes) {
                None => "noref".into(),
                Some(r) => {
                    let res: Result<(), String> = match w {
                        "M" => { let q: Vec<&str> = p[2].split('_').collect(); r.write_metadata(mk_table(opt_int(q[0]), opt_int(q[1]))).map_err(|e| err_kind(&e).to_string()) }
                        "E" => { let mut le = LayerEnv::new();
                            for i in split_list(p[2], ",") { let q: Vec<&str> = i.split('/').collect(); le.insert(parse_scope(q[0]), parse_beh(q[1]), os(&unhex(q[2]).unwrap()), os(&unhex(q[3]).unwrap())); }
                            r.write_env(&le).map_err(|e| err_kind(&e).to_string()) }
                        "S" => { let sb: Vec<Sbom> = split_list(p[2], "+").iter().map(|x| { let (i, h) = x.split_once('=').unwrap(); Sbom::from_bytes(FMTS[i.parse::<usize>().unwrap()].clone(), unhex(h).unwrap()) }).collect();
                            r.write_sboms(&sb).map_err(|e| err_kind(&e).to_string()) }
                        "X" => { let progs: Vec<(String, PathBuf)> = split_list(p[2], "+").iter().enumerate().map(|(j, x)| { let (n, h) = x.split_once('=').unwrap(); let src = srcs.join(format!("s{k}_{j}")); if h != "~" { std::fs::write(&src, unhex(h).unwrap()).unwrap(); } (String::from_utf8(unhex(n).unwrap()).unwrap(), src) }).collect();
                            r.write_exec_d(progs).map_err(|e| err_kind(&e).to_string()) }
                        "F" => { let (n, h) = p[2].split_once('=').unwrap(); let dir = r.path(); let fp = dir.join(os(&unhex(n).unwrap()));
                            if !dir.is_dir() { Err("missingLayer".into()) } else if fp.is_dir() { Err("io".into()) } else { std::fs::write(fp, unhex(h).unwrap()).map_err(|_| "io".to_string()) } }
                        _ => Err("badop".into()),
                    };
                    match res { Ok(()) => "ok".into(), Err(k) => format!("err:{k}") }
                }
            },
        };
        steps.push(format!("{}|{}|{}", out, join(",", &log.borrow()), snapshot_layers(&layers, &names)));
    }
    steps.join(";")
}

// ---------------------------------------------------------------------------------------------- generation
fn alphabet(n: &str) -> Vec<String> {
    let mut a = vec![];
    for mt in ["G", "V"] { for ci in ["d1", "r5_~_6", "f"] { for cr in ["k2", "d3", "f"] {
        if mt == "G" && ci != "d1" { continue; } // the invalid-metadata callback is unreachable for generic metadata
        a.push(format!("C.{n}.11.{mt}.{ci}.{cr}"));
    } } }
    a.push(format!("C.{n}.10.V.d1.k2")); a.push(format!("C.{n}.01.G.d1.k2"));
    a.push(format!("U.{n}.10")); a.push(format!("U.{n}.01"));
    a.push(format!("M.{n}.1_~")); a.push(format!("M.{n}.~_7"));
    a.push(format!("S.{n}.-")); a.push(format!("S.{n}.1=6f6c64"));
    a.push(format!("E.{n}.A/a/50/76,P:776562/o/51/77"));
    a.push(format!("X.{n}.{}=2321", hex(b"prog")));
    a.push(format!("F.{n}.{}=64", hex(b"f1")));
    a.push("R".into());
    a
}

fn nontrivial(ops: &[String]) -> bool {
    // a restore followed by a request on a layer that carried env, exec.d or SBOM data before it
    let mut carried: Vec<String> = vec![];
    let mut after_restore = false;
    for o in ops { let p: Vec<&str> = o.split('.').collect();
        match p[0] { "E" | "X" | "S" => carried.push(p[1].to_string()), "R" => after_restore = true,
            "C" | "U" => if after_restore && carried.iter().any(|c| c == p[1]) { return true; }, _ => {} } }
    false
}

fn generate(tier: &str, seed: u64, emit: &mut dyn FnMut(Case)) {
    let mk = |names: &[&str], ops: Vec<String>, kind: &str| {
        let nt = nontrivial(&ops);
        let nreq = ops.iter().filter(|o| o.starts_with('C') || o.starts_with('U')).count();
        Case { fields: vec![names.join(","), join(";", &ops)], tags: vec![("kind".into(), kind.into()), ("len".into(), (ops.len().min(40) / 5 * 5).to_string()), ("restores".into(), ops.iter().filter(|o| *o == "R").count().min(4).to_string()), ("requests".into(), nreq.min(9).to_string())], nontrivial: nt }
    };
    // layer names that share a prefix up to a dot: path arithmetic on `<name>.toml` / `<name>.sbom.*` must not confuse them
    let a = hex(b"a"); let b = hex(b"a.tools"); let c = hex(b"a.sbom");
    // 1. exhaustive: all histories of length <= 2 (quick) / 3 (thorough) over one name
    let alpha = alphabet(&a);
    for x in &alpha { emit(mk(&[&a], vec![x.clone()], "exh1")); }
    for x in &alpha { for y in &alpha { emit(mk(&[&a], vec![x.clone(), y.clone()], "exh2")); } }
    if tier == "thorough" { for x in &alpha { for y in &alpha { for z in &alpha { emit(mk(&[&a], vec![x.clone(), y.clone(), z.clone()], "exh3")); } } } }
    // 2. directed: request, populate, restore, request again with every callback combination
    for t in ["11", "10", "01", "00"] { for second in alphabet(&a).iter().filter(|o| o.starts_with('C') || o.starts_with('U')) {
        let ops = vec![format!("C.{a}.{t}.G.d1.k2"), format!("M.{a}.4_9"), format!("E.{a}.B/p/50415448/2f78"), format!("S.{a}.0=63+2=73"), format!("X.{a}.{}=2321", hex(b"p1")), format!("F.{a}.{}=64", hex(b"data")), "R".into(), second.clone(), format!("S.{a}.1=6e"), "R".into(), format!("U.{a}.11")];
        emit(mk(&[&a], ops, "directed"));
    } }
    // 2b. directed: two layers whose names differ by a dotted suffix; each request/delete of one must leave the other alone
    for (x, y) in [(&a, &b), (&b, &a), (&a, &c), (&c, &a), (&b, &c)] { for second in ["U.{}.11", "C.{}.11.G.d1.d3", "C.{}.11.V.d4.k2", "C.{}.11.G.d1.k2"] {
        let ops = vec![format!("C.{x}.11.G.d1.k2"), format!("M.{x}.4_9"), format!("S.{x}.0=63"), format!("C.{y}.11.G.d1.k2"), format!("M.{y}.5_~"), format!("S.{y}.1=64+2=65"), "R".into(), second.replace("{}", y), format!("C.{x}.11.G.d1.k2"), "R".into(), second.replace("{}", x), format!("C.{y}.11.V.d7.k1")];
        emit(mk(&[x.as_str(), y.as_str()], ops, "directed-dotted"));
    } }
    // 3. sampled histories over three names
    let samples = if tier == "thorough" { 50_000 } else { 3_000 };
    let maxlen = if tier == "thorough" { 40 } else { 14 };
    let names = [a.as_str(), b.as_str(), c.as_str()];
    for idx in 0..samples {
        let mut r = Rng::for_case(seed, idx);
        let len = 1 + r.below(maxlen);
        let mut ops: Vec<String> = vec![];
        let mut live: Vec<&str> = vec![];
        for _ in 0..len {
            let n = if !live.is_empty() && r.chance(3, 4) { *r.pick(&live) } else { *r.pick(&names) };
            let roll = r.below(100);
            let op = if roll < 28 {
                let mt = if r.chance(1, 2) { "G" } else { "V" };
                let ci = match r.below(6) { 0 | 1 => format!("d{}", r.below(9)), 2 | 3 | 4 => format!("r{}_~_{}", r.below(50), r.below(9)), _ => "f".into() };
                let ci = if mt == "G" { format!("d{}", r.below(9)) } else { ci };
                let cr = match r.below(7) { 0 | 1 | 2 => format!("k{}", r.below(9)), 3 | 4 | 5 => format!("d{}", r.below(9)), _ => "f".into() };
                if !live.contains(&n) { live.push(n); }
                format!("C.{n}.{}{}.{mt}.{ci}.{cr}", r.below(2), r.below(2))
            } else if roll < 36 { if !live.contains(&n) { live.push(n); } format!("U.{n}.{}{}", r.below(2), r.below(2)) }
            else if roll < 46 { format!("M.{n}.{}_{}", if r.chance(2, 3) { r.below(50).to_string() } else { "~".into() }, if r.chance(1, 3) { r.below(50).to_string() } else { "~".into() }) }
            else if roll < 54 { let k = r.below(3); let e: Vec<String> = (0..k).map(|_| format!("{}/{}/{}/{}", r.pick(&["A", "B", "L", "P:776562"]), r.pick(&["a", "d", "m", "o", "p"]), hex(r.pick(&["P", "Q.x", "PATH"]).as_bytes()), hex(r.pick(&["", "v", "/x"]).as_bytes()))).collect(); format!("E.{n}.{}", join(",", &e)) }
            else if roll < 64 { let mut sb = vec![]; for i in 0..3 { if r.chance(1, 3) { sb.push(format!("{i}={}", hex(&[b'a' + r.below(20) as u8]))); } } format!("S.{n}.{}", join("+", &sb)) }
            else if roll < 72 { match r.below(8) { 0 => format!("X.{n}.-"), 1 => format!("X.{n}.{}=~", hex(b"gone")), _ => { let k = 1 + r.below(2); let ps: Vec<String> = (0..k).map(|j| format!("{}={}", hex(format!("p{j}").as_bytes()), hex(&[b'0' + r.below(9) as u8]))).collect(); format!("X.{n}.{}", ps.join("+")) } } }
            else if roll < 82 { format!("F.{n}.{}={}", hex(r.pick(&["f1", "f2", "bin", "env", "exec.d"]).as_bytes()), hex(&[b'A' + r.below(20) as u8])) }
            else if roll < 84 { format!("B.{n}") }
            else { live.clear(); "R".into() };
            ops.push(op);
        }
        emit(mk(&names, ops, "rnd"));
    }
}

fn main() { main_loop_jobs("c01", 12, &generate, &run_case); }
