//! C01 correspondence: histories of struct-API layer requests, LayerRef writes and simulated lifecycle restores
//! on the real `BuildContext::{cached_layer, uncached_layer}`; full snapshot of the layers directory after every step.
use cnbv::ctx::{TbError, TestBuildpack, build_context};
use cnbv::*;
use libcnb::build::BuildContext;
use libcnb::data::layer::LayerName;
use libcnb::data::layer_content_metadata::LayerContentMetadata;
use libcnb::data::sbom::SbomFormat;
use libcnb::generic::GenericMetadata;
use libcnb::layer::{CachedLayerDefinition, EmptyLayerCause, InvalidMetadataAction, LayerError, LayerRef, LayerState, RestoredLayerAction, UncachedLayerDefinition};
use libcnb::layer_env::{LayerEnv, ModificationBehavior, Scope};
use libcnb::sbom::Sbom;
use serde::{Deserialize, Serialize};
use std::cell::RefCell;
use std::collections::HashMap;
use std::ffi::OsString;
use std::os::unix::ffi::{OsStrExt, OsStringExt};
use std::path::{Path, PathBuf};

#[derive(Serialize, Deserialize, Clone, Debug)]
struct V { v: i64 }

fn os(b: &[u8]) -> OsString { OsString::from_vec(b.to_vec()) }
fn opt_int(s: &str) -> Option<i64> { if s == "~" { None } else { Some(s.parse().unwrap()) } }
fn meta_str(v: Option<i64>, w: Option<i64>) -> String { format!("{}_{}", v.map_or("~".into(), |x| x.to_string()), w.map_or("~".into(), |x| x.to_string())) }
fn table_vw(t: &Option<toml::Table>) -> String {
    match t { None => "~".into(), Some(t) => meta_str(t.get("v").and_then(toml::Value::as_integer), t.get("w").and_then(toml::Value::as_integer)) }
}
fn mk_table(v: Option<i64>, w: Option<i64>) -> toml::Table { let mut t = toml::Table::new(); if let Some(v) = v { t.insert("v".into(), v.into()); } if let Some(w) = w { t.insert("w".into(), w.into()); } t }

enum Ref { C(LayerRef<TestBuildpack, u32, u32>), U(LayerRef<TestBuildpack, (), ()>) }
type R<T> = libcnb::Result<T, TbError>;
impl Ref {
    fn path(&self) -> PathBuf { match self { Ref::C(r) => r.path(), Ref::U(r) => r.path() } }
    fn write_metadata(&self, m: toml::Table) -> R<()> { match self { Ref::C(r) => r.write_metadata(m), Ref::U(r) => r.write_metadata(m) } }
    /// `write_metadata` with a value serde accepts but TOML cannot encode (an unsigned integer above i64::MAX)
    fn write_metadata_unencodable(&self) -> R<()> { #[derive(serde::Serialize)] struct Big { checksum: u64 } let m = Big { checksum: u64::MAX }; match self { Ref::C(r) => r.write_metadata(m), Ref::U(r) => r.write_metadata(m) } }
    fn write_env(&self, e: &LayerEnv) -> R<()> { match self { Ref::C(r) => r.write_env(e), Ref::U(r) => r.write_env(e) } }
    fn write_sboms(&self, s: &[Sbom]) -> R<()> { match self { Ref::C(r) => r.write_sboms(s), Ref::U(r) => r.write_sboms(s) } }
    fn write_exec_d(&self, p: Vec<(String, PathBuf)>) -> R<()> { match self { Ref::C(r) => r.write_exec_d_programs(p), Ref::U(r) => r.write_exec_d_programs(p) } }
}

fn err_kind(e: &libcnb::Error<TbError>) -> &'static str {
    // the inner error types of WriteLayerError are not nameable from outside the crate: classify by variant name (Debug)
    let d = format!("{e:?}");
    match e {
        libcnb::Error::BuildpackError(_) => "buildpack",
        libcnb::Error::LayerError(LayerError::CouldNotReadGenericLayerMetadata(_)) => "genericMeta",
        libcnb::Error::LayerError(_) => {
            if d.contains("MissingLayer(") { "missingLayer" } else if d.contains("MissingExecDFile(") { "missingExecd" }
            else if d.contains("WriteLayerMetadataError(") { "metaFile" } else { "io" }
        }
        _ => "io",
    }
}

const FMTS: [SbomFormat; 3] = [SbomFormat::CycloneDxJson, SbomFormat::SpdxJson, SbomFormat::SyftJson];
const FMT_SUFFIX: [&str; 3] = ["cdx.json", "spdx.json", "syft.json"];

fn dir_snap(root: &Path) -> String {
    if !root.is_dir() { return "~".into(); }
    fn walk(dir: &Path, pre: &str, out: &mut Vec<String>) {
        for e in std::fs::read_dir(dir).unwrap() {
            let e = e.unwrap();
            let name = hex(e.file_name().as_bytes());
            let p = if pre.is_empty() { name } else { format!("{pre}/{name}") };
            let ft = e.file_type().unwrap();
            if ft.is_symlink() { out.push(format!("L {p}")); }
            else if ft.is_dir() { out.push(format!("D {p}")); walk(&e.path(), &p, out); }
            else { out.push(format!("F {p} {}", hex(&std::fs::read(e.path()).unwrap()))); }
        }
    }
    let mut out = vec![]; walk(root, "", &mut out); out.sort(); join(",", &out)
}

fn toml_state(p: &Path) -> String {
    match std::fs::read_to_string(p) {
        Err(_) => "~".into(),
        Ok(s) => match toml::from_str::<LayerContentMetadata<GenericMetadata>>(&s) {
            Err(_) => "B".into(),
            Ok(d) => format!("{}/{}", d.types.map_or("~".into(), |t| format!("{}{}{}", u8::from(t.launch), u8::from(t.build), u8::from(t.cache))), table_vw(&d.metadata)),
        },
    }
}

fn snapshot_layers(layers: &Path, names: &[Vec<u8>]) -> String {
    let mut parts = vec![];
    let mut ns = names.to_vec(); ns.sort();
    for n in ns {
        let name = String::from_utf8(n.clone()).unwrap();
        let d = dir_snap(&layers.join(&name));
        let t = toml_state(&layers.join(format!("{name}.toml")));
        let mut sb = vec![];
        for (i, suf) in FMT_SUFFIX.iter().enumerate() { if let Ok(b) = std::fs::read(layers.join(format!("{name}.sbom.{suf}"))) { sb.push(format!("{i}={}", hex(&b))); } }
        if d == "~" && t == "~" && sb.is_empty() { continue; }
        parts.push(format!("{}:{}:{}:{}", hex(&n), d, t, join("+", &sb)));
    }
    // anything else in the layers directory that is not accounted for
    let mut extra = vec![];
    let mut known: std::collections::HashSet<String> = std::collections::HashSet::new();
    for n in names { let n = String::from_utf8_lossy(n).to_string(); known.insert(format!("{n}.toml")); for s in FMT_SUFFIX { known.insert(format!("{n}.sbom.{s}")); } known.insert(n); }
    for e in std::fs::read_dir(layers).unwrap() { let f = e.unwrap().file_name().to_string_lossy().to_string();
        if !known.contains(&f) { extra.push(hex(f.as_bytes())); } }
    extra.sort();
    if !extra.is_empty() { parts.push(format!("EXTRA:{}", extra.join(","))); }
    join("&", &parts)
}

fn restore(layers: &Path, names: &[Vec<u8>]) {
    for n in names {
        let name = String::from_utf8(n.clone()).unwrap();
        let dir = layers.join(&name); let tp = layers.join(format!("{name}.toml"));
        let doc = std::fs::read_to_string(&tp).ok().and_then(|s| toml::from_str::<LayerContentMetadata<GenericMetadata>>(&s).ok());
        let rm_sboms = || for s in FMT_SUFFIX { let _ = std::fs::remove_file(layers.join(format!("{name}.sbom.{s}"))); };
        let rm_dir = || if dir.exists() { let _ = std::fs::remove_dir_all(&dir); };
        match doc {
            Some(LayerContentMetadata { types: Some(t), metadata }) if t.cache => {
                std::fs::write(&tp, toml::to_string(&LayerContentMetadata { types: None, metadata }).unwrap()).unwrap();
            }
            Some(LayerContentMetadata { types: Some(t), metadata }) if t.launch => {
                rm_dir(); rm_sboms();
                std::fs::write(&tp, toml::to_string(&LayerContentMetadata { types: None, metadata }).unwrap()).unwrap();
            }
            _ => { rm_dir(); rm_sboms(); let _ = std::fs::remove_file(&tp); }
        }
    }
}

fn parse_scope(s: &str) -> Scope { match s { "A" => Scope::All, "B" => Scope::Build, "L" => Scope::Launch, _ => Scope::Process(String::from_utf8(unhex(s.strip_prefix("P:").unwrap()).unwrap()).unwrap()) } }
fn parse_beh(s: &str) -> ModificationBehavior { match s { "a" => ModificationBehavior::Append, "d" => ModificationBehavior::Default, "m" => ModificationBehavior::Delimiter, "o" => ModificationBehavior::Override, "p" => ModificationBehavior::Prepend, _ => panic!() } }

fn state_str<A: std::fmt::Display, B: std::fmt::Display>(s: &LayerState<A, B>) -> String {
    match s {
        LayerState::Restored { cause } => format!("restored:{cause}"),
        LayerState::Empty { cause: EmptyLayerCause::NewlyCreated } => "empty:new".into(),
        LayerState::Empty { cause: EmptyLayerCause::InvalidMetadataAction { cause } } => format!("empty:inv:{cause}"),
        LayerState::Empty { cause: EmptyLayerCause::RestoredLayerAction { cause } } => format!("empty:res:{cause}"),
    }
}

fn cached<M: Serialize + serde::de::DeserializeOwned + 'static>(ctx: &BuildContext<TestBuildpack>, name: &LayerName, b: bool, l: bool, ci: &str, cr: &str,
    log: &RefCell<Vec<String>>, show: &dyn Fn(&M) -> String, mk: &dyn Fn(Option<i64>, Option<i64>) -> M) -> R<LayerRef<TestBuildpack, u32, u32>> {
    ctx.cached_layer(name, CachedLayerDefinition {
        build: b, launch: l,
        invalid_metadata_action: &|gm: &GenericMetadata| -> Result<(InvalidMetadataAction<M>, u32), TbError> {
            log.borrow_mut().push(format!("I{}", table_vw(gm)));
            match &ci[..1] {
                "d" => Ok((InvalidMetadataAction::DeleteLayer, ci[1..].parse().unwrap())),
                "r" => { let p: Vec<&str> = ci[1..].split('_').collect(); Ok((InvalidMetadataAction::ReplaceMetadata(mk(opt_int(p[0]), opt_int(p[1]))), p[2].parse().unwrap())) }
                _ => Err(TbError("inv".into())),
            }
        },
        restored_layer_action: &|m: &M, _p: &Path| -> Result<(RestoredLayerAction, u32), TbError> {
            log.borrow_mut().push(format!("R{}", show(m)));
            match &cr[..1] {
                "k" => Ok((RestoredLayerAction::KeepLayer, cr[1..].parse().unwrap())),
                "d" => Ok((RestoredLayerAction::DeleteLayer, cr[1..].parse().unwrap())),
                _ => Err(TbError("res".into())),
            }
        },
    })
}

fn run_case(f: &[String]) -> String {
    let tmp = tempfile::tempdir().unwrap();
    let layers = tmp.path().join("layers");
    std::fs::create_dir(&layers).unwrap();
    let srcs = tmp.path().join("srcs"); std::fs::create_dir(&srcs).unwrap();
    let ctx = build_context(&layers, tmp.path());
    let names: Vec<Vec<u8>> = split_list(&f[0], ",").iter().map(|n| unhex(n).unwrap()).collect();
    let mut refs: HashMap<Vec<u8>, Ref> = HashMap::new();
    let mut steps = vec![];
    for (k, op) in split_list(&f[1], ";").iter().enumerate() {
        let p: Vec<&str> = op.split('.').collect();
        let log = RefCell::new(Vec::<String>::new());
        let nbytes = p.get(1).map(|n| unhex(n).unwrap()).unwrap_or_default();
        let lname: Option<LayerName> = String::from_utf8(nbytes.clone()).ok().and_then(|s| s.parse().ok());
        let out: String = match p[0] {
            "C" => {
                let (b, l) = (&p[2][..1] == "1", &p[2][1..2] == "1");
                let name = lname.clone().unwrap();
                let r = if p[3] == "V" {
                    cached::<V>(&ctx, &name, b, l, p[4], p[5], &log, &|m: &V| meta_str(Some(m.v), None), &|v, _| V { v: v.unwrap_or(0) })
                } else {
                    cached::<GenericMetadata>(&ctx, &name, b, l, p[4], p[5], &log, &|m: &GenericMetadata| table_vw(m), &|v, w| Some(mk_table(v, w)))
                };
                match r { Ok(lr) => { let s = state_str(&lr.state); refs.entry(nbytes.clone()).or_insert(Ref::C(lr)); s } Err(e) => format!("err:{}", err_kind(&e)) }
            }
            "U" => {
                let (b, l) = (&p[2][..1] == "1", &p[2][1..2] == "1");
                match ctx.uncached_layer(lname.clone().unwrap(), UncachedLayerDefinition { build: b, launch: l }) {
                    Ok(lr) => { let s = match lr.state { LayerState::Restored { .. } => "restored:0".to_string(), LayerState::Empty { cause: EmptyLayerCause::NewlyCreated } => "empty:new".into(), LayerState::Empty { cause: EmptyLayerCause::InvalidMetadataAction { .. } } => "empty:inv:0".into(), LayerState::Empty { cause: EmptyLayerCause::RestoredLayerAction { .. } } => "empty:res:0".into() };
                        refs.entry(nbytes.clone()).or_insert(Ref::U(lr)); s }
                    Err(e) => format!("err:{}", err_kind(&e)),
                }
            }
            "R" => { restore(&layers, &names); refs.clear(); "ok".into() }
            "B" => { std::fs::write(layers.join(format!("{}.toml", String::from_utf8_lossy(&nbytes))), "this is = not [toml").unwrap(); "ok".into() }
            w => match refs.get(&nbytes) {
                None => "noref".into(),
                Some(r) => {
                    let res: Result<(), String> = match w {
                        "M" => { let q: Vec<&str> = p[2].split('_').collect(); r.write_metadata(mk_table(opt_int(q[0]), opt_int(q[1]))).map_err(|e| err_kind(&e).to_string()) }
                        "N" => r.write_metadata_unencodable().map_err(|e| err_kind(&e).to_string()),
                        "E" => { let mut le = LayerEnv::new();
                            for i in split_list(p[2], ",") { let q: Vec<&str> = i.split('/').collect(); le.insert(parse_scope(q[0]), parse_beh(q[1]), os(&unhex(q[2]).unwrap()), os(&unhex(q[3]).unwrap())); }
                            r.write_env(&le).map_err(|e| err_kind(&e).to_string()) }
                        "S" => { let sb: Vec<Sbom> = split_list(p[2], "+").iter().map(|x| { let (i, h) = x.split_once('=').unwrap(); Sbom::from_bytes(FMTS[i.parse::<usize>().unwrap()].clone(), unhex(h).unwrap()) }).collect();
                            r.write_sboms(&sb).map_err(|e| err_kind(&e).to_string()) }
                        "X" => { let progs: Vec<(String, PathBuf)> = split_list(p[2], "+").iter().enumerate().map(|(j, x)| { let (n, h) = x.split_once('=').unwrap(); let src = srcs.join(format!("s{k}_{j}")); if h != "~" { std::fs::write(&src, unhex(h).unwrap()).unwrap(); } (String::from_utf8(unhex(n).unwrap()).unwrap(), src) }).collect();
                            r.write_exec_d(progs).map_err(|e| err_kind(&e).to_string()) }
                        "F" => { let (n, h) = p[2].split_once('=').unwrap(); let dir = r.path(); let fp = dir.join(os(&unhex(n).unwrap()));
                            if !dir.is_dir() { Err("missingLayer".into()) } else if fp.is_dir() { Err("io".into()) } else { std::fs::write(fp, unhex(h).unwrap()).map_err(|_| "io".to_string()) } }
                        _ => Err("badop".into()),
                    };
                    match res { Ok(()) => "ok".into(), Err(k) => format!("err:{k}") }
                }
            },
        };
        steps.push(format!("{}|{}|{}", out, join(",", &log.borrow()), snapshot_layers(&layers, &names)));
    }
    steps.join(";")
}

// ---------------------------------------------------------------------------------------------- generation
fn alphabet(n: &str) -> Vec<String> {
    let mut a = vec![];
    for mt in ["G", "V"] { for ci in ["d1", "r5_~_6", "f"] { for cr in ["k2", "d3", "f"] {
        if mt == "G" && ci != "d1" { continue; } // the invalid-metadata callback is unreachable for generic metadata
        a.push(format!("C.{n}.11.{mt}.{ci}.{cr}"));
    } } }
    a.push(format!("C.{n}.10.V.d1.k2")); a.push(format!("C.{n}.01.G.d1.k2"));
    a.push(format!("U.{n}.10")); a.push(format!("U.{n}.01"));
    a.push(format!("M.{n}.1_~")); a.push(format!("M.{n}.~_7")); a.push(format!("N.{n}"));
    a.push(format!("S.{n}.-")); a.push(format!("S.{n}.1=6f6c64"));
    a.push(format!("E.{n}.A/a/50/76,P:776562/o/51/77"));
    a.push(format!("X.{n}.{}=2321", hex(b"prog")));
    a.push(format!("F.{n}.{}=64", hex(b"f1")));
    a.push("R".into());
    a
}

fn nontrivial(ops: &[String]) -> bool {
    // a restore followed by a request on a layer that carried env, exec.d or SBOM data before it
    let mut carried: Vec<String> = vec![];
    let mut after_restore = false;
    for o in ops { let p: Vec<&str> = o.split('.').collect();
        match p[0] { "E" | "X" | "S" => carried.push(p[1].to_string()), "R" => after_restore = true,
            "C" | "U" => if after_restore && carried.iter().any(|c| c == p[1]) { return true; }, _ => {} } }
    false
}

/// layer-name universes of a history: names that share a dotted prefix / look like another layer's files / differ by case or
/// one character / carry unusual characters / are long. (A layer named `<other>.toml` or `<other>.sbom.<fmt>.json` would
/// *be* the other layer's file: such pairs cannot both satisfy the property and are left out.)
fn name_pools() -> Vec<(&'static str, Vec<String>)> {
    let long = "n".repeat(200);
    let long2 = format!("{}.x", "n".repeat(198));
    vec![
        ("dotted", vec!["a".into(), "a.tools".into(), "a.sbom".into()]),
        ("deep", vec!["a".into(), "a.b".into(), "a.b.c".into()]),
        ("filelike", vec!["a".into(), "a.sbom.cdx".into(), "a.toml.x".into()]),
        ("filelike2", vec!["a.sbom".into(), "a.sbom.spdx".into(), "a.sbom.cdx.json.x".into()]),
        ("case", vec!["a".into(), "A".into(), "a.A".into()]),
        ("edit", vec!["a".into(), "ab".into(), "a-b".into()]),
        ("chars", vec!["Abc 123.-_!".into(), "123".into(), "\u{fc}-\u{5c42}".into()]),
        ("hidden", vec![".hidden".into(), "..x".into(), "x.".into()]),
        ("phase", vec!["build-foo".into(), "launch.x".into(), "store.build".into()]),
        ("long", vec![long.clone(), long2, "n".into()]),
        ("plain", vec!["a".into(), "bee".into(), "c-3".into()]),
    ]
}
fn hexnames(v: &[String]) -> Vec<String> { v.iter().map(|n| hex(n.as_bytes())).collect() }

const INTS: [i64; 8] = [0, 1, -1, 7, 49, i64::MAX, i64::MIN, 1 << 53];
fn content_pool() -> Vec<Vec<u8>> { vec![vec![], b"x".to_vec(), b"{\"k\":1}".to_vec(), vec![0xff, 0x00, 0xfe], vec![b'z'; 300], b"line\nline\n".to_vec()] }
// (`env.build` / `env.launch` as plain files are left out: `write_env` then fails half-way, after `env/` was rewritten; the state
// an erroring write leaves is not constrained by C01 and not tracked by the model - partial effects of failures are C12's)
const FILE_NAMES: [&str; 10] = ["f1", "f2", "bin", "env", "exec.d", ".hidden", "with space", "\u{fc}n\u{ef}", "lib", "data.toml"];
const ENV_NAMES: [&[u8]; 8] = [b"P", b"Q.x", b"PATH", b"lower", b"X.append", b"N\xff", b"A=B", b"LD_LIBRARY_PATH"];
const ENV_VALS: [&[u8]; 7] = [b"", b"v", b"/x", b":", b"\xff\xfe", b"a\nb", b"a b"];
const ENV_SCOPES: [&str; 6] = ["A", "B", "L", "P:776562", "P:776f726b6572", "P:772d312e78"];
const BEHS: [&str; 5] = ["a", "d", "m", "o", "p"];
const PROG_NAMES: [&str; 8] = ["p0", "p1", "p2", "a.b", "with-dash", "\u{fc}", "UPPER", "0"];

/// `n` entries in ONE env directory (`env` / `env.launch`) or, for `procs`, one entry in each of `n` process directories; plus one
/// entry in every other scope
fn big_env(n: usize, main: &str) -> String {
    let mut e: Vec<String> = (0..n).map(|i| { let sc = if main == "procs" { format!("P:{}", hex(format!("proc{i:03}").as_bytes())) } else { main.to_string() };
        format!("{sc}/{}/{}/{}", BEHS[i % 5], hex(format!("V{:03}", i / 5).as_bytes()), hex(format!("v{i}").as_bytes())) }).collect();
    for sc in ["A", "B", "L", "P:776562"] { if sc != main { e.push(format!("{sc}/a/{}/{}", hex(b"V000"), hex(b"other"))); } }
    join(",", &e)
}

fn generate(tier: &str, seed: u64, emit: &mut dyn FnMut(Case)) {
    let thorough = tier == "thorough";
    let mk = |names: &[&str], ops: Vec<String>, kind: &str| {
        let nt = nontrivial(&ops);
        let nreq = ops.iter().filter(|o| o.starts_with('C') || o.starts_with('U')).count();
        Case { fields: vec![names.join(","), join(";", &ops)], tags: vec![("kind".into(), kind.into()), ("len".into(), (ops.len().min(40) / 5 * 5).to_string()), ("restores".into(), ops.iter().filter(|o| *o == "R").count().min(6).to_string()), ("requests".into(), nreq.min(9).to_string())], nontrivial: nt }
    };
    // layer names that share a prefix up to a dot: path arithmetic on `<name>.toml` / `<name>.sbom.*` must not confuse them
    let a = hex(b"a"); let b = hex(b"a.tools"); let c = hex(b"a.sbom");
    // 1. exhaustive: all histories of length <= 2 (quick) / 3 (thorough) over one name
    let alpha = alphabet(&a);
    for x in &alpha { emit(mk(&[&a], vec![x.clone()], "exh1")); }
    for x in &alpha { for y in &alpha { emit(mk(&[&a], vec![x.clone(), y.clone()], "exh2")); } }
    if thorough { for x in &alpha { for y in &alpha { for z in &alpha { emit(mk(&[&a], vec![x.clone(), y.clone(), z.clone()], "exh3")); } } } }
    // 2. directed: request, populate, restore, request again with every callback combination
    for t in ["11", "10", "01", "00"] { for second in alphabet(&a).iter().filter(|o| o.starts_with('C') || o.starts_with('U')) {
        let ops = vec![format!("C.{a}.{t}.G.d1.k2"), format!("M.{a}.4_9"), format!("E.{a}.B/p/50415448/2f78"), format!("S.{a}.0=63+2=73"), format!("X.{a}.{}=2321", hex(b"p1")), format!("F.{a}.{}=64", hex(b"data")), "R".into(), second.clone(), format!("S.{a}.1=6e"), "R".into(), format!("U.{a}.11")];
        emit(mk(&[&a], ops, "directed"));
    } }
    // 2b. directed: two layers whose names are correlated (dotted suffix, another layer's file stem, case, one edit, unusual
    //     characters, long); each request/delete of one must leave the other alone
    let pools = name_pools();
    for (pname, pool) in &pools {
        let hn = hexnames(pool);
        let pairs: Vec<(usize, usize)> = if *pname == "dotted" { vec![(0, 1), (1, 0), (0, 2), (2, 0), (1, 2)] } else { vec![(0, 1), (1, 0), (0, 2), (2, 1)] };
        for (i, j) in pairs { let (x, y) = (&hn[i], &hn[j]);
            for second in ["U.{}.11", "C.{}.11.G.d1.d3", "C.{}.11.V.d4.k2", "C.{}.11.G.d1.k2"] {
                let ops = vec![format!("C.{x}.11.G.d1.k2"), format!("M.{x}.4_9"), format!("S.{x}.0=63"), format!("C.{y}.11.G.d1.k2"), format!("M.{y}.5_~"), format!("S.{y}.1=64+2=65"), "R".into(), second.replace("{}", y), format!("C.{x}.11.G.d1.k2"), "R".into(), second.replace("{}", x), format!("C.{y}.11.V.d7.k1")];
                let mut c = mk(&[x.as_str(), y.as_str()], ops, "directed-dotted"); c.tags.push(("names".into(), pname.to_string())); emit(c);
            }
        }
    }
    // 2c. directed "twice": the same layer requested twice in one build with different kinds / flags / metadata types, then every
    //     writer through the reference handed out FIRST, a restore and a keep
    let reqs = ["C.{}.10.G.d1.k2", "C.{}.01.V.r5_~_6.k2", "C.{}.11.G.d1.k2", "U.{}.10", "U.{}.01", "U.{}.11", "C.{}.00.V.d1.d3"];
    for r1 in reqs { for r2 in reqs {
        let ops = vec![r1.replace("{}", &a), r2.replace("{}", &a), format!("M.{a}.3_8"), format!("S.{a}.1=6e"), format!("E.{a}.L/o/51/77,P:776562/a/50/78"), format!("X.{a}.{}=2321", hex(b"p1")), format!("F.{a}.{}=64", hex(b"data")), "R".into(), format!("C.{a}.11.G.d1.k2"), format!("C.{a}.11.V.d1.k4")];
        emit(mk(&[&a, &b], ops, "twice"));
    } }
    // 2d. directed "retry": a populated, restored layer; a request that fails (restored-layer callback fails / invalid-metadata
    //     callback fails / metadata file is not a document), then the request again with every decision; write; restore; keep
    let retries = ["C.{}.11.V.d1.k2", "C.{}.11.V.d1.d3", "C.{}.11.G.d1.k2", "C.{}.11.V.r5_~_6.k2", "C.{}.01.V.r5_~_6.d3", "U.{}.01", "C.{}.11.V.f.f"];
    for t in ["11", "10", "00"] { for (fi, failing) in [("M.{}.4_9", "C.{}.11.V.d1.f"), ("M.{}.~_7", "C.{}.11.V.f.k2"), ("M.{}.~_~", "C.{}.10.V.f.k2"), ("B.{}", "C.{}.11.G.d1.k2"), ("B.{}", "U.{}.11")].iter().enumerate() { for again in retries {
        let mut ops = vec![format!("C.{a}.{t}.G.d1.k2"), format!("E.{a}.B/p/50415448/2f78"), format!("S.{a}.0=63+2=73"), format!("X.{a}.{}=2321", hex(b"p1")), format!("F.{a}.{}=64", hex(b"data"))];
        if failing.0.starts_with('M') { ops.push(failing.0.replace("{}", &a)); ops.push("R".into()); } else { ops.push(format!("M.{a}.4_9")); ops.push("R".into()); ops.push(failing.0.replace("{}", &a)); }
        ops.push(failing.1.replace("{}", &a)); ops.push(failing.1.replace("{}", &a)); ops.push(again.replace("{}", &a));
        ops.push(format!("F.{a}.{}=65", hex(b"more"))); ops.push("R".into()); ops.push(format!("C.{a}.11.G.d1.k2"));
        let mut c = mk(&[&a], ops, "retry"); c.tags.push(("failing".into(), fi.to_string())); emit(c);
    } } }
    // 2e. directed "chain": restore / keep chains of length 3..6 (thorough ..9), flags and metadata type changing along the
    //     chain, one writer per build (so every kind of content is carried across several restores), final delete
    let max_chain = if thorough { 9 } else { 6 };
    for len in 3..=max_chain { for variant in 0..5usize {
        let mut ops = vec![format!("C.{a}.11.G.d1.k2"), format!("M.{a}.4_9"), format!("E.{a}.A/a/50/76,P:776562/o/51/77"), format!("S.{a}.0=63+1=+2=73"), format!("X.{a}.{}=2321+{}=", hex(b"p1"), hex(b"p2")), format!("F.{a}.{}=", hex(b"empty"))];
        for i in 0..len {
            ops.push("R".into());
            let fl = ["11", "10", "01", "00"][(i + variant) % 4]; let mt = if (i + variant) % 2 == 0 { "V" } else { "G" };
            ops.push(format!("C.{a}.{fl}.{mt}.d1.k{}", i % 9));
            ops.push(match (i + variant) % 5 { 0 => format!("F.{a}.{}={}", hex(format!("g{i}").as_bytes()), hex(&[b'a' + i as u8])), 1 => format!("M.{a}.{}_{}", INTS[i % 8], i), 2 => format!("S.{a}.1={}", hex(&[b'a' + i as u8])), 3 => format!("E.{a}.L/p/{}/{}", hex(format!("N{i}").as_bytes()), hex(b"v")), _ => format!("X.{a}.{}=31", hex(format!("q{i}").as_bytes())) });
        }
        ops.push("R".into()); ops.push(format!("C.{a}.11.V.d1.d3")); ops.push("R".into()); ops.push(format!("C.{a}.11.G.d1.k2"));
        let mut c = mk(&[&a, &c], ops, "chain"); c.tags.push(("chain".into(), len.to_string())); emit(c);
    } }
    // 2f. directed "values": every special metadata integer / content from the pools written, carried over a restore and kept
    let contents = content_pool();
    for (i, v) in INTS.iter().enumerate() { let w = INTS[(i + 3) % 8];
        for meta in [format!("{v}_~"), format!("~_{w}"), format!("{v}_{w}")] {
            let ops = vec![format!("C.{a}.11.G.d1.k2"), format!("M.{a}.{meta}"), "R".into(), format!("C.{a}.11.V.r{w}_~_6.k2"), "R".into(), format!("C.{a}.11.G.d1.k2"), format!("M.{a}.~_~"), "R".into(), format!("C.{a}.11.G.d1.k2"), format!("C.{a}.11.V.r{v}_~_1.d3")];
            emit(mk(&[&a], ops, "values"));
        }
    }
    for ct in &contents { let h = hex(ct);
        let ops = vec![format!("C.{a}.11.G.d1.k2"), format!("S.{a}.0={h}+1={h}+2={h}"), format!("F.{a}.{}={h}", hex(b"f")), format!("X.{a}.{}={h}", hex(b"p")), format!("E.{a}.A/o/{}/{h}", hex(b"V")), "R".into(), format!("C.{a}.01.G.d1.k2"), format!("S.{a}.1={h}"), "R".into(), format!("C.{a}.11.G.d1.d3")];
        emit(mk(&[&a], ops, "values"));
    }
    // 2g. directed "big": container sizes on both sides of 16/20/32/64/128 - files in a layer, env entries, exec.d programs,
    //     layers in the layers directory - populated, restored, kept, changed, restored, deleted
    let sizes: Vec<usize> = if thorough { vec![15, 16, 17, 18, 19, 20, 21, 22, 31, 32, 33, 34, 63, 64, 65, 66, 127, 128, 129, 130] } else { vec![17, 21, 33, 65, 129] };
    for &n in &sizes {
        let tag = |mut c: Case, what: &str| { c.tags.push(("big".into(), what.into())); c.tags.push(("size".into(), n.to_string())); c };
        for second in ["C.{}.11.V.d1.k2", "C.{}.11.G.d1.d3"] {
            // files
            let mut ops = vec![format!("C.{a}.11.G.d1.k2"), format!("M.{a}.4_9")];
            for i in 0..n { ops.push(format!("F.{a}.{}={}", hex(format!("f{i:03}").as_bytes()), hex(format!("{i}").as_bytes()))); }
            ops.extend(["R".into(), second.replace("{}", &a), format!("F.{a}.{}=", hex(b"f000")), "R".into(), format!("U.{a}.11")]);
            emit(tag(mk(&[&a, &b], ops, "big"), "files"));
            // env entries
            for main in ["A", "L", "procs"] {
                let ops = vec![format!("C.{a}.11.G.d1.k2"), format!("M.{a}.4_9"), format!("E.{a}.{}", big_env(n, main)), "R".into(), second.replace("{}", &a), format!("E.{a}.{}", big_env(n - 1, main)), "R".into(), format!("C.{a}.11.G.d1.k2"), format!("E.{a}.-"), "R".into(), format!("C.{a}.11.G.d1.d3")];
                emit(tag(mk(&[&a, &b], ops, "big"), &format!("env-{main}")));
            }
            // exec.d programs
            let progs = |k: usize| join("+", &(0..k).map(|i| format!("{}={}", hex(format!("prog{i:03}").as_bytes()), hex(format!("#!{i}").as_bytes()))).collect::<Vec<_>>());
            let ops = vec![format!("C.{a}.11.G.d1.k2"), format!("M.{a}.4_9"), format!("X.{a}.{}", progs(n)), "R".into(), second.replace("{}", &a), format!("X.{a}.{}", progs(n + 1)), format!("X.{a}.{}", progs(n + 1)), "R".into(), format!("C.{a}.11.G.d1.k2"), format!("X.{a}.-"), "R".into(), format!("U.{a}.10")];
            emit(tag(mk(&[&a, &b], ops, "big"), "execd"));
        }
        // layers (each step's snapshot lists every layer: the biggest sizes only in the thorough tier)
        if n <= 66 || thorough {
            let names: Vec<String> = (0..n).map(|i| hex(format!("l{i:03}").as_bytes())).collect();
            let mut ops: Vec<String> = vec![];
            for (i, l) in names.iter().enumerate() { ops.push(format!("C.{l}.{}.G.d1.k2", ["11", "10", "01", "00"][i % 4])); if i % 7 == 0 { ops.push(format!("M.{l}.{i}_~")); } if i % 5 == 0 { ops.push(format!("S.{l}.{}={}", i % 3, hex(format!("{i}").as_bytes()))); } }
            ops.push("R".into());
            let mid = &names[n / 2]; let last = &names[n - 1]; let first = &names[0];
            ops.extend([format!("C.{mid}.11.G.d1.d3"), format!("U.{last}.11"), format!("C.{first}.11.V.d1.k2"), format!("S.{first}.-"), format!("B.{}", names[1]), format!("C.{}.11.G.d1.k2", names[1])]);
            for l in names.iter().step_by(3) { ops.push(format!("C.{l}.11.G.d1.k5")); }
            ops.push("R".into()); ops.push(format!("C.{mid}.11.G.d1.k2"));
            let nr: Vec<&str> = names.iter().map(String::as_str).collect();
            emit(tag(mk(&nr, ops, "big"), "layers"));
        }
    }
    // 3. sampled histories over three names (half of them the dotted-prefix names, else any of the name pools), values from pools
    let samples = if thorough { 50_000 } else { 3_000 };
    let maxlen = if thorough { 40 } else { 14 };
    for idx in 0..samples {
        let mut r = Rng::for_case(seed, idx);
        let (pname, pool) = if r.chance(1, 2) { &pools[0] } else { r.pick(&pools) };
        let hn = hexnames(pool);
        let names: Vec<&str> = hn.iter().map(String::as_str).collect();
        let len = 1 + r.below(maxlen);
        let mut ops: Vec<String> = vec![];
        let mut live: Vec<&str> = vec![];
        let int = |r: &mut Rng| -> i64 { if r.chance(1, 6) { *r.pick(&INTS) } else { r.below(50) as i64 } };
        for _ in 0..len {
            let n = if !live.is_empty() && r.chance(3, 4) { *r.pick(&live) } else { *r.pick(&names) };
            let roll = r.below(100);
            let op = if roll < 28 {
                let mt = if r.chance(1, 2) { "G" } else { "V" };
                let ci = match r.below(6) { 0 | 1 => format!("d{}", r.below(9)), 2 | 3 | 4 => format!("r{}_~_{}", int(&mut r), r.below(9)), _ => "f".into() };
                let ci = if mt == "G" { format!("d{}", r.below(9)) } else { ci };
                let cr = match r.below(7) { 0 | 1 | 2 => format!("k{}", r.below(9)), 3 | 4 | 5 => format!("d{}", r.below(9)), _ => "f".into() };
                if !live.contains(&n) { live.push(n); }
                format!("C.{n}.{}{}.{mt}.{ci}.{cr}", r.below(2), r.below(2))
            } else if roll < 36 { if !live.contains(&n) { live.push(n); } format!("U.{n}.{}{}", r.below(2), r.below(2)) }
            else if roll < 46 { format!("M.{n}.{}_{}", if r.chance(2, 3) { int(&mut r).to_string() } else { "~".into() }, if r.chance(1, 3) { int(&mut r).to_string() } else { "~".into() }) }
            else if roll < 54 { let k = if r.chance(1, 8) { 4 + r.below(20) } else { r.below(3) }; let e: Vec<String> = (0..k).map(|_| format!("{}/{}/{}/{}", r.pick(&ENV_SCOPES), r.pick(&BEHS), hex(*r.pick(&ENV_NAMES)), hex(*r.pick(&ENV_VALS)))).collect(); format!("E.{n}.{}", join(",", &e)) }
            else if roll < 64 { let mut sb = vec![]; for i in 0..3 { if r.chance(1, 3) { sb.push(format!("{i}={}", if r.chance(1, 4) { hex(r.pick::<Vec<u8>>(&contents)) } else { hex(&[b'a' + r.below(20) as u8]) })); } } format!("S.{n}.{}", join("+", &sb)) }
            else if roll < 72 { match r.below(8) { 0 => format!("X.{n}.-"), 1 => format!("X.{n}.{}=~", hex(b"gone")), _ => { let k = 1 + r.below(3) as usize; let mut pn: Vec<&str> = PROG_NAMES.to_vec(); r.shuffle(&mut pn); let ps: Vec<String> = pn[..k].iter().map(|p| format!("{}={}", hex(p.as_bytes()), if r.chance(1, 4) { hex(r.pick::<Vec<u8>>(&contents)) } else { hex(&[b'0' + r.below(9) as u8]) })).collect(); format!("X.{n}.{}", ps.join("+")) } } }
            else if roll < 82 { format!("F.{n}.{}={}", hex(r.pick(&FILE_NAMES).as_bytes()), if r.chance(1, 4) { hex(r.pick::<Vec<u8>>(&contents)) } else { hex(&[b'A' + r.below(20) as u8]) }) }
            else if roll < 84 { format!("B.{n}") }
            else { live.clear(); "R".into() };
            ops.push(op);
        }
        let mut c = mk(&names, ops, "rnd"); c.tags.push(("names".into(), pname.to_string())); emit(c);
    }
}

fn main() { main_loop_jobs("c01", 12, &generate, &run_case); }
