//! Test buildpack executable (C05, C06): a real `buildpack_main!` program whose detect/build/on_error behaviour is
//! steered by environment variables and which records what happened in the directory named by `TBP_OUT`:
//!   `detect.ran`, `build.ran`          marker files
//!   `on_error.count`                   one line (the error's variant name) appended per `on_error` call
//!   `context.dump`                     canonical one-line text of the context handed to detect/build
//! `TBP_DETECT` = pass | passplan | passeplan | passxplan | fail | err
//! `TBP_BUILD`  = ok:<items> | err | layererr   items (comma separated, applied to the BuildResultBuilder in this order, so
//!                a later launch/store replaces an earlier one): launch elaunch xlaunch, store estore xstore,
//!                b.<fmt> be.<fmt> bx.<fmt> (build SBOMs), l.<fmt> le.<fmt> lx.<fmt> (launch SBOMs), fmt = cdx|spdx|syft;
//!                `ok:` alone = empty result. Sized payloads (C05, output sizes around the 8 KiB buffer of a `BufWriter`):
//!                slaunch<N> / sstore<N> = the normal launch / store document padded to exactly N bytes of TOML,
//!                bs<N>.<fmt> / ls<N>.<fmt> = SBOM data of exactly N bytes (`{"tbp-sbom":k,"pad":"aaa…"}`).
//! `TBP_STORE_FULL` (C05) = 1: `build` replaces `<layers>/store.toml` (already read by the runtime) by a symbolic link to
//!                `/dev/full`, so that the runtime's later write of store.toml opens fine and fails with ENOSPC.
//! Payloads are fixed and recognisable, each in three variants - normal / e = empty-minimal / x = other shape:
//! plan: provides "tbp-plan" / `BuildPlan::new()` / requires with metadata plus an `or` alternative;
//! launch: one process "tbpweb" / `Launch::default()` / one label and one slice, no process;
//! store: metadata {tbp="new"} / empty metadata table / nested metadata;
//! SBOM number k (position in the item list): `{"tbp-sbom":k}` / no bytes at all / the non-UTF-8 bytes FF 00 followed by k.
use libcnb::build::{BuildContext, BuildResult, BuildResultBuilder};
use libcnb::data::build_plan::{BuildPlan, BuildPlanBuilder, Require};
use libcnb::data::launch::{Label, Launch, LaunchBuilder, ProcessBuilder, Slice};
use libcnb::data::sbom::SbomFormat;
use libcnb::data::store::Store;
use libcnb::data::{layer_name, process_type};
use libcnb::detect::{DetectContext, DetectResult, DetectResultBuilder};
use libcnb::generic::{GenericMetadata, GenericPlatform};
use libcnb::layer::UncachedLayerDefinition;
use libcnb::sbom::Sbom;
use libcnb::{Buildpack, Platform, Target, buildpack_main};
use std::io::Write;
use std::os::unix::ffi::OsStrExt;
use std::path::{Path, PathBuf};

fn hex(b: &[u8]) -> String { let mut s = String::with_capacity(b.len() * 2); for x in b { s.push_str(&format!("{x:02x}")); } s }
fn out_dir() -> Option<PathBuf> { std::env::var_os("TBP_OUT").map(PathBuf::from) }
fn marker(name: &str) { if let Some(d) = out_dir() { let _ = std::fs::write(d.join(name), b"1"); } }
fn append(name: &str, line: &str) {
    if let Some(d) = out_dir() {
        if let Ok(mut f) = std::fs::OpenOptions::new().create(true).append(true).open(d.join(name)) { let _ = writeln!(f, "{line}"); }
    }
}

#[derive(Debug)]
enum TbpError { Requested }

// ---------------------------------------------------------------- canonical dump of what the context holds
fn canon_value(v: &toml::Value) -> String {
    match v {
        toml::Value::String(s) => format!("s:{}", hex(s.as_bytes())),
        toml::Value::Integer(i) => format!("i:{i}"),
        toml::Value::Boolean(b) => format!("b:{}", u8::from(*b)),
        toml::Value::Float(f) => format!("f:{}", hex(f.to_string().as_bytes())),
        toml::Value::Datetime(d) => format!("d:{}", hex(d.to_string().as_bytes())),
        toml::Value::Array(a) => format!("[{}]", a.iter().map(canon_value).collect::<Vec<_>>().join(",")),
        toml::Value::Table(t) => canon_table(t),
    }
}
fn canon_table(t: &toml::value::Table) -> String {
    let mut kv: Vec<(Vec<u8>, String)> = t.iter().map(|(k, v)| (k.as_bytes().to_vec(), canon_value(v))).collect();
    kv.sort();
    format!("{{{}}}", kv.iter().map(|(k, v)| format!("{}={}", hex(k), v)).collect::<Vec<_>>().join(","))
}
fn opt_s(o: &Option<String>) -> String { match o { None => "none".into(), Some(s) => format!("s:{}", hex(s.as_bytes())) } }
fn path_hex(p: &Path) -> String { hex(p.as_os_str().as_bytes()) }

fn canon_target(t: &Target) -> String {
    format!("os={};arch={};variant={};dname={};dver={}", hex(t.os.as_bytes()), hex(t.arch.as_bytes()), opt_s(&t.arch_variant), hex(t.distro_name.as_bytes()), hex(t.distro_version.as_bytes()))
}
fn canon_env(p: &GenericPlatform) -> String {
    let mut kv: Vec<(Vec<u8>, Vec<u8>)> = p.env().iter().map(|(k, v)| (k.as_bytes().to_vec(), v.as_bytes().to_vec())).collect();
    kv.sort();
    if kv.is_empty() { "-".into() } else { kv.iter().map(|(k, v)| format!("{}:{}", hex(k), hex(v))).collect::<Vec<_>>().join(",") }
}
fn canon_descriptor(d: &libcnb::data::buildpack::ComponentBuildpackDescriptor<GenericMetadata>) -> String {
    let b = &d.buildpack;
    let mut sf: Vec<&str> = b.sbom_formats.iter().map(|f| match f { SbomFormat::CycloneDxJson => "cdx", SbomFormat::SpdxJson => "spdx", SbomFormat::SyftJson => "syft" }).collect();
    sf.sort();
    let lic = b.licenses.iter().map(|l| format!("{}/{}", opt_s(&l.r#type), opt_s(&l.uri))).collect::<Vec<_>>().join(",");
    let stacks = d.stacks.iter().map(|s| format!("{}/{}", hex(s.id.as_bytes()), s.mixins.iter().map(|m| hex(m.as_bytes())).collect::<Vec<_>>().join("+"))).collect::<Vec<_>>().join(",");
    let targets = d.targets.iter().map(|t| format!("{}/{}/{}/{}", opt_s(&t.os), opt_s(&t.arch), opt_s(&t.variant), t.distros.iter().map(|x| format!("{}@{}", hex(x.name.as_bytes()), hex(x.version.as_bytes()))).collect::<Vec<_>>().join("+"))).collect::<Vec<_>>().join(",");
    format!("api:{}.{}|id:{}|name:{}|version:{}|homepage:{}|clearenv:{}|description:{}|keywords:[{}]|licenses:[{}]|sbomformats:[{}]|stacks:[{}]|targets:[{}]|metadata:{}",
        d.api.major, d.api.minor, hex(b.id.as_bytes()), opt_s(&b.name), hex(b.version.to_string().as_bytes()), opt_s(&b.homepage), u8::from(b.clear_env), opt_s(&b.description),
        b.keywords.iter().map(|k| hex(k.as_bytes())).collect::<Vec<_>>().join(","), lic, sf.join(","), stacks, targets,
        match &d.metadata { None => "none".to_string(), Some(t) => canon_table(t) })
}

/// the normal launch document with one padding argument, `n` bytes of TOML in all (as `toml::to_string` writes it)
fn sized_launch(n: usize) -> Launch {
    let mk = |pad: usize| LaunchBuilder::new().process(ProcessBuilder::new(process_type!("tbpweb"), ["run"]).arg("a".repeat(pad)).build()).build();
    let base = toml::to_string(&mk(0)).map(|s| s.len()).unwrap_or(0);
    mk(n.saturating_sub(base))
}
/// the normal store document with one padding key, `n` bytes of TOML in all
fn sized_store(n: usize) -> Store {
    let mk = |pad: usize| { let mut t = toml::value::Table::new(); t.insert("tbp".into(), toml::Value::String("new".into())); t.insert("pad".into(), toml::Value::String("a".repeat(pad))); Store { metadata: t } };
    let base = toml::to_string(&mk(0)).map(|s| s.len()).unwrap_or(0);
    mk(n.saturating_sub(base))
}

struct Tbp;

impl Buildpack for Tbp {
    type Platform = GenericPlatform;
    type Metadata = GenericMetadata;
    type Error = TbpError;

    fn detect(&self, c: DetectContext<Self>) -> libcnb::Result<DetectResult, Self::Error> {
        marker("detect.ran");
        if let Some(d) = out_dir() {
            let dump = format!("phase=detect;app={};bp={};layers=-;{};env={};plan=-;store=-;desc={}",
                path_hex(&c.app_dir), path_hex(&c.buildpack_dir), canon_target(&c.target), canon_env(&c.platform), canon_descriptor(&c.buildpack_descriptor));
            let _ = std::fs::write(d.join("context.dump"), dump);
        }
        match std::env::var("TBP_DETECT").as_deref() {
            Ok("pass") => DetectResultBuilder::pass().build(),
            Ok("passplan") => DetectResultBuilder::pass().build_plan(BuildPlanBuilder::new().provides("tbp-plan").build()).build(),
            Ok("passeplan") => DetectResultBuilder::pass().build_plan(BuildPlan::new()).build(),
            Ok("passxplan") => {
                let mut req = Require::new("tbp-req");
                let mut md = toml::value::Table::new();
                md.insert("v".into(), toml::Value::Integer(1));
                req.metadata(md).unwrap();
                DetectResultBuilder::pass().build_plan(BuildPlanBuilder::new().requires(req).or().provides("tbp-alt").build()).build()
            }
            Ok("fail") => DetectResultBuilder::fail().build(),
            _ => Err(libcnb::Error::BuildpackError(TbpError::Requested)),
        }
    }

    fn build(&self, c: BuildContext<Self>) -> libcnb::Result<BuildResult, Self::Error> {
        marker("build.ran");
        if let Some(d) = out_dir() {
            let plan = c.buildpack_plan.entries.iter().map(|e| format!("{}~{}", hex(e.name.as_bytes()), canon_table(&e.metadata))).collect::<Vec<_>>().join(",");
            let dump = format!("phase=build;app={};bp={};layers={};{};env={};plan=[{}];store={};desc={}",
                path_hex(&c.app_dir), path_hex(&c.buildpack_dir), path_hex(&c.layers_dir), canon_target(&c.target), canon_env(&c.platform), plan,
                match &c.store { None => "none".to_string(), Some(s) => canon_table(&s.metadata) }, canon_descriptor(&c.buildpack_descriptor));
            let _ = std::fs::write(d.join("context.dump"), dump);
        }
        if std::env::var_os("TBP_STORE_FULL").is_some() {
            let p = c.layers_dir.join("store.toml");
            let _ = std::fs::remove_file(&p);
            let _ = std::os::unix::fs::symlink("/dev/full", &p);
        }
        let beh = std::env::var("TBP_BUILD").unwrap_or_default();
        if beh == "layererr" {
            // a layer whose <name>.toml cannot be read: the framework's own LayerError travels through `?`
            let _ = std::fs::create_dir_all(c.layers_dir.join("tbpblocked.toml"));
            c.uncached_layer(layer_name!("tbpblocked"), UncachedLayerDefinition { build: true, launch: false })?;
            return Err(libcnb::Error::BuildpackError(TbpError::Requested));
        }
        let Some(items) = beh.strip_prefix("ok:") else { return Err(libcnb::Error::BuildpackError(TbpError::Requested)); };
        let mut r = BuildResultBuilder::new();
        for (k, item) in items.split(',').filter(|s| !s.is_empty()).enumerate() {
            let fmt = |s: &str| match s { "cdx" => SbomFormat::CycloneDxJson, "spdx" => SbomFormat::SpdxJson, _ => SbomFormat::SyftJson };
            let sbom = |kind: &str| -> Vec<u8> { match kind { "e" => vec![], "x" => { let mut d = vec![0xff, 0x00]; d.extend_from_slice(k.to_string().as_bytes()); d } _ => format!("{{\"tbp-sbom\":{k}}}").into_bytes() } };
            let (head, f) = item.split_once('.').unwrap_or((item, ""));
            match head {
                "launch" => { r = r.launch(LaunchBuilder::new().process(ProcessBuilder::new(process_type!("tbpweb"), ["run"]).build()).build()); }
                "elaunch" => { r = r.launch(Launch::default()); }
                "xlaunch" => { r = r.launch(Launch { labels: vec![Label { key: "tbp".into(), value: "x".into() }], processes: vec![], slices: vec![Slice { path_globs: vec!["*.x".into()] }] }); }
                "store" => { let mut t = toml::value::Table::new(); t.insert("tbp".into(), toml::Value::String("new".into())); r = r.store(Store { metadata: t }); }
                "estore" => { r = r.store(Store { metadata: toml::value::Table::new() }); }
                "xstore" => {
                    let mut n = toml::value::Table::new(); n.insert("a".into(), toml::Value::Array(vec![toml::Value::Integer(1), toml::Value::Integer(2)]));
                    let mut t = toml::value::Table::new(); t.insert("tbp".into(), toml::Value::String("x".into())); t.insert("nested".into(), toml::Value::Table(n));
                    r = r.store(Store { metadata: t });
                }
                h if h.starts_with("slaunch") && h[7..].parse::<usize>().is_ok() => { r = r.launch(sized_launch(h[7..].parse().unwrap())); }
                h if h.starts_with("sstore") && h[6..].parse::<usize>().is_ok() => { r = r.store(sized_store(h[6..].parse().unwrap())); }
                h if !f.is_empty() && (h.starts_with("bs") || h.starts_with("ls")) && h[2..].parse::<usize>().is_ok() => {
                    let base = format!("{{\"tbp-sbom\":{k},\"pad\":\"\"}}").len();
                    let data = format!("{{\"tbp-sbom\":{k},\"pad\":\"{}\"}}", "a".repeat(h[2..].parse::<usize>().unwrap().saturating_sub(base))).into_bytes();
                    r = if h.starts_with('b') { r.build_sbom(Sbom::from_bytes(fmt(f), data)) } else { r.launch_sbom(Sbom::from_bytes(fmt(f), data)) };
                }
                "b" | "be" | "bx" if !f.is_empty() => { r = r.build_sbom(Sbom::from_bytes(fmt(f), sbom(&head[1..]))); }
                "l" | "le" | "lx" if !f.is_empty() => { r = r.launch_sbom(Sbom::from_bytes(fmt(f), sbom(&head[1..]))); }
                _ => return Err(libcnb::Error::BuildpackError(TbpError::Requested)),
            }
        }
        r.build()
    }

    fn on_error(&self, error: libcnb::Error<Self::Error>) {
        let dbg = format!("{error:?}");
        let kind: String = dbg.chars().take_while(|c| c.is_ascii_alphanumeric()).collect();
        append("on_error.count", &kind);
    }
}

buildpack_main!(Tbp);
