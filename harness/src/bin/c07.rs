//! C07 correspondence: random builder call sequences and payload strings through the real builders
//! (LaunchBuilder / ProcessBuilder / BuildPlanBuilder / Require::metadata, LayerContentMetadata, Store,
//! `write_exec_d_program_output` captured from fd 3 of a helper process, PackageDescriptor) and `write_toml_file`;
//! the written bytes are parsed by an **independent** TOML reader (Python `tomllib`, tools/toml2tree.py, one call per
//! batch) and that tree is the observation: `<tree>;rt=<1|0|->` (`rt`: libcnb's own reader returns the value written).
//! Family `launchseq`: `build()` is an operation *inside* the call sequence of the non-consuming builders (`B` on the
//! LaunchBuilder, `b` on a ProcessBuilder); every built `Launch` — not only the last — is written to its own file and decoded on
//! its own, the observation is the list of documents joined by ` || `.
//! Family `layerfile`: layers are constructed through the PUBLIC layer APIs (`BuildContext::{cached_layer, uncached_layer}` +
//! `LayerRef::write_metadata`, trait API `BuildContext::handle_layer`) in one layers directory; then, for every layer name used,
//! the file at the path the CNB spec gives for that layer — `<layers>/<name>.toml` — is handed to the independent reader
//! (one document per distinct name, in order of first use, joined by ` || `), and the layers directory is listed: every entry that
//! is neither `<name>` nor `<name>.toml` of a constructed layer is reported in the suffix ` ;; stray=<hex names|->`.
#![allow(deprecated)]
use cnbv::ctx::{TbError, TestBuildpack, build_context};
use cnbv::tomlwire::{V, from_wire, to_wire};
use cnbv::*;
use libcnb::build::BuildContext;
use libcnb::data::layer::LayerName;
use libcnb::layer::{CachedLayerDefinition, ExistingLayerStrategy, InvalidMetadataAction, Layer, LayerData, LayerResult, LayerResultBuilder, RestoredLayerAction, UncachedLayerDefinition};
use libcnb::data::build_plan::{BuildPlanBuilder, Require};
use libcnb::data::exec_d::{ExecDProgramOutput, ExecDProgramOutputKey};
use libcnb::data::generic::GenericMetadata;
use libcnb::data::launch::{Label, Launch, LaunchBuilder, Process, ProcessBuilder, ProcessType, Slice, WorkingDirectory};
use libcnb::data::layer_content_metadata::{LayerContentMetadata, LayerTypes};
use libcnb::data::package_descriptor::{PackageDescriptor, PackageDescriptorBuildpackReference, PackageDescriptorDependency, Platform, PlatformOs};
use libcnb::data::store::Store;
use libcnb::{read_toml_file, write_toml_file};
use std::io::{BufRead, Write};
use std::path::{Path, PathBuf};
use toml::Value;

// ---------------------------------------------------------------- tokens
fn xs(s: &str) -> String { format!("x{}", hex(s.as_bytes())) }
fn ux(t: &str) -> String { String::from_utf8(unhex(t.strip_prefix('x').expect("x")).expect("hex")).expect("utf8") }
fn uxs(t: &str) -> Vec<String> { split_list(t, ",").iter().map(|s| ux(s)).collect() }
fn table_of(wire: &str) -> toml::Table { match from_wire(wire) { Some(Value::Table(t)) => t, _ => panic!("table") } }

// ---------------------------------------------------------------- typed values -> model vocabulary (own-reader comparison)
fn process_v(p: &Process) -> V {
    V::rec(vec![("type", V::S(p.r#type.to_string())), ("command", V::strs(&p.command)), ("args", V::strs(&p.args)), ("default", V::B(p.default)),
        ("working-dir", match &p.working_directory { WorkingDirectory::App => V::N, WorkingDirectory::Directory(d) => V::S(d.to_string_lossy().into_owned()) })])
}
fn launch_v(l: &Launch) -> V {
    V::rec(vec![("labels", V::A(l.labels.iter().map(|l| V::rec(vec![("key", V::S(l.key.clone())), ("value", V::S(l.value.clone()))])).collect())),
        ("processes", V::A(l.processes.iter().map(process_v).collect())),
        ("slices", V::A(l.slices.iter().map(|s| V::rec(vec![("paths", V::strs(&s.path_globs))])).collect()))])
}
fn layer_v(l: &LayerContentMetadata<GenericMetadata>) -> V {
    V::rec(vec![("types", match &l.types { Some(t) => V::rec(vec![("launch", V::B(t.launch)), ("build", V::B(t.build)), ("cache", V::B(t.cache))]), None => V::N }),
        ("metadata", match &l.metadata { Some(t) => V::X(Value::Table(t.clone())), None => V::N })])
}
fn package_v(p: &PackageDescriptor) -> V {
    V::rec(vec![("buildpack", V::S(p.buildpack.uri.to_string())), ("dependencies", V::strs(p.dependencies.iter().map(|d| d.uri.to_string()))),
        ("os", V::S(match p.platform.os { PlatformOs::Linux => "linux", PlatformOs::Windows => "windows" }.into()))])
}

// ---------------------------------------------------------------- the real builders
/// What the target path holds before the real write (`pre=` field). `t` is the text the same write produces on a fresh path.
fn pre_content(kind: &str, pre: &str, t: &[u8]) -> Option<Vec<u8>> {
    Some(match pre {
        "fresh" => return None,
        "empty" => vec![],
        "same" => t.to_vec(),
        "shorter" => t[..t.len() / 2].to_vec(),
        // longer than any document the generators produce, and not TOML
        "garbage" => { let mut g = t.to_vec(); while g.len() < t.len() + 65536 { g.extend_from_slice(b"!!!! not = [[ toml\n\"\"\" garbage ]\n"); } g }
        // a longer valid document of the same type: the same text followed by further keys
        "longer" => {
            let extra: &str = match kind {
                "launch" => "\n[[labels]]\nkey = \"stale\"\nvalue = \"left over from the previous file\"\n\n[[slices]]\npaths = [\"stale/**\"]\n",
                "plan" => "\n[[or]]\n\n[[or.provides]]\nname = \"stale\"\n",
                "layer" | "store" => "\n[metadata.zz_stale_from_previous_file]\nstale = true\nlist = [1, 2, 3]\n",
                "package" => "\n[[dependencies]]\nuri = \"stale/from/previous/file\"\n",
                _ => panic!("kind"),
            };
            let mut l = t.to_vec(); l.extend_from_slice(extra.as_bytes()); l
        }
        _ => panic!("pre"),
    })
}

/// writes the document of one case to `path` with the real writer — first on the fresh path, then (unless `pre=fresh`)
/// once more over a pre-existing file at the same path; returns the own-reader flag (`1`, `0`, `-`)
fn write_case(f0: &[String], path_of: &dyn Fn(usize) -> PathBuf) -> Vec<String> {
    let (pre, f): (&str, &[String]) = match f0.last().and_then(|l| l.strip_prefix("pre=")) { Some(p) => (p, &f0[..f0.len() - 1]), None => ("fresh", f0) };
    if f[0] == "launchseq" {
        // every `Launch` the builder hands out, in the order of the `build()` calls; each one goes through the real writer to its own path
        return launch_session(&f[1]).into_iter().enumerate().map(|(k, launch)| {
            let l2 = launch.clone();
            write_doc("launch", pre, &path_of(k), &move |p| write_toml_file(&launch, p).expect("write"),
                &move |p| match read_toml_file::<Launch>(p) { Ok(back) => u8::from(launch_v(&back).render() == launch_v(&l2).render()).to_string(), Err(_) => "0".into() })
        }).collect();
    }
    let path = path_of(0);
    let path: &Path = &path;
    // (the write, the own-reader check)
    let (write, rt): (Box<dyn Fn(&Path)>, Box<dyn Fn(&Path) -> String>) = match f[0].as_str() {
        "launch" => {
            let mut b = LaunchBuilder::new();
            for op in split_list(&f[1], "|") {
                let p: Vec<&str> = op.split('~').collect();
                match p[0] {
                    "P" => {
                        let ty: ProcessType = ux(p[1]).parse().expect("process type");
                        let mut pb = ProcessBuilder::new(ty, uxs(p[2]));
                        for o in split_list(p[3], "/") {
                            let (k, v) = o.split_once(':').unwrap();
                            match k {
                                "a" => { pb.arg(ux(v)); }
                                "A" => { pb.args(uxs(v)); }
                                "d" => { pb.default(v == "1"); }
                                "w" => { pb.working_directory(if v == "-" { WorkingDirectory::App } else { WorkingDirectory::Directory(ux(v).into()) }); }
                                _ => panic!("proc op"),
                            }
                        }
                        b.process(pb.build());
                    }
                    "L" => { b.label(Label { key: ux(p[1]), value: ux(p[2]) }); }
                    "S" => { b.slice(Slice { path_globs: uxs(p[1]) }); }
                    _ => panic!("launch op"),
                }
            }
            let launch = b.build();
            let l2 = launch.clone();
            (Box::new(move |p| write_toml_file(&launch, p).expect("write")),
             Box::new(move |p| match read_toml_file::<Launch>(p) { Ok(back) => u8::from(launch_v(&back).render() == launch_v(&l2).render()).to_string(), Err(_) => "0".into() }))
        }
        "plan" => {
            let ops: Vec<String> = split_list(&f[1], "|").iter().map(|s| s.to_string()).collect();
            (Box::new(move |path| {
                let mut b = BuildPlanBuilder::new();
                for op in &ops {
                    let p: Vec<&str> = op.split('~').collect();
                    b = match p[0] {
                        "p" => b.provides(ux(p[1])),
                        "r" => { let mut r = Require::new(ux(p[1])); r.metadata(table_of(p[2])).expect("metadata"); b.requires(r) }
                        // Require::new + any number of metadata(..) calls; none: requires("name") through From<S>
                        "q" => if p.len() == 2 { b.requires(ux(p[1])) } else { let mut r = Require::new(ux(p[1])); for t in &p[2..] { r.metadata(table_of(t)).expect("metadata"); } b.requires(r) },
                        "o" => b.or(),
                        _ => panic!("plan op"),
                    };
                }
                write_toml_file(&b.build(), path).expect("write")
            }), Box::new(|_| "-".into()))
        }
        "layer" => {
            let types = if f[1] == "-" { None } else { let b: Vec<bool> = f[1].chars().map(|c| c == '1').collect(); Some(LayerTypes { launch: b[0], build: b[1], cache: b[2] }) };
            let metadata: GenericMetadata = if f[2] == "-" { None } else { Some(table_of(&f[2])) };
            let v = LayerContentMetadata { types, metadata: metadata.clone() };
            let v2 = LayerContentMetadata { types, metadata };
            (Box::new(move |p| write_toml_file(&v, p).expect("write")),
             Box::new(move |p| match read_toml_file::<LayerContentMetadata<GenericMetadata>>(p) { Ok(back) => u8::from(back == v2 && layer_v(&back).render() == layer_v(&v2).render()).to_string(), Err(_) => "0".into() }))
        }
        "store" => {
            let v = Store { metadata: table_of(&f[1]) };
            let v2 = v.clone();
            (Box::new(move |p| write_toml_file(&v, p).expect("write")),
             Box::new(move |p| match read_toml_file::<Store>(p) { Ok(back) => u8::from(back.metadata == v2.metadata).to_string(), Err(_) => "0".into() }))
        }
        "package" => {
            let mut v = PackageDescriptor::default();
            v.buildpack = PackageDescriptorBuildpackReference::try_from(ux(&f[1]).as_str()).expect("uri");
            v.dependencies = uxs(&f[2]).iter().map(|d| PackageDescriptorDependency::try_from(d.as_str()).expect("uri")).collect();
            match f[3].as_str() { "-" => {} "linux" => v.platform = Platform { os: PlatformOs::Linux }, "windows" => v.platform = Platform { os: PlatformOs::Windows }, _ => panic!("os") }
            let v2 = v.clone();
            (Box::new(move |p| write_toml_file(&v, p).expect("write")),
             Box::new(move |p| match read_toml_file::<PackageDescriptor>(p) { Ok(back) => u8::from(package_v(&back).render() == package_v(&v2).render()).to_string(), Err(_) => "0".into() }))
        }
        "execd" => {
            // a helper process writes to its fd 3, which the shell has redirected into the file
            let exe = std::env::current_exe().unwrap();
            let pairs = f[1].clone();
            (Box::new(move |path| {
                let st = std::process::Command::new("sh").arg("-c").arg("exec \"$0\" execd-helper \"$1\" 3>\"$OUT\"").arg(&exe).arg(&pairs).env("OUT", path).status().expect("spawn");
                if !st.success() { panic!("helper failed"); }
            }), Box::new(|_| "-".into()))
        }
        _ => panic!("kind"),
    };
    vec![write_doc(&f[0], pre, path, &*write, &*rt)]
}

/// one document: the real write on the fresh path, then (unless `pre=fresh`) once more over a pre-existing file at the same path
fn write_doc(kind: &str, pre: &str, path: &Path, write: &dyn Fn(&Path), rt: &dyn Fn(&Path) -> String) -> String {
    write(path);
    if pre != "fresh" {
        let t = std::fs::read(path).expect("read back");
        let before = pre_content(kind, pre, &t).expect("pre");
        std::fs::write(path, before).expect("prepare");
        write(path);
    }
    rt(path)
}

fn proc_call(pb: &mut ProcessBuilder, o: &str) {
    let (k, v) = o.split_once(':').expect("proc op");
    match k {
        "a" => { pb.arg(ux(v)); }
        "A" => { pb.args(uxs(v)); }
        "d" => { pb.default(v == "1"); }
        "w" => { pb.working_directory(if v == "-" { WorkingDirectory::App } else { WorkingDirectory::Directory(ux(v).into()) }); }
        _ => panic!("proc op"),
    }
}

/// One LaunchBuilder instance driven through a call sequence in which `build()` is an operation like the others
/// (`B`: `LaunchBuilder::build`, `b` inside `P~…`: `ProcessBuilder::build`, its result handed to `process(..)`); one more `build()`
/// of each builder at the end. Returns every `Launch` built, in order. The builders live in `let mut` bindings and `build` is
/// called by method syntax, so this compiles whether `build` takes `&self` or `&mut self`.
#[allow(unused_mut)]
fn launch_session(ops: &str) -> Vec<Launch> {
    let mut built: Vec<Launch> = vec![];
    let mut b = LaunchBuilder::new();
    for op in split_list(ops, "|") {
        if op == "B" { let v = b.build(); built.push(v); continue; }
        if let Some(rest) = op.strip_prefix("Q~") {
            // processes([..]): each element built once by its own ProcessBuilder
            let ps: Vec<Process> = split_list(rest, ";").iter().map(|t| {
                let p: Vec<&str> = t.split('~').collect();
                assert!(p.len() == 3, "process triple");
                let mut pb = ProcessBuilder::new(ux(p[0]).parse().expect("process type"), uxs(p[1]));
                for o in split_list(p[2], "/") { proc_call(&mut pb, o); }
                pb.build()
            }).collect();
            b.processes(ps);
            continue;
        }
        if let Some(rest) = op.strip_prefix("M~") {
            let ls: Vec<Label> = split_list(rest, ";").iter().map(|kv| { let (k, v) = kv.split_once('~').expect("label pair"); Label { key: ux(k), value: ux(v) } }).collect();
            b.labels(ls);
            continue;
        }
        if let Some(rest) = op.strip_prefix("Z~") {
            let ss: Vec<Slice> = split_list(rest, ";").iter().map(|ps| Slice { path_globs: uxs(ps) }).collect();
            b.slices(ss);
            continue;
        }
        let p: Vec<&str> = op.split('~').collect();
        match p[0] {
            "P" => {
                assert!(p.len() == 4, "process op");
                let mut pb = ProcessBuilder::new(ux(p[1]).parse().expect("process type"), uxs(p[2]));
                for o in split_list(p[3], "/") {
                    if o == "b" { let v = pb.build(); b.process(v); } else { proc_call(&mut pb, o); }
                }
                let v = pb.build();
                b.process(v);
            }
            "L" => { assert!(p.len() == 3, "label op"); b.label(Label { key: ux(p[1]), value: ux(p[2]) }); }
            "S" => { assert!(p.len() == 2, "slice op"); b.slice(Slice { path_globs: uxs(p[1]) }); }
            _ => panic!("launch op"),
        }
    }
    let v = b.build();
    built.push(v);
    built
}

// ---------------------------------------------------------------- layers through the public layer APIs (family `layerfile`)
/// trait-API layer whose `create` / `update` return the given metadata (an existing layer is updated)
struct DataLayer { types: LayerTypes, metadata: GenericMetadata }
impl Layer for DataLayer {
    type Buildpack = TestBuildpack;
    type Metadata = GenericMetadata;
    fn types(&self) -> LayerTypes { self.types }
    fn create(&mut self, _c: &BuildContext<TestBuildpack>, _p: &Path) -> Result<LayerResult<GenericMetadata>, TbError> { LayerResultBuilder::new(self.metadata.clone()).build() }
    fn existing_layer_strategy(&mut self, _c: &BuildContext<TestBuildpack>, _d: &LayerData<GenericMetadata>) -> Result<ExistingLayerStrategy, TbError> { Ok(ExistingLayerStrategy::Update) }
    fn update(&mut self, _c: &BuildContext<TestBuildpack>, _d: &LayerData<GenericMetadata>) -> Result<LayerResult<GenericMetadata>, TbError> { LayerResultBuilder::new(self.metadata.clone()).build() }
}

/// `ops`: `<api>~<x name>~<launch build cache bits>~<metadata table|->` joined by `|`, all in ONE layers directory.
/// `c`: `cached_layer` (restored layer kept) then `write_metadata(table)` if a table is given; `u`: `uncached_layer` + the same;
/// `t`: trait API `handle_layer`, `create` / `update` returning the metadata (`-`: `None`).
/// Copies `<layers>/<name>.toml` of every distinct name (order of first use) to `path_of(k)`; returns the own-reader flags and the stray entries.
fn layerfile_case(ops: &str, path_of: &dyn Fn(usize) -> PathBuf) -> Result<(Vec<String>, String), String> {
    let tmp = tempfile::tempdir().expect("tempdir");
    let layers = tmp.path().join("layers");
    std::fs::create_dir(&layers).expect("layers dir");
    let ctx = build_context(&layers, tmp.path());
    // what was constructed, per name (harness-side bookkeeping for the own-reader flag only; the verdict is the specification's)
    let mut constructed: Vec<(String, LayerContentMetadata<GenericMetadata>)> = vec![];
    for (k, op) in split_list(ops, "|").iter().enumerate() {
        let p: Vec<&str> = op.split('~').collect();
        assert!(p.len() == 4 && p[2].len() == 3, "layer op");
        let name_s = ux(p[1]);
        let name: LayerName = name_s.parse().expect("layer name");
        let b: Vec<bool> = p[2].chars().map(|c| c == '1').collect();
        let types = LayerTypes { launch: b[0], build: b[1], cache: b[2] };
        let md: GenericMetadata = if p[3] == "-" { None } else { Some(table_of(p[3])) };
        let before = constructed.iter().position(|(n, _)| *n == name_s);
        let fail = |what: &str| format!("err:op{}:{what}", k + 1);
        let now: LayerContentMetadata<GenericMetadata> = match p[0] {
            "c" => {
                assert!(types.cache, "cached_layer is cache = true");
                let r = ctx.cached_layer(&name, CachedLayerDefinition { build: types.build, launch: types.launch,
                    invalid_metadata_action: &|_| InvalidMetadataAction::DeleteLayer, restored_layer_action: &|_: &GenericMetadata, _| RestoredLayerAction::KeepLayer }).map_err(|_| fail("cached_layer"))?;
                if let Some(t) = &md { r.write_metadata(t.clone()).map_err(|_| fail("write_metadata"))?; }
                LayerContentMetadata { types: Some(types), metadata: md.or_else(|| before.and_then(|i| constructed[i].1.metadata.clone())) }
            }
            "u" => {
                assert!(!types.cache, "uncached_layer is cache = false");
                let r = ctx.uncached_layer(&name, UncachedLayerDefinition { build: types.build, launch: types.launch }).map_err(|_| fail("uncached_layer"))?;
                if let Some(t) = &md { r.write_metadata(t.clone()).map_err(|_| fail("write_metadata"))?; }
                LayerContentMetadata { types: Some(types), metadata: md }
            }
            "t" => {
                ctx.handle_layer(name.clone(), DataLayer { types, metadata: md.clone() }).map_err(|_| fail("handle_layer"))?;
                LayerContentMetadata { types: Some(types), metadata: md }
            }
            _ => panic!("layer api"),
        };
        match before { Some(i) => constructed[i].1 = now, None => constructed.push((name_s, now)) }
    }
    let mut rts = vec![];
    for (k, (name, want)) in constructed.iter().enumerate() {
        // the path the CNB spec gives for the layer's content metadata
        let spec_path = layers.join(format!("{name}.toml"));
        if std::fs::symlink_metadata(&spec_path).map(|m| m.is_file()).unwrap_or(false) {
            std::fs::copy(&spec_path, path_of(k)).expect("copy");
            rts.push(match read_toml_file::<LayerContentMetadata<GenericMetadata>>(&spec_path) { Ok(back) => u8::from(back == *want && layer_v(&back).render() == layer_v(want).render()).to_string(), Err(_) => "0".into() });
        } else { rts.push("0".into()); }
    }
    let mut stray: Vec<String> = std::fs::read_dir(&layers).expect("list").map(|e| e.expect("entry").file_name().to_string_lossy().into_owned())
        .filter(|e| !constructed.iter().any(|(n, _)| e == n || *e == format!("{n}.toml"))).map(|e| hex(e.as_bytes())).collect();
    stray.sort();
    Ok((rts, join(",", &stray)))
}

fn execd_helper(pairs: &str) {
    let v: Vec<(ExecDProgramOutputKey, String)> = split_list(pairs, ",").iter().map(|kv| { let (k, v) = kv.split_once('=').unwrap(); (ux(k).parse::<ExecDProgramOutputKey>().expect("key"), ux(v)) }).collect();
    libcnb::exec_d::write_exec_d_program_output(ExecDProgramOutput::from(v));
}

// ---------------------------------------------------------------- generators
const STRS: &[&str] = &["", "a", "web", "plain text", "with \"quotes\"", "back\\slash", "C:\\path\\to", "tab\there", "line1\nline2", "cr\rlf\r\n", "nul\u{0}byte",
    "bell\u{7}esc\u{1b}", "del\u{7f}", "'single'", "'''triple'''", "\"\"\"triple\"\"\"", "trailing\\", "ünïcödé", "日本語", "emoji 🚀", "e\u{301}combining", "\u{feff}bom", "#not a comment", "a = b",
    "[table]", "  leading and trailing  ", "\u{85}nel\u{2028}ls", "${VAR}", "multi\n\"\"\"\nlines\\"];
const PTYPES: &[&str] = &["web", "worker", "w.1", "a_b-c", "X", "0", "release"];
const KEYS: &[&str] = &["PATH", "FOO", "foo", "FOO_BAR", "a-b", "0", "x1"];
const MKEYS: &[&str] = &["k", "key", "", "a.b", "with space", "ünï", "\"q\"", "1", "true", "k\nl", "'", "#"];
/// valid URI references delivered verbatim by the unchanged code: normal forms, and spellings that are NOT in RFC 3986 normal form
/// (upper-case host / unregistered scheme, dot segments, percent-encoded unreserved characters, trailing dot in the host)
const URIS: &[&str] = &[".", "libcnb:foo/bar", "../relative/dir", "docker://docker.io/heroku/procfile-cnb:2.0.0", "https://example.tld/a%20b?q=1#f", "/abs/path", "urn:cnb:registry:heroku/java", "a/b.cnb",
    "docker://Docker.IO/heroku/example:1.2.3", "DOCKER://docker.io/x", "LIBCNB:foo/bar", "https://h/releases/./x.cnb", "file:///workspace/packaged/../buildpacks/meta",
    "https://h/%7Eteam/node%2ejs.cnb", "https://h/%7eteam", "https://Example.TLD./a", "../a/./b/../c", "https://user:PW@Host/x"];
/// valid, but re-printed by uriparse when the descriptor is constructed (tagged minority)
const URIS_RESPELLED: &[&str] = &["HTTPS://Example.TLD/a", "FILE:///x", "https://h:0080/x", "https://h:/x", "docker://docker.io", "https://h?q", "x://h:"];

fn rstr(r: &mut Rng) -> String { r.pick(STRS).to_string() }
fn rstrs(r: &mut Rng, max: u64) -> Vec<String> { (0..r.below(max + 1)).map(|_| rstr(r)).collect() }
fn lst(v: &[String]) -> String { join(",", &v.iter().map(|s| xs(s)).collect::<Vec<_>>()) }

fn rvalue(r: &mut Rng, depth: u32) -> Value {
    let k = r.below(if depth >= 3 { 6 } else { 9 });
    match k {
        0 => Value::String(rstr(r)),
        1 => Value::Integer(*r.pick(&[0i64, 1, -1, 42, i64::MAX, i64::MIN, 1_000_000_007])),
        2 => Value::Boolean(r.chance(1, 2)),
        3 => Value::Float(*r.pick(&[0.0f64, -0.0, 1.5, -2.25, 1e100, 1e-7, f64::INFINITY, f64::NEG_INFINITY, 3.141592653589793, 0.1])),
        4 => Value::Datetime(r.pick(&["1979-05-27T07:32:00Z", "1979-05-27T00:32:00-07:00", "1979-05-27T07:32:00", "1979-05-27", "07:32:00", "2024-02-29T23:59:59+05:30"]).parse().unwrap()),
        5 => Value::String(rstr(r)),
        6 | 7 => Value::Array((0..r.below(4)).map(|_| rvalue(r, depth + 1)).collect()),
        _ => Value::Table(rtable(r, depth + 1)),
    }
}
fn rtable(r: &mut Rng, depth: u32) -> toml::Table {
    let mut t = toml::Table::new();
    for _ in 0..r.below(if depth == 0 { 5 } else { 3 }) { t.insert(r.pick(MKEYS).to_string(), rvalue(r, depth)); }
    t
}
fn kinds_in(v: &Value, out: &mut std::collections::BTreeSet<&'static str>) {
    match v {
        Value::String(_) => { out.insert("str"); } Value::Integer(_) => { out.insert("int"); } Value::Boolean(_) => { out.insert("bool"); }
        Value::Float(_) => { out.insert("float"); } Value::Datetime(_) => { out.insert("datetime"); }
        Value::Array(a) => { out.insert("array"); for x in a { kinds_in(x, out); } }
        Value::Table(t) => { out.insert("table"); for x in t.values() { kinds_in(x, out); } }
    }
}

fn case(fields: Vec<String>, kind: &str, tags: Vec<(&str, String)>, nontrivial: bool) -> Case {
    let mut t = vec![("kind".to_string(), kind.to_string())];
    t.extend(tags.into_iter().map(|(k, v)| (k.to_string(), v)));
    Case { fields, tags: t, nontrivial }
}

fn plan_case(ops: &[String], kind: &str) -> Case {
    let ors = ops.iter().filter(|o| *o == "o").count();
    let groups: Vec<&[String]> = ops.split(|o| o == "o").collect();
    let empty = groups.iter().filter(|g| g.is_empty()).count();
    let md = ops.iter().any(|o| (o.starts_with("r~") || (o.starts_with("q~") && o.matches('~').count() >= 2)) && !o.ends_with("~T0"));
    case(vec!["plan".into(), join("|", ops)], kind, vec![("ors", ors.min(9).to_string()), ("empty_groups", empty.min(9).to_string()), ("metadata", u8::from(md).to_string())], ors >= 1 || md)
}

const PRES: &[&str] = &["garbage", "longer", "same", "shorter", "empty"];

/// every document is written on a fresh path and also over each kind of pre-existing file (exec.d output goes to fd 3, not to a path)
fn generate(tier: &str, seed: u64, emit0: &mut dyn FnMut(Case)) {
    let mut rot = 0usize;
    let mut emit = |c: Case| {
        // (the layer files of family `layerfile` are written by the layer APIs into a layers directory of their own: what a path held before is part of the call sequence there)
        let is_file = c.fields[0] != "execd" && c.fields[0] != "layerfile";
        // the bounded-exhaustive build()-position sequences are written on fresh paths only (the sampled ones over every kind of old file)
        let fresh_only = c.tags.iter().any(|(k, v)| k == "kind" && v.starts_with("launchseq-exh"));
        // the sampled ones: fresh + one kind of old file each, in rotation (every document of the sequence is written over such a file)
        let rotating = c.tags.iter().any(|(k, v)| k == "kind" && v == "launchseq");
        if rotating { rot += 1; }
        let variants: Vec<&str> = if rotating { vec!["fresh", PRES[rot % PRES.len()]] } else if is_file && !fresh_only { std::iter::once("fresh").chain(PRES.iter().copied()).collect() } else { vec!["fresh"] };
        for pre in variants {
            let mut fields = c.fields.clone();
            fields.push(format!("pre={pre}"));
            let mut tags = c.tags.clone();
            tags.push(("pre".to_string(), pre.to_string()));
            emit0(Case { fields, tags, nontrivial: c.nontrivial });
        }
    };
    let emit: &mut dyn FnMut(Case) = &mut emit;
    let thorough = tier == "thorough";
    // ---- bounded-exhaustive: every BuildPlanBuilder call sequence over {provides a, requires b, or} up to length 5 (quick) / 7
    let alphabet = [format!("p~{}", xs("a")), format!("r~{}~T0", xs("b")), "o".to_string()];
    let maxlen = if thorough { 7 } else { 5 };
    for len in 0..=maxlen {
        let mut idx = vec![0usize; len];
        loop {
            let ops: Vec<String> = idx.iter().map(|&i| alphabet[i].clone()).collect();
            emit(plan_case(&ops, "plan-exh"));
            let mut i = 0;
            while i < len { idx[i] += 1; if idx[i] < 3 { break; } idx[i] = 0; i += 1; }
            if i == len { break; }
        }
    }
    // ---- every payload string in every string position once
    for s in STRS {
        let x = xs(s);
        emit(case(vec!["launch".into(), format!("P~{}~{x},{x}~a:{x}/A:{x},{x}/w:{x}|L~{x}~{x}|S~{x}", xs("web"))], "launch-str", vec![("payload", hex(s.as_bytes()))], true));
        emit(case(vec!["plan".into(), format!("p~{x}|r~{x}~{}", to_wire(&Value::Table([(s.to_string(), Value::String(s.to_string()))].into_iter().collect())))], "plan-str", vec![], true));
        emit(case(vec!["execd".into(), format!("{}={x}", xs("KEY"))], "execd-str", vec![], true));
        emit(case(vec!["store".into(), to_wire(&Value::Table([(s.to_string(), Value::Array(vec![Value::String(s.to_string())]))].into_iter().collect()))], "store-str", vec![], true));
    }
    // ---- every URI spelling once as buildpack uri and as a dependency
    for u in URIS.iter().chain(URIS_RESPELLED.iter()) {
        let class = if URIS_RESPELLED.contains(u) { "respelled" } else { "verbatim" };
        emit(case(vec!["package".into(), xs(u), lst(&[u.to_string(), ".".to_string()]), "-".into()], "package-uri", vec![("uri_class", class.into())], true));
    }
    // ---- layer types: all 9 combinations x metadata none / empty / non-empty
    for ty in ["-", "000", "001", "010", "011", "100", "101", "110", "111"] {
        for md in ["-", "T0", "T1 K76 S31"] { emit(case(vec!["layer".into(), ty.into(), md.into()], "layer-exh", vec![("types", ty.into())], ty != "-" || md != "-")); }
    }
    // ---- seeded sampling
    let n = if thorough { 40_000 } else { 2_400 };
    for i in 0..n {
        let mut r = Rng::for_case(seed, i);
        match r.below(6) {
            0 => {
                let mut ops = vec![];
                let (mut np, mut nd, mut nw) = (0, 0, 0);
                for _ in 0..r.below(7) {
                    match r.below(4) {
                        0 | 1 => {
                            let mut pops = vec![];
                            for _ in 0..r.below(6) {
                                pops.push(match r.below(5) {
                                    0 => format!("a:{}", xs(&rstr(&mut r))),
                                    1 => format!("A:{}", lst(&rstrs(&mut r, 3))),
                                    2 => { nd += 1; format!("d:{}", r.below(2)) }
                                    3 => { nw += 1; "w:-".to_string() }
                                    _ => { nw += 1; format!("w:{}", xs(&rstr(&mut r))) }
                                });
                            }
                            np += 1;
                            ops.push(format!("P~{}~{}~{}", xs(*r.pick(PTYPES)), lst(&rstrs(&mut r, 3)), join("/", &pops)));
                        }
                        2 => ops.push(format!("L~{}~{}", xs(&rstr(&mut r)), xs(&rstr(&mut r)))),
                        _ => ops.push(format!("S~{}", lst(&rstrs(&mut r, 3)))),
                    }
                }
                emit(case(vec!["launch".into(), join("|", &ops)], "launch", vec![("ops", ops.len().to_string()), ("processes", np.to_string()), ("default_calls", nd.min(3).to_string()), ("wd_calls", nw.min(3).to_string())], np >= 1));
            }
            1 => {
                let mut ops = vec![];
                for _ in 0..r.below(9) {
                    ops.push(match r.below(5) {
                        0 | 1 => format!("p~{}", xs(&rstr(&mut r))),
                        2 => format!("r~{}~{}", xs(&rstr(&mut r)), to_wire(&Value::Table(rtable(&mut r, 0)))),
                        _ => "o".to_string(),
                    });
                }
                emit(plan_case(&ops, "plan"));
            }
            2 => {
                let ty = if r.chance(1, 4) { "-".to_string() } else { format!("{}{}{}", r.below(2), r.below(2), r.below(2)) };
                let (md, kinds) = if r.chance(1, 5) { ("-".to_string(), String::new()) } else { let t = Value::Table(rtable(&mut r, 0)); let mut k = Default::default(); kinds_in(&t, &mut k); (to_wire(&t), k.into_iter().collect::<Vec<_>>().join("+")) };
                emit(case(vec!["layer".into(), ty, md], "layer", vec![("value_kinds", kinds)], true));
            }
            3 => {
                let t = Value::Table(rtable(&mut r, 0));
                let mut k = Default::default(); kinds_in(&t, &mut k);
                emit(case(vec!["store".into(), to_wire(&t)], "store", vec![("value_kinds", k.into_iter().collect::<Vec<_>>().join("+"))], true));
            }
            4 => {
                let mut pairs = vec![];
                for _ in 0..r.below(6) { pairs.push(format!("{}={}", xs(*r.pick(KEYS)), xs(&rstr(&mut r)))); }
                let dup = { let mut ks: Vec<&str> = pairs.iter().map(|p| p.split('=').next().unwrap()).collect(); let n = ks.len(); ks.sort(); ks.dedup(); ks.len() < n };
                emit(case(vec!["execd".into(), join(",", &pairs)], "execd", vec![("pairs", pairs.len().to_string()), ("duplicate_key", u8::from(dup).to_string())], !pairs.is_empty()));
            }
            _ => {
                let respelled = r.chance(1, 8);
                let pick = |r: &mut Rng| if respelled && r.chance(1, 2) { r.pick(URIS_RESPELLED).to_string() } else { r.pick(URIS).to_string() };
                let deps: Vec<String> = (0..r.below(4)).map(|_| pick(&mut r)).collect();
                let bp = pick(&mut r);
                let os = *r.pick(&["-", "linux", "windows"]);
                emit(case(vec!["package".into(), xs(&bp), lst(&deps), os.into()], "package", vec![("deps", deps.len().to_string()), ("os", os.into()), ("uri_class", if respelled { "respelled" } else { "verbatim" }.into())], true));
            }
        }
    }
    // ---- Require::metadata called 0, 1, 2, 3 times (each call replaces the table), in every position of a short plan
    let t1 = to_wire(&Value::Table([("k".to_string(), Value::Integer(1))].into_iter().collect()));
    let t2 = to_wire(&Value::Table([("other".to_string(), Value::Array(vec![Value::String("v".into())]))].into_iter().collect()));
    let qs = [format!("q~{}", xs("n")), format!("q~{}~{t1}", xs("n")), format!("q~{}~{t1}~{t2}", xs("n")), format!("q~{}~{t1}~T0", xs("n")), format!("q~{}~T0~{t2}~{t1}", xs("n"))];
    for q in &qs {
        for ctx in [vec![q.clone()], vec![alphabet[0].clone(), q.clone()], vec![q.clone(), "o".to_string(), q.clone()], vec!["o".to_string(), q.clone(), alphabet[1].clone()]] { emit(plan_case(&ctx, "plan-require-calls")); }
    }
    for i in 0..(if thorough { 3_000 } else { 200 }) {
        let mut r = Rng::for_case(seed ^ 0x0071_3e7a, i);
        let mut ops = vec![];
        for _ in 0..r.below(6) {
            ops.push(match r.below(5) {
                0 => format!("p~{}", xs(&rstr(&mut r))),
                1 => "o".to_string(),
                _ => { let ts: Vec<String> = (0..r.below(4)).map(|_| to_wire(&Value::Table(rtable(&mut r, 0)))).collect(); if ts.is_empty() { format!("q~{}", xs(&rstr(&mut r))) } else { format!("q~{}~{}", xs(&rstr(&mut r)), ts.join("~")) } }
            });
        }
        emit(plan_case(&ops, "plan-require-calls"));
    }
    // ---- layers through the public layer APIs, read at the layer's spec path (family `layerfile`)
    let apis_types: Vec<(&str, String)> = {
        let mut v = vec![];
        for l in 0..2 { for b in 0..2 { v.push(("c", format!("{l}{b}1"))); v.push(("u", format!("{l}{b}0"))); for c in 0..2 { v.push(("t", format!("{l}{b}{c}"))); } } }
        v
    };
    let long_name = format!("{}.{}", "l".repeat(100), "m".repeat(100));
    let mut names: Vec<&str> = LAYER_NAMES.to_vec();
    names.push(&long_name);
    let md1 = to_wire(&Value::Table([("version".to_string(), Value::String("3.11.4".into())), ("n".to_string(), Value::Integer(1))].into_iter().collect()));
    let md2 = to_wire(&Value::Table([("other".to_string(), Value::Array(vec![Value::String("v".into()), Value::Boolean(true)]))].into_iter().collect()));
    let lop = |api: &str, name: &str, ty: &str, md: &str| format!("{api}~{}~{ty}~{md}", xs(name));
    // every name x every API / types combination x metadata none / a table, one layer in the directory
    for n in &names {
        for (api, ty) in &apis_types {
            for md in ["-", md1.as_str()] { emit(layerfile_case_of(&[lop(api, n, ty, md)], "layerfile-exh")); }
        }
    }
    // every ordered pair of names that share a stem / a prefix (and the same name twice: keep / recreate / update), every pair of APIs
    for a in LAYER_NAMES_CLOSE {
        for b in LAYER_NAMES_CLOSE {
            for (api1, ty1) in [("c", "101"), ("u", "010"), ("t", "111")] {
                for (api2, ty2) in [("c", "011"), ("u", "100"), ("t", "001")] {
                    emit(layerfile_case_of(&[lop(api1, a, ty1, &md1), lop(api2, b, ty2, if api2 == "c" { "-" } else { md2.as_str() })], "layerfile-pair"));
                }
            }
        }
    }
    for i in 0..(if thorough { 6_000 } else { 400 }) {
        let mut r = Rng::for_case(seed ^ 0x1a7e_f11e, i);
        // mostly from a few close names so that one directory holds layers whose names extend one another
        let close = r.chance(2, 3);
        let ops: Vec<String> = (0..r.range(1, 5)).map(|_| {
            let n = if close { *r.pick(LAYER_NAMES_CLOSE) } else { *r.pick(&names) };
            let (api, ty) = r.pick(&apis_types).clone();
            let md = if r.chance(2, 5) { "-".to_string() } else { to_wire(&Value::Table(rtable(&mut r, 0))) };
            lop(api, n, &ty, &md)
        }).collect();
        emit(layerfile_case_of(&ops, "layerfile"));
    }
    // ---- build() as an operation inside the call sequence (non-consuming builders: LaunchBuilder `B`, ProcessBuilder `b`).
    // BuildPlanBuilder::build(self) consumes the builder (and it is not Clone), so no call can follow its build(): nothing to enumerate there.
    let x = |s: &str| xs(s);
    let alphabet: Vec<String> = vec![
        format!("P~{}~{}~d:1", x("web"), x("run")),
        format!("P~{}~{}~a:{}/b/a:{}/w:{}", x("worker"), x("job"), x("1"), x("2"), x("dir")),
        format!("L~{}~{}", x("k"), x("v")),
        format!("S~{}", x("p/**")),
        "B".to_string(),
        format!("Q~{}~{}~-;{}~-~A:{},{}", x("w.1"), x("c"), x("release"), x("a"), x("b")),
    ];
    let exh = |alphabet: &[String], maxlen: usize, kind: &str, emit: &mut dyn FnMut(Case)| {
        for len in 0..=maxlen {
            let mut idx = vec![0usize; len];
            loop {
                let ops: Vec<String> = idx.iter().map(|&i| alphabet[i].clone()).collect();
                emit(seq_case(&ops, kind));
                let mut i = 0;
                while i < len { idx[i] += 1; if idx[i] < alphabet.len() { break; } idx[i] = 0; i += 1; }
                if i == len { break; }
            }
        }
    };
    exh(&alphabet, if thorough { 5 } else { 4 }, "launchseq-exh", emit);
    // the plural calls labels / slices / processes([]) around build()
    let plural: Vec<String> = vec![format!("M~{}~{};{}~{}", x("k1"), x("v1"), x("k2"), x("")), format!("Z~{};-;{},{}", x("a"), x("b"), x("c")), "B".to_string(), "Q~-".to_string()];
    exh(&plural, if thorough { 4 } else { 3 }, "launchseq-exh-plural", emit);
    let n2 = if thorough { 8_000 } else { 600 };
    for i in 0..n2 {
        let mut r = Rng::for_case(seed ^ 0x5e9_b01d, i);
        let pops = |r: &mut Rng, builds: bool| -> Vec<String> {
            (0..r.below(6)).map(|_| match r.below(if builds { 6 } else { 5 }) {
                0 => format!("a:{}", xs(&rstr(r))),
                1 => format!("A:{}", lst(&rstrs(r, 3))),
                2 => format!("d:{}", r.below(2)),
                3 => "w:-".to_string(),
                4 => format!("w:{}", xs(&rstr(r))),
                _ => "b".to_string(),
            }).collect()
        };
        let mut ops = vec![];
        for _ in 0..r.below(11) {
            ops.push(match r.below(100) {
                0..=29 => format!("P~{}~{}~{}", xs(*r.pick(PTYPES)), lst(&rstrs(&mut r, 3)), join("/", &pops(&mut r, true))),
                30..=41 => format!("L~{}~{}", xs(&rstr(&mut r)), xs(&rstr(&mut r))),
                42..=53 => format!("S~{}", lst(&rstrs(&mut r, 3))),
                54..=79 => "B".to_string(),
                80..=86 => { let ps: Vec<String> = (0..r.below(4)).map(|_| format!("{}~{}~{}", xs(*r.pick(PTYPES)), lst(&rstrs(&mut r, 2)), join("/", &pops(&mut r, false)))).collect(); format!("Q~{}", join(";", &ps)) }
                87..=92 => { let kv: Vec<String> = (0..r.below(4)).map(|_| format!("{}~{}", xs(&rstr(&mut r)), xs(&rstr(&mut r)))).collect(); format!("M~{}", join(";", &kv)) }
                _ => {
                    let mut ss: Vec<Vec<String>> = (0..r.below(4)).map(|_| rstrs(&mut r, 2)).collect();
                    // a single slice without paths would read as "no slices" in the token syntax: give it a path
                    if ss.len() == 1 && ss[0].is_empty() { ss[0].push(rstr(&mut r)); }
                    format!("Z~{}", join(";", &ss.iter().map(|s| lst(s)).collect::<Vec<_>>()))
                }
            });
        }
        emit(seq_case(&ops, "launchseq"));
    }
}

/// layer names (all valid `LayerName`s that are single path components): dot-free, dotted at every position, several dots, names that
/// extend one another at a dot, a `.toml` ending, space and punctuation, Unicode; a 201-byte dotted name is added by the generator
const LAYER_NAMES: &[&str] = &["plain", "python3", "python3.11", "python3.12", "a", "a.b", "a.b.c", "node.js", "trailing.", ".leading", "..two", "a..b", "a.b.c.d.e", "v1.2.3-rc.1",
    "x.toml", "x.tar.gz", "Abc 123.-_!", "ünï.cödé", "日本.語", "build.x", "no-dot_here"];
/// names whose text extends another one's at a dot: they share the directory in the pair / sampled cases
const LAYER_NAMES_CLOSE: &[&str] = &["python3", "python3.11", "python3.12", "a", "a.b", "a.b.c"];

/// a `layerfile` case (always non-trivial: at least one layer is constructed)
fn layerfile_case_of(ops: &[String], kind: &str) -> Case {
    let names: Vec<String> = ops.iter().map(|o| ux(o.split('~').nth(1).unwrap())).collect();
    let mut distinct = names.clone(); distinct.sort(); distinct.dedup();
    let dotted = names.iter().any(|n| n.contains('.'));
    // one name is another one's text up to a dot (python3 / python3.11), or two names agree up to their last dot (python3.11 / python3.12)
    let stem = |n: &str| n.rsplit_once('.').map(|(s, _)| s.to_string());
    let same_stem = distinct.iter().any(|a| distinct.iter().any(|b| a != b && (stem(b).as_deref() == Some(a.as_str()) || (stem(a).is_some() && stem(a) == stem(b)))));
    let mut apis: Vec<&str> = ops.iter().map(|o| &o[..1]).collect(); apis.sort(); apis.dedup();
    let mut kinds = std::collections::BTreeSet::new();
    for o in ops { let m = o.rsplit('~').next().unwrap(); if m != "-" { kinds_in(&Value::Table(table_of(m)), &mut kinds); } }
    case(vec!["layerfile".into(), join("|", ops)], kind,
        vec![("ops", ops.len().to_string()), ("names", distinct.len().to_string()), ("dotted_name", u8::from(dotted).to_string()), ("names_share_stem", u8::from(same_stem).to_string()),
             ("repeated_name", u8::from(distinct.len() < names.len()).to_string()), ("apis", apis.join("+")), ("value_kinds", kinds.into_iter().collect::<Vec<_>>().join("+"))], true)
}

/// a `launchseq` case; non-trivial = at least one configuring call and at least one build() besides the final ones (`B`, or `b` in a ProcessBuilder)
fn seq_case(ops: &[String], kind: &str) -> Case {
    let nb = ops.iter().filter(|o| *o == "B").count();
    let npb: usize = ops.iter().filter(|o| o.starts_with("P~")).map(|o| o.rsplit('~').next().unwrap().split('/').filter(|c| *c == "b").count()).sum();
    let adds = ops.iter().filter(|o| *o != "B").count();
    let plural = ops.iter().any(|o| o.starts_with("Q~") || o.starts_with("M~") || o.starts_with("Z~"));
    // an add after a build(): the later document must still hold what came before that build()
    let add_after_build = ops.iter().position(|o| o == "B").is_some_and(|i| ops[i..].iter().any(|o| o != "B"));
    let twice = ops.windows(2).any(|w| w[0] == "B" && w[1] == "B") || ops.last().is_some_and(|o| o == "B");
    case(vec!["launchseq".into(), join("|", ops)], kind,
        vec![("ops", ops.len().to_string()), ("builds", nb.min(5).to_string()), ("process_builder_builds", npb.min(3).to_string()), ("plural_calls", u8::from(plural).to_string()),
             ("build_first", u8::from(ops.first().is_some_and(|o| o == "B")).to_string()), ("add_after_build", u8::from(add_after_build).to_string()), ("build_twice_in_a_row", u8::from(twice).to_string())],
        adds >= 1 && nb + npb >= 1)
}

// ---------------------------------------------------------------- batch loop (one tomllib process per batch)
fn run_batch(cases: &[Case]) -> Vec<String> {
    let dir = tempfile::tempdir().expect("tempdir");
    std::panic::set_hook(Box::new(|_| {}));
    let mut pre: Vec<Result<Vec<String>, String>> = vec![];
    // family `layerfile`: what follows the documents (` ;; stray=…`)
    let mut suffix: Vec<String> = vec![String::new(); cases.len()];
    // document k of case i is written to <i>-<k>.toml
    let name = |i: usize, k: usize| format!("{i:08}-{k:03}.toml");
    for (i, c) in cases.iter().enumerate() {
        let f = c.fields.clone();
        let path_of = |k: usize| dir.path().join(name(i, k));
        if f[0] == "layerfile" {
            pre.push(match std::panic::catch_unwind(std::panic::AssertUnwindSafe(|| layerfile_case(&f[1], &path_of))) {
                Ok(Ok((rts, stray))) => { suffix[i] = format!(" ;; stray={stray}"); Ok(rts) }
                Ok(Err(e)) => Err(e),
                Err(_) => { let mut k = 0; while std::fs::remove_file(path_of(k)).is_ok() { k += 1; } Err("PANIC".to_string()) }
            });
            continue;
        }
        pre.push(match std::panic::catch_unwind(std::panic::AssertUnwindSafe(|| write_case(&f, &path_of))) {
            Ok(rt) => Ok(rt),
            Err(_) => { let mut k = 0; while std::fs::remove_file(path_of(k)).is_ok() { k += 1; } Err("PANIC".to_string()) }
        });
    }
    let tool = std::env::var("VERIF_TOML2TREE").unwrap_or_else(|_| "/verif/tools/toml2tree.py".into());
    let out = std::process::Command::new("python3").arg(tool).arg(dir.path()).output().expect("python3");
    assert!(out.status.success(), "toml2tree failed: {}", String::from_utf8_lossy(&out.stderr));
    let mut trees = std::collections::HashMap::new();
    for line in String::from_utf8(out.stdout).expect("utf8").lines() { if let Some((n, t)) = line.split_once('\t') { trees.insert(n.to_string(), t.to_string()); } }
    pre.into_iter().enumerate().map(|(i, p)| match p {
        Err(e) => e,
        Ok(rts) => rts.iter().enumerate().map(|(k, rt)| match trees.get(&name(i, k)) {
            Some(t) if t.starts_with("invalid-") => t.clone(), Some(t) => format!("{t};rt={rt}"), None => "no-file-written".to_string(),
        }).collect::<Vec<_>>().join(" || ") + &suffix[i],
    }).collect()
}

fn main() {
    let args: Vec<String> = std::env::args().collect();
    let mode = args.get(1).map(String::as_str).unwrap_or("gen");
    let mut cases: Vec<Case> = vec![];
    match mode {
        "execd-helper" => { execd_helper(&args[2]); return; }
        "gen" => {
            let tier = args.iter().position(|a| a == "--tier").and_then(|i| args.get(i + 1)).map(String::as_str).unwrap_or("quick").to_string();
            generate(&tier, seed(), &mut |c: Case| cases.push(c));
        }
        "run" => { for line in std::io::stdin().lock().lines() { let line = line.unwrap(); cases.push(Case { fields: line.split('\t').map(str::to_string).collect(), tags: vec![], nontrivial: false }); } }
        _ => { eprintln!("usage: c07 gen --tier quick|thorough | run < fields"); std::process::exit(2); }
    }
    let mut obs = vec![];
    for chunk in cases.chunks(4000) { obs.extend(run_batch(chunk)); }
    let stdout = std::io::stdout();
    let mut out = std::io::BufWriter::new(stdout.lock());
    for (c, o) in cases.iter().zip(obs.iter()) {
        let tags: Vec<String> = c.tags.iter().map(|(k, v)| format!("{k}={v}")).collect();
        writeln!(out, "CASE\tc07\t{}\t{}\t#nt={};{}", c.fields.join("\t"), o.replace(['\t', '\n'], " "), u8::from(c.nontrivial), tags.join(";")).unwrap();
    }
    out.flush().unwrap();
}
