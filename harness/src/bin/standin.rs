//! Stand-in for the `docker` and `pack` executables (C16/C17): installed under both names in a directory that is first
//! on PATH. Appends `<name> h<hex argv word>…` to `$STANDIN_LOG`, prints what libcnb-test needs from the real tool,
//! fails when told to, and removes a tool from PATH when told to ("not found" from then on).
use std::io::Write;
fn hex(b: &[u8]) -> String { b.iter().map(|x| format!("{x:02x}")).collect() }
#[path = "../lct/mod.rs"]
mod lct;

fn main() {
    use std::os::unix::ffi::OsStrExt;
    let args: Vec<std::ffi::OsString> = std::env::args_os().collect();
    let name = std::path::Path::new(&args[0]).file_name().unwrap().to_string_lossy().to_string();
    let log = std::env::var_os("STANDIN_LOG").expect("STANDIN_LOG");
    let words: Vec<&[u8]> = args[1..].iter().map(|a| a.as_bytes()).collect();
    let mut line = name.clone();
    for w in &words { line.push_str(" h"); line.push_str(&hex(w)); }
    line.push('\n');
    let before = std::fs::read_to_string(&log).unwrap_or_default();
    std::fs::OpenOptions::new().append(true).create(true).open(&log).unwrap().write_all(line.as_bytes()).unwrap();
    let index = before.lines().count() + 1;
    let mine_before = before.lines().filter(|l| l.split(' ').next() == Some(name.as_str())).count();
    let is_pack_build = name == "pack" && words.first() == Some(&&b"build"[..]);
    let mut code = 0;
    if is_pack_build {
        // snapshot of the app directory pack is pointed at
        if let Some(i) = words.iter().position(|w| *w == b"--path") {
            if let Some(p) = words.get(i + 1) {
                let snap = lct::file_snapshot(std::path::Path::new(std::ffi::OsStr::from_bytes(p)));
                let mut p = std::path::PathBuf::from(&log).into_os_string(); p.push(".snap");
                std::fs::OpenOptions::new().append(true).create(true).open(p).unwrap().write_all(format!("{snap}\n").as_bytes()).unwrap();
            }
        }
        let j = before.lines().filter(|l| l.starts_with("pack h6275696c64")).count();
        let results = std::env::var("STANDIN_PACK_BUILD_RESULTS").unwrap_or_default();
        if results.split(',').nth(j) == Some("1") { code = 1; }
    }
    if std::env::var("STANDIN_FAIL_AT").ok().and_then(|s| s.parse::<usize>().ok()) == Some(index) { code = 7; }
    if let Ok(g) = std::env::var("STANDIN_GONE") {
        if let Some((prog, n)) = g.split_once(':') {
            if prog == name && n.parse::<usize>().ok() == Some(mine_before + 2) {
                let _ = std::fs::remove_file(std::path::Path::new(&std::env::var_os("STANDIN_BIN").unwrap()).join(prog));
            }
        }
    }
    if name == "docker" {
        match words.first().map(|w| &w[..]) {
            Some(b"port") => println!("127.0.0.1:12345"),
            Some(b"run") if words.iter().any(|w| *w == b"--detach") => println!("0123456789abcdef"),
            Some(b"logs") => { println!("log line"); eprintln!("err line"); }
            _ => println!("ok"),
        }
    } else { println!("pack output"); }
    if code != 0 { eprintln!("stand-in: injected failure"); }
    std::process::exit(code);
}
