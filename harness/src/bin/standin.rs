//! Stand-in for the `docker` and `pack` executables (C16/C17): installed under both names in a directory that is first
//! on PATH. Appends `<name> h<hex argv word>…` to `$STANDIN_LOG`, prints what libcnb-test needs from the real tool,
//! fails when told to, and removes a tool from PATH when told to ("not found" from then on).
use std::io::Write;
fn hex(b: &[u8]) -> String { b.iter().map(|x| format!("{x:02x}")).collect() }
#[path = "../lct/mod.rs"]
mod lct;

/// (C17) the entry of the script file `$STANDIN_SCRIPT` for the `n`-th invocation of `prog`: (exit status, stdout, stderr)
fn scripted(prog: &str, n: usize) -> Option<(i32, Vec<u8>, Vec<u8>)> {
    let text = std::fs::read_to_string(std::env::var_os("STANDIN_SCRIPT")?).ok()?;
    for line in text.lines() {
        let p: Vec<&str> = line.split(' ').collect();
        if p.len() == 5 && p[0] == prog && p[1].parse::<usize>().ok() == Some(n) {
            return Some((p[2].parse::<u8>().ok()?.into(), lct::unhex(p[3].strip_prefix('h')?)?, lct::unhex(p[4].strip_prefix('h')?)?));
        }
    }
    None
}

fn main() {
    use std::os::unix::ffi::OsStrExt;
    let args: Vec<std::ffi::OsString> = std::env::args_os().collect();
    let name = std::path::Path::new(&args[0]).file_name().unwrap().to_string_lossy().to_string();
    let log = std::env::var_os("STANDIN_LOG").expect("STANDIN_LOG");
    let words: Vec<&[u8]> = args[1..].iter().map(|a| a.as_bytes()).collect();
    let mut line = name.clone();
    for w in &words { line.push_str(" h"); line.push_str(&hex(w)); }
    line.push('\n');
    let before = std::fs::read_to_string(&log).unwrap_or_default();
    std::fs::OpenOptions::new().append(true).create(true).open(&log).unwrap().write_all(line.as_bytes()).unwrap();
    let index = before.lines().count() + 1;
    let mine_before = before.lines().filter(|l| l.split(' ').next() == Some(name.as_str())).count();
    let is_pack_build = name == "pack" && words.first() == Some(&&b"build"[..]);
    // what the tool prints, and with which status an injected failure ends, are dimensions of the scenarios:
    // STANDIN_FAIL_STATUS = exit status of the injected failure (or `sig`: die by a signal), STANDIN_FLAVOUR = 0..3 selects the
    // texts (container id, `docker port` output, stdout/stderr of a failing command); flavour 3 prints the two-line
    // `docker port` output of a dual-stack host, which libcnb-test cannot parse.
    let flavour: usize = std::env::var("STANDIN_FLAVOUR").ok().and_then(|s| s.parse().ok()).unwrap_or(0);
    let mut code: Option<String> = None;
    if is_pack_build {
        // snapshot of the app directory pack is pointed at
        if let Some(i) = words.iter().position(|w| *w == b"--path") {
            if let Some(p) = words.get(i + 1) {
                let snap = lct::file_snapshot(std::path::Path::new(std::ffi::OsStr::from_bytes(p)));
                let mut p = std::path::PathBuf::from(&log).into_os_string(); p.push(".snap");
                std::fs::OpenOptions::new().append(true).create(true).open(p).unwrap().write_all(format!("{snap}\n").as_bytes()).unwrap();
            }
        }
        let j = before.lines().filter(|l| l.starts_with("pack h6275696c64")).count();
        let results = std::env::var("STANDIN_PACK_BUILD_RESULTS").unwrap_or_default();
        if results.split(',').nth(j) == Some("1") { code = Some(["1", "2", "255", "51"][flavour % 4].to_string()); }
    }
    if std::env::var("STANDIN_FAIL_AT").ok().and_then(|s| s.parse::<usize>().ok()) == Some(index) {
        code = Some(std::env::var("STANDIN_FAIL_STATUS").unwrap_or_else(|_| "7".into()));
    }
    // (C16) fault script, inactive unless STANDIN_FAULTS is set: rules `<kind>.<selector>[.<status>]` joined by `+` select the
    // invocations that fail, by sub-command and by position in the log / by the container they address (`lct::FaultRule`)
    if let Ok(script) = std::env::var("STANDIN_FAULTS") {
        if let Some(st) = lct::fault_status(&script, &name, &words, index, &before) { code = Some(st); }
    }
    if let Ok(g) = std::env::var("STANDIN_GONE") {
        if let Some((prog, n)) = g.split_once(':') {
            if prog == name && n.parse::<usize>().ok() == Some(mine_before + 2) {
                let _ = std::fs::remove_file(std::path::Path::new(&std::env::var_os("STANDIN_BIN").unwrap()).join(prog));
            }
        }
    }
    // (C17) per-invocation script, inactive unless STANDIN_SCRIPT names a file of lines `<prog> <n> <exit> <stdout-hex> <stderr-hex>`:
    // the n-th (0-based, counted in the log) invocation of <prog> prints exactly these bytes and exits with <exit> (0..255),
    // whatever the older switches say. A successful `docker port` keeps its flavour's stdout (libcnb-test parses it).
    // What a scripted invocation printed is appended to $STANDIN_OUTLOG as `<index> <exit> <stdout-hex> <stderr-hex>`.
    if let Some((status, so, se)) = scripted(&name, mine_before) {
        let so = if name == "docker" && status == 0 && words.first() == Some(&&b"port"[..]) { [&b"127.0.0.1:12345\n"[..], b"  0.0.0.0:49153 \n\n", b"[::1]:8080", b"0.0.0.0:49153\n[::]:49153\n"][flavour % 4].to_vec() } else { so };
        if let Some(p) = std::env::var_os("STANDIN_OUTLOG") {
            std::fs::OpenOptions::new().append(true).create(true).open(p).unwrap().write_all(format!("{index} {status} h{} h{}\n", hex(&so), hex(&se)).as_bytes()).unwrap();
        }
        std::io::stdout().write_all(&so).unwrap();
        std::io::stdout().flush().unwrap();
        std::io::stderr().write_all(&se).unwrap();
        std::process::exit(status);
    }
    // (C16) output script, inactive unless STANDIN_OUTPUTS is set: rules `<kind>.<selector>.<stream><pattern><shift>.<size>`
    // (`lct::OutRule`) select invocations that print exactly <size> generated bytes (ASCII / 2-, 3-, 4-byte characters / mixed /
    // not UTF-8, shifted by 0..3 bytes) on stdout and/or stderr in place of the flavour's texts; whether they fail is decided
    // above. A successful `docker port` keeps its flavour's stdout (libcnb-test parses it).
    if let Some(r) = std::env::var("STANDIN_OUTPUTS").ok().and_then(|s| lct::out_rule_for(&s, &name, &words, index, &before)) {
        let bytes = lct::gen_output(r.pat, r.shift, r.size);
        let port_ok = name == "docker" && code.is_none() && words.first() == Some(&&b"port"[..]);
        if port_ok { let _ = std::io::stdout().write_all([&b"127.0.0.1:12345\n"[..], b"  0.0.0.0:49153 \n\n", b"[::1]:8080", b"0.0.0.0:49153\n[::]:49153\n"][flavour % 4]); }
        else if r.stream != 'e' { let _ = std::io::stdout().write_all(&bytes); }
        let _ = std::io::stdout().flush();
        if r.stream != 'o' { let _ = std::io::stderr().write_all(&bytes); }
        match code {
            Some(c) if c == "sig" => std::process::abort(),
            Some(c) => std::process::exit(c.parse().unwrap_or(7)),
            None => std::process::exit(0),
        }
    }
    let out = std::io::stdout();
    let mut out = out.lock();
    if name == "docker" {
        match words.first().map(|w| &w[..]) {
            Some(b"port") => out.write_all([&b"127.0.0.1:12345\n"[..], b"  0.0.0.0:49153 \n\n", b"[::1]:8080", b"0.0.0.0:49153\n[::]:49153\n"][flavour % 4]).unwrap(),
            Some(b"run") if words.iter().any(|w| *w == b"--detach") =>
                out.write_all([&b"0123456789abcdef\n"[..], b"f2a1c0ffee00f2a1c0ffee00f2a1c0ffee00f2a1c0ffee00f2a1c0ffee00f2a1\n", b"", b"WARNING: platform mismatch\nabc\n"][flavour % 4]).unwrap(),
            Some(b"logs") => { out.write_all([&b"log line\n"[..], b"", b"\xff\xfe not utf-8\n", b"Error: No such container\n"][flavour % 4]).unwrap(); eprintln!("err line"); }
            _ => out.write_all([&b"ok\n"[..], b"", b"libcnbtest_abcdefghijkl\n", b"deleted\n"][flavour % 4]).unwrap(),
        }
    } else { out.write_all([&b"pack output\n"[..], b"", b"\xc3\x28\n", b"Successfully built image\n"][flavour % 4]).unwrap(); }
    out.flush().unwrap();
    if let Some(c) = code {
        let who = String::from_utf8_lossy(words.get(1).copied().unwrap_or(b"x")).to_string();
        let msgs = [
            "stand-in: injected failure".to_string(),
            format!("Error response from daemon: No such container: {who}"),
            "docker: Error response from daemon: driver failed programming external connectivity on endpoint x: Bind for 0.0.0.0:80 failed: port is already allocated.".to_string(),
            String::new(),
        ];
        eprint!("{}", msgs[flavour % 4]);
        if flavour % 4 == 2 { std::io::stderr().write_all(b"\xff\n").unwrap(); }
        if c == "sig" { std::process::abort(); }
        std::process::exit(c.parse().unwrap_or(7));
    }
}
