//! C06 correspondence: the context the real `buildpack_main!` executable (`tbp`) receives, dumped as canonical text,
//! against what the (generated) platform supplied: platform dir with arbitrary entries, CNB_TARGET_* variables,
//! buildpack plan, store, buildpack descriptor with metadata built from nested TOML values.
//!
//! fields: 0 phase | 1 hex(app)/hex(bp)/hex(layers) names | 2 os,arch,variant,dname,dver each `-` / `u<hex>` (valid UTF-8) /
//! `n<hex>` (not UTF-8) | 3 platform: noplat / noenv / notdir / `-` / `hexname:kind:hexcontent,…` (kind f d lf ld dl) |
//! 4 hex(plan TOML) 5 expected plan | 6 hex(store TOML) or none 7 expected store | 8 hex(buildpack.toml) 9 expected descriptor
use cnbv::*;
use std::ffi::OsString;
use std::os::unix::ffi::{OsStrExt, OsStringExt};
use std::path::PathBuf;
use std::process::{Command, Stdio};

fn tbp_path() -> PathBuf { std::env::current_exe().unwrap().parent().unwrap().join("tbp") }
fn os(b: &[u8]) -> OsString { OsString::from_vec(b.to_vec()) }

fn run_case(f: &[String]) -> String {
    if f.len() != 10 { return "bad-fields".into(); }
    let phase = f[0].as_str();
    let tmp = tempfile::Builder::new().prefix("c06-").tempdir().unwrap();
    let t = std::fs::canonicalize(tmp.path()).unwrap();
    let names: Vec<Vec<u8>> = f[1].split('/').map(|h| unhex(h).unwrap()).collect();
    let (app, bp, layers) = (t.join(os(&names[0])), t.join(os(&names[1])), t.join(os(&names[2])));
    let (plat, lt, out, work) = (t.join("plat"), t.join("lt"), t.join("out"), t.join("work"));
    for d in [&app, &bp, &layers, &lt, &out, &work] { std::fs::create_dir(d).unwrap(); }
    std::fs::create_dir(bp.join("bin")).unwrap();
    let exe = bp.join("bin").join(phase);
    std::os::unix::fs::symlink(tbp_path(), &exe).unwrap();
    std::fs::write(bp.join("buildpack.toml"), unhex(&f[8]).unwrap()).unwrap();
    // platform directory
    match f[3].as_str() {
        "noplat" => {}
        "noenv" => std::fs::create_dir(&plat).unwrap(),
        "notdir" => { std::fs::create_dir(&plat).unwrap(); std::fs::write(plat.join("env"), b"x").unwrap(); }
        spec => {
            std::fs::create_dir(&plat).unwrap();
            let env = plat.join("env");
            std::fs::create_dir(&env).unwrap();
            for (k, e) in split_list(spec, ",").iter().enumerate() {
                let p: Vec<&str> = e.split(':').collect();
                let path = env.join(os(&unhex(p[0]).unwrap()));
                let content = unhex(p[2]).unwrap();
                match p[1] {
                    "f" => std::fs::write(&path, &content).unwrap(),
                    "d" => { std::fs::create_dir(&path).unwrap(); std::fs::write(path.join("INSIDE"), b"not a variable").unwrap(); }
                    "lf" => { let tgt = lt.join(format!("f{k}")); std::fs::write(&tgt, &content).unwrap(); std::os::unix::fs::symlink(&tgt, &path).unwrap(); }
                    "ld" => { let tgt = lt.join(format!("d{k}")); std::fs::create_dir(&tgt).unwrap(); std::fs::write(tgt.join("INSIDE"), b"x").unwrap(); std::os::unix::fs::symlink(&tgt, &path).unwrap(); }
                    "dl" => std::os::unix::fs::symlink(lt.join(format!("missing{k}")), &path).unwrap(),
                    _ => return "bad-fields".into(),
                }
            }
        }
    }
    let bpplan = work.join("bpplan.toml");
    if phase == "build" {
        std::fs::write(&bpplan, unhex(&f[4]).unwrap()).unwrap();
        if f[6] != "none" { std::fs::write(layers.join("store.toml"), unhex(&f[6]).unwrap()).unwrap(); }
    }
    let mut cmd = Command::new(&exe);
    if phase == "build" { cmd.args([&layers, &plat, &bpplan]); } else { cmd.args([&plat, &work.join("plan.toml")]); }
    cmd.env_clear().current_dir(&app).stdin(Stdio::null()).stdout(Stdio::null()).stderr(Stdio::null());
    cmd.env("CNB_BUILDPACK_DIR", &bp).env("TBP_OUT", &out).env("TBP_DETECT", "pass").env("TBP_BUILD", "ok:");
    let vnames = ["CNB_TARGET_OS", "CNB_TARGET_ARCH", "CNB_TARGET_ARCH_VARIANT", "CNB_TARGET_DISTRO_NAME", "CNB_TARGET_DISTRO_VERSION"];
    for (k, v) in f[2].split(',').enumerate() { if v != "-" { cmd.env(vnames[k], os(&unhex(&v[1..]).unwrap())); } }
    let status = cmd.status().unwrap();
    let kinds: Vec<String> = std::fs::read_to_string(out.join("on_error.count")).unwrap_or_default().lines().map(str::to_string).collect();
    let dump = std::fs::read_to_string(out.join("context.dump")).ok();
    match (status.code(), kinds.len(), dump) {
        (Some(0), 0, Some(d)) => {
            // temp root -> $T in the three directory fields
            let root = t.as_os_str().as_bytes();
            let parts: Vec<String> = d.split(';').map(|kv| {
                for key in ["app=", "bp=", "layers="] {
                    if let Some(h) = kv.strip_prefix(key) { if let Some(b) = unhex(h) { if b.starts_with(root) { let mut nb = b"$T".to_vec(); nb.extend_from_slice(&b[root.len()..]); return format!("{key}{}", hex(&nb)); } } }
                }
                kv.to_string()
            }).collect();
            format!("ok;{}", parts.join(";"))
        }
        (Some(1), 1, None) => format!("err:{}", kinds[0]),
        (c, n, d) => format!("weird:exit={c:?},onerr={n},dump={}", d.is_some()),
    }
}

// ------------------------------------------------------------------------------------------------- TOML trees
#[derive(Clone, Debug)]
enum TV { S(String), I(i64), B(bool), F(usize), D(usize), A(Vec<TV>), T(Vec<(String, TV)>) }

/// (TOML text, Rust `f64::to_string`) — floats are compared as text
const FLOATS: &[(&str, &str)] = &[("1.5", "1.5"), ("-0.25", "-0.25"), ("3.0", "3"), ("6.02e23", "602000000000000000000000"), ("inf", "inf"), ("-inf", "-inf"), ("nan", "NaN"), ("0.1", "0.1"), ("1e-7", "0.0000001")];
/// datetimes in canonical RFC 3339 spelling (text = `Datetime::to_string`)
const DATES: &[&str] = &["1979-05-27T07:32:00Z", "1979-05-27T00:32:00-07:00", "1979-05-27T07:32:00", "1979-05-27", "07:32:00", "1979-05-27T00:32:00.999999-07:00"];
const STRS: &[&str] = &["", "a", "value", "two words", "line1\nline2\n", "tab\there", "quote\"back\\slash", "it's", "ünï¢ødé", "日本語", "\u{1F980}", "\u{0}\u{1}\u{7f}", "a=b:c,d;e|f", "'''", "\"\"\"", " lead and trail ", "# not a comment", "\r\n"];
const KEYS: &[&str] = &["k", "key", "version", "a-b", "a_b", "1", "with space", "dotted.key", "ü", "", "\"q\"", "Key", "KEY", "name", "metadata", "a\nb", "'"];

fn canon(v: &TV) -> String {
    match v {
        TV::S(s) => format!("s:{}", hex(s.as_bytes())),
        TV::I(i) => format!("i:{i}"),
        TV::B(b) => format!("b:{}", u8::from(*b)),
        TV::F(k) => format!("f:{}", hex(FLOATS[*k].1.as_bytes())),
        TV::D(k) => format!("d:{}", hex(DATES[*k].as_bytes())),
        TV::A(a) => format!("[{}]", a.iter().map(canon).collect::<Vec<_>>().join(",")),
        TV::T(t) => canon_table(t),
    }
}
fn canon_table(t: &[(String, TV)]) -> String {
    let mut kv: Vec<(Vec<u8>, String)> = t.iter().map(|(k, v)| (k.as_bytes().to_vec(), canon(v))).collect();
    kv.sort();
    format!("{{{}}}", kv.iter().map(|(k, v)| format!("{}={}", hex(k), v)).collect::<Vec<_>>().join(","))
}

fn basic_string(s: &str) -> String {
    let mut o = String::from("\"");
    for c in s.chars() {
        match c {
            '"' => o.push_str("\\\""), '\\' => o.push_str("\\\\"), '\n' => o.push_str("\\n"), '\t' => o.push_str("\\t"), '\r' => o.push_str("\\r"),
            c if (c as u32) < 0x20 || c as u32 == 0x7f => o.push_str(&format!("\\u{:04X}", c as u32)),
            c => o.push(c),
        }
    }
    o.push('"');
    o
}
/// one of the TOML spellings of a string (basic, literal, multi-line basic), chosen by `r`
fn emit_string(s: &str, r: &mut Rng) -> String {
    let plain = s.chars().all(|c| (c as u32) >= 0x20 && c as u32 != 0x7f);
    match r.below(4) {
        0 if plain && !s.contains('\'') => format!("'{s}'"),
        1 if s.chars().all(|c| c == '\n' || ((c as u32) >= 0x20 && c as u32 != 0x7f)) && !s.contains('\\') && !s.contains('"') && !s.contains('\r') => format!("\"\"\"\n{s}\"\"\""),
        _ => basic_string(s),
    }
}
fn emit_key(k: &str, r: &mut Rng) -> String {
    let bare = !k.is_empty() && k.bytes().all(|b| b.is_ascii_alphanumeric() || b == b'_' || b == b'-');
    if bare && r.chance(3, 4) { k.to_string() } else { basic_string(k) }
}
fn emit_inline(v: &TV, r: &mut Rng) -> String {
    match v {
        TV::S(s) => emit_string(s, r),
        TV::I(i) => if *i >= 0 && r.chance(1, 8) { format!("+{i}") } else if *i >= 0 && *i < 256 && r.chance(1, 8) { format!("0x{i:X}") } else { i.to_string() },
        TV::B(b) => b.to_string(),
        TV::F(k) => FLOATS[*k].0.to_string(),
        TV::D(k) => DATES[*k].to_string(),
        TV::A(a) => { let nl = r.chance(1, 4) && !a.is_empty(); let items: Vec<String> = a.iter().map(|x| emit_inline(x, r)).collect(); if nl { format!("[\n  {},\n]", items.join(",\n  ")) } else { format!("[{}]", items.join(", ")) } }
        TV::T(t) => format!("{{ {} }}", t.iter().map(|(k, x)| format!("{} = {}", emit_key(k, r), emit_inline(x, r))).collect::<Vec<_>>().join(", ")).replace("{  }", "{}"),
    }
}
/// body of a `[header]` table: one `key = value` line per entry (nested tables inline)
fn emit_body(t: &[(String, TV)], r: &mut Rng) -> String { t.iter().map(|(k, v)| format!("{} = {}\n", emit_key(k, r), emit_inline(v, r))).collect() }

fn gen_tv(r: &mut Rng, depth: u32) -> TV {
    let top = if depth >= 3 { 5 } else { 7 };
    match r.below(top) {
        0 => TV::S(r.pick(STRS).to_string()),
        1 => TV::I(*r.pick(&[0i64, 1, -1, 42, 255, i64::MAX, i64::MIN, 1234567890123])),
        2 => TV::B(r.chance(1, 2)),
        3 => TV::F(r.below(FLOATS.len() as u64) as usize),
        4 => TV::D(r.below(DATES.len() as u64) as usize),
        5 => { let n = r.below(4); TV::A((0..n).map(|_| gen_tv(r, depth + 1)).collect()) }
        _ => TV::T(gen_table(r, depth + 1)),
    }
}
fn gen_table(r: &mut Rng, depth: u32) -> Vec<(String, TV)> {
    let n = if r.chance(1, 6) { 0 } else { 1 + r.below(4) };
    let mut t: Vec<(String, TV)> = vec![];
    for _ in 0..n { let k = r.pick(KEYS).to_string(); if !t.iter().any(|(x, _)| *x == k) { t.push((k, gen_tv(r, depth))); } }
    t
}

/// `key = { … }` (inline) or a `[header]` section; returns (lines to put before any header, section text)
fn emit_table_at(key_path: &str, t: &[(String, TV)], r: &mut Rng) -> String {
    if r.chance(1, 3) { format!("{} = {}\n", key_path.rsplit('.').next().unwrap(), emit_inline(&TV::T(t.to_vec()), r)) } else { format!("[{key_path}]\n{}", emit_body(t, r)) }
}

fn opt_s(o: &Option<String>) -> String { match o { None => "none".into(), Some(s) => format!("s:{}", hex(s.as_bytes())) } }
fn opt_str(r: &mut Rng) -> Option<String> { if r.chance(1, 2) { Some(r.pick(STRS).to_string()) } else { None } }

/// buildpack plan: (TOML, expected)
fn gen_plan(r: &mut Rng) -> (String, String, usize) {
    let n = if r.chance(1, 5) { 0 } else { 1 + r.below(3) as usize };
    let mut text = String::new();
    let mut exp = vec![];
    if n == 0 && r.chance(1, 2) { text.push_str("entries = []\n"); }
    for _ in 0..n {
        let name = r.pick(STRS).to_string();
        let md = gen_table(r, 1);
        text.push_str(&format!("[[entries]]\nname = {}\n", emit_string(&name, r)));
        if md.is_empty() && r.chance(1, 2) { /* metadata omitted: defaults to the empty table */ }
        else if r.chance(1, 2) { text.push_str(&format!("metadata = {}\n", emit_inline(&TV::T(md.clone()), r))); }
        else { text.push_str(&format!("[entries.metadata]\n{}", emit_body(&md, r))); }
        exp.push(format!("{}~{}", hex(name.as_bytes()), canon_table(&md)));
    }
    (text, format!("[{}]", exp.join(",")), n)
}
fn gen_store(r: &mut Rng) -> (String, String) {
    let md = gen_table(r, 1);
    (emit_table_at("metadata", &md, r), canon_table(&md))
}
fn gen_desc(r: &mut Rng) -> (String, String, bool) {
    let id = *r.pick(&["tbp/c06", "a", "x.y/z-1", "heroku/ruby", "App", "config.d"]);
    let version = *r.pick(&["0.0.1", "1.2.3", "10.20.30", "0.0.0"]);
    let (name, homepage, description) = (opt_str(r), opt_str(r), opt_str(r));
    let clear_env: Option<bool> = *r.pick(&[None, Some(true), Some(false)]);
    let keywords: Vec<String> = (0..r.below(3)).map(|_| r.pick(STRS).to_string()).collect();
    let licenses: Vec<(Option<String>, Option<String>)> = (0..r.below(3)).map(|_| (opt_str(r), opt_str(r))).collect();
    let fm = [("application/vnd.cyclonedx+json", "cdx"), ("application/spdx+json", "spdx"), ("application/vnd.syft+json", "syft")];
    let sbom: Vec<usize> = (0..r.below(4)).map(|_| r.below(3) as usize).collect();
    let stacks: Vec<(String, Vec<String>)> = (0..r.below(3)).map(|_| (r.pick(&["*", "heroku-24", "io.buildpacks.stacks.jammy", "ü"]).to_string(), (0..r.below(3)).map(|_| r.pick(&["build:jq", "wget", "run:x y"]).to_string()).collect())).collect();
    let targets: Vec<(Option<String>, Option<String>, Option<String>, Vec<(String, String)>)> = (0..r.below(3)).map(|_| (opt_str(r), opt_str(r), opt_str(r), (0..r.below(3)).map(|_| (r.pick(&["ubuntu", "alpine", ""]).to_string(), r.pick(&["24.04", "3.19", "ü"]).to_string())).collect())).collect();
    let metadata: Option<Vec<(String, TV)>> = if r.chance(1, 5) { None } else { Some(gen_table(r, 1)) };
    let mut t = String::from("api = \"0.10\"\n");
    let md_inline_first = metadata.is_some() && r.chance(1, 4);
    if md_inline_first { t.push_str(&format!("metadata = {}\n", emit_inline(&TV::T(metadata.clone().unwrap()), r))); }
    t.push_str(&format!("\n[buildpack]\nid = \"{id}\"\nversion = \"{version}\"\n"));
    if let Some(s) = &name { t.push_str(&format!("name = {}\n", emit_string(s, r))); }
    if let Some(s) = &homepage { t.push_str(&format!("homepage = {}\n", emit_string(s, r))); }
    if let Some(b) = clear_env { t.push_str(&format!("clear-env = {b}\n")); }
    if let Some(s) = &description { t.push_str(&format!("description = {}\n", emit_string(s, r))); }
    if !keywords.is_empty() || r.chance(1, 3) { t.push_str(&format!("keywords = {}\n", emit_inline(&TV::A(keywords.iter().map(|k| TV::S(k.clone())).collect()), r))); }
    if !sbom.is_empty() || r.chance(1, 3) { t.push_str(&format!("sbom-formats = [{}]\n", sbom.iter().map(|k| format!("\"{}\"", fm[*k].0)).collect::<Vec<_>>().join(", "))); }
    for (ty, uri) in &licenses {
        t.push_str("[[buildpack.licenses]]\n");
        if let Some(s) = ty { t.push_str(&format!("type = {}\n", emit_string(s, r))); }
        if let Some(s) = uri { t.push_str(&format!("uri = {}\n", emit_string(s, r))); }
    }
    for (sid, mixins) in &stacks {
        t.push_str(&format!("[[stacks]]\nid = {}\n", emit_string(sid, r)));
        if !mixins.is_empty() || r.chance(1, 3) { t.push_str(&format!("mixins = [{}]\n", mixins.iter().map(|m| basic_string(m)).collect::<Vec<_>>().join(", "))); }
    }
    for (o, a, v, distros) in &targets {
        t.push_str("[[targets]]\n");
        if let Some(s) = o { t.push_str(&format!("os = {}\n", emit_string(s, r))); }
        if let Some(s) = a { t.push_str(&format!("arch = {}\n", emit_string(s, r))); }
        if let Some(s) = v { t.push_str(&format!("variant = {}\n", emit_string(s, r))); }
        for (n, ver) in distros { t.push_str(&format!("[[targets.distros]]\nname = {}\nversion = {}\n", emit_string(n, r), emit_string(ver, r))); }
    }
    if let (Some(md), false) = (&metadata, md_inline_first) { t.push_str(&format!("[metadata]\n{}", emit_body(md, r))); }
    let mut sf: Vec<&str> = sbom.iter().map(|k| fm[*k].1).collect();
    sf.sort(); sf.dedup();
    let exp = format!("api:0.10|id:{}|name:{}|version:{}|homepage:{}|clearenv:{}|description:{}|keywords:[{}]|licenses:[{}]|sbomformats:[{}]|stacks:[{}]|targets:[{}]|metadata:{}",
        hex(id.as_bytes()), opt_s(&name), hex(version.as_bytes()), opt_s(&homepage), u8::from(clear_env == Some(true)), opt_s(&description),
        keywords.iter().map(|k| hex(k.as_bytes())).collect::<Vec<_>>().join(","),
        licenses.iter().map(|(a, b)| format!("{}/{}", opt_s(a), opt_s(b))).collect::<Vec<_>>().join(","), sf.join(","),
        stacks.iter().map(|(s, m)| format!("{}/{}", hex(s.as_bytes()), m.iter().map(|x| hex(x.as_bytes())).collect::<Vec<_>>().join("+"))).collect::<Vec<_>>().join(","),
        targets.iter().map(|(o, a, v, d)| format!("{}/{}/{}/{}", opt_s(o), opt_s(a), opt_s(v), d.iter().map(|(n, x)| format!("{}@{}", hex(n.as_bytes()), hex(x.as_bytes()))).collect::<Vec<_>>().join("+"))).collect::<Vec<_>>().join(","),
        match &metadata { None => "none".to_string(), Some(m) => canon_table(m) });
    (t, exp, metadata.as_ref().is_some_and(|m| !m.is_empty()))
}

// ------------------------------------------------------------------------------------------------- platform / target
const NAMES: &[&[u8]] = &[b"FOO", b"A_B", b"PATH", b"a.b", b".hidden", b"my var", b"V\xc3\x84R", b"\xe5\xa4\x89\xe6\x95\xb0", b"A=B", b"x.append", b"lower", b"UPPER.default", b"a\nb", b"*", b"-dash", b"\xffraw", b"\xc3", b"trailing ", b"..."];
const GOOD: &[&[u8]] = &[b"", b"value", b"a\nb\n", b"trailing newline\n", b"\n", b"\xc3\xbc\xe2\x82\xac", b"\xed\x9f\xbf", b"\xf4\x8f\xbf\xbf", b"\xe0\xa0\x80", b"\xf0\x90\x80\x80", b"\x00", b"/bin:/usr/bin", b"with \"quotes\" and \\", b"\xef\xbb\xbfbom"];
const BAD: &[&[u8]] = &[b"\xff", b"ab\xc3", b"\xc0\x80", b"\xed\xa0\x80", b"\xf4\x90\x80\x80", b"\x80", b"ok\xfe\xffend", b"\xe2\x82", b"\xf5\x80\x80\x80", b"\xc1\xbf", b"\xe0\x9f\xbf", b"\xf0\x8f\xbf\xbf"];

fn is_utf8(b: &[u8]) -> bool { std::str::from_utf8(b).is_ok() }

fn gen_case(r: &mut Rng, kind: &str, force: Option<&str>) -> Case {
    let phase = if r.chance(1, 2) { "build" } else { "detect" };
    let dirs = format!("{}/{}/{}", hex(r.pick(&["a-app", "a-my app", "a-\u{fc}", "a-app.d"]).as_bytes()), hex(r.pick(&["b-bp", "b-build pack", "b-\u{65e5}"]).as_bytes()), hex(r.pick(&["l-layers", "l-lay ers"]).as_bytes()));
    // target variables
    let good_vals: [&[&[u8]]; 5] = [&[b"linux", b"windows", b"", b"\xc3\xbc"], &[b"amd64", b"arm64", b"a b"], &[b"v8", b"v7", b""], &[b"ubuntu", b"alpine", b"", b"dist\nro"], &[b"24.04", b"3.19", b""]];
    let mut vars: Vec<Option<Vec<u8>>> = (0..5).map(|k| Some(r.pick(good_vals[k]).to_vec())).collect();
    if r.chance(1, 2) { vars[2] = None; }
    let mandatory = [0usize, 1, 3, 4];
    let tclass = match force.unwrap_or(*r.pick(&["ok", "ok", "ok", "ok", "ok", "ok", "ok", "ok", "ok", "ok", "ok", "ok", "ok", "ok", "ok", "ok", "missing", "missing", "nonutf8", "d7", "mix"])) {
        "missing" => { vars[*r.pick(&mandatory)] = None; "missing" }
        "nonutf8" => { vars[*r.pick(&mandatory)] = Some(r.pick(&[&b"\xff\xfe"[..], b"lin\xc3", b"\xed\xa0\x80"]).to_vec()); "nonutf8" }
        "d7" => { vars[2] = Some(r.pick(&[&b"\xff"[..], b"v\xc3", b"\xc0\x80", b"v8\xfe"]).to_vec()); "d7" }
        "mix" => { for k in 0..5 { match r.below(6) { 0 => vars[k] = None, 1 => vars[k] = Some(b"\xffx".to_vec()), _ => {} } } "mix" }
        _ => "ok",
    };
    let vfield = vars.iter().map(|v| match v { None => "-".to_string(), Some(b) => format!("{}{}", if is_utf8(b) { 'u' } else { 'n' }, hex(b)) }).collect::<Vec<_>>().join(",");
    // platform dir
    let mut nbad = 0;
    let mut kinds_seen = std::collections::BTreeSet::new();
    let mut nvars = 0;
    let pfield = match r.below(20) {
        0 => "noplat".to_string(),
        1 => "noenv".to_string(),
        2 => "notdir".to_string(),
        _ => {
            let n = if r.chance(1, 10) { 0 } else { 1 + r.below(7) as usize };
            let mut names: Vec<Vec<u8>> = vec![];
            let mut es = vec![];
            let bad_rate = if r.chance(1, 8) { 3 } else { 0 }; // a minority of platform dirs hold a non-UTF-8 file
            for _ in 0..n {
                let mut nm = r.pick(NAMES).to_vec();
                if r.chance(1, 6) { nm.extend_from_slice(format!("_{}", r.below(100)).as_bytes()); }
                if names.contains(&nm) { continue; }
                names.push(nm.clone());
                let k = *r.pick(&["f", "f", "f", "f", "f", "d", "lf", "lf", "ld", "dl"]);
                let content: Vec<u8> = if k == "f" || k == "lf" {
                    nvars += 1;
                    if r.below(10) < bad_rate { nbad += 1; r.pick(BAD).to_vec() } else if r.chance(1, 30) { vec![b'x'; 20000] } else { r.pick(GOOD).to_vec() }
                } else { vec![] };
                kinds_seen.insert(k);
                es.push(format!("{}:{}:{}", hex(&nm), k, hex(&content)));
            }
            join(",", &es)
        }
    };
    let pclass = match pfield.as_str() { "noplat" | "noenv" | "notdir" => pfield.clone(), "-" => "empty".into(), _ => "entries".into() };
    let (ptext, pexp, nplan) = gen_plan(r);
    let has_store = r.chance(2, 3);
    let (stext, sexp) = gen_store(r);
    let (dtext, dexp, has_md) = gen_desc(r);
    let build = phase == "build";
    let fields = vec![phase.to_string(), dirs, vfield, pfield,
        if build { hex(ptext.as_bytes()) } else { "-".into() }, if build { pexp } else { "-".into() },
        if !build { "-".into() } else if has_store { hex(stext.as_bytes()) } else { "none".into() }, if !build { "-".into() } else if has_store { sexp } else { "none".into() },
        hex(dtext.as_bytes()), dexp];
    let unrep = nbad > 0 || matches!(tclass, "nonutf8" | "d7" | "mix");
    Case { fields, tags: vec![("kind".into(), kind.into()), ("phase".into(), phase.into()), ("target".into(), tclass.into()), ("plat".into(), pclass), ("entrykinds".into(), kinds_seen.iter().cloned().collect::<Vec<_>>().join("+")),
        ("nvars".into(), nvars.min(5).to_string()), ("badfiles".into(), nbad.min(2).to_string()), ("plan".into(), if build { nplan.to_string() } else { "-".into() }), ("store".into(), if build { u8::from(has_store).to_string() } else { "-".into() }), ("descmd".into(), u8::from(has_md).to_string())],
        nontrivial: !kinds_seen.is_empty() || unrep }
}

fn generate(tier: &str, seed: u64, emit: &mut dyn FnMut(Case)) {
    let n = if tier == "thorough" { 40_000 } else { 2_000 };
    // a fixed head: every target class once per phase draw, so the tagged minorities are present whatever the seed
    for (k, cls) in ["ok", "missing", "nonutf8", "d7", "mix", "ok", "missing", "nonutf8", "d7"].iter().enumerate() {
        let mut r = Rng::for_case(seed ^ 0xC06, k as u64);
        emit(gen_case(&mut r, "head", Some(cls)));
    }
    for idx in 0..n { let mut r = Rng::for_case(seed, idx); emit(gen_case(&mut r, "gen", None)); }
}

fn main() { main_loop_jobs("c06", 14, &generate, &run_case); }
